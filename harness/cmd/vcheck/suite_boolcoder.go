package main

// Suite "boolcoder" — the VP8 boolean (arithmetic) coder, properties C06 (the decoder reads back what the
// encoder's syntax writer emitted), C02 (the token partitions are decodable by an independent reader) and
// C04 (the reference decoder of the specification model and the real reader agree).
//
// Tie between the Lean model Webp.Impl.BoolCoder and the real code /repo/internal/bitio (all lines verbatim):
//   boolenc  <wops>         real bitio.BoolWriter: PutBit / PutBitUniform / PutBits / PutSignedBits, registers
//                           before Finish (hook VerifState), Bytes(), Pos(), then Finish()
//                           (sequences of PutBit only are also pushed through PutBitBatchPacked and must give
//                            the same line)
//   booldec  <hex> <rops>   real bitio.BoolReader: GetBit / GetBitAlt / GetSigned / GetValue / GetSignedValue,
//                           registers (Value, Range, Bits, pos, eof) at the end
//   boolspec <hex> <probs>  Webp.Spec.VP8.BoolDec (the RFC-style reference decoder of C04) on real writer output:
//                           must return the encoded symbols (property finding otherwise) and no `over`
//   rmfrb    <frame>        C06 at the level of bytes (Webp.Impl.VP8SyntaxBytes): small frames of skipped / I16 / I4
//                           macroblocks (the generator of suite reconmodel's op rmfr) through the real token pass
//                           rerecordAllTokens + TokenBuffer.EmitTokens + BoolWriter.Finish (hook ReconTokenFrameBytes) and the
//                           real BoolReader + decodeMB (hook ReconTokenFrame) vs the model's emitPartitionBytes (token
//                           partition BYTES, verbatim) and its decision-tree parser T.parseTokens run on the BoolReader model
//                           (coefficients, NonZeroY/UV per macroblock, eof flag)
//   hdremit  <header state> C06 first-partition header (Webp.Impl.VP8HeaderBytes): random header states (segment header with
//                           absolute/delta values over the whole int8 range, segment-map probabilities, filter header with
//                           deltas, 1/2/4/8 (and 3) partitions, quantiser fields, ARBITRARY coefficient probability tables -
//                           default, sparse updates, fully random -, skip probability) through the real emitPartition0 over
//                           zero macroblocks (hook EmitHeader) vs headerOps + the BoolWriter model: BYTES verbatim
//   hdrparse <part0 hex>    the real parseHeaders (hook ParseHeaders: segment / filter header, partition count, ParseQuant's
//                           matrices for the four segments, parseProba's table, skip probability, eof) vs the decision tree
//                           T.parseHeader on the BoolReader model, on (i) the synthetic headers above, (ii) real webp.Encode
//                           output over an option grid (Segments 1..4 x SNS x filter strength/sharpness/type x quality x
//                           method 0..6 x partitions 0..3), (iii) frames of the independent plan writer gen_vp8.go
//                           (absolute/delta segment values, filter deltas, arbitrary probability updates);
//                           on (i) also as a property of the real code: parseHeaders returns the state emitPartition0 wrote
//   bmodeprob <top> <left> <i>   the byte the model resolves the sub-block mode slot to vs lossy.KBModesProba[top][left][i], all 900 slots
//   modeemit <frame modes>  the MODE side of partition 0 at byte level: random mode frames (up to 4x3 macroblocks, I16 / I4 with all 10
//                           sub-block modes in every (top, left) context - the coverage of the 1000 (top, left, mode) triples is
//                           reported -, chroma modes, segment ids with map update, skip flags) through the real emitPartition0 /
//                           writeMBModes (hook EmitModes) vs headerOps + emitMBs(...).part0 + the BoolWriter model: BYTES verbatim
//   modeparse <w> <h> <part0 hex>  the real parseHeaders + parseIntraModeRow (hook ParseModes: IsI4x4, the 16 IModes incl. the stale
//                           entries of I16 macroblocks, UVMode, Segment, Skip per macroblock, eof) vs T.parseHeader + T.parseModes on
//                           the BoolReader model with the probability function of the parsed header, on (i) the frames above,
//                           (ii) real webp.Encode output over the option grid, (iii) plan-writer frames (gen_vp8.go);
//                           on (i) also as a property of the real code: parseIntraModeRow returns the modes writeMBModes wrote
//   boolbatch <b:bit:prob,…>  the statement-level model of PutBitBatchPacked (Webp.Impl.BoolCoderFast) vs the real one, same sequences
//   fastrun <hex> <g:p|s,…>   the inlined reader of decode_mb.go: real fastBit / fastSigned under the brLoad / brSync protocol
//                           (hook FastRun) vs the model fastBitStep / fastSignedStep / brSync, on the reader data of the dec:* cases
//                           (random, 0xff-prefixed, all-0x00, short: incl. runs past the end of the data)
// Round trip on the real code alone (property findings, C06): every written sequence is read back with the
// matching reader calls (GetBit or GetBitAlt for PutBit, GetBit(128)/GetSigned for PutBitUniform, GetValue for
// PutBits, GetBit(128)+GetSignedValue for PutSignedBits) and must return the symbols, with eof still false.
//
// Generation: probabilities 0..256 on the writer (0, 1, 128, 255 over-represented, 256 = the panic corner),
// 0..255 on the reader; bits drawn to follow / oppose the probability (runs of the improbable symbol force
// carries and 0xff runs: both are detected on the real writer and counted); bit arguments other than 0/1;
// lengths 0..5000; PutBits with n in -1..34; reading up to 40 symbols past what was written; readers on random,
// all-0xff, all-0x00 and truncated data of 0..40 bytes.

import (
	"bytes"
	"encoding/binary"
	"fmt"
	"strconv"
	"strings"

	webp "github.com/deepteams/webp"

	"github.com/deepteams/webp/verifapi"
)

func init() {
	suites["boolcoder"] = suiteBoolCoder
	replayers["boolline"] = replayBoolLine
}

func bcOut(b []byte) string {
	if len(b) > 4096 {
		return "d:" + digest(b)
	}
	return "x:" + hexRaw(b)
}

func hexRaw(b []byte) string {
	const d = "0123456789abcdef"
	o := make([]byte, 2*len(b))
	for i, c := range b {
		o[2*i] = d[c>>4]
		o[2*i+1] = d[c&15]
	}
	return string(o)
}

// ---------- writer ops ----------

type bcWOp struct {
	k    byte // 'b','u','v','s'
	bit  int
	prob int
	val  int64
	n    int
}

func (o bcWOp) String() string {
	switch o.k {
	case 'b':
		return fmt.Sprintf("b:%d:%d", o.bit, o.prob)
	case 'u':
		return fmt.Sprintf("u:%d", o.bit)
	case 'v':
		return fmt.Sprintf("v:%d:%d", o.val, o.n)
	}
	return fmt.Sprintf("s:%d:%d", o.val, o.n)
}

func bcParseWOps(s string) ([]bcWOp, bool) {
	if s == "-" {
		return nil, true
	}
	var ops []bcWOp
	for _, t := range strings.Split(s, ",") {
		f := strings.Split(t, ":")
		iv := func(k int) int64 { v, _ := strconv.ParseInt(f[k], 10, 64); return v }
		switch {
		case f[0] == "b" && len(f) == 3:
			ops = append(ops, bcWOp{k: 'b', bit: int(iv(1)), prob: int(iv(2))})
		case f[0] == "u" && len(f) == 2:
			ops = append(ops, bcWOp{k: 'u', bit: int(iv(1))})
		case f[0] == "v" && len(f) == 3:
			ops = append(ops, bcWOp{k: 'v', val: iv(1), n: int(iv(2))})
		case f[0] == "s" && len(f) == 3:
			ops = append(ops, bcWOp{k: 's', val: iv(1), n: int(iv(2))})
		default:
			return nil, false
		}
	}
	return ops, true
}

func bcJoinW(ops []bcWOp) string {
	if len(ops) == 0 {
		return "-"
	}
	ss := make([]string, len(ops))
	for i, o := range ops {
		ss[i] = o.String()
	}
	return strings.Join(ss, ",")
}

type bcEncStat struct {
	carry  bool // a byte already in Bytes() was incremented
	ffrun  bool // run > 0 was observed
	maxRun int
}

// bcRunWriter executes the ops on the real writer; watch: detect carries / 0xff runs (costs a Bytes() look per op).
func bcRunWriter(ops []bcWOp, watch bool) (line string, out []byte, st bcEncStat) {
	line, _ = guard(func() string {
		bw := verifapi.NewBoolWriter(0)
		var lastLen int
		var lastByte byte
		for _, o := range ops {
			switch o.k {
			case 'b':
				bw.PutBit(o.bit, o.prob)
			case 'u':
				bw.PutBitUniform(o.bit)
			case 'v':
				bw.PutBits(uint32(o.val), o.n)
			case 's':
				bw.PutSignedBits(int(o.val), o.n)
			}
			if watch {
				b := bw.Bytes()
				if lastLen > 0 && len(b) >= lastLen && b[lastLen-1] != lastByte {
					st.carry = true
				}
				lastLen = len(b)
				if lastLen > 0 {
					lastByte = b[lastLen-1]
				}
				_, _, run, _, _ := bw.VerifState()
				if run > 0 {
					st.ffrun = true
					if run > st.maxRun {
						st.maxRun = run
					}
				}
			}
		}
		r, v, run, nb, _ := bw.VerifState()
		before := append([]byte(nil), bw.Bytes()...)
		pos := bw.Pos()
		out = append([]byte(nil), bw.Finish()...)
		return fmt.Sprintf("ok %s st=%d,%d,%d,%d,%d,%s", bcOut(out), r, v, run, nb, int64(pos), bcOut(before))
	})
	return
}

// bcRunBatch: the same PutBit-only sequence through PutBitBatchPacked.
func bcRunBatch(ops []bcWOp) (string, bool) {
	data := make([]byte, 0, 2*len(ops))
	for _, o := range ops {
		if o.k != 'b' || o.bit < 0 || o.bit > 255 || o.prob < 0 || o.prob > 255 {
			return "", false
		}
		data = append(data, byte(o.bit), byte(o.prob))
	}
	if len(ops) == 0 {
		return "", false
	}
	line, _ := guard(func() string {
		bw := verifapi.NewBoolWriter(0)
		// two calls: the register write-back between batches is part of what is tied
		h := len(ops) / 2
		bw.PutBitBatchPacked(data, h)
		bw.PutBitBatchPacked(data[2*h:], len(ops)-h)
		r, v, run, nb, _ := bw.VerifState()
		before := append([]byte(nil), bw.Bytes()...)
		pos := bw.Pos()
		out := append([]byte(nil), bw.Finish()...)
		return fmt.Sprintf("ok %s st=%d,%d,%d,%d,%d,%s", bcOut(out), r, v, run, nb, int64(pos), bcOut(before))
	})
	return line, true
}

// ---------- reader ops ----------

type bcROp struct {
	k    byte // 'g','a','s','v','w'
	prob int
	v    int64
	n    int
}

func (o bcROp) String() string {
	switch o.k {
	case 'g':
		return fmt.Sprintf("g:%d", o.prob)
	case 'a':
		return fmt.Sprintf("a:%d", o.prob)
	case 's':
		return fmt.Sprintf("s:%d", o.v)
	case 'v':
		return fmt.Sprintf("v:%d", o.n)
	}
	return fmt.Sprintf("w:%d", o.n)
}

func bcParseROps(s string) ([]bcROp, bool) {
	if s == "-" {
		return nil, true
	}
	var ops []bcROp
	for _, t := range strings.Split(s, ",") {
		f := strings.Split(t, ":")
		if len(f) != 2 {
			return nil, false
		}
		v, _ := strconv.ParseInt(f[1], 10, 64)
		switch f[0] {
		case "g":
			ops = append(ops, bcROp{k: 'g', prob: int(v)})
		case "a":
			ops = append(ops, bcROp{k: 'a', prob: int(v)})
		case "s":
			ops = append(ops, bcROp{k: 's', v: v})
		case "v":
			ops = append(ops, bcROp{k: 'v', n: int(v)})
		case "w":
			ops = append(ops, bcROp{k: 'w', n: int(v)})
		default:
			return nil, false
		}
	}
	return ops, true
}

func bcJoinR(ops []bcROp) string {
	if len(ops) == 0 {
		return "-"
	}
	ss := make([]string, len(ops))
	for i, o := range ops {
		ss[i] = o.String()
	}
	return strings.Join(ss, ",")
}

// bcRunReader executes the ops on the real reader; results[i] is the decimal answer of op i; eofAt = index of
// the first op after which EOF() was true (-1: never).
func bcRunReader(data []byte, ops []bcROp) (line string, results []string, eofAt int) {
	eofAt = -1
	line, _ = guard(func() string {
		br := verifapi.NewBoolReader(data)
		results = make([]string, 0, len(ops))
		for i, o := range ops {
			var s string
			switch o.k {
			case 'g':
				s = strconv.Itoa(br.GetBit(uint8(o.prob)))
			case 'a':
				s = strconv.Itoa(br.GetBitAlt(uint8(o.prob)))
			case 's':
				s = strconv.FormatInt(int64(br.GetSigned(int(o.v))), 10)
			case 'v':
				s = strconv.FormatUint(uint64(br.GetValue(o.n)), 10)
			case 'w':
				s = strconv.FormatInt(int64(br.GetSignedValue(o.n)), 10)
			}
			results = append(results, s)
			if eofAt < 0 && br.EOF() {
				eofAt = i
			}
		}
		body := "-"
		if len(results) > 0 {
			body = strings.Join(results, ",")
		}
		pos, eof := br.VerifPos()
		return fmt.Sprintf("ok %s st=%d,%d,%d,%d,%s", body, br.Value, br.Range, br.Bits, pos, b2s(eof))
	})
	return
}

// ---------- generation ----------

var bcCornerProbs = []int{0, 1, 1, 2, 127, 128, 128, 129, 254, 255, 255}

func bcProb(r *RNG, style int) int {
	switch style {
	case 0: // uniform 1..255
		return 1 + r.Intn(255)
	case 1: // extremes
		if r.Bool() {
			return 1 + r.Intn(4)
		}
		return 252 + r.Intn(4)
	case 2: // corners incl. 0
		return bcCornerProbs[r.Intn(len(bcCornerProbs))]
	}
	return r.Intn(256)
}

// bcBit: mode 0 = follows the probability (P(0) = prob/256), 1 = the improbable symbol 15 times out of 16,
// 2 = fair coin, 3 = always 1, 4 = always 0
func bcBit(r *RNG, prob, mode int) int {
	switch mode {
	case 0:
		if r.Intn(256) < prob {
			return 0
		}
		return 1
	case 1:
		imp := 0
		if prob >= 128 {
			imp = 1
		}
		if r.Intn(16) == 0 {
			return 1 - imp
		}
		return imp
	case 2:
		return r.Intn(2)
	case 3:
		return 1
	}
	return 0
}

func bcLen(r *RNG, tier string) int {
	switch r.Intn(10) {
	case 0:
		return r.Intn(4) // 0..3
	case 1, 2, 3:
		return r.Intn(40)
	case 4, 5, 6:
		return r.Intn(400)
	case 7, 8:
		return r.Intn(2000)
	}
	return 2000 + r.Intn(3001) // ..5000
}

var bcOddBits = []int{2, -1, 255, 256, 1 << 40, -1 << 40}

// bcGenW: one writer sequence and the reader sequence that reads it back (nil when the sequence contains
// something with no reading counterpart: prob 256, PutBits outside 1..32, ...). expect[i] = the decimal answer
// rops[i] must give.
func bcGenW(r *RNG, tier string) (kind string, wops []bcWOp, rops []bcROp, expect []string) {
	n := bcLen(r, tier)
	readable := true
	kindSel := r.Intn(8)
	pstyle, bmode := 0, 0
	switch kindSel {
	case 0, 1:
		kind, pstyle, bmode = "random", 0, 0
	case 2:
		kind, pstyle, bmode = "improbable", 1, 1
	case 3:
		kind, pstyle, bmode = "corner", 2, r.Intn(5)
	case 4:
		kind, pstyle, bmode = "allones", r.Intn(3), 3
	case 5:
		kind, pstyle, bmode = "faircoin", 3, 2
	default:
		kind, pstyle, bmode = "mixed", r.Intn(4), r.Intn(3)
	}
	first := true
	for i := 0; i < n; i++ {
		opk := 'b'
		if kind == "mixed" {
			opk = rune("bbbuuvs"[r.Intn(7)])
		}
		switch opk {
		case 'b':
			p := bcProb(r, pstyle)
			bit := bcBit(r, p, bmode)
			if kind == "corner" && r.Intn(200) == 0 {
				p = 256
			}
			arg := bit
			if bit != 0 && r.Intn(50) == 0 {
				arg = bcOddBits[r.Intn(len(bcOddBits))]
			}
			wops = append(wops, bcWOp{k: 'b', bit: arg, prob: p})
			if p == 256 {
				readable = false
			}
			k := byte('g')
			if r.Intn(4) == 0 {
				k = 'a'
			}
			rops = append(rops, bcROp{k: k, prob: p})
			expect = append(expect, strconv.Itoa(bit))
		case 'u':
			bit := r.Intn(2)
			wops = append(wops, bcWOp{k: 'u', bit: bit * (1 + r.Intn(3))})
			if !first && r.Bool() {
				v := int64(r.Intn(3000)) - 1000
				rops = append(rops, bcROp{k: 's', v: v})
				if bit != 0 {
					v = -v
				}
				expect = append(expect, strconv.FormatInt(v, 10))
			} else {
				rops = append(rops, bcROp{k: 'g', prob: 128})
				expect = append(expect, strconv.Itoa(bit))
			}
		case 'v':
			nb := r.Intn(36) - 1 // -1..34
			if r.Intn(3) > 0 {
				nb = 1 + r.Intn(16)
			}
			val := int64(uint32(r.Next()))
			if r.Bool() && nb >= 1 && nb <= 32 {
				val &= int64(uint64(1)<<uint(nb) - 1)
			}
			wops = append(wops, bcWOp{k: 'v', val: val, n: nb})
			if nb >= 1 && nb <= 32 {
				first = false
				rops = append(rops, bcROp{k: 'v', n: nb})
				expect = append(expect, strconv.FormatInt(val&int64(uint64(1)<<uint(nb)-1), 10))
			} else if nb > 32 {
				readable = false // nothing is written; a reader of nb bits has nothing to read
			}
		case 's':
			nb := 1 + r.Intn(12)
			if r.Intn(8) == 0 {
				nb = r.Intn(34) - 2
			}
			var val int64
			switch r.Intn(4) {
			case 0:
				val = 0
			case 1:
				val = int64(r.Next()) >> uint(r.Intn(64))
			default:
				if nb >= 1 {
					val = int64(r.Intn(1 << uint(min(nb, 20))))
					if r.Bool() {
						val = -val
					}
				}
			}
			wops = append(wops, bcWOp{k: 's', val: val, n: nb})
			// flag, then GetSignedValue(nb)
			rops = append(rops, bcROp{k: 'g', prob: 128})
			if val == 0 {
				expect = append(expect, "0")
			} else {
				expect = append(expect, "1")
				if nb >= 0 && nb <= 31 {
					mag := val
					if mag < 0 {
						mag = -mag
					}
					if mag>>uint(nb) != 0 {
						// the magnitude does not fit: the low nb bits are written
						mag &= int64(1)<<uint(nb) - 1
					}
					res := mag
					if val < 0 {
						res = -mag
					}
					rops = append(rops, bcROp{k: 'w', n: nb})
					expect = append(expect, strconv.FormatInt(res, 10))
				} else {
					readable = false
				}
			}
		}
		if opk != 'v' {
			first = false
		}
	}
	if !readable {
		rops, expect = nil, nil
	}
	return
}

// bcGenData: bytes for a reader that are not the output of the writer
func bcGenData(r *RNG) (kind string, data []byte) {
	n := r.Intn(41)
	switch r.Intn(6) {
	case 0:
		kind, data = "random", r.Bytes(n)
	case 1:
		kind, data = "ff-prefix", r.Bytes(n)
		for i := 0; i < len(data) && i <= r.Intn(4); i++ {
			data[i] = 0xff
		}
	case 2:
		kind = "all-ff"
		data = make([]byte, n)
		for i := range data {
			data[i] = 0xff
		}
	case 3:
		kind, data = "all-00", make([]byte, n)
	case 4:
		kind, data = "short", r.Bytes(r.Intn(10))
	default:
		kind, data = "lowbytes", r.Bytes(n)
		for i := range data {
			data[i] &= 0x3f
		}
	}
	return
}

func bcGenROps(r *RNG, n int) []bcROp {
	ops := make([]bcROp, 0, n)
	style := r.Intn(4)
	for i := 0; i < n; i++ {
		switch "gggggasvw"[r.Intn(9)] {
		case 'g':
			ops = append(ops, bcROp{k: 'g', prob: bcProb(r, style)})
		case 'a':
			ops = append(ops, bcROp{k: 'a', prob: bcProb(r, style)})
		case 's':
			ops = append(ops, bcROp{k: 's', v: int64(r.Intn(5000)) - 2500})
		case 'v':
			ops = append(ops, bcROp{k: 'v', n: r.Intn(37) - 2})
		case 'w':
			ops = append(ops, bcROp{k: 'w', n: r.Intn(35) - 1})
		}
	}
	return ops
}

// ---------- the suite ----------

type bcLine struct {
	site  string // signature prefix
	kind  string
	line  string
	goL   string
	nontr bool
}

func suiteBoolCoder(rep *Report) error {
	rep.Rule = "C06 bytes: token partitions of small frames (real token pass + BoolWriter + BoolReader + decodeMB vs emitPartitionBytes / T.parseTokens on the BoolReader model, bytes verbatim); writer sequences (PutBit/PutBitUniform/PutBits/PutSignedBits; prob 0..256 with 0,1,128,255 over-represented; bits following or opposing the probability; lengths 0..5000) on the real bitio.BoolWriter vs the Lean model (registers before Finish, Bytes, Pos, Finish bytes; PutBit-only sequences also through PutBitBatchPacked); reader sequences (GetBit/GetBitAlt/GetSigned/GetValue/GetSignedValue) on the real bitio.BoolReader vs the Lean model over writer outputs (read back, then up to 40 symbols past the end), truncated writer outputs and random/0xff/0x00 data; the specification decoder BoolDec on writer outputs. Non-trivial: at least 8 symbols written or read."
	nEnc, nDec := 2500, 2500
	if rep.Tier == "thorough" {
		nEnc, nDec = 40000, 40000
	}
	var lines []bcLine
	add := func(site, kind, line, goL string, nontr bool) {
		lines = append(lines, bcLine{site, kind, line, goL, nontr})
	}
	propFinding := func(prop, sig, detail, line string) {
		rep.Add(Finding{Kind: "property", Property: prop, Signature: sig, Detail: detail,
			Input: map[string]any{"op": "boolline", "line": line}})
	}

	// fixed corner sequences first
	fixed := [][]bcWOp{
		nil,
		{{k: 'b', bit: 0, prob: 128}},
		{{k: 'b', bit: 1, prob: 128}},
		{{k: 'b', bit: 1, prob: 256}},
		{{k: 'b', bit: 0, prob: 256}, {k: 'b', bit: 0, prob: 256}, {k: 'b', bit: 1, prob: 1}},
		{{k: 'b', bit: 0, prob: 0}, {k: 'b', bit: 1, prob: 0}},
		{{k: 'u', bit: 0}}, {{k: 'u', bit: 1}},
		{{k: 'v', val: 0xffffffff, n: 32}}, {{k: 'v', val: 0xffffffff, n: 33}}, {{k: 'v', val: 5, n: 0}}, {{k: 'v', val: 5, n: -1}},
		{{k: 's', val: 0, n: 4}}, {{k: 's', val: -7, n: 3}}, {{k: 's', val: 7, n: -1}}, {{k: 's', val: -9223372036854775808, n: 8}},
	}
	// long runs of one symbol at every extreme probability: carries and 0xff runs
	for _, p := range []int{0, 1, 2, 3, 128, 253, 254, 255} {
		for _, bit := range []int{0, 1} {
			for _, n := range []int{7, 8, 9, 64, 700, 5000} {
				ops := make([]bcWOp, n)
				for i := range ops {
					ops[i] = bcWOp{k: 'b', bit: bit, prob: p}
				}
				fixed = append(fixed, ops)
				// ... then one opposite symbol (carry into the pending run)
				ops2 := append(append([]bcWOp(nil), ops...), bcWOp{k: 'b', bit: 1 - bit, prob: p}, bcWOp{k: 'b', bit: 1, prob: 1})
				fixed = append(fixed, ops2)
			}
		}
	}

	encOne := func(kind string, wops []bcWOp, rops []bcROp, expect []string, r *RNG) {
		wl := "boolenc " + bcJoinW(wops)
		goL, out, st := bcRunWriter(wops, true)
		add("BoolWriter", "enc:"+kind, wl, goL, len(wops) >= 8)
		rep.Count("enc:" + kind)
		switch {
		case len(wops) == 0:
			rep.Count("enc-len:0")
		case len(wops) < 8:
			rep.Count("enc-len:1-7")
		case len(wops) < 400:
			rep.Count("enc-len:8-399")
		case len(wops) < 2000:
			rep.Count("enc-len:400-1999")
		default:
			rep.Count("enc-len:2000-5000")
		}
		if st.carry {
			rep.Count("enc:carry-seen")
		}
		if st.ffrun {
			rep.Count("enc:ff-run-seen")
		}
		if st.maxRun >= 2 {
			rep.Count("enc:ff-run>=2")
		}
		if st.carry && st.ffrun {
			rep.Count("enc:carry+ff-run")
		}
		if goL == "panic" {
			rep.Count("enc:panic(prob256)")
			return
		}
		if bl, ok := bcRunBatch(wops); ok {
			rep.Count("enc:batch")
			add("PutBitBatchPacked", "enc-batch:"+kind, wl, bl, len(wops) >= 8)
			// ... and against the statement-level model of PutBitBatchPacked itself
			add("BoolCoderFast", "batch-model:"+kind, "boolbatch "+bcJoinW(wops), bl, len(wops) >= 8)
			rep.Count("enc:batch-model")
		}
		if rops == nil {
			return
		}
		// read back on the real reader (property C06) ...
		extra := 0
		if r != nil {
			extra = r.Intn(41)
		}
		all := append([]bcROp(nil), rops...)
		if r != nil {
			all = append(all, bcGenROps(r, extra)...)
		}
		dl := "booldec " + hx(out) + " " + bcJoinR(all)
		goD, res, eofAt := bcRunReader(out, all)
		add("BoolReader", "dec:readback", dl, goD, len(all) >= 8)
		rep.Count("dec:readback")
		if extra > 0 {
			rep.Count("dec:past-end")
		}
		if goD == "panic" {
			propFinding("C05", "boolcoder:reader-panic", "BoolReader panicked on writer output", dl)
			return
		}
		for i := range rops {
			if res[i] != expect[i] {
				propFinding("C06", "boolcoder:roundtrip:"+string(rops[i].k),
					fmt.Sprintf("symbol %d of %d (%s written by %s): read %s, expected %s", i, len(rops), rops[i], wops[min(i, len(wops)-1)], res[i], expect[i]), dl)
				break
			}
		}
		if eofAt >= 0 && eofAt < len(rops) {
			propFinding("C06", "boolcoder:roundtrip:eof", fmt.Sprintf("EOF raised at symbol %d of %d written", eofAt, len(rops)), dl)
		}
		// ... and on the specification decoder, for sequences that are bits only
		bitsOnly := true
		var probs, exp []string
		for i, o := range rops {
			if o.k == 'g' || o.k == 'a' {
				probs = append(probs, strconv.Itoa(o.prob))
				exp = append(exp, expect[i])
			} else {
				bitsOnly = false
				break
			}
		}
		if bitsOnly && len(rops) > 0 {
			sl := "boolspec " + hx(out) + " " + strings.Join(probs, ",")
			add("Spec.BoolDec", "spec:writer-output", sl, "ok "+strings.Join(exp, "")+" over=0", len(rops) >= 8)
			rep.Count("spec:writer-output")
		}
		// truncated output: tie only
		if r != nil && len(out) > 0 && r.Intn(3) == 0 {
			cut := out[:r.Intn(len(out))]
			tl := "booldec " + hx(cut) + " " + bcJoinR(rops)
			goT, _, _ := bcRunReader(cut, rops)
			add("BoolReader", "dec:truncated", tl, goT, len(rops) >= 8)
			rep.Count("dec:truncated")
		}
	}

	for _, ops := range fixed {
		// readable when PutBit only with prob <= 255
		var rops []bcROp
		var expect []string
		ok := true
		for _, o := range ops {
			if o.k != 'b' || o.prob > 255 {
				ok = false
				break
			}
			rops = append(rops, bcROp{k: 'g', prob: o.prob})
			expect = append(expect, strconv.Itoa(o.bit))
		}
		if !ok || len(ops) == 0 {
			rops, expect = nil, nil
		}
		encOne("fixed", ops, rops, expect, nil)
	}
	for i := 0; i < nEnc; i++ {
		r := NewRNG(rep.Seed, 91_000_000+uint64(i))
		kind, wops, rops, expect := bcGenW(r, rep.Tier)
		encOne(kind, wops, rops, expect, r)
	}
	for i := 0; i < nDec; i++ {
		r := NewRNG(rep.Seed, 92_000_000+uint64(i))
		kind, data := bcGenData(r)
		ops := bcGenROps(r, r.Intn(120))
		dl := "booldec " + hx(data) + " " + bcJoinR(ops)
		goD, _, _ := bcRunReader(data, ops)
		add("BoolReader", "dec:"+kind, dl, goD, len(ops) >= 8)
		rep.Count("dec:" + kind)
		// the inlined reader of decode_mb.go on the same data: fastBit / fastSigned under brLoad / brSync
		fl, fg := bcFastRun(data, r, r.Intn(120))
		add("BoolCoderFast", "fastrun:"+kind, fl, fg, true)
		rep.Count("fastrun:" + kind)
		if goD == "panic" {
			propFinding("C05", "boolcoder:reader-panic", "BoolReader panicked", dl)
		}
	}

	// ---- syntax at the level of bytes: token partitions of small frames ----
	nfr := 150
	if rep.Tier == "thorough" {
		nfr = 2500
	}
	for i := 0; i < nfr; i++ {
		line, goL, nontr := bcSyntaxFrame(rep, NewRNG(rep.Seed, 93_000_000+uint64(i)))
		add("VP8SyntaxBytes", "syntax-bytes", line, goL, nontr)
	}

	// ---- the first-partition header ----
	nh, ne, np := 300, 120, 120
	if rep.Tier == "thorough" {
		nh, ne, np = 4000, 1500, 1500
	}
	for i := 0; i < nh; i++ {
		bcHeaderSynth(rep, NewRNG(rep.Seed, 94_000_000+uint64(i)), add, propFinding)
	}
	for i := 0; i < ne; i++ {
		bcHeaderEncode(rep, NewRNG(rep.Seed, 95_000_000+uint64(i)), i, add)
	}
	for i := 0; i < np; i++ {
		payload, _ := SynVP8(NewRNG(rep.Seed, 96_000_000+uint64(i)), rep.Tier)
		if l, g, ok := bcHeaderParseLines(payload); ok {
			add("VP8HeaderBytes", "hdr-parse:planwriter", l, g, true)
			rep.Count("hdr-parse:planwriter")
		}
		if l, g, ok := bcModeParseLines(payload, rep, "planwriter"); ok {
			add("VP8ModeBytes", "mode-parse:planwriter", l, g, true)
		}
	}

	// ---- the mode side of partition 0 ----
	for t := 0; t < 10; t++ {
		for l := 0; l < 10; l++ {
			for i := 0; i < 9; i++ {
				add("VP8ModeBytes", "bmodeprob", fmt.Sprintf("bmodeprob %d %d %d", t, l, i),
					fmt.Sprintf("ok %d", verifapi.KBModesProba(t, l, i)), true)
			}
		}
	}
	rep.CountN("mode:bmodeprob-slots", 900)
	nm := 200
	if rep.Tier == "thorough" {
		nm = 2500
	}
	triples := map[int]bool{}
	for i := 0; i < nm; i++ {
		bcModeSynth(rep, NewRNG(rep.Seed, 97_000_000+uint64(i)), add, propFinding, triples)
	}
	rep.Extra["bmode_context_triples_covered"] = fmt.Sprintf("%d/1000", len(triples))

	in := make([]string, len(lines))
	for i, l := range lines {
		in[i] = l.line
	}
	lean, err := RunDriver(in)
	if err != nil {
		return err
	}
	// a driver built before Driver.VP8SyntaxBytes was wired in answers bad-op to every rmfrb line: skip that leg, say so
	unwired := true
	for i, l := range lines {
		if l.site == "VP8SyntaxBytes" && lean[i] != "bad-op" {
			unwired = false
			break
		}
	}
	if unwired {
		rep.Notes = append(rep.Notes, "driver has no handler for op rmfrb (Driver.VP8SyntaxBytes not wired into Driver/Main.lean): syntax-bytes leg skipped")
	}
	// the same for Driver.VP8HeaderBytes (ops hdremit, hdrparse)
	unwiredH := true
	for i, l := range lines {
		if l.site == "VP8HeaderBytes" && lean[i] != "bad-op" {
			unwiredH = false
			break
		}
	}
	if unwiredH {
		rep.Notes = append(rep.Notes, "driver has no handler for ops hdremit/hdrparse (Driver.VP8HeaderBytes not wired into Driver/Main.lean): header leg skipped")
	}
	// ... and for Driver.VP8ModeBytes (ops bmodeprob, modeemit, modeparse)
	unwiredM := true
	for i, l := range lines {
		if l.site == "VP8ModeBytes" && lean[i] != "bad-op" {
			unwiredM = false
			break
		}
	}
	if unwiredM {
		rep.Notes = append(rep.Notes, "driver has no handler for ops bmodeprob/modeemit/modeparse (Driver.VP8ModeBytes not wired into Driver/Main.lean): mode leg skipped")
	}
	// ... and for Driver.BoolCoderFast (ops boolbatch, fastrun)
	unwiredF := true
	for i, l := range lines {
		if l.site == "BoolCoderFast" && lean[i] != "bad-op" {
			unwiredF = false
			break
		}
	}
	if unwiredF {
		rep.Notes = append(rep.Notes, "driver has no handler for ops boolbatch/fastrun (Driver.BoolCoderFast not wired into Driver/Main.lean): register-cached leg skipped")
	}
	for i, l := range lines {
		if unwiredF && l.site == "BoolCoderFast" {
			continue
		}
		if unwired && l.site == "VP8SyntaxBytes" {
			continue
		}
		if unwiredH && l.site == "VP8HeaderBytes" {
			continue
		}
		if unwiredM && l.site == "VP8ModeBytes" {
			continue
		}
		rep.Eval(l.nontr, []byte(l.line))
		if lean[i] == l.goL {
			continue
		}
		kind, prop := "correspondence", "C06"
		if l.site == "Spec.BoolDec" {
			// the reference decoder does not read back what the real writer wrote
			kind, prop = "property", "C02"
		}
		rep.Add(Finding{Kind: kind, Property: prop, Signature: "boolcoder:" + l.site + ":" + l.kind,
			Detail: fmt.Sprintf("lean: %s | go: %s", short(lean[i], 300), short(l.goL, 300)),
			Input:  map[string]any{"op": "boolline", "line": l.line}})
	}
	rep.Sample(map[string]any{"line": short(lines[len(fixed)+3].line, 200), "go": short(lines[len(fixed)+3].goL, 200)})
	return nil
}

// ---------- C06 bytes: one small frame ----------

// bcSyntaxFrame draws a frame as suite reconmodel's rmfr does and evaluates it on the real code.
func bcSyntaxFrame(rep *Report, r *RNG) (line, goL string, nontr bool) {
	sizes := [][2]int{{1, 1}, {2, 1}, {1, 2}, {2, 2}, {3, 2}, {3, 1}}
	sz := sizes[r.Intn(len(sizes))]
	n := sz[0] * sz[1]
	q := rmQuant(r)
	flags := make([]byte, n)
	raw := make([]byte, 0, 800*n)
	for m := 0; m < n; m++ {
		isI4 := r.Bool()
		flags[m] = '0'
		if isI4 {
			flags[m] = '1'
		}
		var levels [400]int16
		kind := r.Intn(5) // 0 skip, 1 sparse, 2 dense, 3 y2-only / dc-only, 4 extremes
		for b := 0; b < 25; b++ {
			var lv [16]int16
			switch kind {
			case 1:
				if r.Chance(1, 3) {
					lv = rmLevels(r, []int{lvDCOnly, lvFew, lvSparse}[r.Intn(3)])
				}
			case 2:
				lv = rmLevels(r, []int{lvFew, lvSparse, lvDense}[r.Intn(3)])
			case 3:
				if b == 24 || (isI4 && r.Chance(1, 4)) {
					lv = rmLevels(r, lvDCOnly)
				}
			case 4:
				if r.Chance(1, 2) {
					lv = rmLevels(r, lvExtreme)
				}
			}
			if !isI4 && b < 16 {
				lv[0] = 0
			}
			if isI4 && b == 24 {
				lv = [16]int16{}
			}
			copy(levels[b*16:], lv[:])
		}
		for _, v := range levels {
			raw = binary.LittleEndian.AppendUint16(raw, uint16(v))
			if v != 0 {
				nontr = true
			}
		}
		rep.Count(fmt.Sprintf("syntax-bytes:mb-kind%d", kind))
	}
	rep.Count(fmt.Sprintf("syntax-bytes:frame%dx%d", sz[0], sz[1]))
	line = fmt.Sprintf("rmfrb %d %d %s %s %s", sz[0], sz[1], rmInts(q[:]), string(flags), hx(raw))
	goL = bcSyntaxGoLine(line, rep)
	return
}

func bcSyntaxGoLine(line string, rep *Report) string {
	f := strings.Split(line, " ")
	if len(f) != 6 {
		return "bad-op"
	}
	w, _ := strconv.Atoi(f[1])
	h, _ := strconv.Atoi(f[2])
	var q [6]int
	copy(q[:], rmParseInts(f[3]))
	raw := unhx(f[5])
	mbs := make([]verifapi.ReconMBIn, w*h)
	for i := range mbs {
		mbs[i].IsI4 = f[4][i] == '1'
		for k := 0; k < 400; k++ {
			mbs[i].Levels[k] = int16(binary.LittleEndian.Uint16(raw[800*i+2*k:]))
		}
	}
	out, _ := guard(func() string {
		data := verifapi.ReconTokenFrameBytes(w, h, mbs)
		// the model's WHT is the pure-Go transformWHT (see suite reconmodel, op rmfr)
		_ = verifapi.DspSetConfig("portable")
		r := verifapi.ReconTokenFrame(w, h, mbs, q)
		_ = verifapi.DspSetConfig("default")
		parts := make([]string, len(r.MBs))
		for i, m := range r.MBs {
			cb := make([]byte, 0, 768)
			for _, v := range m.Coeffs {
				cb = binary.LittleEndian.AppendUint16(cb, uint16(v))
			}
			parts[i] = fmt.Sprintf("%s:%s:%d:%d", b2s(m.Skip), digest(cb), m.NonZeroY, m.NonZeroUV)
		}
		if rep != nil {
			switch {
			case len(data) <= 2:
				rep.Count("syntax-bytes:len<=2")
			case len(data) <= 64:
				rep.Count("syntax-bytes:len3-64")
			case len(data) <= 1024:
				rep.Count("syntax-bytes:len65-1024")
			default:
				rep.Count("syntax-bytes:len>1024")
			}
		}
		return fmt.Sprintf("ok bytes=%s mb=%s eof=%s", bcOut(data), strings.Join(parts, ";"), b2s(r.EOF))
	})
	return out
}

// ---------- C06 header ----------

func bcInts8(xs [4]int8) string {
	o := make([]int, 4)
	for i, v := range xs {
		o[i] = int(v)
	}
	return rmInts(o)
}

func bcStateLine(st verifapi.HeaderState) string {
	if st.Err != "" {
		return "err parse"
	}
	mats := make([]string, 4)
	for i := range mats {
		mats[i] = rmInts(st.Dqm[i][:])
	}
	return fmt.Sprintf("ok cs=%d ct=%d seg=%s,%s,%s,%s,%s,%d,%d,%d filt=%s,%d,%d,%s,%s,%s np=%d dqm=%s coef=%s skip=%s,%d eof=%s",
		st.Colorspace, st.ClampType, b2s(st.Seg.UseSegment), b2s(st.Seg.UpdateMap), b2s(st.Seg.AbsoluteDelta),
		bcInts8(st.Seg.Quantizer), bcInts8(st.Seg.FilterStrength), st.SegProbs[0], st.SegProbs[1], st.SegProbs[2],
		b2s(st.Filter.Simple), st.Filter.Level, st.Filter.Sharpness, b2s(st.Filter.UseLFDelta),
		rmInts(st.Filter.RefLFDelta[:]), rmInts(st.Filter.ModeLFDelta[:]), st.NumPartsMinusOne,
		strings.Join(mats, ";"), digest(st.Coef[:]), b2s(st.UseSkipProba), st.SkipP, b2s(st.EOF))
}

// bcHeaderParseLines: the hdrparse line of a VP8 payload and the real decoder's answer.
func bcHeaderParseLines(payload []byte) (line, goL string, ok bool) {
	if len(payload) < 10 {
		return "", "", false
	}
	tag := int(payload[0]) | int(payload[1])<<8 | int(payload[2])<<16
	plen := tag >> 5
	if 10+plen > len(payload) {
		return "", "", false
	}
	goL, _ = guard(func() string { return bcStateLine(verifapi.ParseHeaders(payload)) })
	if goL == "err parse" {
		// the container-level checks of parseHeaders (partition sizes ...) are not part of the header model
		return "", "", false
	}
	return "hdrparse " + hx(payload[10:10+plen]), goL, true
}

var bcDefaultCoef []byte

func bcHeaderSynth(rep *Report, r *RNG, add func(site, kind, line, goL string, nontr bool), prop func(prop, sig, detail, line string)) {
	var in verifapi.HeaderIn
	wide := r.Intn(4) == 0 // values beyond the field widths (truncated by PutBits on both sides)
	i8 := func(lim int) int8 {
		if wide {
			return int8(r.Intn(256) - 128)
		}
		if r.Intn(3) == 0 {
			return 0
		}
		return int8(r.Intn(2*lim+1) - lim)
	}
	in.Seg.UseSegment = r.Intn(3) > 0
	in.Seg.UpdateMap = r.Bool()
	in.Seg.AbsoluteDelta = r.Bool()
	for i := 0; i < 4; i++ {
		in.Seg.Quantizer[i] = i8(127)
		in.Seg.FilterStrength[i] = i8(63)
	}
	for i := range in.SegProbs {
		in.SegProbs[i] = []uint8{255, 255, 0, 1, 128, uint8(r.Intn(256))}[r.Intn(6)]
	}
	in.Filter.Simple = r.Bool()
	in.Filter.Level = r.Intn(64)
	in.Filter.Sharpness = r.Intn(8)
	if wide {
		in.Filter.Level = r.Intn(200)
		in.Filter.Sharpness = r.Intn(20)
	}
	in.Filter.UseLFDelta = r.Bool()
	allZero := r.Intn(4) == 0
	for i := 0; i < 4; i++ {
		if !allZero {
			in.Filter.RefLFDelta[i] = int(i8(63))
			in.Filter.ModeLFDelta[i] = int(i8(63))
		}
	}
	in.NumParts = []int{1, 2, 4, 8, 1, 3}[r.Intn(6)]
	in.BaseQ = r.Intn(128)
	if wide {
		in.BaseQ = r.Intn(300)
	}
	for i := range in.DQ {
		if r.Intn(2) == 0 {
			in.DQ[i] = r.Intn(31) - 15
		}
		if wide && r.Intn(3) == 0 {
			in.DQ[i] = r.Intn(81) - 40
		}
	}
	if bcDefaultCoef == nil {
		d := verifapi.DefaultCoefProbas()
		bcDefaultCoef = d[:]
	}
	copy(in.Coef[:], bcDefaultCoef)
	tabKind := r.Intn(4)
	switch tabKind {
	case 1: // sparse updates
		for k := 0; k < 1+r.Intn(40); k++ {
			in.Coef[r.Intn(len(in.Coef))] = uint8(r.Intn(256))
		}
	case 2: // fully random
		copy(in.Coef[:], r.Bytes(len(in.Coef)))
	case 3: // extremes
		for k := range in.Coef {
			if r.Intn(3) == 0 {
				in.Coef[k] = []uint8{0, 1, 254, 255}[r.Intn(4)]
			}
		}
	}
	if r.Bool() {
		in.NumSkip = 1 + r.Intn(5)
	}
	in.SkipProba = []uint8{0, 1, 128, 255, uint8(r.Intn(256))}[r.Intn(5)]
	rep.Count(fmt.Sprintf("hdr:table-kind%d", tabKind))
	rep.Count("hdr:useSegment=" + b2s(in.Seg.UseSegment))
	if wide {
		rep.Count("hdr:fields-beyond-width")
	}

	line := fmt.Sprintf("hdremit %s,%s,%s %s %s %d,%d,%d %s,%d,%d,%s %s %s %d %d %s %s %s,%d",
		b2s(in.Seg.UseSegment), b2s(in.Seg.UpdateMap), b2s(in.Seg.AbsoluteDelta), bcInts8(in.Seg.Quantizer), bcInts8(in.Seg.FilterStrength),
		in.SegProbs[0], in.SegProbs[1], in.SegProbs[2],
		b2s(in.Filter.Simple), in.Filter.Level, in.Filter.Sharpness, b2s(in.Filter.UseLFDelta),
		rmInts(in.Filter.RefLFDelta[:]), rmInts(in.Filter.ModeLFDelta[:]), in.NumParts, in.BaseQ, rmInts(in.DQ[:]),
		hx(in.Coef[:]), b2s(in.NumSkip > 0), in.SkipProba)
	var part0 []byte
	goL, _ := guard(func() string {
		part0 = verifapi.EmitHeader(&in)
		return "ok " + bcOut(part0)
	})
	add("VP8HeaderBytes", "hdr-emit", line, goL, true)
	if goL == "panic" {
		return
	}
	k := 1
	switch in.NumParts {
	case 2, 4, 8:
		k = in.NumParts
	}
	payload := verifapi.AssembleFrame(16, 16, part0, make([][]byte, k))
	pl, pg, ok := bcHeaderParseLines(payload)
	if !ok {
		prop("C06", "boolcoder:header:parse-rejects", "parseHeaders rejects the header emitPartition0 wrote", line)
		return
	}
	add("VP8HeaderBytes", "hdr-parse:synthetic", pl, pg, true)
	rep.Count("hdr-parse:synthetic")
	// the real decoder returns what the real encoder wrote (fields within their widths only)
	if !wide {
		st := verifapi.ParseHeaders(payload)
		bad := ""
		if !bytes.Equal(st.Coef[:], in.Coef[:]) {
			bad = "coefficient probabilities"
		}
		if st.UseSkipProba != (in.NumSkip > 0) || (st.UseSkipProba && st.SkipP != in.SkipProba) {
			bad = "skip probability"
		}
		if st.Filter.Level != in.Filter.Level || st.Filter.Sharpness != in.Filter.Sharpness || st.Filter.Simple != in.Filter.Simple || st.Filter.UseLFDelta != in.Filter.UseLFDelta {
			bad = "filter header"
		}
		if in.Filter.UseLFDelta && (st.Filter.RefLFDelta != in.Filter.RefLFDelta || st.Filter.ModeLFDelta != in.Filter.ModeLFDelta) {
			bad = "filter deltas"
		}
		if st.Seg.UseSegment != in.Seg.UseSegment || (in.Seg.UseSegment && (st.Seg.Quantizer != in.Seg.Quantizer || st.Seg.FilterStrength != in.Seg.FilterStrength ||
			st.Seg.AbsoluteDelta != in.Seg.AbsoluteDelta || st.Seg.UpdateMap != in.Seg.UpdateMap)) {
			bad = "segment header"
		}
		if in.Seg.UseSegment && in.Seg.UpdateMap && st.SegProbs != in.SegProbs {
			bad = "segment probabilities"
		}
		if int(st.NumPartsMinusOne)+1 != k || st.EOF {
			bad = "partition count / eof"
		}
		if bad != "" {
			prop("C06", "boolcoder:header:roundtrip", "parseHeaders does not return what emitPartition0 wrote: "+bad, line)
		}
	}
}

// bcHeaderEncode: a real encode over the option grid; its partition 0 through hdrparse.
func bcHeaderEncode(rep *Report, r *RNG, i int, add func(site, kind, line, goL string, nontr bool)) {
	w, h := 16+r.Intn(40), 16+r.Intn(40)
	img := GenImage(r, w, h, []int{ClsPhoto, ClsNoise, ClsGradient, ClsFlat}[r.Intn(4)], 0)
	o := webp.DefaultOptions()
	o.Lossless = false
	o.Quality = float32([]int{0, 20, 50, 75, 90, 100}[r.Intn(6)])
	o.Method = i % 7
	o.Segments = 1 + r.Intn(4)
	o.SNSStrength = []int{0, 50, 100}[r.Intn(3)]
	o.FilterStrength = []int{0, 20, 60, 100}[r.Intn(4)]
	o.FilterSharpness = r.Intn(8)
	o.FilterType = r.Intn(2)
	o.Partitions = r.Intn(4)
	var buf bytes.Buffer
	if err := webp.Encode(&buf, img, o); err != nil {
		rep.Count("hdr-parse:encode-error")
		return
	}
	payload := vp8Payload(buf.Bytes())
	if l, g, ok := bcModeParseLines(payload, rep, "encoder"); ok {
		add("VP8ModeBytes", "mode-parse:encoder", l, g, true)
	}
	if l, g, ok := bcHeaderParseLines(payload); ok {
		add("VP8HeaderBytes", "hdr-parse:encoder", l, g, true)
		rep.Count("hdr-parse:encoder")
		rep.Count(fmt.Sprintf("hdr-enc:method%d", o.Method))
		rep.Count(fmt.Sprintf("hdr-enc:segments%d", o.Segments))
		rep.Count(fmt.Sprintf("hdr-enc:partitions%d", o.Partitions))
	}
}

// ---------- the mode side of partition 0 ----------

func bcModeOutLine(mbs []verifapi.MBModeOut, eof bool) string {
	parts := make([]string, len(mbs))
	for i, m := range mbs {
		ms := make([]string, 16)
		for k, v := range m.IModes {
			ms[k] = strconv.Itoa(int(v))
		}
		parts[i] = fmt.Sprintf("%s:%s:%d:%d:%s", b2s(m.IsI4), strings.Join(ms, ","), m.UVMode, m.Segment, b2s(m.Skip))
	}
	return fmt.Sprintf("ok %s eof=%s", strings.Join(parts, ";"), b2s(eof))
}

// bcModeParseLines: the modeparse line of a VP8 payload and the real decoder's answer.
func bcModeParseLines(payload []byte, rep *Report, src string) (line, goL string, ok bool) {
	if len(payload) < 10 {
		return "", "", false
	}
	tag := int(payload[0]) | int(payload[1])<<8 | int(payload[2])<<16
	plen := tag >> 5
	if 10+plen > len(payload) {
		return "", "", false
	}
	w := (int(payload[6]) | int(payload[7])<<8) & 0x3fff
	h := (int(payload[8]) | int(payload[9])<<8) & 0x3fff
	var mbs []verifapi.MBModeOut
	var errStr string
	var eof bool
	goL, _ = guard(func() string {
		mbs, _, _, errStr, eof = verifapi.ParseModes(payload)
		if errStr != "" {
			return "err " + errStr
		}
		return bcModeOutLine(mbs, eof)
	})
	if errStr != "" || goL == "panic" {
		// header rejected at container level, or a premature end of data inside parseIntraModeRow (the model has no
		// mid-row eof exit): not part of this tie
		if rep != nil {
			rep.Count("mode-parse:" + src + ":skipped-" + errStr)
		}
		return "", "", false
	}
	if rep != nil {
		rep.Count("mode-parse:" + src)
		n4 := 0
		for _, m := range mbs {
			if m.IsI4 {
				n4++
			}
		}
		rep.CountN("mode-parse:"+src+":i4-macroblocks", n4)
		rep.CountN("mode-parse:"+src+":macroblocks", len(mbs))
	}
	return fmt.Sprintf("modeparse %d %d %s", w, h, hx(payload[10:10+plen])), goL, true
}

func bcModeSynth(rep *Report, r *RNG, add func(site, kind, line, goL string, nontr bool), prop func(prop, sig, detail, line string), triples map[int]bool) {
	var in verifapi.ModesIn
	in.MbW, in.MbH = 1+r.Intn(4), 1+r.Intn(3)
	in.UseSegment = r.Intn(3) > 0
	in.UpdateMap = r.Bool()
	for i := range in.SegProbs {
		in.SegProbs[i] = []uint8{255, 128, 1, 0, uint8(r.Intn(256))}[r.Intn(5)]
	}
	useSkip := r.Bool()
	if useSkip {
		in.NumSkip = 1
	}
	in.SkipProba = []uint8{0, 1, 128, 255, uint8(r.Intn(256))}[r.Intn(5)]
	n := in.MbW * in.MbH
	in.MBs = make([]verifapi.MBModeIn, n)
	top := make([]uint8, 4*in.MbW)
	descs := make([]string, n)
	for y := 0; y < in.MbH; y++ {
		var left [4]uint8
		for x := 0; x < in.MbW; x++ {
			m := &in.MBs[y*in.MbW+x]
			m.IsI4 = r.Intn(10) < 7
			m.I16Mode = uint8(r.Intn(4))
			m.UVMode = uint8(r.Intn(4))
			m.Segment = uint8(r.Intn(4))
			m.Skip = useSkip && r.Intn(3) == 0
			if m.IsI4 {
				for by := 0; by < 4; by++ {
					ym := left[by]
					for bx := 0; bx < 4; bx++ {
						mode := uint8(r.Intn(10))
						m.Modes[by*4+bx] = mode
						triples[(int(top[4*x+bx])*10+int(ym))*10+int(mode)] = true
						ym = mode
						top[4*x+bx] = mode
					}
					left[by] = ym
				}
			} else {
				for k := 0; k < 4; k++ {
					top[4*x+k] = m.I16Mode
					left[k] = m.I16Mode
				}
			}
			ms := make([]string, 16)
			for k, v := range m.Modes {
				ms[k] = strconv.Itoa(int(v))
			}
			descs[y*in.MbW+x] = fmt.Sprintf("%s,%d,%d,%d,%s,%s", b2s(m.IsI4), m.I16Mode, m.UVMode, m.Segment, b2s(m.Skip), strings.Join(ms, ","))
		}
	}
	line := fmt.Sprintf("modeemit %d %d %s,%s %d,%d,%d %s,%d %s", in.MbW, in.MbH, b2s(in.UseSegment), b2s(in.UpdateMap),
		in.SegProbs[0], in.SegProbs[1], in.SegProbs[2], b2s(useSkip), in.SkipProba, strings.Join(descs, ";"))
	var part0 []byte
	goL, _ := guard(func() string {
		part0 = verifapi.EmitModes(&in)
		return "ok " + bcOut(part0)
	})
	add("VP8ModeBytes", "mode-emit", line, goL, true)
	rep.Count("mode-emit")
	rep.Count(fmt.Sprintf("mode-emit:frame%dx%d", in.MbW, in.MbH))
	if goL == "panic" {
		return
	}
	payload := verifapi.AssembleFrame(16*in.MbW, 16*in.MbH, part0, [][]byte{nil})
	pl, pg, ok := bcModeParseLines(payload, rep, "synthetic")
	if !ok {
		prop("C06", "boolcoder:modes:parse-rejects", "the real decoder rejects the modes writeMBModes wrote", line)
		return
	}
	add("VP8ModeBytes", "mode-parse:synthetic", pl, pg, true)
	// the real decoder returns what the real encoder wrote
	mbs, _, _, _, eof := verifapi.ParseModes(payload)
	bad := ""
	if eof {
		bad = "eof raised"
	}
	for i := range mbs {
		m, o := &in.MBs[i], &mbs[i]
		switch {
		case o.IsI4 != m.IsI4:
			bad = "macroblock type"
		case m.IsI4 && o.IModes != m.Modes:
			bad = "sub-block modes"
		case !m.IsI4 && o.IModes[0] != m.I16Mode:
			bad = "16x16 mode"
		case o.UVMode != m.UVMode:
			bad = "chroma mode"
		case in.UseSegment && in.UpdateMap && o.Segment != m.Segment:
			bad = "segment id"
		case useSkip && o.Skip != m.Skip:
			bad = "skip flag"
		}
	}
	if bad != "" {
		prop("C06", "boolcoder:modes:roundtrip", "parseIntraModeRow does not return what writeMBModes wrote: "+bad, line)
	}
}

// ---------- the inlined reader ----------

func bcFastLine(data []byte, ops []int) (line, goL string) {
	toks := make([]string, len(ops))
	for i, o := range ops {
		if o < 0 {
			toks[i] = "s"
		} else {
			toks[i] = fmt.Sprintf("g:%d", o)
		}
	}
	body := "-"
	if len(toks) > 0 {
		body = strings.Join(toks, ",")
	}
	line = "fastrun " + hx(data) + " " + body
	goL, _ = guard(func() string {
		res, v, rg, bits, pos, eof := verifapi.FastRun(data, ops)
		rs := make([]string, len(res))
		for i, x := range res {
			rs[i] = strconv.Itoa(x)
		}
		b := "-"
		if len(rs) > 0 {
			b = strings.Join(rs, ",")
		}
		return fmt.Sprintf("ok %s st=%d,%d,%d,%d,%s", b, v, rg, bits, pos, b2s(eof))
	})
	return
}

func bcFastRun(data []byte, r *RNG, n int) (line, goL string) {
	ops := make([]int, n)
	style := r.Intn(4)
	for i := range ops {
		if r.Intn(6) == 0 {
			ops[i] = -1
		} else {
			ops[i] = bcProb(r, style)
			if ops[i] > 255 {
				ops[i] = 255
			}
		}
	}
	return bcFastLine(data, ops)
}

// ---------- replay ----------

func replayBoolLine(in map[string]any) int {
	line, _ := in["line"].(string)
	f := strings.Split(line, " ")
	var goL string
	switch {
	case f[0] == "boolenc" && len(f) == 2:
		ops, ok := bcParseWOps(f[1])
		if !ok {
			return 2
		}
		goL, _, _ = bcRunWriter(ops, false)
		if bl, ok := bcRunBatch(ops); ok && bl != goL {
			fmt.Printf("batch: %s\n", bl)
		}
	case f[0] == "booldec" && len(f) == 3:
		ops, ok := bcParseROps(f[2])
		if !ok {
			return 2
		}
		goL, _, _ = bcRunReader(unhx(f[1]), ops)
	case f[0] == "boolbatch" && len(f) == 2:
		ops, ok := bcParseWOps(f[1])
		if !ok {
			return 2
		}
		goL, _ = bcRunBatch(ops)
	case f[0] == "fastrun" && len(f) == 3:
		var ops []int
		if f[2] != "-" {
			for _, t := range strings.Split(f[2], ",") {
				if t == "s" {
					ops = append(ops, -1)
				} else {
					v, _ := strconv.Atoi(strings.TrimPrefix(t, "g:"))
					ops = append(ops, v)
				}
			}
		}
		_, goL = bcFastLine(unhx(f[1]), ops)
	case f[0] == "bmodeprob" && len(f) == 4:
		t, _ := strconv.Atoi(f[1])
		l, _ := strconv.Atoi(f[2])
		i, _ := strconv.Atoi(f[3])
		goL = fmt.Sprintf("ok %d", verifapi.KBModesProba(t, l, i))
	case f[0] == "modeparse" && len(f) == 4:
		w, _ := strconv.Atoi(f[1])
		h, _ := strconv.Atoi(f[2])
		p0 := unhx(f[3])
		for _, k := range []int{1, 2, 4, 8} {
			if _, g, ok := bcModeParseLines(verifapi.AssembleFrame(w, h, p0, make([][]byte, k)), nil, ""); ok {
				goL = g
				break
			}
		}
	case f[0] == "hdrparse" && len(f) == 2:
		// the Go side needs the whole payload: rebuild one around the partition (one empty token partition per count)
		p0 := unhx(f[1])
		for _, k := range []int{1, 2, 4, 8} {
			if _, g, ok := bcHeaderParseLines(verifapi.AssembleFrame(16, 16, p0, make([][]byte, k))); ok {
				goL = g
				break
			}
		}
	case f[0] == "rmfrb" && len(f) == 6:
		goL = bcSyntaxGoLine(line, nil)
	case f[0] == "boolspec" && len(f) == 3:
		var ops []bcROp
		for _, p := range strings.Split(f[2], ",") {
			v, _ := strconv.Atoi(p)
			ops = append(ops, bcROp{k: 'g', prob: v})
		}
		_, res, eofAt := bcRunReader(unhx(f[1]), ops)
		goL = "ok " + strings.Join(res, "") + " over=" + b2s(eofAt >= 0)
	default:
		return 2
	}
	l, err := RunDriver([]string{line})
	fmt.Printf("go:   %s\n", goL)
	if err != nil {
		fmt.Println(err)
		return 2
	}
	fmt.Printf("lean: %s\n", l[0])
	if goL == "panic" && !strings.Contains(line, ":256") {
		return 1
	}
	if l[0] != goL {
		return 1
	}
	return 0
}
