package main

import (
	"bytes"
	"encoding/binary"
	"errors"
	"fmt"
	"image"
	"os"
	"runtime"
	"sort"
	"strconv"
	"strings"
	"sync"
	"sync/atomic"
	"syscall"
	"time"

	_ "github.com/deepteams/webp" // init wires animation.FrameEncoderFunc / FrameDecoderFunc / SimpleEncodeFunc
	"github.com/deepteams/webp/animation"
	"github.com/deepteams/webp/mux"
)

// Suite "animenc": the animation encoder (properties C08 and C18).
//
//	Go animation.AnimEncoder (NewEncoder, AddFrame…, Close) == Lean Impl.AnimEnc.encodeAll   (correspondence)
//	  the size comparisons the encoder makes are observed on the real codec (recording wrappers around
//	  animation.FrameEncoderFunc / SimpleEncodeFunc) and handed to the model as oracle bits
//	written file played back with DecodeBytes/DecodeFrames/AnimDecoder vs the input pictures  (C08, lossless non-mixed)
//	alpha plane of every played picture vs the input pictures, ALPH presence per frame        (C18, every mode)
//	findChangedRect, snapToEven, blending predicates, qualityToMaxDiff, sanitizeKeyframeOptions,
//	clampLoopCount, splitAlphaAndBitstream vs their Lean models                               (correspondence)
//	exhaustive: all two-frame sequences over the 2x2 canvas with alpha {0,128,255} x two colours
//	streams: main, sizes (pictures that need normalising: other size / view), alpha (noise and n-level alpha planes),
//	frame-count thresholds, reuse (caller buffer), threshold / wide-row canvases, sub-image probe
func init() {
	suites["animenc"] = suiteAnimEnc
	replayers["animenc"] = replayAnimEnc
	replayers["animencexh"] = replayAnimEncExh
	for _, op := range aeUnitOps {
		replayers[op] = replayAnimEncUnit
	}
}

// ---------------------------------------------------------------------------------------------
// cases

type aeFrame struct {
	dur  int // milliseconds
	w, h int
	pix  []byte // w*h*4 RGBA (non-premultiplied)
	// how the picture is held by the caller: Rect.Min = (ox, oy) and pad unused pixels behind every row
	// (Stride = 4*(w+pad)), i.e. a view into a larger buffer. AddFrame shows the CONTENT at (0,0) of the
	// canvas whatever the origin is; any of the three non-zero makes the encoder normalise the picture.
	ox, oy, pad int
}

// view: the picture is handed over as a view (non-zero origin or padded stride).
func (f aeFrame) view() bool { return f.ox != 0 || f.oy != 0 || f.pad != 0 }

type aeCase struct {
	w, h            int
	lossless, mixed bool
	quality         int
	kmin, kmax      int
	loop            int
	frames          []aeFrame
	subimage        bool // pictures are handed over as SubImages of a larger NRGBA (probe stream)
	// reuse: the caller owns ONE canvas-sized *image.NRGBA (Rect(0,0,w,h), Stride 4w) for the whole
	// sequence; every canvas-sized frame is copied into it and that same buffer is handed to AddFrame
	// (a render loop). scribble: the buffer is overwritten with garbage as soon as AddFrame has returned.
	// The encoder must not retain the buffer: the run must equal the fresh-picture run of the same case.
	reuse, scribble bool
	// threshold / wide-row stream bookkeeping
	thr     *ThresholdCase
	wideTag string
	cnt     *CountCase // the frame count sits on this threshold (frame-count stream)
	// generator bookkeeping (distribution only)
	alphaCls, durCls string
	genSteps         []string
}

func (c *aeCase) clone() *aeCase {
	n := *c
	n.frames = append([]aeFrame(nil), c.frames...)
	return &n
}

func (c *aeCase) mode() string {
	s := "lossy"
	if c.lossless {
		s = "lossless"
	}
	if c.mixed {
		s += "+mixed"
	}
	return s
}

// handover describes how the pictures reach AddFrame ("" = a fresh picture per frame).
func (c *aeCase) handover() string {
	switch {
	case c.subimage:
		return " subimage"
	case c.scribble:
		return " reuse+scribble"
	case c.reuse:
		return " reuse"
	}
	return ""
}

func (c *aeCase) framesArg() string {
	if len(c.frames) == 0 {
		return "-"
	}
	var sb strings.Builder
	for i, f := range c.frames {
		if i > 0 {
			sb.WriteByte(';')
		}
		fmt.Fprintf(&sb, "%d,%d,%d,%s", f.dur, f.w, f.h, hx(f.pix))
	}
	return sb.String()
}

// leanLine is the protocol line of Driver/AnimEnc.lean for this case (pins always 000).
func (c *aeCase) leanLine(oracle string) string {
	return fmt.Sprintf("animenc %d %d %s %s %d %d %d %d 000 %s %s", c.w, c.h, b2s(c.lossless), b2s(c.mixed),
		c.quality, c.kmin, c.kmax, c.loop, oracle, c.framesArg())
}

// input is the literal replay input of a sequence finding.
func (c *aeCase) input(line, oracle string) map[string]any {
	fr := make([]any, 0, len(c.frames))
	for _, f := range c.frames {
		m := map[string]any{"dur": f.dur, "w": f.w, "h": f.h, "hex": hx(f.pix)}
		if f.view() {
			m["ox"], m["oy"], m["pad"] = f.ox, f.oy, f.pad
		}
		fr = append(fr, m)
	}
	return map[string]any{"op": "animenc", "w": c.w, "h": c.h, "lossless": c.lossless, "mixed": c.mixed,
		"quality": c.quality, "kmin": c.kmin, "kmax": c.kmax, "loop": c.loop, "frames": fr,
		"subimage": c.subimage, "reuse": c.reuse, "scribble": c.scribble, "line": line, "oracle": oracle}
}

func aeNum(v any) (int, bool) {
	switch x := v.(type) {
	case float64:
		return int(x), true
	case int:
		return x, true
	case int64:
		return int(x), true
	}
	return 0, false
}

func aeCaseFromInput(in map[string]any) (*aeCase, bool) {
	c := &aeCase{}
	ok := true
	num := func(k string) int {
		n, good := aeNum(in[k])
		if !good {
			ok = false
		}
		return n
	}
	c.w, c.h, c.quality, c.kmin, c.kmax, c.loop = num("w"), num("h"), num("quality"), num("kmin"), num("kmax"), num("loop")
	c.lossless, _ = in["lossless"].(bool)
	c.mixed, _ = in["mixed"].(bool)
	c.subimage, _ = in["subimage"].(bool)
	c.reuse, _ = in["reuse"].(bool)
	c.scribble, _ = in["scribble"].(bool)
	if c.scribble {
		c.reuse = true
	}
	fr, _ := in["frames"].([]any)
	for _, x := range fr {
		m, good := x.(map[string]any)
		if !good {
			return nil, false
		}
		var f aeFrame
		var g1, g2, g3 bool
		f.dur, g1 = aeNum(m["dur"])
		f.w, g2 = aeNum(m["w"])
		f.h, g3 = aeNum(m["h"])
		s, _ := m["hex"].(string)
		f.pix = unhx(s)
		if !g1 || !g2 || !g3 || len(f.pix) != 4*f.w*f.h || f.w <= 0 || f.h <= 0 {
			return nil, false
		}
		f.ox, _ = aeNum(m["ox"]) // absent: a plain picture
		f.oy, _ = aeNum(m["oy"])
		f.pad, _ = aeNum(m["pad"])
		if f.pad < 0 || f.pad > 64 {
			return nil, false
		}
		c.frames = append(c.frames, f)
	}
	return c, ok
}

// aePlace is what AddFrame shows for a picture: the picture itself when it has the canvas size,
// otherwise the picture at (0,0) of a transparent canvas (cropped to the canvas).
func aePlace(w, h int, f aeFrame) []byte {
	if f.w == w && f.h == h {
		return f.pix
	}
	out := make([]byte, 4*w*h)
	n := mini(w, f.w)
	for y := 0; y < h && y < f.h; y++ {
		copy(out[y*w*4:(y*w+n)*4], f.pix[y*f.w*4:(y*f.w+n)*4])
	}
	return out
}

// image builds the picture handed to AddFrame.
func (c *aeCase) image(i int) *image.NRGBA {
	f := c.frames[i]
	if !c.subimage && f.view() {
		// a view: parent with pad extra columns and one extra row, filled with garbage that must never be seen
		big := image.NewNRGBA(image.Rect(f.ox, f.oy, f.ox+f.w+f.pad, f.oy+f.h+1))
		for k := range big.Pix {
			big.Pix[k] = byte(0x33 + 11*k + k>>7)
		}
		for y := 0; y < f.h; y++ {
			copy(big.Pix[y*big.Stride:y*big.Stride+4*f.w], f.pix[y*f.w*4:(y+1)*f.w*4])
		}
		return big.SubImage(image.Rect(f.ox, f.oy, f.ox+f.w, f.oy+f.h)).(*image.NRGBA)
	}
	if !c.subimage {
		img := image.NewNRGBA(image.Rect(0, 0, f.w, f.h))
		copy(img.Pix, f.pix)
		return img
	}
	o := 1 + (i+f.w)%3
	big := image.NewNRGBA(image.Rect(0, 0, f.w+o+2, f.h+o+1))
	for k := range big.Pix {
		big.Pix[k] = byte(0x55 + 7*k) // surrounding garbage
	}
	for y := 0; y < f.h; y++ {
		off := (y+o)*big.Stride + o*4
		copy(big.Pix[off:off+4*f.w], f.pix[y*f.w*4:(y+1)*f.w*4])
	}
	return big.SubImage(image.Rect(o, o, o+f.w, o+f.h)).(*image.NRGBA)
}

// ---------------------------------------------------------------------------------------------
// recording wrappers around the codec entry points

type aeCall struct {
	lossless bool
	w, h     int
	pix      []byte // picture handed to the codec, w*h*4
	dig      string
	anyAlpha bool // some alpha < 255
	outLen   int
	outFnv   uint64
	failed   bool
}

type aeRecorder struct {
	calls  []aeCall
	simple *aeCall // the SimpleEncodeFunc call made by Close
	// memo: answer repeated codec calls (same picture, codec, quality) from a cache. Only the
	// exhaustive blocks use it: 1.7 million sequences hand the same few thousand pictures to a codec
	// that costs 0.2-0.5 ms per call. Rests on the codec being deterministic; every 1009th hit is
	// re-encoded for real and compared (aeMemoMismatch).
	memo bool
}

type aeMemoEntry struct {
	out    []byte
	failed bool
}

var (
	aeMemo         sync.Map // key -> aeMemoEntry
	aeMemoDec      sync.Map // key -> *image.NRGBA (decoded frame)
	aeMemoHits     atomic.Int64
	aeMemoChecked  atomic.Int64
	aeMemoMismatch atomic.Int64
)

func aeMemoKey(kind byte, lossless bool, quality int, cl *aeCall) string {
	return fmt.Sprintf("%c%s/%d/%d/%d/", kind, b2s(lossless), quality, cl.w, cl.h) + string(cl.pix)
}

// aeMemoCall answers from the cache or calls the real codec function.
func aeMemoCall(key string, real func() ([]byte, error)) ([]byte, error) {
	if v, ok := aeMemo.Load(key); ok {
		e := v.(aeMemoEntry)
		if aeMemoHits.Add(1)%1009 == 0 {
			aeMemoChecked.Add(1)
			out, err := real()
			if !bytes.Equal(out, e.out) || (err != nil) != e.failed {
				aeMemoMismatch.Add(1)
			}
		}
		if e.failed {
			return e.out, errors.New("memoised codec failure")
		}
		return e.out, nil
	}
	out, err := real()
	aeMemo.Store(key, aeMemoEntry{out, err != nil})
	return out, err
}

var (
	aeRecs     sync.Map // OS thread id of the locked caller -> *aeRecorder
	aeHookOnce sync.Once
)

// aeTID identifies the caller while it is locked to its OS thread (aeRunInner locks for the whole
// run): the encoder calls the codec synchronously on the goroutine that called AddFrame, a locked
// thread runs no other goroutine. (Parsing the goroutine id out of runtime.Stack takes the
// runtime's print lock and cost a quarter of the run.)
func aeTID() int { return syscall.Gettid() }

func aeCapture(img image.Image) (int, int, []byte) {
	n, ok := img.(*image.NRGBA)
	if !ok {
		n = toNRGBA(img)
	}
	w, h := n.Rect.Dx(), n.Rect.Dy()
	pix := make([]byte, 0, 4*w*h)
	for y := 0; y < h; y++ {
		off := y * n.Stride // Pix[0] is the pixel at Rect.Min
		pix = append(pix, n.Pix[off:off+4*w]...)
	}
	return w, h, pix
}

func aeMkCall(img image.Image, lossless bool) aeCall {
	w, h, pix := aeCapture(img)
	cl := aeCall{lossless: lossless, w: w, h: h, pix: pix, dig: digest(pix)}
	for i := 3; i < len(pix); i += 4 {
		if pix[i] != 255 {
			cl.anyAlpha = true
			break
		}
	}
	return cl
}

// aeInstallHooks replaces animation.FrameEncoderFunc / SimpleEncodeFunc by recording wrappers. Calls
// are attributed to the recorder registered for the calling goroutine; without one they pass through.
func aeInstallHooks() {
	aeHookOnce.Do(func() {
		origEnc := animation.FrameEncoderFunc
		origSimple := animation.SimpleEncodeFunc
		origDec := animation.FrameDecoderFunc
		// the decoder is only memoised (exhaustive blocks), never recorded
		animation.FrameDecoderFunc = func(bs, alpha []byte) (*image.NRGBA, error) {
			v, ok := aeRecs.Load(aeTID())
			if !ok || !v.(*aeRecorder).memo {
				return origDec(bs, alpha)
			}
			key := fmt.Sprintf("d%d/", len(bs)) + string(bs) + string(alpha)
			if e, ok := aeMemoDec.Load(key); ok {
				img := e.(*image.NRGBA)
				if aeMemoHits.Add(1)%1009 == 0 {
					aeMemoChecked.Add(1)
					again, err := origDec(bs, alpha)
					if err != nil || again.Rect != img.Rect || !bytes.Equal(aeTight(again), aeTight(img)) {
						aeMemoMismatch.Add(1)
					}
				}
				cp := image.NewNRGBA(img.Rect)
				copy(cp.Pix, aeTight(img))
				return cp, nil
			}
			img, err := origDec(bs, alpha)
			if err == nil && img != nil {
				keep := image.NewNRGBA(img.Rect)
				copy(keep.Pix, aeTight(img))
				aeMemoDec.Store(key, keep)
			}
			return img, err
		}
		animation.FrameEncoderFunc = func(img image.Image, lossless bool, quality int) ([]byte, error) {
			v, ok := aeRecs.Load(aeTID())
			if !ok {
				return origEnc(img, lossless, quality)
			}
			cl := aeMkCall(img, lossless)
			rec := v.(*aeRecorder)
			var out []byte
			var err error
			if rec.memo {
				out, err = aeMemoCall(aeMemoKey('f', lossless, quality, &cl), func() ([]byte, error) { return origEnc(img, lossless, quality) })
			} else {
				out, err = origEnc(img, lossless, quality)
			}
			cl.outLen, cl.outFnv, cl.failed = len(out), fnv1a(out), err != nil
			rec.calls = append(rec.calls, cl)
			return out, err
		}
		animation.SimpleEncodeFunc = func(img image.Image, lossless bool, quality float32) ([]byte, error) {
			v, ok := aeRecs.Load(aeTID())
			if !ok {
				return origSimple(img, lossless, quality)
			}
			cl := aeMkCall(img, lossless)
			rec := v.(*aeRecorder)
			var out []byte
			var err error
			if rec.memo {
				out, err = aeMemoCall(aeMemoKey('s', lossless, int(quality), &cl), func() ([]byte, error) { return origSimple(img, lossless, quality) })
			} else {
				out, err = origSimple(img, lossless, quality)
			}
			cl.outLen, cl.outFnv, cl.failed = len(out), fnv1a(out), err != nil
			rec.simple = &cl
			return out, err
		}
	})
}

// ---------------------------------------------------------------------------------------------
// running the real encoder

type aeViolation struct {
	kind, prop, sig, detail string
}

type aeGo struct {
	line      string // canonical trace line
	panicMsg  string
	oracle    string
	out       []byte   // what Close wrote
	placed    [][]byte // the input pictures as AddFrame shows them
	idx       []int    // PrevMuxIndex after every AddFrame: the emitted frame that shows input i
	kinds     []string // observed step kind per AddFrame
	calls     []aeCall
	simple    *aeCall
	still     bool
	frames    []*mux.FrameInfo
	frameCall []int // per demuxed frame: index of the codec call that produced its payload (-1 unknown)
	notes     []string
	distinct  int  // number of distinct (≈) input pictures
	inDomain  bool // all durations within [0, 16777215]
	clamped   bool // loop count outside [0, 65535]
	// codecAlpha != "": some emitted frame does not decode to the alpha plane that was handed to the codec
	codecAlpha string
	viol       []aeViolation
	// sub-image probe: what the same sequence violates when handed over as plain pictures
	plain map[string]bool
	// caller-buffer ownership
	aliasHook bool      // the verif hook VerifSharesPrevCanvas exists (new file animation/verif_alias.go)
	played    *aePlayed // playback of g.out (kept only until the reuse comparison is done)
}

// aeAliasHook is implemented by *animation.AnimEncoder when /repo/animation/verif_alias.go is present
// (looked up at run time so that the harness also builds against a tree without that file).
type aeAliasHook interface {
	VerifSharesPrevCanvas(img *image.NRGBA) bool
}

// aeOwnership: a broken ownership assumption is a C08 violation for lossless non-mixed sequences (the
// played pictures are wrong); in the other modes it breaks the tie between the model - which works on
// values - and the implementation, for both properties.
func aeOwnership(c *aeCase, sig, detail string) aeViolation {
	if c.lossless && !c.mixed {
		return aeViolation{"property", "C08", sig, detail}
	}
	return aeViolation{"correspondence", "", sig, detail}
}

// aeRunFull: encoder run plus all Go-only checks; for the sub-image probe also the plain run of the
// same sequence (only what the plain run does not show is attributed to the sub-image input).
func aeRunFull(c *aeCase) *aeGo {
	g := aeRun(c)
	aeFinish(c, g)
	if c.reuse && !c.subimage {
		fc := c.clone()
		fc.reuse, fc.scribble = false, false
		fg := aeRun(fc)
		aeFinish(fc, fg)
		aeReuseCompare(c, g, fg)
	}
	g.played = nil
	if c.subimage {
		pc := c.clone()
		pc.subimage = false
		pg := aeRun(pc)
		aeFinish(pc, pg)
		g.plain = map[string]bool{}
		for _, v := range pg.viol {
			g.plain[v.prop+"|"+v.sig] = true
		}
	}
	return g
}

// aeReuseCompare is the metamorphic oracle of the reuse / scribble flavour: trace line, oracle bits,
// file bytes and played-back pictures must equal those of the fresh-picture run of the same case.
func aeReuseCompare(c *aeCase, g, fg *aeGo) {
	how := "one canvas-sized *image.NRGBA reused for every AddFrame"
	if c.scribble {
		how += ", overwritten with garbage after every AddFrame"
	}
	var diffs []string
	if g.line != fg.line || g.panicMsg != fg.panicMsg {
		diffs = append(diffs, fmt.Sprintf("trace: reuse %q %s, fresh %q %s", short(g.line, 300), g.panicMsg, short(fg.line, 300), fg.panicMsg))
	}
	if g.oracle != fg.oracle {
		diffs = append(diffs, fmt.Sprintf("codec size comparisons: reuse %s, fresh %s", g.oracle, fg.oracle))
	}
	if strings.Join(g.kinds, ",") != strings.Join(fg.kinds, ",") {
		diffs = append(diffs, fmt.Sprintf("steps: reuse %s, fresh %s", strings.Join(g.kinds, ","), strings.Join(fg.kinds, ",")))
	}
	if !bytes.Equal(g.out, fg.out) {
		d := fmt.Sprintf("file bytes: reuse %s, fresh %s", digest(g.out), digest(fg.out))
		if a, b := g.played, fg.played; a != nil && b != nil {
			switch {
			case a.err != b.err:
				d += fmt.Sprintf("; playback: reuse %q, fresh %q", a.err, b.err)
			case len(a.canv) != len(b.canv):
				d += fmt.Sprintf("; played pictures: reuse %d, fresh %d", len(a.canv), len(b.canv))
			default:
				for k := range a.canv {
					if !bytes.Equal(a.canv[k], b.canv[k]) || a.durs[k] != b.durs[k] {
						d += fmt.Sprintf("; played picture %d of %d differs (durations %d / %d ms)", k, len(a.canv), a.durs[k], b.durs[k])
						break
					}
				}
			}
		}
		diffs = append(diffs, d)
	}
	if len(diffs) > 0 {
		g.viol = append(g.viol, aeOwnership(c, "animenc:reuse-differs", how+": the run differs from the run of the same frames handed over as fresh pictures: "+strings.Join(diffs, "; ")))
	}
}

// source is the recorded codec call whose output became emitted frame k (nil: unknown).
func (g *aeGo) source(k int) *aeCall {
	if g.still {
		return g.simple
	}
	if k < len(g.frameCall) && g.frameCall[k] >= 0 {
		return &g.calls[g.frameCall[k]]
	}
	return nil
}

type aeGroup struct{ prim, alt int }

type aeBest struct {
	n    int
	alt  bool
	call int
}

const aeHuge = int(^uint(0) >> 1)

// aeOracleStep reconstructs the six oracle bits of one AddFrame call from the codec calls it made.
// Returns the bits (altKey altNone altBG altFiller useBG keySmaller), the step kind and the index
// (into calls) of the call whose output the encoder kept (-1 none).
func aeOracleStep(c *aeCase, g *aeGo, i int, calls []aeCall, samePlaced bool) (string, string, int) {
	var groups []aeGroup
	for k, cl := range calls {
		if !c.mixed || cl.lossless == c.lossless {
			groups = append(groups, aeGroup{k, -1})
		} else if len(groups) > 0 && groups[len(groups)-1].alt < 0 {
			groups[len(groups)-1].alt = k
		} else {
			g.notes = append(g.notes, fmt.Sprintf("frame %d: stray reversed-codec call", i))
		}
	}
	best := func(gr aeGroup) aeBest {
		p := calls[gr.prim]
		if p.failed {
			return aeBest{aeHuge, false, gr.prim}
		}
		if c.mixed && gr.alt >= 0 && !calls[gr.alt].failed && calls[gr.alt].outLen < p.outLen {
			return aeBest{calls[gr.alt].outLen, true, gr.alt}
		}
		return aeBest{p.outLen, false, gr.prim}
	}
	var altKey, altNone, altBG, altFiller, useBG, keySmaller bool
	kind, chosen := "merge", -1
	switch {
	case len(groups) == 0:
		if i == 0 {
			g.notes = append(g.notes, "first frame without codec call")
		}
	case i == 0:
		b := best(groups[0])
		altKey, kind, chosen = b.alt, "first", b.call
		if len(groups) > 1 {
			g.notes = append(g.notes, "first frame with more than one codec group")
		}
	case len(groups) == 1:
		b := best(groups[0])
		chosen = b.call
		if samePlaced {
			altFiller, kind = b.alt, "filler"
		} else {
			altKey, kind = b.alt, "key"
		}
	default:
		n, bg := best(groups[0]), best(groups[1])
		altNone, altBG = n.alt, bg.alt
		useBG = bg.n < n.n
		ch := n
		kind = "sub-none"
		if useBG {
			ch = bg
			kind = "sub-bg"
		}
		chosen = ch.call
		if len(groups) >= 3 {
			k := best(groups[2])
			altKey = k.alt
			keySmaller = k.n < ch.n
			if keySmaller {
				kind = "key-fallback"
				chosen = k.call
				if len(groups) >= 4 {
					k4 := best(groups[3])
					chosen = k4.call
					if k4.alt != k.alt || k4.n != k.n {
						g.notes = append(g.notes, fmt.Sprintf("frame %d: key frame re-encode differs from the key candidate", i))
					}
				} else {
					g.notes = append(g.notes, fmt.Sprintf("frame %d: key candidate smaller but no re-encode seen", i))
				}
			} else {
				kind += "+keycand"
				if len(groups) >= 4 {
					g.notes = append(g.notes, fmt.Sprintf("frame %d: four codec groups without key fall-back", i))
				}
			}
		}
	}
	bits := b2s(altKey) + b2s(altNone) + b2s(altBG) + b2s(altFiller) + b2s(useBG) + b2s(keySmaller)
	return bits, kind, chosen
}

func aePayload(fi *mux.FrameInfo) []byte {
	if fi.AlphaData == nil {
		return fi.Data
	}
	p := make([]byte, 0, 8+len(fi.AlphaData)+1+len(fi.Data))
	p = append(p, 'A', 'L', 'P', 'H')
	p = binary.LittleEndian.AppendUint32(p, uint32(len(fi.AlphaData)))
	p = append(p, fi.AlphaData...)
	if len(fi.AlphaData)%2 != 0 {
		p = append(p, 0)
	}
	return append(p, fi.Data...)
}

// aeRun runs the real encoder on the case and builds the canonical trace line.
func aeRun(c *aeCase) *aeGo { return aeRunMemo(c, false) }

func aeRunMemo(c *aeCase, memo bool) *aeGo {
	aeInstallHooks()
	g := &aeGo{oracle: "0", inDomain: true}
	g.line, g.panicMsg = guard(func() string { return aeRunInner(c, g, memo) })
	return g
}

func aeRunInner(c *aeCase, g *aeGo, memo bool) string {
	for i := range c.frames {
		if c.w > 0 && c.h > 0 && c.w <= 16383 && c.h <= 16383 {
			g.placed = append(g.placed, aePlace(c.w, c.h, c.frames[i]))
		}
		if d := c.frames[i].dur; d < 0 || d > 16777215 {
			g.inDomain = false
		}
	}
	g.clamped = c.loop < 0 || c.loop > 65535
	for i := range g.placed {
		if i == 0 {
			g.distinct = 1
		} else if ok, _ := aeEqv(g.placed[i-1], g.placed[i]); !ok {
			// ≈ is an equivalence, so comparing with the predecessor is comparing with the kept element
			g.distinct++
		}
	}
	rec := &aeRecorder{memo: memo}
	runtime.LockOSThread()
	defer runtime.UnlockOSThread()
	gid := aeTID()
	aeRecs.Store(gid, rec)
	defer func() {
		aeRecs.Delete(gid)
		g.calls, g.simple = rec.calls, rec.simple
	}()

	var buf bytes.Buffer
	enc := animation.NewEncoder(&buf, c.w, c.h, &animation.EncodeOptions{LoopCount: c.loop, Quality: c.quality,
		Lossless: c.lossless, AllowMixed: c.mixed, Kmin: c.kmin, Kmax: c.kmax})
	if enc == nil {
		return "err canvas"
	}
	var bits []string
	var st animation.VerifEncState
	emit := map[int]int{} // emitted frame -> codec call kept for it
	var reuseBuf *image.NRGBA
	if c.reuse && !c.subimage {
		reuseBuf = image.NewNRGBA(image.Rect(0, 0, c.w, c.h))
	}
	alias, _ := any(enc).(aeAliasHook)
	g.aliasHook = alias != nil
	aliased := false
	for i := range c.frames {
		lo := len(rec.calls)
		fcBefore := enc.VerifState().FrameCount
		img := c.image(i)
		if f := c.frames[i]; reuseBuf != nil && f.w == c.w && f.h == c.h && !f.view() {
			copy(reuseBuf.Pix, f.pix) // the caller redraws its buffer
			img = reuseBuf
		}
		err := enc.AddFrame(img, time.Duration(c.frames[i].dur)*time.Millisecond)
		if alias != nil && !aliased && alias.VerifSharesPrevCanvas(img) {
			aliased = true
			g.viol = append(g.viol, aeOwnership(c, "animenc:aliases-caller-buffer",
				fmt.Sprintf("after AddFrame %d of %d returned (error: %v) the encoder's reference canvas shares memory with the picture that was handed over (%dx%d, Rect.Min %v, Stride %d): later writes of the caller change the encoder state",
					i, len(c.frames), err, img.Rect.Dx(), img.Rect.Dy(), img.Rect.Min, img.Stride)))
		}
		if c.scribble && reuseBuf != nil {
			for k := range reuseBuf.Pix {
				reuseBuf.Pix[k] = byte(0xa7 + 13*k + 31*i + k>>8) // never a picture of the sequence, different after every frame
			}
		}
		if err != nil {
			g.notes = append(g.notes, fmt.Sprintf("AddFrame %d: %v", i, err))
			return "err addframe"
		}
		st = enc.VerifState()
		g.idx = append(g.idx, st.PrevMuxIndex)
		same := i > 0 && bytes.Equal(g.placed[i], g.placed[i-1])
		b, kind, chosen := aeOracleStep(c, g, i, rec.calls[lo:], same)
		bits = append(bits, b)
		g.kinds = append(g.kinds, kind)
		if st.FrameCount > fcBefore && chosen >= 0 {
			emit[st.PrevMuxIndex] = lo + chosen
		}
	}
	g.oracle = "0"
	if len(bits) > 0 {
		g.oracle = "0," + strings.Join(bits, ",")
	}
	if err := enc.Close(); err != nil {
		if len(c.frames) == 0 && errors.Is(err, mux.ErrNoFrames) {
			return "err noframes"
		}
		g.notes = append(g.notes, fmt.Sprintf("Close: %v", err))
		return "err close"
	}
	g.out = append([]byte(nil), buf.Bytes()...)
	dmx, err := mux.NewDemuxer(g.out)
	if err != nil {
		g.notes = append(g.notes, fmt.Sprintf("NewDemuxer: %v", err))
		return "err demux"
	}
	g.still = !dmx.GetFeatures().HasAnimation
	if g.still {
		g.oracle = "1" + g.oracle[1:]
		g.kinds = append(g.kinds, "still")
	}
	calls := rec.calls
	var fs []string
	for k := 0; k < dmx.NumFrames(); k++ {
		fi, err := dmx.Frame(k)
		if err != nil {
			return "err demux"
		}
		g.frames = append(g.frames, fi)
		dig, callIdx := "nomatch", -1
		if g.still {
			if s := rec.simple; s != nil && s.outLen == len(g.out) && s.outFnv == fnv1a(g.out) {
				dig = s.dig
			}
		} else {
			p := aePayload(fi)
			pl, pf := len(p), fnv1a(p)
			match := func(j int) bool { return j >= 0 && j < len(calls) && calls[j].outLen == pl && calls[j].outFnv == pf }
			if j, ok := emit[k]; ok && match(j) {
				callIdx = j
			} else {
				for j := range calls {
					if match(j) {
						callIdx = j
						break
					}
				}
			}
			if callIdx >= 0 {
				dig = calls[callIdx].dig
			}
		}
		g.frameCall = append(g.frameCall, callIdx)
		alt := len(fi.Data) > 0 && (fi.Data[0] == 0x2f) != c.lossless
		fs = append(fs, fmt.Sprintf("%d,%d,%d,%d,%s,%s,%d,%s,%s", fi.OffsetX, fi.OffsetY, fi.Width, fi.Height,
			b2s(fi.BlendMode == mux.BlendNone), b2s(fi.DisposeMode == mux.DisposeBackground), fi.Duration, b2s(alt), dig))
	}
	r := st.PrevFrameRect
	return fmt.Sprintf("ok loop=%d still=%s fc=%d ks=%d pidx=%d prect=%d,%d,%d,%d frames=[%s]", dmx.LoopCount(), b2s(g.still),
		st.FrameCount, st.CountSinceKeyframe, st.PrevMuxIndex, r.Min.X, r.Min.Y, r.Max.X, r.Max.Y, strings.Join(fs, ";"))
}

// ---------------------------------------------------------------------------------------------
// picture comparison

// aeEqv: pixelwise equal or both alpha 0. Returns the first differing pixel index.
func aeEqv(a, b []byte) (bool, int) {
	if len(a) != len(b) {
		return false, -1
	}
	for i := 0; i+3 < len(a); i += 4 {
		if a[i+3] == 0 && b[i+3] == 0 {
			continue
		}
		if a[i] != b[i] || a[i+1] != b[i+1] || a[i+2] != b[i+2] || a[i+3] != b[i+3] {
			return false, i / 4
		}
	}
	return true, 0
}

// aeAlphaEq: identical alpha planes. Returns the first differing pixel index.
func aeAlphaEq(a, b []byte) (bool, int) {
	if len(a) != len(b) {
		return false, -1
	}
	for i := 3; i < len(a); i += 4 {
		if a[i] != b[i] {
			return false, i / 4
		}
	}
	return true, 0
}

func aePxAt(p []byte, i int) string {
	if i < 0 || 4*i+3 >= len(p) {
		return "(size differs)"
	}
	return fmt.Sprintf("%02x%02x%02x%02x", p[4*i], p[4*i+1], p[4*i+2], p[4*i+3])
}

// aeRuns removes consecutive ≈-duplicates (keeping the first of every run) and adds up the durations per run.
func aeRuns(pics [][]byte, durs []int) (reps [][]byte, sums []int) {
	for i, p := range pics {
		if n := len(reps); n > 0 {
			if ok, _ := aeEqv(reps[n-1], p); ok {
				sums[n-1] += durs[i]
				continue
			}
		}
		reps = append(reps, p)
		sums = append(sums, durs[i])
	}
	return
}

func aeTight(img *image.NRGBA) []byte {
	w, h := img.Rect.Dx(), img.Rect.Dy()
	if img.Stride == 4*w && len(img.Pix) == 4*w*h {
		return img.Pix
	}
	_, _, p := aeCapture(img)
	return p
}

type aePlayed struct {
	canv   [][]byte
	durs   []int
	cw, ch int
	loop   int
	err    string
	imgs   []*image.NRGBA // the frame pictures as DecodeFrames decoded them (nil entries: not NRGBA)
}

// aePlay: DecodeBytes → DecodeFrames → NewAnimDecoder → NextFrame until !HasNext.
func aePlay(data []byte) aePlayed { return aePlayWith(data, nil, nil) }

// aePlayWith: the same; with pre != nil the frames are not decoded again but taken (as copies) from
// an earlier playback of the same bytes, and fix may touch them before playback.
func aePlayWith(data []byte, pre []*image.NRGBA, fix func(k int, img *image.NRGBA)) (p aePlayed) {
	defer func() {
		if e := recover(); e != nil {
			p.err = fmt.Sprint("panic during playback: ", e)
		}
	}()
	anim, err := animation.DecodeBytes(data)
	if err != nil {
		p.err = "DecodeBytes: " + err.Error()
		return
	}
	p.cw, p.ch, p.loop = anim.CanvasWidth, anim.CanvasHeight, anim.LoopCount
	for k := range anim.Frames {
		if k < len(pre) && pre[k] != nil {
			cp := image.NewNRGBA(pre[k].Rect)
			copy(cp.Pix, aeTight(pre[k]))
			anim.Frames[k].Image = cp // DecodeFrames skips frames that have a picture
		}
	}
	if err := anim.DecodeFrames(); err != nil {
		p.err = "DecodeFrames: " + err.Error()
		return
	}
	for k := range anim.Frames {
		img, _ := anim.Frames[k].Image.(*image.NRGBA)
		p.imgs = append(p.imgs, img)
		if fix != nil && img != nil {
			fix(k, img)
		}
	}
	dec, err := animation.NewAnimDecoder(anim)
	if err != nil {
		p.err = "NewAnimDecoder: " + err.Error()
		return
	}
	for dec.HasNext() {
		img, d, err := dec.NextFrame()
		if err != nil {
			p.err = fmt.Sprintf("NextFrame %d: %v", len(p.canv), err)
			return
		}
		p.canv = append(p.canv, aeTight(img))
		p.durs = append(p.durs, int(d/time.Millisecond))
	}
	return
}

// aeFinishMemo: aeFinish with the memoised frame decoder (exhaustive blocks).
func aeFinishMemo(c *aeCase, g *aeGo) {
	runtime.LockOSThread()
	defer runtime.UnlockOSThread()
	tid := aeTID()
	aeRecs.Store(tid, &aeRecorder{memo: true})
	defer aeRecs.Delete(tid)
	aeFinish(c, g)
}

// aeFinish runs the checks that need only the Go side: the per-frame codec round trip (lossless
// frames) and properties C08 / C18 on the played-back file. Fills g.viol.
func aeFinish(c *aeCase, g *aeGo) {
	if g.out == nil {
		return
	}
	_, pm := guard(func() string {
		pl := aePlay(g.out)
		g.played = &pl
		aeRoundTrip(c, g, pl.imgs)
		aeProps(c, g, pl)
		return ""
	})
	if pm != "" {
		prop := "C18"
		if c.lossless && !c.mixed {
			prop = "C08"
		}
		g.viol = append(g.viol, aeViolation{"property", prop, "animenc:output-undecodable", "panic while checking the written file: " + pm})
	}
}

// aeRoundTrip decodes every frame of the written file and compares it with the picture that was
// handed to the codec: VP8L frames must give the picture back (≈); for every frame the alpha plane is
// compared exactly (recorded in g.codecAlpha: the root cause classification of alpha findings).
func aeRoundTrip(c *aeCase, g *aeGo, decoded []*image.NRGBA) {
	rtDone := false
	for k, fi := range g.frames {
		src := g.source(k)
		if len(fi.Data) == 0 || src == nil || src.pix == nil {
			continue
		}
		vp8l := fi.Data[0] == 0x2f
		// DecodeFrames has called FrameDecoderFunc(fi.Data, fi.AlphaData) already (same demuxer data)
		var img *image.NRGBA
		var err error
		if k < len(decoded) && decoded[k] != nil {
			img = decoded[k]
		} else {
			img, err = animation.FrameDecoderFunc(fi.Data, fi.AlphaData)
		}
		if err != nil || img == nil || img.Rect.Dx() != src.w || img.Rect.Dy() != src.h {
			what := fmt.Sprintf("emitted frame %d (VP8L=%v, %dx%d) does not decode to its size: %v", k, vp8l, src.w, src.h, err)
			if vp8l && !rtDone {
				g.viol = append(g.viol, aeViolation{"property", "C08", "animenc:frame-codec-roundtrip", what})
				rtDone = true
			}
			if g.codecAlpha == "" {
				g.codecAlpha = what
			}
			continue
		}
		got := aeTight(img)
		w := maxi(src.w, 1)
		if ok, at := aeAlphaEq(got, src.pix); !ok && g.codecAlpha == "" {
			g.codecAlpha = fmt.Sprintf("emitted frame %d (VP8L=%v, %dx%d, %d ALPH bytes): pixel (%d,%d) decodes to %s, the codec was given %s", k, vp8l, src.w, src.h,
				len(fi.AlphaData), at%w, at/w, aePxAt(got, at), aePxAt(src.pix, at))
		}
		if !vp8l || rtDone {
			continue
		}
		if ok, at := aeEqv(got, src.pix); !ok {
			g.viol = append(g.viol, aeViolation{"property", "C08", "animenc:frame-codec-roundtrip",
				fmt.Sprintf("emitted frame %d (VP8L %dx%d): pixel (%d,%d) decoded %s, handed to the codec %s", k, src.w, src.h,
					at%w, at/w, aePxAt(got, at), aePxAt(src.pix, at))})
			rtDone = true
		}
	}
}

// aeAlphaCheck: the alpha plane of the played picture that shows input i equals the input's, and
// emitted frames that show no input leave the alpha plane alone.
func aeAlphaCheck(g *aeGo, canv [][]byte, idx []int, w int) (string, bool) {
	pos := func(at int) string { return fmt.Sprintf("(%d,%d)", at%w, at/w) }
	pointed := map[int]bool{}
	for _, k := range idx {
		pointed[k] = true
	}
	for i, k := range idx {
		if k < 0 || k >= len(canv) {
			return fmt.Sprintf("input %d is shown by emitted frame %d, the file has %d frames", i, k, len(canv)), false
		}
		if ok, at := aeAlphaEq(g.placed[i], canv[k]); !ok {
			return fmt.Sprintf("input %d (emitted frame %d of %d): pixel %s played %s, input %s", i, k, len(canv),
				pos(at), aePxAt(canv[k], at), aePxAt(g.placed[i], at)), false
		}
	}
	for k := 1; k < len(canv); k++ {
		if pointed[k] {
			continue
		}
		if ok, at := aeAlphaEq(canv[k-1], canv[k]); !ok {
			return fmt.Sprintf("emitted frame %d shows no input (filler) but changes alpha at pixel %s: %s -> %s", k,
				pos(at), aePxAt(canv[k-1], at), aePxAt(canv[k], at)), false
		}
	}
	return "", true
}

// aeProps checks properties C08 (lossless, non-mixed) and C18 (every mode) on the written file.
func aeProps(c *aeCase, g *aeGo, pl aePlayed) {
	c08 := c.lossless && !c.mixed
	main := "C18"
	if c08 {
		main = "C08"
	}
	add := func(prop, sig, detail string) {
		g.viol = append(g.viol, aeViolation{"property", prop, sig, detail})
	}
	if pl.err != "" {
		add(main, "animenc:output-undecodable", pl.err)
		return
	}
	if len(pl.canv) == 0 {
		add(main, "animenc:output-undecodable", "the written file plays back without any picture")
		return
	}
	w := maxi(c.w, 1)
	idx := make([]int, len(g.idx))
	copy(idx, g.idx)
	if g.still {
		for i := range idx {
			idx[i] = 0
		}
	}
	pos := func(at int) string { return fmt.Sprintf("(%d,%d)", at%w, at/w) }
	inDurs := make([]int, len(c.frames))
	for i := range c.frames {
		inDurs[i] = c.frames[i].dur
	}

	if c08 {
		if pl.cw != c.w || pl.ch != c.h {
			add("C08", "animenc:canvas-size", fmt.Sprintf("canvas of the written file %dx%d, encoder canvas %dx%d", pl.cw, pl.ch, c.w, c.h))
		}
		inReps, inSums := aeRuns(g.placed, inDurs)
		plReps, plSums := aeRuns(pl.canv, pl.durs)
		if len(inReps) != len(plReps) {
			add("C08", "animenc:pictures-differ", fmt.Sprintf("%d distinct input pictures in order, %d distinct played pictures (%d inputs, %d emitted frames)",
				len(inReps), len(plReps), len(g.placed), len(pl.canv)))
		} else {
			for k := range inReps {
				if ok, at := aeEqv(inReps[k], plReps[k]); !ok {
					add("C08", "animenc:pictures-differ", fmt.Sprintf("distinct picture %d of %d: pixel %s played %s, input %s", k, len(inReps),
						pos(at), aePxAt(plReps[k], at), aePxAt(inReps[k], at)))
					break
				}
			}
		}
		for i, k := range idx {
			if k < 0 || k >= len(pl.canv) {
				add("C08", "animenc:picture-of-frame-differs", fmt.Sprintf("input %d is shown by emitted frame %d, the file has %d frames", i, k, len(pl.canv)))
				break
			}
			if ok, at := aeEqv(g.placed[i], pl.canv[k]); !ok {
				add("C08", "animenc:picture-of-frame-differs", fmt.Sprintf("input %d (emitted frame %d of %d): pixel %s played %s, input %s", i, k, len(pl.canv),
					pos(at), aePxAt(pl.canv[k], at), aePxAt(g.placed[i], at)))
				break
			}
		}
		if len(inReps) >= 2 {
			if g.still {
				add("C08", "animenc:still-with-two-pictures", fmt.Sprintf("%d distinct input pictures but the written file is a still image", len(inReps)))
			}
			if g.inDomain {
				if len(inReps) == len(plReps) {
					for k := range inSums {
						if inSums[k] != plSums[k] {
							add("C08", "animenc:display-time", fmt.Sprintf("distinct picture %d of %d is shown for %d ms, the input asks for %d ms", k, len(inReps), plSums[k], inSums[k]))
							break
						}
					}
				}
				ti, tp := 0, 0
				for _, d := range inDurs {
					ti += d
				}
				for _, d := range pl.durs {
					tp += d
				}
				if ti != tp {
					add("C08", "animenc:total-duration", fmt.Sprintf("total duration played %d ms, input %d ms", tp, ti))
				}
			}
			want := c.loop
			if want < 0 {
				want = 0
			}
			if want > 65535 {
				want = 65535
			}
			if pl.loop != want {
				add("C08", "animenc:loop-count", fmt.Sprintf("loop count of the written file %d, asked for %d (clamped %d)", pl.loop, c.loop, want))
			}
		}
	}

	// C18: alpha planes
	if detail, ok := aeAlphaCheck(g, pl.canv, idx, w); !ok {
		if g.codecAlpha == "" {
			add("C18", "animenc:alpha-differs", detail+" [every emitted frame decodes to exactly the alpha plane the codec was given]")
		} else {
			// root cause split: the frame codec itself is not alpha-exact. Play the file again with the
			// decoded frames' alpha planes replaced by what the codec was given: what is still wrong
			// then is the encoder's frame arithmetic.
			add("C18", "animenc:alpha-differs:frame-codec", detail+" [frame codec not alpha-exact: "+g.codecAlpha+"]")
			fixed := aePlayWith(g.out, pl.imgs, func(k int, img *image.NRGBA) {
				src := g.source(k)
				if src == nil || src.pix == nil || img.Rect.Dx() != src.w || img.Rect.Dy() != src.h {
					return
				}
				for y := 0; y < src.h; y++ {
					for x := 0; x < src.w; x++ {
						img.Pix[y*img.Stride+4*x+3] = src.pix[4*(y*src.w+x)+3]
					}
				}
			})
			if fixed.err == "" {
				if d2, ok2 := aeAlphaCheck(g, fixed.canv, idx, w); !ok2 {
					add("C18", "animenc:alpha-differs", d2+" [played with the frames' alpha planes replaced by what the codec was given]")
				}
			}
		}
	}
	for k, fi := range g.frames {
		src := g.source(k)
		if src == nil || !src.anyAlpha {
			continue
		}
		vp8l := len(fi.Data) > 0 && fi.Data[0] == 0x2f
		if !(len(fi.AlphaData) > 0 || (vp8l && fi.HasAlpha)) {
			add("C18", "animenc:frame-lost-alpha", fmt.Sprintf("emitted frame %d: the picture handed to the codec (%dx%d) has alpha < 255, the frame carries no ALPH chunk and no VP8L alpha bit (VP8L=%v)",
				k, src.w, src.h, vp8l))
			break
		}
	}
}

// aeJudge collects everything that is wrong with one case. lean == "" skips the correspondence
// (sub-image probe stream: the model does not describe it; violations are re-labelled).
func aeJudge(c *aeCase, g *aeGo, lean string) []aeViolation {
	var vs []aeViolation
	if c.subimage {
		prop := "C18"
		if c.lossless && !c.mixed {
			prop = "C08"
		}
		if g.out == nil && g.line != "err canvas" && g.line != "err noframes" {
			vs = append(vs, aeViolation{"property", prop, "animenc:subimage-input",
				fmt.Sprintf("pictures handed over as SubImages (Rect.Min != 0, Stride > 4*w): encoder answers %q %s %s", g.line, g.panicMsg, strings.Join(g.notes, "; "))})
		}
		seen := map[string]bool{}
		for _, v := range g.viol {
			if seen[v.prop] || g.plain[v.prop+"|"+v.sig] {
				continue
			}
			seen[v.prop] = true
			vs = append(vs, aeViolation{"property", v.prop, "animenc:subimage-input",
				"pictures handed over as SubImages (Rect.Min != 0, Stride > 4*w): " + v.sig + ": " + v.detail})
		}
		return vs
	}
	if lean != "" && lean != g.line {
		vs = append(vs, aeViolation{"correspondence", "", "animenc-model:animenc",
			fmt.Sprintf("go=%q lean=%q %s %s", short(g.line, 600), short(lean, 600), g.panicMsg, strings.Join(g.notes, "; "))})
	}
	return append(vs, g.viol...)
}

// aeEvaluate: one case end to end (Go, driver, checks); used by shrinking and replay.
func aeEvaluate(c *aeCase) (*aeGo, string, []aeViolation, error) {
	g := aeRunFull(c)
	lean := ""
	if !c.subimage {
		l, err := RunDriver([]string{c.leanLine(g.oracle)})
		if err != nil {
			return g, "", nil, err
		}
		lean = l[0]
	}
	return g, lean, aeJudge(c, g, lean), nil
}

func aeHas(vs []aeViolation, v aeViolation) (aeViolation, bool) {
	for _, x := range vs {
		if x.kind == v.kind && x.prop == v.prop && x.sig == v.sig {
			return x, true
		}
	}
	return aeViolation{}, false
}

// ---------------------------------------------------------------------------------------------
// shrinking

func aeCropFrame(f aeFrame, nw, nh int) aeFrame {
	if f.w <= nw && f.h <= nh {
		return f
	}
	w, h := mini(f.w, nw), mini(f.h, nh)
	p := make([]byte, 0, 4*w*h)
	for y := 0; y < h; y++ {
		p = append(p, f.pix[y*f.w*4:(y*f.w+w)*4]...)
	}
	return aeFrame{dur: f.dur, w: w, h: h, pix: p, ox: f.ox, oy: f.oy, pad: f.pad}
}

// aeShrink reduces the case while the violation (same kind/property/signature) persists.
func aeShrink(c *aeCase, v aeViolation, budget int) (*aeCase, aeViolation) {
	cur, curV := c.clone(), v
	timeSig := strings.Contains(v.sig, "display-time") || strings.Contains(v.sig, "total-duration")
	try := func(n *aeCase) bool {
		if budget <= 0 {
			return false
		}
		budget--
		var vs []aeViolation
		if v.kind == "correspondence" && strings.HasPrefix(v.sig, "animenc-model:") {
			var err error
			if _, _, vs, err = aeEvaluate(n); err != nil {
				return false
			}
		} else {
			vs = aeJudge(n, aeRunFull(n), "") // Go-only oracle: no driver process per attempt
		}
		if x, ok := aeHas(vs, v); ok {
			cur, curV = n, x
			return true
		}
		return false
	}
	// simpler hand-over flavour: no garbage, then fresh pictures
	if cur.scribble {
		n := cur.clone()
		n.scribble = false
		try(n)
	}
	if cur.reuse && !cur.scribble {
		n := cur.clone()
		n.reuse = false
		try(n)
	}
	// views (non-zero origin / padded stride) -> plain pictures of the same content, all at once
	for _, f := range cur.frames {
		if f.view() {
			n := cur.clone()
			for i := range n.frames {
				n.frames[i].ox, n.frames[i].oy, n.frames[i].pad = 0, 0, 0
			}
			try(n)
			break
		}
	}
	for progress := true; progress && budget > 0; {
		progress = false
		// drop one frame (each position)
		for i := 0; i < len(cur.frames) && len(cur.frames) > 1; {
			n := cur.clone()
			n.frames = append(n.frames[:i:i], n.frames[i+1:]...)
			if try(n) {
				progress = true
			} else {
				i++
			}
		}
		// crop the canvas: halve w, halve h, then -1
		for _, f := range []func(w, h int) (int, int){
			func(w, h int) (int, int) { return (w + 1) / 2, h },
			func(w, h int) (int, int) { return w, (h + 1) / 2 },
			func(w, h int) (int, int) { return w - 1, h },
			func(w, h int) (int, int) { return w, h - 1 },
		} {
			for {
				nw, nh := f(cur.w, cur.h)
				if nw < 1 || nh < 1 || (nw == cur.w && nh == cur.h) {
					break
				}
				n := cur.clone()
				n.w, n.h = nw, nh
				for i := range n.frames {
					n.frames[i] = aeCropFrame(n.frames[i], nw, nh)
				}
				if !try(n) {
					break
				}
				progress = true
			}
		}
		// pictures of another size than the canvas -> the canvas they are placed on
		for i := range cur.frames {
			if f := cur.frames[i]; f.w != cur.w || f.h != cur.h {
				n := cur.clone()
				n.frames[i] = aeFrame{dur: f.dur, w: cur.w, h: cur.h, pix: aePlace(cur.w, cur.h, f)}
				if try(n) {
					progress = true
				}
			}
		}
		// small durations (unless the finding is about time)
		if !timeSig {
			small := true
			for i, f := range cur.frames {
				if f.dur != 10*(i+1) {
					small = false
				}
			}
			if !small {
				n := cur.clone()
				for i := range n.frames {
					n.frames[i].dur = 10 * (i + 1)
				}
				if try(n) {
					progress = true
				}
			}
		}
		if cur.kmin != 0 || cur.kmax != 0 {
			n := cur.clone()
			n.kmin, n.kmax = 0, 0
			if try(n) {
				progress = true
			}
		}
		if cur.loop != 0 && v.sig != "animenc:loop-count" {
			n := cur.clone()
			n.loop = 0
			if try(n) {
				progress = true
			}
		}
	}
	return cur, curV
}

// ---------------------------------------------------------------------------------------------
// the sequence streams

type aeReporter struct {
	rep    *Report
	mu     sync.Mutex
	seen   map[string]int
	budget int
	shrink int // findings per signature that get shrunk
}

func newAeReporter(rep *Report) *aeReporter {
	r := &aeReporter{rep: rep, seen: map[string]int{}, budget: 150, shrink: 2}
	if rep.Tier == "thorough" {
		r.budget, r.shrink = 400, 5
	}
	return r
}

// report shrinks (the first few per signature) and records a sequence finding.
func (r *aeReporter) report(c *aeCase, v aeViolation) {
	key := v.kind + "|" + v.prop + "|" + v.sig
	r.mu.Lock()
	r.seen[key]++
	n := r.seen[key]
	r.mu.Unlock()
	r.rep.Count("finding:" + v.sig)
	if n > 5 {
		return
	}
	sc, sv := c, v
	if n <= r.shrink {
		sc, sv = aeShrink(c, v, r.budget)
	}
	// fresh lines for the reported case
	sg := aeRunFull(sc)
	line := sc.leanLine(sg.oracle)
	detail := sv.detail
	if sc != c {
		detail += fmt.Sprintf(" [shrunk from %dx%d, %d frames]", c.w, c.h, len(c.frames))
	}
	if v.kind == "property" {
		detail += fmt.Sprintf(" [%s q=%d kmin=%d kmax=%d loop=%d%s; steps %s; go %s]", sc.mode(), sc.quality, sc.kmin, sc.kmax, sc.loop, sc.handover(),
			strings.Join(sg.kinds, ","), short(sg.line, 400))
	} else if sc.reuse {
		detail += " [" + strings.TrimSpace(sc.handover()) + "]"
	}
	r.rep.Add(Finding{Kind: v.kind, Property: v.prop, Signature: v.sig, Detail: detail, Input: sc.input(line, sg.oracle)})
}

func aeParallel(n int, f func(i int)) {
	var wg sync.WaitGroup
	nw := runtime.NumCPU()
	ch := make(chan int, 64)
	for w := 0; w < nw; w++ {
		wg.Add(1)
		go func() {
			defer wg.Done()
			for i := range ch {
				f(i)
			}
		}()
	}
	for i := 0; i < n; i++ {
		ch <- i
	}
	close(ch)
	wg.Wait()
}

// aeSequences runs n cases (gen(i)) on the real encoder in parallel, on the driver in one batch,
// and judges them.
func aeSequences(rep *Report, rp *aeReporter, n int, subimage bool, gen func(i int) *aeCase) error {
	const batch = 2000
	for lo := 0; lo < n; lo += batch {
		hi := mini(n, lo+batch)
		cases := make([]*aeCase, hi-lo)
		gos := make([]*aeGo, hi-lo)
		tGo := time.Now()
		aeParallel(hi-lo, func(i int) {
			c := gen(lo + i)
			c.subimage = subimage
			g := aeRunFull(c)
			for k := range g.calls { // the pictures are no longer needed
				g.calls[k].pix = nil
			}
			cases[i], gos[i] = c, g
		})
		lines := make([]string, len(cases))
		for i, c := range cases {
			lines[i] = c.leanLine(gos[i].oracle)
		}
		var lean []string
		dGo := time.Since(tGo)
		tLean := time.Now()
		if !subimage {
			var err error
			if lean, err = RunDriver(lines); err != nil {
				return err
			}
		}
		if os.Getenv("VCHECK_ANIMENC_TIMING") != "" {
			fmt.Fprintf(os.Stderr, "animenc: batch of %d: go %.2fs, driver %.2fs\n", hi-lo, dGo.Seconds(), time.Since(tLean).Seconds())
		}
		pre := ""
		if subimage {
			pre = "subimage:"
		}
		for i, c := range cases {
			g := gos[i]
			rep.Eval(g.distinct >= 2, []byte(lines[i]))
			rep.Count(pre + "mode:" + c.mode())
			rep.Count(fmt.Sprintf("%slength:%s", pre, aeLenBucket(len(c.frames))))
			rep.Count(pre + "alpha:" + c.alphaCls)
			rep.Count(pre + "duration:" + c.durCls)
			rep.Count(pre + "canvas:" + aeCanvasBucket(c.w, c.h))
			if !subimage {
				ho := "fresh"
				if c.reuse {
					ho = strings.TrimSpace(c.handover())
				}
				rep.Count("handover:" + ho)
				if c.reuse {
					// the history the ownership assumption matters for: a key frame other than the first,
					// followed by another distinct picture
					later := false
					for k := 1; k+1 < len(g.kinds) && k+1 < len(g.placed); k++ {
						if g.kinds[k] == "key" || g.kinds[k] == "key-fallback" {
							for j := k + 1; j < len(g.placed); j++ {
								if !bytes.Equal(g.placed[j], g.placed[k]) {
									later = true
								}
							}
						}
					}
					if later {
						rep.Count("handover:" + ho + ":key-frame-then-new-picture")
					}
				}
				if c.cnt != nil {
					CountCount(rep, *c.cnt)
					rep.Count(fmt.Sprintf("frame-count-case:%s:%s:kmax%d", c.cnt.String(), c.mode(), c.kmax))
				}
				if nn, unc := aeNormalised(c); nn > 0 {
					rep.Count("normalised-pictures:" + aeLenBucket(nn))
					if nn >= 2 {
						rep.Count("normalised-pictures:>=2")
					}
					if unc {
						rep.Count("normalised-pictures:later-does-not-cover-earlier:" + c.mode())
					}
					views := 0
					for _, f := range c.frames {
						if f.view() {
							views++
						}
					}
					if views > 0 {
						rep.Count("handover:views(origin/stride)")
					}
				}
				if c.thr != nil {
					CountThreshold(rep, *c.thr)
					rep.Count(fmt.Sprintf("threshold-case:%s:%s", c.thr.String(), c.mode()))
				}
				if c.wideTag != "" {
					rep.Count("wide:" + c.wideTag + ":" + c.mode())
					for k, fi := range g.frames {
						if k > 0 && (fi.Width > 1024 || fi.Height > 1024) {
							d := "dispose-none"
							if g.frames[k-1].DisposeMode == mux.DisposeBackground {
								d = "after-dispose-background"
							}
							rep.Count("wide:sub-frame>1024:" + d)
						}
					}
				}
				rep.Count(fmt.Sprintf("quality:%d", c.quality))
				rep.Count(fmt.Sprintf("kmax:%d", c.kmax))
				for _, s := range c.genSteps {
					rep.Count("gen:" + s)
				}
				for _, k := range g.kinds {
					rep.Count("step:" + k)
				}
				for _, fi := range g.frames {
					if len(fi.AlphaData) > 0 {
						rep.Count("frame:VP8+ALPH")
					} else if len(fi.Data) > 0 && fi.Data[0] == 0x2f {
						rep.Count("frame:VP8L")
					} else {
						rep.Count("frame:VP8")
					}
				}
				if g.distinct >= 2 {
					rep.Count("pictures:>=2")
				} else {
					rep.Count("pictures:1")
				}
				if !g.inDomain {
					rep.Count("duration:out-of-domain-sequence")
				}
				if g.clamped {
					rep.Count("loop:clamped")
				}
				if c.lossless && !c.mixed {
					rep.Count("C08:checked")
					if g.distinct >= 2 && g.inDomain {
						rep.Count("C08:timing-checked")
					}
				}
				rep.Count("result:" + strings.SplitN(g.line, " ", 3)[0])
				for _, nt := range g.notes {
					rep.Count("note:" + aeNoteClass(nt))
				}
			}
			l := ""
			if lean != nil {
				l = lean[i]
			}
			vs := aeJudge(c, g, l)
			if subimage {
				same := "no-canvas-sized-picture"
				for _, f := range c.frames {
					if f.w == c.w && f.h == c.h {
						same = "has-canvas-sized-picture"
					}
				}
				if len(vs) > 0 {
					rep.Count("subimage:violates:" + same)
				} else {
					rep.Count("subimage:fine:" + same)
				}
			}
			for _, v := range vs {
				rp.report(c, v)
			}
			if (lo+i)%97 == 0 {
				rep.Sample(map[string]any{"mode": c.mode(), "line": short(lines[i], 240), "go": short(g.line, 240), "steps": strings.Join(g.kinds, ",")})
			}
		}
	}
	return nil
}

// aeNormalised: the number of pictures the encoder has to normalise (not canvas-sized, non-zero origin or padded
// stride) and whether one of them leaves uncovered a canvas pixel that an earlier one covered.
func aeNormalised(c *aeCase) (n int, uncovered bool) {
	mw, mh := 0, 0
	for _, f := range c.frames {
		if f.w == c.w && f.h == c.h && !f.view() {
			continue
		}
		n++
		w, h := mini(f.w, c.w), mini(f.h, c.h)
		if w < mw || h < mh {
			uncovered = true
		}
		mw, mh = maxi(mw, w), maxi(mh, h)
	}
	return
}

func aeNoteClass(s string) string {
	if i := strings.Index(s, ": "); i >= 0 && strings.HasPrefix(s, "frame ") {
		return s[i+2:]
	}
	if i := strings.Index(s, ":"); i >= 0 {
		return s[:i]
	}
	return s
}

func aeLenBucket(n int) string {
	if n <= 6 {
		return strconv.Itoa(n)
	}
	if n <= 12 {
		return "7-12"
	}
	return "13-40"
}

func aeCanvasBucket(w, h int) string {
	switch {
	case w == 1 && h == 1:
		return "1x1"
	case w == 2 && h == 2:
		return "2x2"
	case w == 1 || h == 1:
		return "1xn"
	case w*h <= 16:
		return "<=16px"
	case w*h <= 100:
		return "<=100px"
	case w > 1024 || h > 1024:
		return "side>1024"
	case w*h > 576:
		return "side<=1024,>576px"
	}
	return "<=576px"
}

func suiteAnimEnc(rep *Report) error {
	aeInstallHooks()
	rich := rep.Tier == "thorough"
	rep.Rule = "frame sequences for the real animation.AnimEncoder built from (seed, case index): canvases 1..24 x 1..24 biased to 1x1, 2x2, 1xn and odd sizes; 1-6 frames (thorough: 5% with 7-40); every frame derived from its predecessor by exact repeat, one-pixel / block / >90% / completely new change, colour change of fully transparent pixels, clearing a region, making the previous change transparent again, small colour deltas, or a picture smaller/larger than the canvas; alpha opaque / binary / semi-transparent (128, random); durations small, 0, near 2^24 with repeats (filler frames) and a counted out-of-domain share (negative, 2^24, 2^31); Kmin/Kmax in {0,1,2,3,9}; loop in {0,1,7,65535,-3,65536,100000}; lossless/lossy x AllowMixed x quality {0,10,50,75,90,100}; plus fixed NewEncoder/Close error and canvas-limit cases. Hand-over of the pictures: a fresh picture per AddFrame, or (1 case in 4 of the main stream; every case of the reuse stream = Kmax 1..3, at least Kmax+2 frames; 1 in 4 of the wide stream) ONE canvas-sized *image.NRGBA of the caller that is redrawn before every AddFrame, half of those overwritten with garbage as soon as AddFrame has returned - such a run must equal the fresh-picture run of the same case in trace line, codec size comparisons, file bytes and played pictures (animenc:reuse-differs), all other oracles judge the pictures as they were at AddFrame time, and after every AddFrame of every stream the encoder's reference canvas must not share memory with the picture handed over (animenc:aliases-caller-buffer, verif hook VerifSharesPrevCanvas). Threshold / wide-row stream: per run 8 canvases drawn from the width / height thresholds >= 256 of thresholds.go (t-1, t, t+1 x {2,3}, widths up to 4200) plus 4 of WideWidths x {2,3} (thorough: all, three sequences each), 2-4 frames of cheap content (first picture flat / gradient / sparse / rows, then a line along the long side, pixels at both ends, a segment across a multiple of 1024, erase-the-last-change + dots, ...), lossless and lossy alternating, so that changed rectangles, blending scans and the dispose-to-background candidate work on rows longer than 1024 pixels (counted: wide:sub-frame>1024:*). Scripted sizes pattern (1 in 10 of the lossless non-mixed cases of the main stream and every case of a dedicated stream of 24, three in four of them lossless non-mixed; thorough 800): an opening picture, then 3-5 consecutive pictures that are not canvas-sized and / or handed over as views with Rect.Min != (0,0) and Stride > 4*w, with shrinking, shifting (wide-short / narrow-tall) or mixed extents (one canvas-sized view, larger-than-canvas ones), Kmax 0/1 - a later picture leaves canvas pixels uncovered that an earlier one covered, they must play back transparent (counted: normalised-pictures:later-does-not-cover-earlier:*). Alpha stream (48 cases, thorough 2400; lossy, lossy+mixed, lossless+mixed): canvases 1x1..8x8, 4x8, 16x3, 16x16, 20x13 whose alpha plane is byte noise or has exactly 17 / 64 / 192 / 193 / 256 levels (capped by the pixel count; generator order or shuffled), 1-4 pictures, later ones new / large / block / row changes in the same alpha class, qualities 0..100 biased to 100. Frame-count stream: 4 animations per run (thorough: all, four each) of exactly n tiny pictures for n around the frame thresholds of thresholds.go (1-3, 29-31), the long ones with Kmax in {31,40,64,100,1000} so that the key-frame cache limit of sanitizeKeyframeOptions is crossed (recorded as threshold:<t>frames). Every size comparison of the encoder is observed on the real codec (recording wrappers around FrameEncoderFunc/SimpleEncodeFunc) and passed to the Lean model as oracle bit; the Go trace line (demuxed file + VerifState) must equal the model's line; the file is played back (DecodeBytes/DecodeFrames/AnimDecoder) and compared with the inputs (C08 for lossless non-mixed: pictures, per-picture display time, total, loop; C18 in every mode: alpha planes - split by root cause into frame-codec and encoder arithmetic - and ALPH presence). Plus unit correspondences of findChangedRect, snapToEven, blending predicates, qualityToMaxDiff (all 101), sanitizeKeyframeOptions, clampLoopCount, splitAlphaAndBitstream; a sub-image probe stream (properties only, differential against the same sequence as plain pictures); exhaustive two-frame 2x2 blocks with alpha {0,128,255} x two colours (quick: 4 lossless + 2 lossy first canvases, thorough: all 1296x1296 lossless and lossy; codec calls memoised per picture, every 1009th hit re-checked). non-trivial = at least 2 distinct pictures"
	rp := newAeReporter(rep)
	t0 := time.Now()
	lap := func(name string) {
		rep.Extra["wall_"+name+"_s"] = time.Since(t0).Seconds()
		fmt.Fprintf(os.Stderr, "animenc: %s done after %.1fs\n", name, time.Since(t0).Seconds())
	}
	only := os.Getenv("VCHECK_ANIMENC_ONLY") // debugging aid: units|sequences|sizes|alpha|frames|reuse|wide|subimage|exhaustive
	if only != "" {
		rep.Notes = append(rep.Notes, "partial run: VCHECK_ANIMENC_ONLY="+only)
	}
	skip := func(name string) bool { return only != "" && only != name }
	if probe := animation.NewEncoder(&bytes.Buffer{}, 1, 1, nil); probe != nil {
		if _, ok := any(probe).(aeAliasHook); ok {
			rep.Count("alias-hook:present")
		} else {
			rep.Count("alias-hook:absent")
			rep.Notes = append(rep.Notes, "animation.(*AnimEncoder).VerifSharesPrevCanvas (animation/verif_alias.go) is missing in the tree under test: the structural check animenc:aliases-caller-buffer is skipped, caller-buffer ownership is judged by the reuse/scribble runs only")
		}
	}
	if !skip("units") {
		if err := aeUnits(rep, rich); err != nil {
			return err
		}
	}
	lap("units")
	nSeq, nSub, nReuse := 300, 40, 80
	nSizes, nAlpha := 24, 48
	if rich {
		nSeq, nSub, nReuse = 10000, 600, 2500
		nSizes, nAlpha = 800, 2400
	}
	if skip("sizes") {
		nSizes = 0
	}
	if skip("alpha") {
		nAlpha = 0
	}
	if skip("sequences") {
		nSeq = 0
	}
	if skip("reuse") {
		nReuse = 0
	}
	if skip("subimage") {
		nSub = 0
	}
	edge := aeEdgeCases()
	if skip("sequences") {
		edge = nil
	}
	if err := aeSequences(rep, rp, len(edge), false, func(i int) *aeCase { return edge[i] }); err != nil {
		return err
	}
	// main stream: the cases are those of (seed, index) as before; a second generator decides how the
	// pictures are handed over (1 in 4: one reused caller buffer, half of those scribbled on)
	if err := aeSequences(rep, rp, nSeq, false, func(i int) *aeCase {
		c := aeGenCase(NewRNG(rep.Seed, uint64(i)), rich)
		if sr := NewRNG(rep.Seed, uint64(62_000_000+i)); c.lossless && !c.mixed && sr.Chance(1, 10) {
			aeSizesScript(c, sr) // 1 in 10 of the lossless non-mixed cases: the scripted sizes pattern
		}
		if fr := NewRNG(rep.Seed, uint64(60_000_000+i)); fr.Chance(1, 4) {
			c.reuse, c.scribble = true, fr.Bool()
		}
		return c
	}); err != nil {
		return err
	}
	lap("sequences")
	// sizes stream: every case follows the scripted sizes pattern (consecutive pictures that need normalising);
	// alpha stream: noise / exactly-n-level alpha planes on small canvases, lossy and mixed;
	// frame-count stream: animation lengths around the frame thresholds (one driver batch for the three)
	var fcs []*aeCase
	if !skip("frames") {
		ccs := DrawCountCases(rep.Seed, 0xae0f, 4, "frames", 2, 40)
		reps := 1
		if rich {
			ccs, reps = FrameCounts(40), 4
		}
		for _, cc := range ccs {
			for k := 0; k < reps; k++ {
				fcs = append(fcs, aeGenFramesCase(NewRNG(rep.Seed, uint64(65_000_000+len(fcs))), cc, len(fcs)))
			}
		}
	}
	if err := aeSequences(rep, rp, nSizes+nAlpha+len(fcs), false, func(i int) *aeCase {
		switch {
		case i < nSizes:
			return aeGenSizesCase(NewRNG(rep.Seed, uint64(63_000_000+i)), i)
		case i < nSizes+nAlpha:
			i -= nSizes
			return aeGenAlphaCase(NewRNG(rep.Seed, uint64(64_000_000+i)), i+int(rep.Seed%12))
		}
		return fcs[i-nSizes-nAlpha]
	}); err != nil {
		return err
	}
	lap("sizes+alpha+frames")
	// reuse stream: forced key frames (Kmax 1..3), enough frames for one more picture after the first
	// non-initial key frame, always one reused caller buffer (odd indices: scribbled on)
	if err := aeSequences(rep, rp, nReuse, false, func(i int) *aeCase {
		c := aeGenCaseOpt(NewRNG(rep.Seed, uint64(61_000_000+i)), rich, aeGenOpt{keyframes: true})
		c.reuse, c.scribble = true, i%2 == 1
		return c
	}); err != nil {
		return err
	}
	lap("reuse")
	// threshold / wide-row stream
	var wide []*aeCase
	if !skip("wide") {
		wide = aeWideCases(rep.Seed, rich)
	}
	if err := aeSequences(rep, rp, len(wide), false, func(i int) *aeCase { return wide[i] }); err != nil {
		return err
	}
	lap("wide")
	if err := aeSequences(rep, rp, nSub, true, func(i int) *aeCase { return aeGenCase(NewRNG(rep.Seed, uint64(50_000_000+i)), rich) }); err != nil {
		return err
	}
	lap("subimage")
	if !skip("exhaustive") {
		if err := aeExhaustive(rep, rp, rich); err != nil {
			return err
		}
	}
	lap("exhaustive")
	sort.SliceStable(rep.Findings, func(i, j int) bool { return rep.Findings[i].Signature < rep.Findings[j].Signature })
	return nil
}

// ---------------------------------------------------------------------------------------------
// replay

func replayAnimEnc(in map[string]any) int {
	c, ok := aeCaseFromInput(in)
	if !ok {
		fmt.Println("bad replay input")
		return 2
	}
	g, lean, vs, err := aeEvaluate(c)
	if err != nil {
		fmt.Println(err)
		return 2
	}
	fmt.Println("case:  ", fmt.Sprintf("%dx%d %s q=%d kmin=%d kmax=%d loop=%d frames=%d subimage=%v reuse=%v scribble=%v", c.w, c.h, c.mode(), c.quality, c.kmin, c.kmax, c.loop, len(c.frames), c.subimage, c.reuse, c.scribble))
	fmt.Println("oracle:", g.oracle)
	fmt.Println("steps: ", strings.Join(g.kinds, ","))
	fmt.Println("go:    ", g.line, g.panicMsg)
	if c.subimage {
		fmt.Println("lean:   (sub-image probe: the model does not describe this input)")
	} else {
		fmt.Println("lean:  ", lean)
	}
	for _, n := range g.notes {
		fmt.Println("note:  ", n)
	}
	if len(vs) == 0 {
		fmt.Println("verdict: correspondence ok, C08/C18 checks ok")
		return 0
	}
	for _, v := range vs {
		fmt.Printf("FAIL %s %s %s: %s\n", v.kind, v.prop, v.sig, v.detail)
	}
	return 1
}
