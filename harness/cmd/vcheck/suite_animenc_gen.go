package main

import (
	"bytes"
	"encoding/binary"
	"fmt"
	"image"
	"math"
	"strconv"
	"strings"
	"sync"

	"github.com/deepteams/webp/animation"
	"github.com/deepteams/webp/mux"
)

// Generators, unit correspondences and the exhaustive blocks of suite "animenc".

// ---------------------------------------------------------------------------------------------
// sequence generator

type aeGen struct {
	r        *RNG
	w, h     int
	alphaCls int // 0 opaque, 1 binary, 2 semi-transparent 128, 3 semi-transparent random, 4 noise (every byte value), 5 one of lv
	pal      [][3]byte
	last     [4]int // region of the previous change
	lv       []byte // alphaCls 5: the alpha levels
}

var aeAlphaNames = []string{"opaque", "binary", "semi128", "semi-random", "noise", "levels"}

func (g *aeGen) colour() [3]byte {
	if g.pal != nil {
		return g.pal[g.r.Intn(len(g.pal))]
	}
	return [3]byte{byte(g.r.Next()), byte(g.r.Next()), byte(g.r.Next())}
}

func (g *aeGen) alpha() byte {
	switch g.alphaCls {
	case 0:
		return 255
	case 1:
		return []byte{0, 255, 255}[g.r.Intn(3)]
	case 2:
		return []byte{128, 128, 128, 255, 0}[g.r.Intn(5)]
	case 4:
		return byte(g.r.Next())
	case 5:
		return g.lv[g.r.Intn(len(g.lv))]
	}
	return []byte{byte(g.r.Next()), byte(g.r.Next()), 128, 255, 0, 1, 254}[g.r.Intn(7)]
}

func (g *aeGen) px() [4]byte {
	c := g.colour()
	return [4]byte{c[0], c[1], c[2], g.alpha()}
}

func (g *aeGen) picture(w, h int) []byte {
	p := make([]byte, 4*w*h)
	for i := 0; i < w*h; i++ {
		x := g.px()
		copy(p[4*i:], x[:])
	}
	return p
}

// set writes a pixel that differs from the current one.
func (g *aeGen) set(p []byte, x, y int, opaque bool) {
	o := 4 * (y*g.w + x)
	n := g.px()
	if opaque {
		n[3] = 255
	}
	if bytes.Equal(p[o:o+4], n[:]) {
		n[0] ^= 0x40
		if n[3] == 0 {
			n[3] = 255
		}
	}
	copy(p[o:], n[:])
}

func (g *aeGen) block() (x0, y0, x1, y1 int) {
	bw, bh := 1+g.r.Intn(maxi(1, g.w/3)), 1+g.r.Intn(maxi(1, g.h/3))
	x0, y0 = g.r.Intn(g.w-bw+1), g.r.Intn(g.h-bh+1)
	return x0, y0, x0 + bw, y0 + bh
}

var aeStepKinds = []string{
	"repeat", "repeat", "repeat", "repeat", "repeat",
	"one-pixel", "one-pixel", "one-pixel",
	"block", "block", "block",
	"large", "large",
	"new", "new",
	"transparent-colour", "transparent-colour",
	"clear-region", "clear-region",
	"re-transparent", "re-transparent", "re-transparent",
	"small-delta", "small-delta",
	"smaller", "larger",
	"opaque-block", "erase-last+dots", "row", "row", "column",
}

// step derives the next frame picture from the previous placed canvas.
func (g *aeGen) step(prev []byte, kind string) (aeFrame, string) {
	r := g.r
	cur := append([]byte(nil), prev...)
	fr := func() aeFrame { return aeFrame{w: g.w, h: g.h, pix: cur} }
	semi := g.alphaCls >= 2
	switch kind {
	case "repeat":
	case "one-pixel":
		x, y := r.Intn(g.w), r.Intn(g.h)
		g.set(cur, x, y, semi && r.Bool())
		g.last = [4]int{x, y, x + 1, y + 1}
	case "block":
		x0, y0, x1, y1 := g.block()
		op := semi && r.Bool()
		for y := y0; y < y1; y++ {
			for x := x0; x < x1; x++ {
				g.set(cur, x, y, op)
			}
		}
		g.last = [4]int{x0, y0, x1, y1}
	case "large":
		keep := -1
		if g.w*g.h >= 20 && r.Bool() {
			keep = []int{0, g.w - 1, (g.h - 1) * g.w, g.w*g.h - 1}[r.Intn(4)]
		}
		for i := 0; i < g.w*g.h; i++ {
			if i != keep {
				g.set(cur, i%g.w, i/g.w, false)
			}
		}
		g.last = [4]int{0, 0, g.w, g.h}
	case "new":
		cur = g.picture(g.w, g.h)
		g.last = [4]int{0, 0, g.w, g.h}
	case "transparent-colour":
		n := 0
		for i := 0; i < g.w*g.h; i++ {
			if cur[4*i+3] == 0 {
				cur[4*i], cur[4*i+1], cur[4*i+2] = cur[4*i]+1+byte(r.Intn(200)), byte(r.Next()), byte(r.Next())
				n++
			}
		}
		if n == 0 {
			return g.step(prev, "clear-region")
		}
	case "clear-region":
		x0, y0, x1, y1 := g.block()
		rgb := [3]byte{}
		if r.Bool() {
			rgb = g.colour()
		}
		for y := y0; y < y1; y++ {
			for x := x0; x < x1; x++ {
				o := 4 * (y*g.w + x)
				cur[o], cur[o+1], cur[o+2], cur[o+3] = rgb[0], rgb[1], rgb[2], 0
			}
		}
		g.last = [4]int{x0, y0, x1, y1}
	case "re-transparent":
		l := g.last
		for y := l[1]; y < l[3] && y < g.h; y++ {
			for x := l[0]; x < l[2] && x < g.w; x++ {
				o := 4 * (y*g.w + x)
				cur[o], cur[o+1], cur[o+2], cur[o+3] = 0, 0, 0, 0
			}
		}
		if r.Bool() {
			x, y := r.Intn(g.w), r.Intn(g.h)
			g.set(cur, x, y, semi && r.Bool())
			g.last = [4]int{x, y, x + 1, y + 1}
		}
	case "opaque-block": // a small fully opaque sprite
		x0, y0, x1, y1 := g.block()
		for y := y0; y < y1; y++ {
			for x := x0; x < x1; x++ {
				g.set(cur, x, y, true)
			}
		}
		g.last = [4]int{x0, y0, x1, y1}
	case "erase-last+dots":
		// the area of the previous change turns fully transparent and a few opaque pixels appear
		// elsewhere: the keep-the-canvas candidate cannot blend (and spans everything), the
		// restore-the-background candidate only has to carry the dots - over unchanged pixels
		l := g.last
		for y := l[1]; y < l[3] && y < g.h; y++ {
			for x := l[0]; x < l[2] && x < g.w; x++ {
				o := 4 * (y*g.w + x)
				cur[o], cur[o+1], cur[o+2], cur[o+3] = 0, 0, 0, 0
			}
		}
		for k := 1 + r.Intn(3); k > 0; k-- {
			x, y := r.Intn(g.w), r.Intn(g.h)
			for try := 0; try < 8 && x >= l[0] && x < l[2] && y >= l[1] && y < l[3]; try++ {
				x, y = r.Intn(g.w), r.Intn(g.h)
			}
			g.set(cur, x, y, true)
		}
	case "row", "column":
		// a change confined to one row (column) with an EVEN coordinate - the sub-frame is then exactly
		// one pixel high (wide) - that carries transparency
		horiz := kind == "row"
		n, m := g.w, g.h
		if !horiz {
			n, m = g.h, g.w
		}
		line := 2 * r.Intn((m+1)/2)
		a := r.Intn(n)
		b := a + 1 + r.Intn(n-a)
		if r.Chance(1, 3) {
			a, b = 0, n
		}
		transparent := false
		for k := a; k < b; k++ {
			x, y := k, line
			if !horiz {
				x, y = line, k
			}
			o := 4 * (y*g.w + x)
			c := g.colour()
			al := []byte{0, 128, byte(r.Next()), 255, 1, 254}[r.Intn(6)]
			if k == b-1 && !transparent && al == 255 {
				al = []byte{0, 128, 77}[r.Intn(3)]
			}
			if al != 255 {
				transparent = true
			}
			nw := [4]byte{c[0], c[1], c[2], al}
			if bytes.Equal(cur[o:o+4], nw[:]) {
				nw[0] ^= 0x40
				if nw[3] == 0 {
					nw[3] = 128
				}
			}
			copy(cur[o:], nw[:])
		}
		if horiz {
			g.last = [4]int{a, line, b, line + 1}
		} else {
			g.last = [4]int{line, a, line + 1, b}
		}
	case "small-delta":
		for k := 1 + r.Intn(3); k > 0; k-- {
			o := 4*r.Intn(g.w*g.h) + r.Intn(3)
			cur[o] += byte(1 + r.Intn(32))
		}
		g.last = [4]int{0, 0, g.w, g.h}
	case "smaller":
		if g.w == 1 && g.h == 1 {
			return g.step(prev, "larger")
		}
		iw, ih := 1+r.Intn(g.w), 1+r.Intn(g.h)
		if iw == g.w && ih == g.h {
			if g.w > 1 {
				iw--
			} else {
				ih--
			}
		}
		p := make([]byte, 0, 4*iw*ih)
		for y := 0; y < ih; y++ {
			p = append(p, prev[y*g.w*4:(y*g.w+iw)*4]...)
		}
		if r.Bool() {
			x := g.px()
			copy(p[4*r.Intn(iw*ih):], x[:])
		}
		g.last = [4]int{0, 0, g.w, g.h}
		return aeFrame{w: iw, h: ih, pix: p}, kind
	case "larger":
		iw, ih := g.w+r.Intn(4), g.h+r.Intn(4)
		if iw == g.w && ih == g.h {
			iw++
		}
		p := g.picture(iw, ih)
		if r.Chance(2, 3) { // the visible part is the previous picture (perhaps with one change)
			for y := 0; y < g.h; y++ {
				copy(p[y*iw*4:], prev[y*g.w*4:(y+1)*g.w*4])
			}
			if r.Bool() {
				x := g.px()
				copy(p[4*(r.Intn(g.h)*iw+r.Intn(g.w)):], x[:])
			}
		}
		g.last = [4]int{0, 0, g.w, g.h}
		return aeFrame{w: iw, h: ih, pix: p}, kind
	}
	return fr(), kind
}

var (
	aeQualities = []int{0, 10, 50, 75, 90, 100}
	aeKeys      = []int{0, 1, 2, 3, 9}
	aeLoops     = []int{0, 1, 7, 65535, -3, 65536, 100000}
)

// aeGenOpt steers aeGenCaseOpt; the zero value draws exactly the cases of aeGenCase.
type aeGenOpt struct {
	// keyframes: Kmax in 1..3 (key frames are forced after the first frame) and at least Kmax+2
	// frames, so that one more picture follows the first forced key frame
	keyframes bool
}

func aeGenCase(r *RNG, rich bool) *aeCase { return aeGenCaseOpt(r, rich, aeGenOpt{}) }

func aeGenCaseOpt(r *RNG, rich bool, opt aeGenOpt) *aeCase {
	c := &aeCase{}
	switch r.Intn(12) {
	case 0:
		c.w, c.h = 1, 1
	case 1:
		c.w, c.h = 2, 2
	case 2:
		c.w, c.h = 1, 1+r.Intn(24)
	case 3:
		c.w, c.h = 1+r.Intn(24), 1
	case 4, 5:
		c.w, c.h = 1+2*r.Intn(6), 1+2*r.Intn(6)
	case 6, 7, 8:
		c.w, c.h = 1+r.Intn(8), 1+r.Intn(8)
	default:
		c.w, c.h = 1+r.Intn(24), 1+r.Intn(24)
	}
	switch m := r.Intn(20); {
	case m < 8:
		c.lossless = true
	case m < 13:
	case m < 16:
		c.lossless, c.mixed = true, true
	default:
		c.mixed = true
	}
	c.quality = aeQualities[r.Intn(len(aeQualities))]
	c.kmin, c.kmax = aeKeys[r.Intn(len(aeKeys))], aeKeys[r.Intn(len(aeKeys))]
	c.loop = aeLoops[r.Intn(len(aeLoops))]
	n := 1 + r.Intn(6)
	if rich && r.Chance(1, 20) {
		n = 7 + r.Intn(34)
	}
	if opt.keyframes {
		c.kmax = []int{1, 1, 2, 2, 3}[r.Intn(5)]
		c.kmin = r.Intn(c.kmax + 1)
		if m := c.kmax + 2 + r.Intn(3); n < m {
			n = m
		}
	}
	g := &aeGen{r: r, w: c.w, h: c.h}
	g.alphaCls = []int{0, 0, 1, 1, 2, 2, 3, 3}[r.Intn(8)]
	c.alphaCls = aeAlphaNames[g.alphaCls]
	if r.Chance(2, 3) {
		for k := 2 + r.Intn(3); k > 0; k-- {
			g.pal = append(g.pal, [3]byte{byte(r.Next()), byte(r.Next()), byte(r.Next())})
		}
	}
	g.last = [4]int{0, 0, c.w, c.h}
	// duration class
	dc := r.Intn(100)
	switch {
	case dc < 45:
		c.durCls = "small"
	case dc < 53:
		c.durCls = "zero"
	case dc < 88:
		c.durCls = "near-2^24"
	default:
		c.durCls = "out-of-domain"
	}
	dur := func() int {
		switch c.durCls {
		case "zero":
			return 0
		case "near-2^24":
			return []int{16777215, 16777214, 9000000, 8388608, 8388607, 16000000, 777216, 5, 1}[r.Intn(9)]
		case "out-of-domain":
			return []int{-1, -1000, 16777216, 1 << 31, 20000000, 40, 0, 16777215}[r.Intn(8)]
		}
		return []int{0, 1, 40, 100, r.Intn(1000), 16777215}[r.Intn(6)]
	}
	// first frame
	first := aeFrame{w: c.w, h: c.h, pix: g.picture(c.w, c.h)}
	if r.Chance(1, 12) {
		first, _ = g.step(first.pix, []string{"smaller", "larger"}[r.Intn(2)])
		c.genSteps = append(c.genSteps, "first:other-size")
	}
	// scripted three-step dispose pattern (1 case in 10): a full-canvas translucent first frame, a small
	// opaque sub-frame, then a frame that makes that area transparent and adds scattered opaque pixels
	// elsewhere; key frames are not forced, so that both dispose candidates are really weighed
	var script []string
	if r.Chance(1, 10) && !opt.keyframes {
		if c.w < 6 || c.h < 6 {
			c.w, c.h = 6+2*r.Intn(6), 6+2*r.Intn(6)
			g.w, g.h = c.w, c.h
			g.last = [4]int{0, 0, c.w, c.h}
		}
		if g.alphaCls < 2 {
			g.alphaCls = 2 + r.Intn(2)
			c.alphaCls = aeAlphaNames[g.alphaCls]
		}
		if c.kmax != 0 && c.kmax != 9 {
			c.kmin, c.kmax = 0, []int{0, 9}[r.Intn(2)]
		}
		pix := make([]byte, 4*c.w*c.h)
		base := g.colour()
		al := []byte{128, 128, 77, 200}[r.Intn(4)]
		for i := 0; i < c.w*c.h; i++ {
			col := base
			if r.Chance(1, 4) {
				col = g.colour()
			}
			pix[4*i], pix[4*i+1], pix[4*i+2], pix[4*i+3] = col[0], col[1], col[2], al
		}
		first = aeFrame{w: c.w, h: c.h, pix: pix}
		script = []string{"opaque-block", "erase-last+dots"}
		if n < 3 {
			n = 3 + r.Intn(3)
		}
		c.genSteps = append(c.genSteps, "script:translucent,opaque-block,erase+dots")
	}
	first.dur = dur()
	c.frames = append(c.frames, first)
	prev := aePlace(c.w, c.h, first)
	for len(c.frames) < n {
		kind := aeStepKinds[r.Intn(len(aeStepKinds))]
		if len(script) > 0 {
			kind, script = script[0], script[1:]
		} else if c.durCls == "near-2^24" && r.Chance(2, 5) {
			kind = "repeat" // duration sums that overflow 2^24: filler frames, then more frames after them
		}
		f, k := g.step(prev, kind)
		f.dur = dur()
		c.frames = append(c.frames, f)
		c.genSteps = append(c.genSteps, k)
		prev = aePlace(c.w, c.h, f)
	}
	if c.durCls == "out-of-domain" {
		ood := false
		for _, f := range c.frames {
			if f.dur < 0 || f.dur > 16777215 {
				ood = true
			}
		}
		if !ood {
			c.frames[r.Intn(len(c.frames))].dur = []int{-1, 16777216, 1 << 31}[r.Intn(3)]
		}
	}
	return c
}

// ---------------------------------------------------------------------------------------------
// scripted `sizes` pattern: consecutive pictures the encoder has to normalise

// aeViewOrigins: Rect.Min of a picture handed over as a view (mostly non-zero, Min.X != Min.Y).
var aeViewOrigins = [][2]int{{3, 1}, {0, 2}, {5, 0}, {-2, 4}, {7, 7}, {-1, -3}, {1, 0}, {0, 0}}

// aeSizesScript rewrites the pictures of the case: an opening picture, then 3-5 CONSECUTIVE pictures that are
// not canvas-sized and / or are views (non-zero origin, padded stride) with shrinking (every extent <= its
// predecessor's, at least one smaller), shifting (wide-and-short, narrow-and-tall alternating) or mixed extents
// (one of them canvas-sized as a view, one larger than the canvas), then up to two ordinary steps. A later
// picture therefore leaves canvas pixels uncovered that an earlier one covered: AddFrame must show them
// transparent. Content: the visible part of the predecessor (perhaps one pixel changed) or a new picture; the
// alpha class is biased to opaque so that whatever is shown in the uncovered part is visible. Kmax 0 / 1.
// Canvas (enlarged to at least 4x4), codec mode, quality and loop count of the case are kept.
func aeSizesScript(c *aeCase, r *RNG) {
	if c.w < 4 || c.h < 4 {
		c.w, c.h = 4+r.Intn(10), 4+r.Intn(10)
	}
	ai := []int{0, 0, 0, 1, 2, 3}[r.Intn(6)]
	g := &aeGen{r: r, w: c.w, h: c.h, alphaCls: ai}
	c.alphaCls = aeAlphaNames[ai]
	if r.Chance(2, 3) {
		for k := 2 + r.Intn(3); k > 0; k-- {
			g.pal = append(g.pal, [3]byte{byte(r.Next()), byte(r.Next()), byte(r.Next())})
		}
	}
	g.last = [4]int{0, 0, c.w, c.h}
	c.kmin, c.kmax = 0, r.Intn(2)
	c.durCls = "small"
	dur := func() int { return []int{0, 1, 40, 100, r.Intn(1000)}[r.Intn(5)] }
	view := func(f aeFrame) aeFrame {
		o := aeViewOrigins[r.Intn(len(aeViewOrigins))]
		f.ox, f.oy, f.pad = o[0], o[1], []int{0, 1, 2, 5}[r.Intn(4)]
		return f
	}
	pattern := []string{"shrink", "shift", "mixed"}[r.Intn(3)]
	k := 3 + r.Intn(3)
	var ext [][2]int
	switch pattern {
	case "shrink":
		w, h := c.w-r.Intn(2), c.h-r.Intn(2)
		for i := 0; i < k; i++ {
			ext = append(ext, [2]int{w, h})
			nw, nh := maxi(1, w-r.Intn(3)), maxi(1, h-r.Intn(3))
			if nw == w && nh == h {
				if w > 1 {
					nw--
				} else if h > 1 {
					nh--
				}
			}
			w, h = nw, nh
		}
	case "shift":
		for i := 0; i < k; i++ {
			if i%2 == 0 {
				ext = append(ext, [2]int{c.w - r.Intn(2), 1 + r.Intn(maxi(1, c.h/2))})
			} else {
				ext = append(ext, [2]int{1 + r.Intn(maxi(1, c.w/2)), c.h - r.Intn(2)})
			}
		}
	default:
		for i := 0; i < k; i++ {
			ext = append(ext, [2]int{1 + r.Intn(c.w+2), 1 + r.Intn(c.h+2)})
		}
		ext[r.Intn(k-1)] = [2]int{c.w, c.h} // canvas-sized: handed over as a view below
	}
	c.frames, c.genSteps = nil, []string{"script:sizes-" + pattern}
	first := aeFrame{w: c.w, h: c.h, pix: g.picture(c.w, c.h)}
	if r.Chance(1, 4) {
		first = view(first)
		c.genSteps = append(c.genSteps, "first:view")
	}
	first.dur = dur()
	c.frames = append(c.frames, first)
	prev := aePlace(c.w, c.h, first)
	for _, e := range ext {
		w, h := e[0], e[1]
		var pix []byte
		if r.Bool() {
			pix = g.picture(w, h)
		} else {
			pix = make([]byte, 4*w*h)
			fill := g.picture(w, h) // what lies beyond the canvas
			for y := 0; y < h; y++ {
				for x := 0; x < w; x++ {
					src := fill[4*(y*w+x) : 4*(y*w+x)+4]
					if x < c.w && y < c.h {
						src = prev[4*(y*c.w+x) : 4*(y*c.w+x)+4]
					}
					copy(pix[4*(y*w+x):], src)
				}
			}
			if r.Bool() {
				x := g.px()
				copy(pix[4*(r.Intn(mini(h, c.h))*w+r.Intn(mini(w, c.w))):], x[:])
			}
		}
		f := aeFrame{dur: dur(), w: w, h: h, pix: pix}
		step := "sized"
		if (w == c.w && h == c.h) || r.Chance(2, 3) {
			f = view(f)
			if w == c.w && h == c.h && !f.view() {
				f.pad = 3
			}
			if f.view() {
				step = "sized-view"
			}
		}
		c.frames = append(c.frames, f)
		c.genSteps = append(c.genSteps, step)
		prev = aePlace(c.w, c.h, f)
	}
	for n := r.Intn(3); n > 0; n-- {
		f, kd := g.step(prev, aeStepKinds[r.Intn(len(aeStepKinds))])
		f.dur = dur()
		c.frames = append(c.frames, f)
		c.genSteps = append(c.genSteps, kd)
		prev = aePlace(c.w, c.h, f)
	}
}

// aeGenSizesCase: a case of the dedicated sizes stream: three in four lossless non-mixed (C08 pixel oracles), the
// rest in the mode the generator drew (model correspondence and C18 on the same inputs).
func aeGenSizesCase(r *RNG, idx int) *aeCase {
	c := aeGenCaseOpt(r, false, aeGenOpt{})
	if idx%4 != 3 {
		c.lossless, c.mixed = true, false
	}
	c.reuse, c.scribble = false, false
	aeSizesScript(c, r)
	return c
}

// ---------------------------------------------------------------------------------------------
// many-level / noise alpha planes on small canvases (the filter choice and the raw fall-back of the ALPH coder)

var aeAlphaCanvases = [][2]int{{1, 1}, {2, 2}, {3, 3}, {4, 4}, {5, 5}, {6, 6}, {7, 7}, {8, 8}, {4, 8}, {16, 3}, {16, 16}, {20, 13}}
var aeAlphaLevelCounts = []int{0, 17, 64, 192, 193, 256, 0, 17} // 0 = noise

// aeGenAlphaCase: a lossy (half), lossy+mixed or lossless+mixed sequence of 1-4 pictures over a small canvas whose
// alpha plane is noise (every byte value) or has exactly n levels (GenAlphaLevelsImage, in generator order or
// shuffled; n is capped by the pixel count); later pictures are new pictures / large / block / row changes in
// the same alpha class, so that sub-frames carry such planes too; every quality incl. 100; Kmax {0,1,1,2,9}.
func aeGenAlphaCase(r *RNG, idx int) *aeCase {
	cv := aeAlphaCanvases[idx%len(aeAlphaCanvases)]
	c := &aeCase{w: cv[0], h: cv[1], durCls: "small"}
	switch (idx + idx/len(aeAlphaCanvases)) % 4 { // every canvas meets every mode
	case 2:
		c.mixed = true
	case 3:
		c.lossless, c.mixed = true, true
	}
	c.quality = []int{100, 0, 75, 100, 50, 90, 10, 100}[r.Intn(8)]
	c.loop = aeLoops[r.Intn(len(aeLoops))]
	c.kmin, c.kmax = 0, []int{0, 1, 1, 2, 9}[r.Intn(5)]
	n := aeAlphaLevelCounts[r.Intn(len(aeAlphaLevelCounts))]
	g := &aeGen{r: r, w: c.w, h: c.h, alphaCls: 4}
	if r.Chance(1, 2) {
		for k := 1 + r.Intn(3); k > 0; k-- {
			g.pal = append(g.pal, [3]byte{byte(r.Next()), byte(r.Next()), byte(r.Next())})
		}
	}
	g.last = [4]int{0, 0, c.w, c.h}
	first := g.picture(c.w, c.h)
	c.genSteps = append(c.genSteps, "alpha-first:noise")
	if n > 0 {
		lvImg := GenAlphaLevelsImage(r, c.w, c.h, n)
		plane := make([]byte, c.w*c.h)
		var seen [256]bool
		for i := range plane {
			plane[i] = lvImg.Pix[4*i+3]
			if !seen[plane[i]] {
				seen[plane[i]] = true
				g.lv = append(g.lv, plane[i])
			}
		}
		order := "ordered"
		if r.Bool() {
			order = "shuffled"
			for i := len(plane) - 1; i > 0; i-- {
				j := r.Intn(i + 1)
				plane[i], plane[j] = plane[j], plane[i]
			}
		}
		for i := range plane {
			first[4*i+3] = plane[i]
		}
		g.alphaCls = 5
		c.genSteps[0] = fmt.Sprintf("alpha-first:levels-%d-%s", n, order)
	}
	c.alphaCls = aeAlphaNames[g.alphaCls]
	dur := func() int { return []int{1, 40, 100, r.Intn(1000)}[r.Intn(4)] }
	c.frames = append(c.frames, aeFrame{dur: dur(), w: c.w, h: c.h, pix: first})
	prev := first
	kinds := []string{"new", "new", "large", "block", "block", "row", "column", "one-pixel", "repeat", "clear-region"}
	for k := r.Intn(4); k > 0; k-- {
		f, kd := g.step(prev, kinds[r.Intn(len(kinds))])
		f.dur = dur()
		c.frames = append(c.frames, f)
		c.genSteps = append(c.genSteps, kd)
		prev = aePlace(c.w, c.h, f)
	}
	return c
}

// ---------------------------------------------------------------------------------------------
// frame counts around the frame thresholds of thresholds.go

// aeGenFramesCase: an animation of exactly cc.N tiny pictures (canvas 1x1 .. 3x3). For the long ones (>= 29
// frames) Kmax is above 30 (31, 40, 64, 100, 1000) with Kmin in {0, 1, Kmax/2, Kmax-1}, so that
// sanitizeKeyframeOptions crosses its maxCachedFrames branch and the key-frame distance counter runs past 30.
func aeGenFramesCase(r *RNG, cc CountCase, idx int) *aeCase {
	c := &aeCase{w: 1 + r.Intn(3), h: 1 + r.Intn(3), durCls: "small"}
	c.lossless = idx%2 == 0
	c.mixed = r.Chance(1, 5)
	c.quality = aeQualities[r.Intn(len(aeQualities))]
	c.loop = aeLoops[r.Intn(len(aeLoops))]
	if cc.N >= 29 {
		c.kmax = []int{31, 40, 64, 100, 1000}[r.Intn(5)]
	} else {
		c.kmax = []int{0, 2, 3, 31, 64}[r.Intn(5)]
	}
	c.kmin = []int{0, 1, c.kmax / 2, maxi(c.kmax-1, 0)}[r.Intn(4)]
	ai := r.Intn(4)
	g := &aeGen{r: r, w: c.w, h: c.h, alphaCls: ai}
	c.alphaCls = aeAlphaNames[ai]
	for k := 2 + r.Intn(2); k > 0; k-- {
		g.pal = append(g.pal, [3]byte{byte(r.Next()), byte(r.Next()), byte(r.Next())})
	}
	g.last = [4]int{0, 0, c.w, c.h}
	dur := func() int { return []int{0, 1, 40, 100, r.Intn(1000)}[r.Intn(5)] }
	first := aeFrame{dur: dur(), w: c.w, h: c.h, pix: g.picture(c.w, c.h)}
	c.frames = append(c.frames, first)
	prev := first.pix
	for len(c.frames) < cc.N {
		f, kd := g.step(prev, aeStepKinds[r.Intn(len(aeStepKinds))])
		f.dur = dur()
		c.frames = append(c.frames, f)
		c.genSteps = append(c.genSteps, kd)
		prev = aePlace(c.w, c.h, f)
	}
	c.cnt = &cc
	return c
}

// ---------------------------------------------------------------------------------------------
// threshold-crossing and wide-row canvases

// aeWideFilter: the width / height thresholds of thresholds.go from 256 up (16383 x n is an edge case
// already), other dimension 2 or 3 (one / two even rows for the even-snapped sub-frame rectangles).
var aeWideFilter = ThresholdFilter{Units: []string{"width", "height"}, MinValue: 200, Tiny: []int{2, 3}, MaxW: 4200}

// aeWideCases draws the canvases of the threshold / wide-row stream: k threshold-crossing canvases
// (DrawThresholdCases) plus some of WideWidths x {2,3}; thorough: all of them, three sequences each.
func aeWideCases(seed uint64, rich bool) []*aeCase {
	kThr, kWide, reps := 8, 4, 1
	if rich {
		kThr, kWide, reps = 1<<20, 16, 3
	}
	var cs []*aeCase
	add := func(w, h int, tc *ThresholdCase) {
		for k := 0; k < reps; k++ {
			idx := len(cs)
			c := aeGenWideCase(NewRNG(seed, uint64(70_000_000+idx)), w, h, idx)
			c.thr, c.wideTag = tc, fmt.Sprintf("%dx%d", w, h)
			cs = append(cs, c)
		}
	}
	for _, tc := range DrawThresholdCases(seed, 0xae08, kThr, aeWideFilter) {
		tc := tc
		add(tc.W, tc.H, &tc)
	}
	var ww [][2]int
	for _, w := range WideWidths {
		for _, h := range []int{2, 3} {
			ww = append(ww, [2]int{w, h})
		}
	}
	sr := NewRNG(seed, 70_999_999)
	for i := len(ww) - 1; i > 0; i-- {
		j := sr.Intn(i + 1)
		ww[i], ww[j] = ww[j], ww[i]
	}
	for _, p := range ww[:mini(kWide, len(ww))] {
		add(p[0], p[1], nil)
	}
	return cs
}

var aeWideStepKinds = []string{
	"wide-line", "wide-line", "two-ends", "two-ends", "seg-1024", "seg-1024", "one-pixel", "re-transparent",
	"erase-last+dots", "erase-last+ends", "clear-region", "repeat", "row", "column", "wide-new",
}

// aeGenWideCase: 2-4 frames over a w x h canvas with one long side. Cheap content: the first picture
// is flat / gradient / sparse / rows (GenCheapImage), every later one a sparse change of its
// predecessor - a line along the long side, two pixels at its ends, a segment across a multiple of
// 1024, ... - so that the changed rectangles, the blending scans and the dispose-to-background
// candidate work on rows (columns) longer than 1024 pixels while the codec calls stay cheap. Half of
// the cases follow the script line, erase-the-line + dots (anywhere / at both ends): the sub-frame
// after a long sub-frame weighs keeping the canvas against restoring the background.
func aeGenWideCase(r *RNG, w, h, idx int) *aeCase {
	c := &aeCase{w: w, h: h, durCls: "small"}
	c.lossless = idx%2 == 0
	c.mixed = r.Chance(1, 5)
	c.quality = aeQualities[r.Intn(len(aeQualities))]
	c.loop = aeLoops[r.Intn(len(aeLoops))]
	c.kmin, c.kmax = 0, []int{0, 0, 9, 9, 2, 3}[r.Intn(6)]
	ai := r.Intn(4)
	acls := []int{AlphaNone, AlphaBinary, AlphaSemiFlat, AlphaGradient}[ai]
	g := &aeGen{r: r, w: w, h: h, alphaCls: ai}
	c.alphaCls = aeAlphaNames[ai]
	for k := 0; k < 3; k++ {
		g.pal = append(g.pal, [3]byte{byte(r.Next()), byte(r.Next()), byte(r.Next())})
	}
	g.last = [4]int{0, 0, w, h}
	kind := r.Intn(NumCheapClasses)
	n := 2 + r.Intn(3)
	var script []string
	if r.Bool() {
		script = []string{"wide-line", []string{"erase-last+dots", "erase-last+ends"}[r.Intn(2)]}
		if n < 3 {
			n = 3
		}
		if c.kmax != 0 && c.kmax != 9 {
			c.kmax = []int{0, 9}[r.Intn(2)]
		}
		c.genSteps = append(c.genSteps, "script:wide-line,erase+dots")
	}
	dur := func() int { return []int{0, 1, 40, 100, r.Intn(1000)}[r.Intn(5)] }
	first := aeFrame{dur: dur(), w: w, h: h, pix: GenCheapImage(r, w, h, kind, acls).Pix}
	c.genSteps = append(c.genSteps, "wide-first:"+cheapNames[kind])
	c.frames = append(c.frames, first)
	prev := first.pix
	for len(c.frames) < n {
		k := aeWideStepKinds[r.Intn(len(aeWideStepKinds))]
		if len(script) > 0 {
			k, script = script[0], script[1:]
		}
		f, k := g.wideStep(prev, k)
		f.dur = dur()
		c.frames = append(c.frames, f)
		c.genSteps = append(c.genSteps, k)
		prev = aePlace(w, h, f)
	}
	if r.Chance(1, 4) { // one reused caller buffer (see aeCase.reuse)
		c.reuse, c.scribble = true, r.Bool()
	}
	return c
}

// wideStep: the sparse changes of the wide-row stream (the remaining kinds are those of step).
func (g *aeGen) wideStep(prev []byte, kind string) (aeFrame, string) {
	r := g.r
	horiz := g.w >= g.h
	n, m := g.w, g.h // long side, short side
	if !horiz {
		n, m = g.h, g.w
	}
	at := func(k, line int) int { // byte offset of position k along the long side on the given line
		if horiz {
			return 4 * (line*g.w + k)
		}
		return 4 * (k*g.w + line)
	}
	put := func(cur []byte, o int, px [4]byte) {
		if bytes.Equal(cur[o:o+4], px[:]) {
			px[0] ^= 0x40
			if px[3] == 0 {
				px[3] = 255
			}
		}
		copy(cur[o:], px[:])
	}
	setLast := func(a, b, line0, line1 int) {
		if horiz {
			g.last = [4]int{a, line0, b, line1}
		} else {
			g.last = [4]int{line0, a, line1, b}
		}
	}
	switch kind {
	case "wide-line":
		// nearly the whole long side of one EVEN line (the sub-frame is one pixel thick): one colour,
		// one alpha value, every 256th pixel marked
		cur := append([]byte(nil), prev...)
		line := 2 * r.Intn((m+1)/2)
		a, b := r.Intn(mini(8, n)), n-r.Intn(mini(8, n))
		if b <= a {
			a, b = 0, n
		}
		col := g.colour()
		al := []byte{255, 128, 0, 77, 255}[r.Intn(5)]
		for k := a; k < b; k++ {
			px := [4]byte{col[0], col[1], col[2], al}
			if k&255 == 0 {
				px[1] ^= 0x80
			}
			put(cur, at(k, line), px)
		}
		setLast(a, b, line, line+1)
		return aeFrame{w: g.w, h: g.h, pix: cur}, kind
	case "two-ends":
		// one pixel near either end of the long side: a changed rectangle of (almost) the full length
		cur := append([]byte(nil), prev...)
		e := mini(4, n)
		put(cur, at(r.Intn(e), r.Intn(m)), g.px())
		put(cur, at(n-1-r.Intn(e), r.Intn(m)), g.px())
		g.last = [4]int{0, 0, g.w, g.h}
		return aeFrame{w: g.w, h: g.h, pix: cur}, kind
	case "erase-last+ends":
		// the area of the previous change turns fully transparent and an opaque pixel appears near
		// either end of the long side: BOTH dispose candidates span (almost) the full length
		cur := append([]byte(nil), prev...)
		l := g.last
		for y := l[1]; y < l[3] && y < g.h; y++ {
			for x := l[0]; x < l[2] && x < g.w; x++ {
				o := 4 * (y*g.w + x)
				cur[o], cur[o+1], cur[o+2], cur[o+3] = 0, 0, 0, 0
			}
		}
		e := mini(3, n)
		for _, k := range []int{r.Intn(e), n - 1 - r.Intn(e)} {
			px := g.px()
			px[3] = 255
			put(cur, at(k, r.Intn(m)), px)
		}
		g.last = [4]int{0, 0, g.w, g.h}
		return aeFrame{w: g.w, h: g.h, pix: cur}, kind
	case "seg-1024":
		// a short segment across a multiple of 1024 (or the middle of a shorter side)
		cur := append([]byte(nil), prev...)
		mid := n / 2
		if n > 1024 {
			mid = 1024 * (1 + r.Intn(n/1024))
			if mid >= n {
				mid = n - 1
			}
		}
		a, b := maxi(0, mid-1-r.Intn(4)), mini(n, mid+1+r.Intn(4))
		line := r.Intn(m)
		for k := a; k < b; k++ {
			put(cur, at(k, line), g.px())
		}
		setLast(a, b, line, line+1)
		return aeFrame{w: g.w, h: g.h, pix: cur}, kind
	case "wide-new":
		// another cheap picture: a change of (nearly) everything, the key-frame candidate is weighed
		acls := []int{AlphaNone, AlphaBinary, AlphaSemiFlat, AlphaGradient}[g.alphaCls&3]
		g.last = [4]int{0, 0, g.w, g.h}
		return aeFrame{w: g.w, h: g.h, pix: GenCheapImage(r, g.w, g.h, r.Intn(NumCheapClasses), acls).Pix}, kind
	}
	return g.step(prev, kind)
}

// aeEdgeCases: NewEncoder / Close error paths and the canvas limits (fixed cases, both tiers).
func aeEdgeCases() []*aeCase {
	px := func(n int, v ...byte) []byte {
		p := make([]byte, 0, 4*n)
		for i := 0; i < n; i++ {
			p = append(p, v...)
		}
		return p
	}
	one := aeFrame{dur: 40, w: 1, h: 1, pix: px(1, 9, 8, 7, 255)}
	two := aeFrame{dur: 60, w: 2, h: 1, pix: px(2, 1, 2, 3, 128)}
	var cs []*aeCase
	for _, wh := range [][2]int{{0, 1}, {1, 0}, {-1, 4}, {4, -7}, {16384, 1}, {1, 16384}, {0, 0}} {
		cs = append(cs, &aeCase{w: wh[0], h: wh[1], lossless: true, quality: 75, frames: []aeFrame{one}})
		cs = append(cs, &aeCase{w: wh[0], h: wh[1], quality: 50, mixed: true})
	}
	for _, ll := range []bool{true, false} {
		for _, mx := range []bool{true, false} {
			cs = append(cs, &aeCase{w: 3, h: 2, lossless: ll, mixed: mx, quality: 75}) // no frame at all
			cs = append(cs, &aeCase{w: 16383, h: 1, lossless: ll, mixed: mx, quality: 75, frames: []aeFrame{one, two, two}})
			cs = append(cs, &aeCase{w: 1, h: 16383, lossless: ll, mixed: mx, quality: 75, kmax: 1, frames: []aeFrame{two, one}})
		}
	}
	for _, c := range cs {
		c.alphaCls, c.durCls = "edge", "edge"
	}
	return cs
}

// ---------------------------------------------------------------------------------------------
// unit correspondences

var aeUnitOps = []string{"changedrect", "snapeven", "blendposs", "qmaxdiff", "sanitizekf", "clamploop", "splitalpha"}

func aeNRGBA(w, h int, pix []byte) *image.NRGBA {
	img := image.NewNRGBA(image.Rect(0, 0, w, h))
	copy(img.Pix, pix)
	return img
}

func aeParseRect(s string) (image.Rectangle, bool) {
	p := strings.Split(s, ",")
	if len(p) != 4 {
		return image.Rectangle{}, false
	}
	var v [4]int
	for i := range p {
		n, err := strconv.ParseInt(p[i], 10, 64)
		if err != nil {
			return image.Rectangle{}, false
		}
		v[i] = int(n)
	}
	// literal fields: image.Rect would canonicalise
	return image.Rectangle{Min: image.Point{X: v[0], Y: v[1]}, Max: image.Point{X: v[2], Y: v[3]}}, true
}

func aeRectStr(r image.Rectangle) string {
	return fmt.Sprintf("%d,%d,%d,%d", r.Min.X, r.Min.Y, r.Max.X, r.Max.Y)
}

// aeUnitGo computes the Go side of one unit protocol line through the verif hooks.
func aeUnitGo(line string) string {
	f := strings.Split(line, " ")
	out, _ := guard(func() string {
		atoi := func(s string) int {
			n, err := strconv.ParseInt(s, 10, 64)
			if err != nil {
				panic("bad number " + s)
			}
			return int(n)
		}
		switch {
		case f[0] == "changedrect" && len(f) == 5:
			w, h := atoi(f[1]), atoi(f[2])
			p, c := unhx(f[3]), unhx(f[4])
			if len(p) != 4*w*h || len(c) != 4*w*h {
				return "bad-op"
			}
			return "ok " + aeRectStr(animation.VerifFindChangedRect(aeNRGBA(w, h, p), aeNRGBA(w, h, c)))
		case f[0] == "snapeven" && len(f) == 2:
			r, ok := aeParseRect(f[1])
			if !ok {
				return "bad-op"
			}
			return "ok " + aeRectStr(animation.VerifSnapToEven(r))
		case f[0] == "blendposs" && len(f) == 8:
			w, h := atoi(f[1]), atoi(f[2])
			r, ok := aeParseRect(f[5])
			s, d := unhx(f[6]), unhx(f[7])
			if !ok || len(s) != 4*w*h || len(d) != 4*w*h {
				return "bad-op"
			}
			return "ok " + b2s(animation.VerifBlendingPossible(aeNRGBA(w, h, s), aeNRGBA(w, h, d), r, f[3] == "1", atoi(f[4])))
		case f[0] == "qmaxdiff" && len(f) == 2:
			return fmt.Sprintf("ok %d", animation.VerifQualityToMaxDiff(atoi(f[1])))
		case f[0] == "sanitizekf" && len(f) == 3:
			a, b := animation.VerifSanitizeKeyframeOptions(atoi(f[1]), atoi(f[2]))
			return fmt.Sprintf("ok %d,%d", a, b)
		case f[0] == "clamploop" && len(f) == 2:
			return fmt.Sprintf("ok %d", animation.VerifClampLoopCount(atoi(f[1])))
		case f[0] == "splitalpha" && len(f) == 2:
			a, bs := mux.VerifAnimEncSplitAlpha(unhx(f[1]))
			return "ok alpha=" + digestOpt(a) + " bs=" + digest(bs)
		}
		return "bad-op"
	})
	return out
}

func aeRandCanvas(r *RNG, n int) []byte {
	p := make([]byte, 4*n)
	mode := r.Intn(4)
	for i := 0; i < n; i++ {
		p[4*i], p[4*i+1], p[4*i+2] = byte(r.Next()), byte(r.Next()), byte(r.Next())
		switch mode {
		case 0:
			p[4*i+3] = 255
		case 1:
			p[4*i+3] = animAlphaSetAE[r.Intn(6)]
		case 2:
			p[4*i+3] = byte(r.Next())
		default:
			p[4*i+3] = []byte{0, 255}[r.Intn(2)]
		}
	}
	return p
}

var animAlphaSetAE = []byte{0, 1, 127, 128, 254, 255}

func aeChangedRectLine(r *RNG) (string, string) {
	w, h := 1+r.Intn(12), 1+r.Intn(12)
	prev := aeRandCanvas(r, w*h)
	cur := append([]byte(nil), prev...)
	flip := func(x, y int) {
		o := 4*(y*w+x) + r.Intn(4) // one channel only: every byte of the pixel matters
		cur[o] ^= byte(1 + r.Intn(255))
	}
	kind := []string{"identical", "single-pixel", "few-pixels", "row", "column", "corners", "everything", "two-corners"}[r.Intn(8)]
	switch kind {
	case "single-pixel":
		flip(r.Intn(w), r.Intn(h))
	case "few-pixels":
		for k := 2 + r.Intn(4); k > 0; k-- {
			flip(r.Intn(w), r.Intn(h))
		}
	case "row":
		y := r.Intn(h)
		for x := 0; x < w; x++ {
			if r.Chance(3, 4) {
				flip(x, y)
			}
		}
	case "column":
		x := r.Intn(w)
		for y := 0; y < h; y++ {
			if r.Chance(3, 4) {
				flip(x, y)
			}
		}
	case "corners":
		for _, c := range [][2]int{{0, 0}, {w - 1, 0}, {0, h - 1}, {w - 1, h - 1}} {
			if r.Bool() {
				flip(c[0], c[1])
			}
		}
	case "two-corners":
		if r.Bool() {
			flip(0, h-1)
			flip(w-1, 0)
		} else {
			flip(0, 0)
			flip(w-1, h-1)
		}
	case "everything":
		for i := 0; i < w*h; i++ {
			flip(i%w, i/w)
		}
	}
	return fmt.Sprintf("changedrect %d %d %s %s", w, h, hx(prev), hx(cur)), kind
}

func aeSnapLine(r *RNG) string {
	coord := func() int {
		switch r.Intn(6) {
		case 0:
			return r.Intn(7) - 3
		case 1:
			return -r.Intn(20000)
		case 2:
			return (1 << 40) + r.Intn(5) - 2
		case 3:
			return -(1 << 40) + r.Intn(5) - 2
		}
		return r.Intn(16385)
	}
	x0, y0 := coord(), coord()
	x1, y1 := x0+r.Intn(40), y0+r.Intn(40)
	if r.Chance(1, 10) { // not canonical
		x1, y1 = coord(), coord()
	}
	return fmt.Sprintf("snapeven %d,%d,%d,%d", x0, y0, x1, y1)
}

func aeBlendLine(r *RNG) string {
	w, h := 1+r.Intn(8), 1+r.Intn(8)
	lossless := r.Bool()
	q := r.Intn(101)
	if r.Chance(1, 4) {
		q = []int{0, 1, 10, 50, 75, 90, 99, 100}[r.Intn(8)]
	}
	thr := animation.VerifQualityToMaxDiff(q) * 255
	x0, y0 := r.Intn(w), r.Intn(h)
	x1, y1 := x0+r.Intn(w-x0+1), y0+r.Intn(h-y0+1)
	if r.Chance(1, 3) {
		x0, y0, x1, y1 = 0, 0, w, h
	}
	inject := r.Bool()
	src := make([]byte, 4*w*h)
	dst := make([]byte, 4*w*h)
	for i := 0; i < w*h; i++ {
		a := animAlphaSetAE[r.Intn(6)]
		s := [4]byte{byte(r.Next()), byte(r.Next()), byte(r.Next()), a}
		d := s
		k := r.Intn(3)
		if inject && r.Chance(1, 6) {
			k = 3 + r.Intn(2)
		}
		switch k {
		case 0: // identical
		case 1: // opaque target: anything underneath
			d[3] = 255
			s[3] = byte(r.Next())
			d[r.Intn(3)] = byte(r.Next())
		case 2, 3: // channel difference at (2) / just above (3) the similarity threshold
			if a != 0 {
				dm := thr / int(a)
				if k == 3 {
					dm++
				} else if r.Bool() {
					dm -= r.Intn(2)
				}
				if dm > 255 {
					dm = 255
				}
				if dm < 0 {
					dm = 0
				}
				ch := r.Intn(3)
				if int(s[ch])+dm <= 255 {
					d[ch] = s[ch] + byte(dm)
				} else if int(s[ch])-dm >= 0 {
					d[ch] = s[ch] - byte(dm)
				} else {
					s[ch], d[ch] = 0, byte(dm)
				}
			} else {
				d[0], d[1], d[2] = byte(r.Next()), byte(r.Next()), byte(r.Next())
			}
		case 4: // alpha mismatch on a non-opaque target
			d[3] = []byte{0, 1, 127, 128, 254}[r.Intn(5)]
			s[3] = d[3] + 1
		}
		copy(src[4*i:], s[:])
		copy(dst[4*i:], d[:])
	}
	return fmt.Sprintf("blendposs %d %d %s %d %d,%d,%d,%d %s %s", w, h, b2s(lossless), q, x0, y0, x1, y1, hx(src), hx(dst))
}

func aeSplitLine(r *RNG) (string, string) {
	kind := []string{"even", "odd", "empty-rest-even", "empty-rest-odd", "truncated", "size-too-large", "non-alph", "short", "empty-alpha", "odd-no-pad-one-byte"}[r.Intn(10)]
	alph := func(n int, size uint32) []byte {
		b := []byte{'A', 'L', 'P', 'H'}
		b = binary.LittleEndian.AppendUint32(b, size)
		return append(b, r.Bytes(n)...)
	}
	var d []byte
	switch kind {
	case "even":
		n := 2 * (1 + r.Intn(8))
		d = append(alph(n, uint32(n)), r.Bytes(1+r.Intn(12))...)
	case "odd":
		n := 1 + 2*r.Intn(8)
		d = append(alph(n, uint32(n)), 0)
		d = append(d, r.Bytes(1+r.Intn(12))...)
	case "empty-rest-even":
		n := 2 * r.Intn(6)
		d = alph(n, uint32(n))
	case "empty-rest-odd":
		n := 1 + 2*r.Intn(6)
		d = alph(n, uint32(n))
		if r.Bool() {
			d = append(d, 0)
		}
	case "truncated":
		n := r.Intn(10)
		d = alph(n, uint32(n+1+r.Intn(5)))
	case "size-too-large":
		d = alph(r.Intn(10), []uint32{0xffffffff, 0x80000000, 0x7fffffff, 0xfffffff8, 1 << 24}[r.Intn(5)])
	case "non-alph":
		d = r.Bytes(8 + r.Intn(12))
		if r.Bool() {
			d[0] = 0x2f
		} else {
			copy(d, "ALPh")
		}
	case "short":
		d = []byte("ALPH\x01\x00\x00\x00")[:r.Intn(8)]
	case "empty-alpha":
		d = append(alph(0, 0), r.Bytes(r.Intn(6))...)
	case "odd-no-pad-one-byte":
		n := 1 + 2*r.Intn(4)
		d = append(alph(n, uint32(n)), byte(r.Next())) // exactly one byte after an odd payload: it is taken as padding
	}
	return "splitalpha " + hx(d), kind
}

func aeUnits(rep *Report, rich bool) error {
	var lines []string
	add := func(l, bucket string) {
		lines = append(lines, l)
		rep.Count("unit:" + bucket)
	}
	nRect, nSnap, nBlend, nSplit := 2000, 600, 2000, 600
	if rich {
		nRect, nSnap, nBlend, nSplit = 50000, 10000, 40000, 10000
	}
	for i := 0; i < nRect; i++ {
		l, k := aeChangedRectLine(NewRNG(rep.Seed, uint64(10_000_000+i)))
		add(l, "changedrect:"+k)
	}
	for i := 0; i < nSnap; i++ {
		add(aeSnapLine(NewRNG(rep.Seed, uint64(11_000_000+i))), "snapeven")
	}
	for i := 0; i < nBlend; i++ {
		add(aeBlendLine(NewRNG(rep.Seed, uint64(12_000_000+i))), "blendposs")
	}
	for q := 0; q <= 100; q++ {
		add(fmt.Sprintf("qmaxdiff %d", q), "qmaxdiff")
	}
	grid := []int{0, 1, -1, 2, 3, 9, 31, 32, 62, 100, math.MaxInt64, math.MinInt64, math.MaxInt64 - 1, math.MinInt64 + 1, 30, 33, 61, 63, 4, 5}
	for _, a := range grid {
		for _, b := range grid {
			add(fmt.Sprintf("sanitizekf %d %d", a, b), "sanitizekf")
		}
	}
	for _, v := range []int{0, 1, -1, -3, 7, 65534, 65535, 65536, 100000, 1 << 31, -(1 << 31), math.MaxInt64, math.MinInt64} {
		add(fmt.Sprintf("clamploop %d", v), "clamploop")
	}
	for i := 0; i < nSplit; i++ {
		l, k := aeSplitLine(NewRNG(rep.Seed, uint64(13_000_000+i)))
		add(l, "splitalpha:"+k)
	}
	gos := make([]string, len(lines))
	aeParallel(len(lines), func(i int) { gos[i] = aeUnitGo(lines[i]) })
	lean, err := RunDriver(lines)
	if err != nil {
		return err
	}
	for i, l := range lean {
		op := strings.SplitN(lines[i], " ", 2)[0]
		rep.Eval(true, []byte(lines[i]))
		if op == "blendposs" || op == "changedrect" {
			res := gos[i]
			if op == "changedrect" && res != "ok 0,0,0,0" {
				res = "ok non-empty"
			}
			rep.Count("unit:" + op + ":" + res)
		}
		if l != gos[i] {
			rep.Add(Finding{Kind: "correspondence", Signature: "animenc-model:" + op,
				Detail: fmt.Sprintf("%s: go=%q lean=%q", short(lines[i], 400), gos[i], l), Input: map[string]any{"op": op, "line": lines[i]}})
		}
	}
	return nil
}

func replayAnimEncUnit(in map[string]any) int {
	line, _ := in["line"].(string)
	if line == "" {
		fmt.Println("bad replay line")
		return 2
	}
	lean, err := RunDriver([]string{line})
	if err != nil {
		fmt.Println(err)
		return 2
	}
	g := aeUnitGo(line)
	fmt.Println("go:  ", g)
	fmt.Println("lean:", lean[0])
	if g != lean[0] {
		return 1
	}
	return 0
}

// ---------------------------------------------------------------------------------------------
// exhaustive: all two-frame sequences over the 2x2 canvas, alpha {0,128,255} x two colours

// aeExhCanvas is exhCanvas of Driver/AnimEnc.lean.
func aeExhCanvas(n int) []byte {
	p := make([]byte, 0, 16)
	for _, d := range []int{n % 6, n / 6 % 6, n / 36 % 6, n / 216 % 6} {
		a := []byte{0, 128, 255}[d%3]
		if d/3 == 0 {
			p = append(p, 200, 16, 32, a)
		} else {
			p = append(p, 10, 11, 12, a)
		}
	}
	return p
}

func aeExhCase(lossless bool, a, b int) *aeCase {
	return &aeCase{w: 2, h: 2, lossless: lossless, quality: 75, alphaCls: "exh", durCls: "exh",
		frames: []aeFrame{{dur: 40, w: 2, h: 2, pix: aeExhCanvas(a)}, {dur: 60, w: 2, h: 2, pix: aeExhCanvas(b)}}}
}

type aeExhResult struct {
	lines   []string
	oracles []string
	kinds   map[string]int
	viols   []struct {
		b int
		v aeViolation
	}
	nontrivial int
}

func aeExhGo(lossless bool, a int) *aeExhResult {
	res := &aeExhResult{kinds: map[string]int{}}
	for b := 0; b < 1296; b++ {
		c := aeExhCase(lossless, a, b)
		g := aeRunMemo(c, true)
		aeFinishMemo(c, g)
		res.lines = append(res.lines, g.line)
		res.oracles = append(res.oracles, g.oracle)
		for _, k := range g.kinds {
			res.kinds[k]++
		}
		if g.distinct >= 2 {
			res.nontrivial++
		}
		for _, v := range g.viol {
			res.viols = append(res.viols, struct {
				b int
				v aeViolation
			}{b, v})
		}
	}
	return res
}

func aeExhLine(lossless bool, a int, oracles []string) string {
	return fmt.Sprintf("animencexh %s 0 75 0 0 %d %s", b2s(lossless), a, strings.Join(oracles, "/"))
}

func aeKV(line, key string) string {
	for _, p := range strings.Split(line, " ") {
		if strings.HasPrefix(p, key+"=") {
			return p[len(key)+1:]
		}
	}
	return ""
}

func aeTraceDigest(lines []string) string {
	var buf bytes.Buffer
	for _, l := range lines {
		buf.WriteString(l)
		buf.WriteByte('\n')
	}
	return digest(buf.Bytes())
}

// aeExhBlock runs one block (first canvas a) on Go and on the driver. Returns the per-case
// correspondence mismatches (case number b, go line, lean line) and the theorem counters' complaint.
func aeExhBlock(lossless bool, a int) (res *aeExhResult, lean string, diffs [][3]string, err error) {
	res = aeExhGo(lossless, a)
	out, err := RunDriver([]string{aeExhLine(lossless, a, res.oracles)})
	if err != nil {
		return res, "", nil, err
	}
	lean = out[0]
	if aeKV(lean, "traces") == aeTraceDigest(res.lines) && strings.HasPrefix(lean, "ok n=1296 ") {
		return res, lean, nil, nil
	}
	// find the differing case(s)
	single := make([]string, 1296)
	for b := range single {
		single[b] = aeExhCase(lossless, a, b).leanLine(res.oracles[b])
	}
	ls, err := RunDriver(single)
	if err != nil {
		return res, lean, nil, err
	}
	for b := range ls {
		if ls[b] != res.lines[b] {
			diffs = append(diffs, [3]string{strconv.Itoa(b), res.lines[b], ls[b]})
		}
	}
	if len(diffs) == 0 {
		diffs = append(diffs, [3]string{"-1", "block digest " + aeTraceDigest(res.lines), lean})
	}
	return res, lean, diffs, nil
}

func aeExhaustive(rep *Report, rp *aeReporter, rich bool) error {
	type job struct {
		lossless bool
		a        int
	}
	var jobs []job
	if rich {
		for a := 0; a < 1296; a++ {
			jobs = append(jobs, job{true, a})
		}
		for a := 0; a < 1296; a++ {
			jobs = append(jobs, job{false, a})
		}
		rep.Exhaustive = true
	} else {
		for _, a := range []int{0, 7, 215, 1295} {
			jobs = append(jobs, job{true, a})
		}
		jobs = append(jobs, job{false, 7}, job{false, 1295})
	}
	var mu sync.Mutex
	var firstErr error
	aeParallel(len(jobs), func(i int) {
		j := jobs[i]
		res, lean, diffs, err := aeExhBlock(j.lossless, j.a)
		mu.Lock()
		defer mu.Unlock()
		if err != nil {
			if firstErr == nil {
				firstErr = err
			}
			return
		}
		tag := "exh:lossy"
		if j.lossless {
			tag = "exh:lossless"
		}
		rep.Count(tag + ":blocks")
		rep.CountN(tag+":cases", 1296)
		rep.CountN(tag+":cases>=2-pictures", res.nontrivial)
		for k, n := range res.kinds {
			rep.CountN(tag+":step:"+k, n)
		}
		for b, l := range res.lines {
			same, _ := aeEqv(aeExhCanvas(j.a), aeExhCanvas(b))
			rep.Eval(!same, []byte(fmt.Sprintf("%s %d %d %s", tag, j.a, b, l)))
		}
		for _, d := range diffs {
			b, _ := strconv.Atoi(d[0])
			if b < 0 {
				rep.Add(Finding{Kind: "correspondence", Signature: "animenc-model:animencexh",
					Detail: fmt.Sprintf("block a=%d: digests differ but no single case does: go=%q lean=%q", j.a, d[1], d[2]),
					Input:  map[string]any{"op": "animencexh", "lossless": j.lossless, "a": j.a}})
				continue
			}
			c := aeExhCase(j.lossless, j.a, b)
			rep.Count("finding:animenc-model:animenc")
			rep.Add(Finding{Kind: "correspondence", Signature: "animenc-model:animenc",
				Detail: fmt.Sprintf("exhaustive block a=%d b=%d (%s): go=%q lean=%q", j.a, b, c.mode(), d[1], d[2]),
				Input:  c.input(c.leanLine(res.oracles[b]), res.oracles[b])})
		}
		if strings.HasPrefix(lean, "ok ") && (aeKV(lean, "c08bad") != "0" || aeKV(lean, "c18bad") != "0" || aeKV(lean, "invbad") != "0") {
			rep.Add(Finding{Kind: "correspondence", Signature: "animenc-theorem:exhaustive",
				Detail: fmt.Sprintf("block a=%d (%s): the model's own playback of its output (toy codec, oracle bits of the real codec) violates C08/C18/the state invariant: %s", j.a, tag, short(lean, 200)),
				Input:  map[string]any{"op": "animencexh", "lossless": j.lossless, "a": j.a}})
		}
		if !strings.HasPrefix(lean, "ok ") {
			rep.Add(Finding{Kind: "correspondence", Signature: "animenc-model:animencexh",
				Detail: fmt.Sprintf("block a=%d: driver answers %q", j.a, short(lean, 200)), Input: map[string]any{"op": "animencexh", "lossless": j.lossless, "a": j.a}})
		}
		for _, bv := range res.viols {
			mu.Unlock()
			c := aeExhCase(j.lossless, j.a, bv.b)
			rp.report(c, bv.v)
			mu.Lock()
		}
	})
	rep.Extra["codec_memo_hits"] = aeMemoHits.Load()
	rep.Extra["codec_memo_rechecked"] = aeMemoChecked.Load()
	rep.Extra["codec_memo_mismatch"] = aeMemoMismatch.Load()
	if n := aeMemoMismatch.Load(); n > 0 {
		rep.Notes = append(rep.Notes, fmt.Sprintf("exhaustive blocks: %d of %d re-checked memoised codec calls gave different bytes (codec not deterministic)", n, aeMemoChecked.Load()))
		rep.Add(Finding{Kind: "correspondence", Signature: "animenc-harness:codec-memo-mismatch",
			Detail: fmt.Sprintf("%d of %d re-encoded pictures gave other bytes than the memoised first encoding", n, aeMemoChecked.Load()), Input: map[string]any{"op": "animencexh", "lossless": true, "a": 0}})
	}
	return firstErr
}

func replayAnimEncExh(in map[string]any) int {
	a, ok := aeNum(in["a"])
	lossless, _ := in["lossless"].(bool)
	if !ok || a < 0 || a >= 1296 {
		fmt.Println("bad replay input")
		return 2
	}
	res, lean, diffs, err := aeExhBlock(lossless, a)
	if err != nil {
		fmt.Println(err)
		return 2
	}
	fmt.Println("go:   traces=" + aeTraceDigest(res.lines))
	fmt.Println("lean:", short(lean, 300))
	rc := 0
	for _, d := range diffs {
		fmt.Printf("case b=%s\n  go:   %s\n  lean: %s\n", d[0], d[1], d[2])
		rc = 1
	}
	for _, bv := range res.viols {
		fmt.Printf("case b=%d FAIL %s %s: %s\n", bv.b, bv.v.prop, bv.v.sig, bv.v.detail)
		rc = 1
	}
	if aeKV(lean, "c08bad") != "0" || aeKV(lean, "c18bad") != "0" || aeKV(lean, "invbad") != "0" {
		rc = 1
	}
	return rc
}
