package main

// Suite "kernels", second half: pipeline level (Encode / Decode under every table configuration),
// the two child builds (purego overlay, GOARCH=386) and the compile matrix.

import (
	"bytes"
	"context"
	"encoding/json"
	"fmt"
	"image"
	"os"
	"os/exec"
	"path/filepath"
	"regexp"
	"runtime"
	"sort"
	"strconv"
	"strings"
	"sync"
	"time"

	"github.com/deepteams/webp"
	"github.com/deepteams/webp/verifapi"
)

// ---------------------------------------------------------------------------
// grid

type pipeItem struct {
	ID   string
	W, H int
	Cls  int
	Acls int
	Opt  *webp.EncoderOptions
	Idx  int
	Wide bool   // wide-row item: Cls is a cheap content class of thresholds.go (GenCheapImage)
	Thr  string // distribution tag of the threshold the size sits at ("" = none)
}

func (it *pipeItem) image(seed uint64) *image.NRGBA {
	if it.Wide {
		return GenCheapImage(NewRNG(seed^0xc13d, uint64(it.W*1000+it.H*7+it.Cls*31+it.Acls)), it.W, it.H, it.Cls, it.Acls)
	}
	return GenImage(NewRNG(seed^0xc13, uint64(it.W*1000+it.H*7+it.Cls*31+it.Acls)), it.W, it.H, it.Cls, it.Acls)
}

type pipeOpt struct {
	name string
	mk   func() *webp.EncoderOptions
}

func pipeOptions() (lossy, lossless []pipeOpt) {
	lo := func(name string, f func(o *webp.EncoderOptions)) pipeOpt {
		return pipeOpt{name, func() *webp.EncoderOptions { o := webp.DefaultOptions(); f(o); return o }}
	}
	for m := 0; m <= 6; m++ {
		m := m
		lossy = append(lossy, lo(fmt.Sprintf("m%d", m), func(o *webp.EncoderOptions) { o.Method = m }))
	}
	for _, q := range []float32{0, 30, 95, 100} {
		q := q
		lossy = append(lossy, lo(fmt.Sprintf("q%v", q), func(o *webp.EncoderOptions) { o.Quality = q }))
	}
	lossy = append(lossy,
		lo("sharp", func(o *webp.EncoderOptions) { o.UseSharpYUV = true }),
		lo("sharp-m6", func(o *webp.EncoderOptions) { o.UseSharpYUV = true; o.Method = 6; o.Quality = 90 }),
		lo("simplefilter", func(o *webp.EncoderOptions) { o.FilterType = 0; o.FilterStrength = 60 }),
		lo("simplefilter-sharp3", func(o *webp.EncoderOptions) {
			o.FilterType = 0
			o.FilterStrength = 100
			o.FilterSharpness = 3
			o.Quality = 20
		}),
		lo("strongfilter-100", func(o *webp.EncoderOptions) { o.FilterStrength = 100; o.FilterSharpness = 7; o.Quality = 10 }),
		lo("nofilter", func(o *webp.EncoderOptions) { o.FilterStrength = 0 }),
		lo("part3", func(o *webp.EncoderOptions) { o.Partitions = 3 }),
		lo("seg1", func(o *webp.EncoderOptions) { o.Segments = 1 }),
		lo("seg2-sns100", func(o *webp.EncoderOptions) { o.Segments = 2; o.SNSStrength = 100 }),
		lo("pass3", func(o *webp.EncoderOptions) { o.Pass = 3 }),
		lo("dither", func(o *webp.EncoderOptions) { o.Preprocessing = 2; o.Quality = 40 }),
		lo("prep3", func(o *webp.EncoderOptions) { o.Preprocessing = 3 }),
		lo("target-size", func(o *webp.EncoderOptions) { o.TargetSize = 600 }),
		lo("target-psnr", func(o *webp.EncoderOptions) { o.TargetPSNR = 38 }),
		lo("exact", func(o *webp.EncoderOptions) { o.Exact = true }),
		lo("alpha-q50", func(o *webp.EncoderOptions) { o.AlphaQuality = 50 }),
		lo("alpha-f2", func(o *webp.EncoderOptions) { o.AlphaFiltering = 2 }),
		lo("alpha-raw", func(o *webp.EncoderOptions) { o.AlphaCompression = 0 }),
		lo("m6-q100", func(o *webp.EncoderOptions) { o.Method = 6; o.Quality = 100 }),
		lo("m0-q5", func(o *webp.EncoderOptions) { o.Method = 0; o.Quality = 5 }),
		lo("qrange", func(o *webp.EncoderOptions) { o.QMin = 20; o.QMax = 60; o.Pass = 2 }),
		lo("jpegsize", func(o *webp.EncoderOptions) { o.EmulateJpegSize = true }),
	)
	for p := 1; p <= 5; p++ {
		p := p
		lossy = append(lossy, pipeOpt{fmt.Sprintf("preset%d", p), func() *webp.EncoderOptions { return webp.OptionsForPreset(webp.Preset(p), 60) }})
	}
	ll := func(name string, f func(o *webp.EncoderOptions)) pipeOpt {
		return pipeOpt{"ll-" + name, func() *webp.EncoderOptions { o := webp.DefaultOptions(); o.Lossless = true; f(o); return o }}
	}
	for m := 0; m <= 6; m++ {
		m := m
		lossless = append(lossless, ll(fmt.Sprintf("m%d", m), func(o *webp.EncoderOptions) { o.Method = m }))
	}
	lossless = append(lossless,
		ll("q0", func(o *webp.EncoderOptions) { o.Quality = 0 }),
		ll("q100-m6", func(o *webp.EncoderOptions) { o.Quality = 100; o.Method = 6 }),
		ll("exact", func(o *webp.EncoderOptions) { o.Exact = true }),
		ll("q25-m2", func(o *webp.EncoderOptions) { o.Quality = 25; o.Method = 2 }),
	)
	return
}

// pipeWideSizes: lossy stills WITH alpha (the only decode path that returns *image.NRGBA through the fancy
// upsampler's line-pair wrapper) wider than the wrapper's 2048 / 4096 scratch limits, colour changing along the row.
// Heights: 2 = two single lines (no pair), 3 = one single line + one pair.
var pipeWideSizes = [][2]int{{2049, 3}, {2050, 2}, {4097, 2}, {4100, 3}}

// pipeWideItems: the fixed wide sizes plus a few width thresholds of thresholds.go (>= 1000) drawn per seed.
func pipeWideItems(tier string, seed uint64) []pipeItem {
	type wi struct {
		w, h int
		thr  string
		desc string
	}
	var ws []wi
	for _, d := range pipeWideSizes {
		thr := "threshold:2048width"
		if d[0] > 3000 {
			thr = "threshold:4096width"
		}
		ws = append(ws, wi{d[0], d[1], thr, ""})
	}
	k := 4
	if tier == "thorough" {
		k = 16
	}
	for _, tc := range DrawThresholdCases(seed, 0xc13, k, ThresholdFilter{Units: []string{"width"}, MinValue: 1000, MaxPixels: 70000, Tiny: []int{2, 3, 4}}) {
		ws = append(ws, wi{tc.W, tc.H, tc.Tag(), " " + tc.String()})
	}
	acls := []int{AlphaGradient, AlphaBinary, AlphaFewLevels, AlphaSemiFlat}
	var items []pipeItem
	for j, x := range ws {
		kind, a := []int{CheapGradient, CheapRows}[j%2], acls[j%len(acls)]
		o := webp.DefaultOptions()
		name := "m4"
		if j%3 == 2 {
			o.AlphaCompression = 0
			name = "alpha-raw"
		}
		items = append(items, pipeItem{ID: cheapDesc(x.w, x.h, kind, a) + "/" + name + x.desc, W: x.w, H: x.h, Cls: kind, Acls: a, Opt: o, Wide: true, Thr: x.thr})
	}
	return items
}

func pipelineGrid(tier string, seed uint64) []pipeItem {
	type im struct{ w, h, cls, acls int }
	main := []im{{48, 40, ClsPhoto, AlphaNone}, {40, 33, ClsPhoto, AlphaGradient}}
	rest := []im{{33, 17, ClsNoise, AlphaNone}, {64, 64, ClsGradient, AlphaNone}, {17, 9, ClsPal16, AlphaBinary},
		{1, 1, ClsFlat, AlphaNone}, {16, 16, ClsFlat, AlphaNone}, {24, 24, ClsNoise, AlphaNoise}, {35, 3, ClsPal4, AlphaFewLevels}}
	if tier == "thorough" {
		main = append(main, im{130, 70, ClsPhoto, AlphaNoise}, im{96, 96, ClsNoise, AlphaNone})
		rest = append(rest, im{320, 240, ClsPhoto, AlphaNone}, im{317, 317, ClsPhoto, AlphaBinary}, im{2, 300, ClsGradient, AlphaNone},
			im{300, 2, ClsPal256, AlphaGradient}, im{100, 100, ClsPal2, AlphaNone})
	}
	lossy, lossless := pipeOptions()
	var items []pipeItem
	add := func(i im, o pipeOpt) {
		items = append(items, pipeItem{ID: fmt.Sprintf("%s/%s", imgDesc(i.w, i.h, i.cls, i.acls), o.name), W: i.w, H: i.h, Cls: i.cls, Acls: i.acls, Opt: o.mk(), Idx: len(items)})
	}
	for _, i := range main {
		for _, o := range lossy {
			add(i, o)
		}
		for _, o := range lossless {
			add(i, o)
		}
	}
	sub := []string{"m0", "m4", "m6", "q0", "q100", "sharp", "simplefilter", "strongfilter-100", "dither", "ll-m0", "ll-m4", "ll-m6"}
	for _, i := range rest {
		for _, o := range append(append([]pipeOpt{}, lossy...), lossless...) {
			keep := tier == "thorough"
			for _, s := range sub {
				keep = keep || o.name == s
			}
			if keep {
				add(i, o)
			}
		}
	}
	for _, it := range pipeWideItems(tier, seed) {
		it.Idx = len(items)
		items = append(items, it)
	}
	return items
}

func encodeItem(seed uint64, it *pipeItem) (data []byte, line string) {
	line, pm := guard(func() string {
		var buf bytes.Buffer
		if err := webp.Encode(&buf, it.image(seed), it.Opt); err != nil {
			return "err"
		}
		data = buf.Bytes()
		return "ok " + digest(data)
	})
	if line == "panic" {
		line = "panic " + short(pm, 80)
	}
	return
}

func imageDigest(img image.Image) string {
	var b []byte
	r := img.Bounds()
	w, h := r.Dx(), r.Dy()
	switch m := img.(type) {
	case *image.YCbCr:
		for y := 0; y < h; y++ {
			b = append(b, m.Y[y*m.YStride:y*m.YStride+w]...)
		}
		cw, ch := (w+1)/2, (h+1)/2
		for y := 0; y < ch; y++ {
			b = append(b, m.Cb[y*m.CStride:y*m.CStride+cw]...)
			b = append(b, m.Cr[y*m.CStride:y*m.CStride+cw]...)
		}
		return fmt.Sprintf("ycbcr:%dx%d:%s", w, h, digest(b))
	case *image.NRGBA:
		for y := 0; y < h; y++ {
			b = append(b, m.Pix[y*m.Stride:y*m.Stride+4*w]...)
		}
		return fmt.Sprintf("nrgba:%dx%d:%s", w, h, digest(b))
	default:
		n := toNRGBA(img)
		return fmt.Sprintf("%T:%dx%d:%s", img, w, h, digest(n.Pix))
	}
}

func decodeLine(data []byte) string {
	line, pm := guard(func() string {
		img, err := webp.Decode(bytes.NewReader(data))
		if err != nil {
			return "err"
		}
		return "ok " + imageDigest(img)
	})
	if line == "panic" {
		line = "panic " + short(pm, 80)
	}
	return line
}

// mutateStream overwrites bytes in the entropy-coded tail of a lossy file: the boolean decoder accepts any
// bytes, so this reaches coefficient values no encoder emits (large category-6 tokens times the dequantiser).
func mutateStream(r *RNG, data []byte) []byte {
	out := append([]byte(nil), data...)
	if len(out) < 64 {
		return out
	}
	from := len(out) * 2 / 5
	switch r.Intn(3) {
	case 0:
		for k := 0; k < 8+r.Intn(24); k++ {
			out[from+r.Intn(len(out)-from)] = byte(r.Next())
		}
	case 1:
		for i := from; i < len(out); i++ {
			out[i] = byte(r.Next())
		}
	default:
		for i := from; i < len(out); i++ {
			out[i] = 0xff
		}
	}
	return out
}

type pipeFile struct {
	Name    string
	Data    []byte
	Mutated bool
}

// decodeSet: every file the default configuration encoded, the repository's test files and mutated streams.
func decodeSet(seed uint64, tier string, items []pipeItem, enc [][]byte) []pipeFile {
	var files []pipeFile
	for i, it := range items {
		if enc[i] != nil {
			files = append(files, pipeFile{Name: fmt.Sprintf("enc%04d:%s", i, it.ID), Data: enc[i]})
		}
	}
	repo := repoDir()
	for _, pat := range []string{"testdata/*.webp", "testdata/lossless/*.webp", "testdata/*/*.webp"} {
		ms, _ := filepath.Glob(filepath.Join(repo, pat))
		sort.Strings(ms)
		for _, m := range ms {
			if b, err := os.ReadFile(m); err == nil && len(b) < 1<<20 {
				files = append(files, pipeFile{Name: "testdata:" + filepath.Base(m), Data: b})
			}
		}
	}
	// past witnesses (crafted / mutated streams on which code paths were seen to differ)
	if ms, _ := filepath.Glob(filepath.Join(corpusC13Dir(), "*.webp")); len(ms) > 0 {
		sort.Strings(ms)
		for _, m := range ms {
			if b, err := os.ReadFile(m); err == nil && len(b) < 1<<20 {
				files = append(files, pipeFile{Name: "corpus:" + filepath.Base(m), Data: b, Mutated: true})
			}
		}
	}
	// noise images carry many large coefficients, so their mutated token partitions reach the wide coefficient
	// range (|coeff| up to the int16 limits after dequantisation) most often
	nNoise, nOther := 40, 2
	if tier == "thorough" {
		nNoise, nOther = 250, 12
	}
	for i, it := range items {
		if enc[i] == nil || it.Opt.Lossless || it.W*it.H < 256 || it.Wide {
			continue
		}
		n := nOther
		if it.Cls == ClsNoise {
			n = nNoise
		}
		for k := 0; k < n; k++ {
			r := NewRNG(seed^0x6d75, uint64(i*1024+k))
			files = append(files, pipeFile{Name: fmt.Sprintf("mut%04d.%d:%s", i, k, it.ID), Data: mutateStream(r, enc[i]), Mutated: true})
		}
	}
	return files
}

// corpusC13Dir: <corpus>/C13 (the -corpus flag lives in a file the child builds do not compile).
func corpusC13Dir() string {
	if d := os.Getenv("VERIF_CORPUS"); d != "" {
		return filepath.Join(d, "C13")
	}
	if _, err := os.Stat(filepath.Join(filepath.Dir(harnessDir()), "corpus", "C13")); err == nil {
		return filepath.Join(filepath.Dir(harnessDir()), "corpus", "C13")
	}
	return "/verif/corpus/C13"
}

func repoDir() string {
	if d := os.Getenv("VERIF_REPO"); d != "" {
		return d
	}
	return "/repo"
}

// ---------------------------------------------------------------------------
// pipeline level, in process

func pipelineConfigs() []string {
	arch, asm := verifapi.DspArch()
	cfgs := []string{"default"}
	if asm && arch == "amd64" && verifapi.DspCPUHasAVX2() {
		cfgs = append(cfgs, "noavx2")
	}
	if asm {
		cfgs = append(cfgs, "portable")
	}
	return cfgs
}

type pipeResult struct {
	items []pipeItem
	enc   [][]byte // default-configuration output
	encL  []string
	files []pipeFile
	decL  []string
}

func parallelFor(n int, f func(i int)) {
	var wg sync.WaitGroup
	sem := make(chan struct{}, runtime.NumCPU())
	for i := 0; i < n; i++ {
		wg.Add(1)
		sem <- struct{}{}
		go func(i int) {
			defer wg.Done()
			defer func() { <-sem }()
			f(i)
		}(i)
	}
	wg.Wait()
}

func pipelineLevel(rep *Report) *pipeResult {
	res := &pipeResult{items: pipelineGrid(rep.Tier, rep.Seed)}
	n := len(res.items)
	cfgs := pipelineConfigs()
	rep.Extra["pipeline_configs"] = cfgs
	encBy := map[string][][]byte{}
	lineBy := map[string][]string{}
	for _, cfg := range cfgs {
		verifapi.DspSetConfig(cfg)
		enc, lines := make([][]byte, n), make([]string, n)
		parallelFor(n, func(i int) { enc[i], lines[i] = encodeItem(rep.Seed, &res.items[i]) })
		encBy[cfg], lineBy[cfg] = enc, lines
	}
	verifapi.DspSetConfig("default")
	res.enc, res.encL = encBy["default"], lineBy["default"]
	for i := range res.items {
		it := &res.items[i]
		kind := "lossy"
		if it.Opt.Lossless {
			kind = "lossless"
		}
		rep.Count("pipeline-encode/" + kind)
		if it.Wide {
			rep.Count("pipeline-encode/wide-row")
			rep.Count(it.Thr)
		}
		rep.Eval(it.W*it.H > 1, []byte("enc|"+it.ID))
		for _, cfg := range cfgs[1:] {
			if lineBy[cfg][i] != res.encL[i] {
				// confirm sequentially: a difference that does not reproduce is non-determinism (C10/C11), not C13
				verifapi.DspSetConfig("default")
				_, a2 := encodeItem(rep.Seed, it)
				verifapi.DspSetConfig(cfg)
				_, b2 := encodeItem(rep.Seed, it)
				verifapi.DspSetConfig("default")
				if a2 == b2 || a2 != res.encL[i] {
					rep.Notes = append(rep.Notes, fmt.Sprintf("pipeline encode %s: difference default/%s did not reproduce sequentially (%s | %s | %s | %s): non-determinism, not counted against C13", it.ID, cfg, res.encL[i], lineBy[cfg][i], a2, b2))
					continue
				}
				rep.Add(Finding{Kind: "property", Property: "C13", Signature: "pipeline:encode:" + cfg,
					Detail: fmt.Sprintf("%s: default %s, %s %s", it.ID, res.encL[i], cfg, lineBy[cfg][i]),
					Input:  map[string]any{"item": it.ID, "w": it.W, "h": it.H, "cls": it.Cls, "acls": it.Acls, "opts": fmt.Sprintf("%+v", *it.Opt), "seed": rep.Seed}})
			}
		}
		if strings.HasPrefix(res.encL[i], "panic") || res.encL[i] == "err" {
			rep.Count("pipeline-encode/" + strings.Fields(res.encL[i])[0])
		}
	}
	res.files = decodeSet(rep.Seed, rep.Tier, res.items, res.enc)
	decBy := map[string][]string{}
	for _, cfg := range cfgs {
		verifapi.DspSetConfig(cfg)
		lines := make([]string, len(res.files))
		parallelFor(len(res.files), func(i int) { lines[i] = decodeLine(res.files[i].Data) })
		decBy[cfg] = lines
	}
	verifapi.DspSetConfig("default")
	res.decL = decBy["default"]
	for i, f := range res.files {
		cls := "valid"
		if f.Mutated {
			cls = "mutated"
		}
		rep.Count("pipeline-decode/" + cls + "/" + strings.Fields(res.decL[i])[0])
		rep.Eval(true, append([]byte("dec|"), f.Data...))
		for _, cfg := range cfgs[1:] {
			if decBy[cfg][i] != res.decL[i] {
				verifapi.DspSetConfig("default")
				a2 := decodeLine(f.Data)
				verifapi.DspSetConfig(cfg)
				b2 := decodeLine(f.Data)
				verifapi.DspSetConfig("default")
				if a2 == b2 || a2 != res.decL[i] {
					rep.Notes = append(rep.Notes, fmt.Sprintf("pipeline decode %s: difference default/%s did not reproduce sequentially: non-determinism, not counted against C13", f.Name, cfg))
					continue
				}
				rep.Add(decodeFinding(f, cfg, res.decL[i], decBy[cfg][i]))
			}
		}
	}
	return res
}

func decodeFinding(f pipeFile, cfg, a, b string) Finding {
	sig := "pipeline:decode:" + cfg
	if f.Mutated {
		sig = "pipeline:decode-mutated:" + cfg
	}
	return Finding{Kind: "property", Property: "C13", Signature: sig,
		Detail: fmt.Sprintf("%s: default %s, %s %s", f.Name, a, cfg, b), Input: map[string]any{"file": f.Name, "hex": hx(f.Data)}}
}

// pipelineChild: the same grid and (when the parent handed some over) the same files through this binary.
func pipelineChild(rep *Report) {
	items := pipelineGrid(rep.Tier, rep.Seed)
	lines := make([]string, len(items))
	parallelFor(len(items), func(i int) { _, lines[i] = encodeItem(rep.Seed, &items[i]) })
	rep.Extra["penc"] = lines
	dir := os.Getenv("VERIF_KERNELS_FILES")
	if dir == "" {
		return
	}
	names, _ := filepath.Glob(filepath.Join(dir, "f*.webp"))
	sort.Strings(names)
	dl := make([]string, len(names))
	parallelFor(len(names), func(i int) {
		b, err := os.ReadFile(names[i])
		if err != nil {
			dl[i] = "io"
			return
		}
		dl[i] = decodeLine(b)
	})
	rep.Extra["pdec"] = dl
}

// ---------------------------------------------------------------------------
// child builds

func harnessDir() string {
	if d := os.Getenv("VERIF_HARNESS_DIR"); d != "" {
		return d
	}
	if exe, err := os.Executable(); err == nil {
		d := filepath.Dir(filepath.Dir(exe))
		if b, err := os.ReadFile(filepath.Join(d, "go.mod")); err == nil && strings.Contains(string(b), "module verif/harness") {
			return d
		}
	}
	return "/verif/harness"
}

func goEnv(extra ...string) []string {
	env := []string{}
	for _, e := range os.Environ() {
		if strings.HasPrefix(e, "GOFLAGS=") || strings.HasPrefix(e, "GOPROXY=") || strings.HasPrefix(e, "GOOS=") || strings.HasPrefix(e, "GOARCH=") ||
			strings.HasPrefix(e, "CGO_ENABLED=") {
			continue
		}
		env = append(env, e)
	}
	return append(append(env, "GOFLAGS=-mod=mod", "GOPROXY=off"), extra...)
}

var reNotAmd64 = regexp.MustCompile(`\s*(&&)?\s*!amd64\s*(&&)?\s*`)

// puregoOverlay writes a -overlay file that removes every *_amd64.go / *_amd64.s file of the module and frees the
// `!amd64` fallbacks from that constraint: the amd64 build of exactly the portable sources.
func puregoOverlay(tmp string) (map[string]string, int, error) {
	repo := repoDir()
	repl := map[string]string{}
	n := 0
	err := filepath.Walk(repo, func(p string, fi os.FileInfo, err error) error {
		if err != nil {
			return err
		}
		if fi.IsDir() {
			if b := fi.Name(); b == ".git" || b == "testdata" || b == "testc" {
				return filepath.SkipDir
			}
			return nil
		}
		name := fi.Name()
		if strings.HasSuffix(name, "_test.go") {
			return nil
		}
		if strings.HasSuffix(name, "_amd64.go") || strings.HasSuffix(name, "_amd64.s") {
			repl[p] = ""
			n++
			return nil
		}
		if !strings.HasSuffix(name, ".go") {
			return nil
		}
		src, err := os.ReadFile(p)
		if err != nil {
			return err
		}
		lines := strings.SplitN(string(src), "\n", 12)
		for i, l := range lines {
			if !strings.HasPrefix(l, "//go:build ") || !strings.Contains(l, "!amd64") {
				continue
			}
			expr := strings.TrimPrefix(l, "//go:build ")
			// drop the `!amd64` conjunct (all constraints in this module are plain conjunctions)
			parts := strings.Split(expr, "&&")
			var keep []string
			for _, q := range parts {
				if strings.TrimSpace(q) != "!amd64" {
					keep = append(keep, strings.TrimSpace(q))
				}
			}
			if strings.Contains(strings.Join(keep, " "), "amd64") || strings.Contains(expr, "||") {
				return fmt.Errorf("%s: build constraint %q is not a plain conjunction", p, expr)
			}
			if len(keep) == 0 {
				lines[i] = "// (build constraint removed by the purego overlay)"
			} else {
				lines[i] = "//go:build " + strings.Join(keep, " && ")
			}
			out := filepath.Join(tmp, fmt.Sprintf("ov%03d_%s", n, name))
			if err := os.WriteFile(out, []byte(strings.Join(lines, "\n")), 0o644); err != nil {
				return err
			}
			repl[p] = out
			n++
			break
		}
		return nil
	})
	if err != nil {
		return nil, 0, err
	}
	return repl, n, nil
}

// childMain is the whole command of a child build: only the kernels suite and its helpers are compiled (the
// other suites are not needed and some do not compile for 32-bit targets).
const childMain = `package main

import (
	"flag"
	"fmt"
	"os"
)

var suites = map[string]func(*Report) error{}

func main() {
	suite := flag.String("suite", "", "suite name")
	tier := flag.String("tier", "quick", "quick|thorough")
	seed := flag.Uint64("seed", 1, "seed")
	out := flag.String("out", "", "report json")
	flag.StringVar(&DrvPath, "drv", "", "unused")
	flag.Parse()
	f, ok := suites[*suite]
	if !ok {
		os.Exit(2)
	}
	rep := NewReport(*suite, *tier, *seed)
	if err := f(rep); err != nil {
		fmt.Fprintln(os.Stderr, err)
		os.Exit(2)
	}
	if err := rep.Write(*out); err != nil {
		fmt.Fprintln(os.Stderr, err)
		os.Exit(2)
	}
}
`

var childFiles = map[string]bool{"common.go": true, "drv.go": true, "rng.go": true, "imggen.go": true, "thresholds.go": true,
	"suite_kernels.go": true, "suite_kernels_pipe.go": true, "suite_kernels_range.go": true}

// childOverlay restricts cmd/vcheck to the kernels suite (and, for purego, also applies the module overlay).
func childOverlay(tmp, label string, module map[string]string) (string, error) {
	repl := map[string]string{}
	for k, v := range module {
		repl[k] = v
	}
	dir := filepath.Join(harnessDir(), "cmd", "vcheck")
	ents, err := os.ReadDir(dir)
	if err != nil {
		return "", err
	}
	mainFile := filepath.Join(tmp, "childmain_"+label+".go")
	if err := os.WriteFile(mainFile, []byte(childMain), 0o644); err != nil {
		return "", err
	}
	for _, e := range ents {
		n := e.Name()
		if e.IsDir() || !strings.HasSuffix(n, ".go") || childFiles[n] {
			continue
		}
		if n == "main.go" {
			repl[filepath.Join(dir, n)] = mainFile
		} else {
			repl[filepath.Join(dir, n)] = ""
		}
	}
	b, _ := json.MarshalIndent(map[string]any{"Replace": repl}, "", " ")
	f := filepath.Join(tmp, "overlay_"+label+".json")
	return f, os.WriteFile(f, b, 0o644)
}

// probe386 checks that this machine executes GOARCH=386 binaries at all ("" = yes).
func probe386(tmp string) string {
	dir := filepath.Join(tmp, "probe386")
	os.MkdirAll(dir, 0o755)
	os.WriteFile(filepath.Join(dir, "go.mod"), []byte("module probe386\n\ngo 1.21\n"), 0o644)
	os.WriteFile(filepath.Join(dir, "main.go"), []byte("package main\n\nimport \"os\"\n\nfunc main() { os.Stdout.WriteString(\"ok386\") }\n"), 0o644)
	ctx, cancel := context.WithTimeout(context.Background(), 5*time.Minute)
	defer cancel()
	b := exec.CommandContext(ctx, "go", "build", "-o", "probe", ".")
	b.Dir, b.Env = dir, goEnv("GOARCH=386", "GOOS=linux", "CGO_ENABLED=0")
	if out, err := b.CombinedOutput(); err != nil {
		return "probe build failed: " + short(string(out), 200)
	}
	out, err := exec.CommandContext(ctx, filepath.Join(dir, "probe")).Output()
	if err != nil || string(out) != "ok386" {
		return fmt.Sprintf("this machine cannot execute a GOARCH=386 binary (%v)", err)
	}
	return ""
}

type childResult struct {
	Label string
	Extra map[string]any
	Err   string
	Wall  float64
	Build float64
}

// runChild builds vcheck with the given build environment and, once the parent's files are there, runs
// suite kernels-child.
func runChild(rep *Report, label, tmp string, buildArgs, buildEnv []string, filesDir string, filesReady <-chan struct{}) childResult {
	t0 := time.Now()
	res := childResult{Label: label}
	hd := harnessDir()
	bin := filepath.Join(tmp, "vcheck_"+label)
	args := append([]string{"build", "-tags", "verif"}, buildArgs...)
	args = append(args, "-o", bin, "./cmd/vcheck")
	ctx, cancel := context.WithTimeout(context.Background(), 12*time.Minute)
	defer cancel()
	cmd := exec.CommandContext(ctx, "go", args...)
	cmd.Dir = hd
	cmd.Env = goEnv(buildEnv...)
	if out, err := cmd.CombinedOutput(); err != nil {
		res.Err = fmt.Sprintf("build (%s in %s): %v: %s", strings.Join(args, " "), hd, err, short(string(out), 1500))
		return res
	}
	res.Build = time.Since(t0).Seconds()
	<-filesReady
	outJSON := filepath.Join(tmp, label+".json")
	run := exec.CommandContext(ctx, bin, "-suite", "kernels-child", "-tier", rep.Tier, "-seed", strconv.FormatUint(rep.Seed, 10), "-out", outJSON)
	run.Env = append(os.Environ(), "VERIF_KERNELS_LABEL="+label, "VERIF_KERNELS_FILES="+filesDir, "VERIF_REPO="+repoDir())
	if out, err := run.CombinedOutput(); err != nil {
		res.Err = fmt.Sprintf("run: %v: %s", err, short(string(out), 1500))
		return res
	}
	b, err := os.ReadFile(outJSON)
	if err != nil {
		res.Err = err.Error()
		return res
	}
	var r struct {
		Extra map[string]any `json:"extra"`
	}
	if err := json.Unmarshal(b, &r); err != nil {
		res.Err = err.Error()
		return res
	}
	res.Extra = r.Extra
	res.Wall = time.Since(t0).Seconds()
	return res
}

func strList(v any) []string {
	l, _ := v.([]any)
	out := make([]string, len(l))
	for i, x := range l {
		out[i], _ = x.(string)
	}
	return out
}

// childRef is what a child's results are compared with: the parent's own results, or those of a "fresh" child.
type childRef struct {
	label string
	kdig  map[string][]string // per kernel: hex digest of the whole output state of every case (portable path)
	enc   []string
	dec   []string // indexed like fileIdx
}

func parentRef(parentKernels map[string][]uint64, pr *pipeResult, fileIdx []int) childRef {
	r := childRef{label: "parent", kdig: map[string][]string{}, enc: pr.encL}
	for k, ds := range parentKernels {
		xs := make([]string, len(ds))
		for i, d := range ds {
			xs[i] = strconv.FormatUint(d, 16)
		}
		r.kdig[k] = xs
	}
	for _, fi := range fileIdx {
		r.dec = append(r.dec, pr.decL[fi])
	}
	return r
}

func refOfChild(c childResult) childRef {
	r := childRef{label: c.Label, kdig: map[string][]string{}, enc: strList(c.Extra["penc"]), dec: strList(c.Extra["pdec"])}
	kd, _ := c.Extra["kdig"].(map[string]any)
	for k, v := range kd {
		r.kdig[k] = strList(v)
	}
	return r
}

// childDiffs lists where a child's results differ from a reference.
func childDiffs(rep *Report, c childResult, ref childRef, pr *pipeResult, fileIdx []int, kernelsToo bool) (fs []Finding, notes []string, evals int) {
	kd, _ := c.Extra["kdig"].(map[string]any)
	if kernelsToo {
		for _, k := range kernelList() {
			want := ref.kdig[k.Name]
			got := strList(kd[k.Name])
			if len(got) != len(want) {
				notes = append(notes, fmt.Sprintf("child %s: kernel %s has %d digests, %s %d", c.Label, k.Name, len(got), ref.label, len(want)))
				continue
			}
			for i := range want {
				evals++
				if got[i] == want[i] {
					continue
				}
				v := kvecFor(rep.Seed, k, i)
				in := v.input()
				in["kernel"], in["case"], in["seed"] = k.Name, i, rep.Seed
				fs = append(fs, Finding{Kind: "property", Property: "C13", Signature: kdiffSignature(k, v, c.Label, "go"),
					Detail: fmt.Sprintf("class %s: whole-buffer digest differs (child %s, portable path of %s %s)", v.Class, got[i], ref.label, want[i]), Input: in})
			}
		}
	}
	penc := strList(c.Extra["penc"])
	if len(penc) == len(pr.items) && len(ref.enc) == len(pr.items) {
		for i := range penc {
			evals++
			if penc[i] != ref.enc[i] {
				it := pr.items[i]
				fs = append(fs, Finding{Kind: "property", Property: "C13", Signature: "pipeline:encode:" + c.Label,
					Detail: fmt.Sprintf("%s: %s %s, %s %s", it.ID, ref.label, ref.enc[i], c.Label, penc[i]),
					Input:  map[string]any{"item": it.ID, "w": it.W, "h": it.H, "cls": it.Cls, "acls": it.Acls, "opts": fmt.Sprintf("%+v", *it.Opt), "seed": rep.Seed}})
			}
		}
	} else {
		notes = append(notes, fmt.Sprintf("child %s: %d encode lines, %s %d, grid %d", c.Label, len(penc), ref.label, len(ref.enc), len(pr.items)))
	}
	pdec := strList(c.Extra["pdec"])
	if len(pdec) == len(fileIdx) && len(ref.dec) == len(fileIdx) {
		for j, fi := range fileIdx {
			evals++
			if pdec[j] != ref.dec[j] {
				fs = append(fs, decodeFinding(pr.files[fi], c.Label, ref.dec[j], pdec[j]))
			}
		}
	} else {
		notes = append(notes, fmt.Sprintf("child %s: %d decode lines, %s %d, handed over %d files", c.Label, len(pdec), ref.label, len(ref.dec), len(fileIdx)))
	}
	return
}

// compareChild evaluates a child against the parent (kernels: the parent's portable path; pipeline: its default run).
// fresh (may be nil) builds and runs a plain child of the current source tree: when the parent binary turns out to be
// older than the tree the children were compiled from, the purego child is compared with that one instead.
func compareChild(rep *Report, c childResult, ref childRef, pr *pipeResult, fileIdx []int, fresh func() childResult) {
	if c.Err != "" {
		rep.Notes = append(rep.Notes, fmt.Sprintf("child %s not evaluated: %s", c.Label, c.Err))
		rep.Extra["child_"+c.Label] = "skipped"
		return
	}
	rep.Extra["child_"+c.Label] = map[string]any{"goarch": c.Extra["goarch"], "asm_build": c.Extra["asm_build"], "intbits": c.Extra["intbits"], "wall_s": c.Wall, "build_s": c.Build}
	if asm, _ := c.Extra["asm_build"].(bool); asm {
		rep.Add(Finding{Kind: "correspondence", Property: "C13", Signature: "hook:child-" + c.Label + "-not-portable", Detail: "the child build still carries assembly kernels", Input: map[string]any{}})
	}
	if slots, ok := c.Extra["slots"].(map[string]any); ok {
		for name, impl := range slots {
			if s, _ := impl.(string); strings.Contains(s, "SSE2") || strings.Contains(s, "AVX2") {
				rep.Add(Finding{Kind: "correspondence", Property: "C13", Signature: "hook:child-" + c.Label + "-not-portable", Detail: name + " = " + s, Input: map[string]any{}})
			}
		}
	}
	if kp, ok := c.Extra["kpanics"].(map[string]any); ok {
		for k, v := range kp {
			name := strings.SplitN(k, "|", 2)[0]
			rep.Add(Finding{Kind: "property", Property: "C13", Signature: "kernel:" + name + ":panic-" + c.Label, Detail: fmt.Sprint(v), Input: map[string]any{"kernel": name}})
		}
	}
	fs, notes, evals := childDiffs(rep, c, ref, pr, fileIdx, true)
	if len(fs) > 0 && fresh != nil {
		if f := fresh(); f.Err != "" {
			rep.Notes = append(rep.Notes, "fresh child (staleness check) not evaluated: "+f.Err)
		} else if stale, _, _ := childDiffs(rep, f, ref, pr, fileIdx, false); len(stale) > 0 {
			// a plain build of the current tree already differs from this binary: the tree changed after the
			// harness was built.  Compare the children with each other (same tree, same moment).
			rep.Notes = append(rep.Notes, fmt.Sprintf("the harness binary is older than the source tree the child builds were compiled from (%d pipeline results of a plain rebuild differ, first: %s); child %s is compared with that rebuild instead — rebuild the harness", len(stale), short(stale[0].Detail, 160), c.Label))
			fr := refOfChild(f)
			fr.kdig = ref.kdig // kernel digests of a fresh child are those of its default (asm) path: keep the portable reference
			fs, notes, evals = childDiffs(rep, c, fr, pr, fileIdx, true)
		}
	}
	rep.Notes = append(rep.Notes, notes...)
	rep.Evaluations += evals
	for _, f := range fs {
		if strings.HasPrefix(f.Signature, "kernel") {
			rep.Count("kernel-diff/" + f.Signature + "[" + c.Label + "]")
		}
		rep.Add(f)
	}
}

// ---------------------------------------------------------------------------
// compile matrix

var quickTargets = []string{"linux/amd64", "linux/arm64", "linux/386", "linux/arm", "windows/amd64", "darwin/arm64", "js/wasm",
	"linux/riscv64", "linux/mips", "linux/ppc64le"}

type buildResult struct {
	Target string  `json:"target"`
	OK     bool    `json:"ok"`
	Class  string  `json:"class"` // ok | cgo-only | toolchain-bug | fail
	Wall   float64 `json:"wall_s"`
	Output string  `json:"output,omitempty"`
}

func classifyBuild(target, out string) string {
	switch {
	case strings.Contains(out, "requires external (cgo) linking") || strings.Contains(out, "requires external linking") ||
		strings.Contains(out, "-buildmode=pie requires external"):
		// android/*, ios/*: the Go linker cannot produce these binaries without cgo; packages themselves compile
		return "cgo-only"
	case strings.HasSuffix(target, "/s390x") && strings.Contains(out, "illegal combination MOVWBR ADDR"):
		// go1.24–go1.26 s390x back end: internal error on a byte-reversed store of a package-level uint32
		// variable (14-line reproducer without any repository code; see the suite report)
		return "toolchain-bug"
	default:
		return "fail"
	}
}

func compileMatrix(rep *Report) {
	repo := repoDir()
	if _, err := os.Stat(filepath.Join(repo, "go.mod")); err != nil {
		rep.Notes = append(rep.Notes, "compile matrix skipped: no module at "+repo)
		return
	}
	verCmd := exec.Command("go", "version")
	verCmd.Dir, verCmd.Env = repo, goEnv()
	ver, _ := verCmd.Output()
	rep.Extra["go_version"] = strings.TrimSpace(string(ver))
	var targets []string
	if rep.Tier == "thorough" {
		cmd := exec.Command("go", "tool", "dist", "list")
		cmd.Dir, cmd.Env = repo, goEnv()
		out, err := cmd.Output()
		if err != nil {
			rep.Notes = append(rep.Notes, "compile matrix skipped: go tool dist list: "+err.Error())
			return
		}
		targets = strings.Fields(string(out))
	} else {
		targets = quickTargets
	}
	// non-main packages: what must still compile where the linker needs cgo
	var libPkgs []string
	{
		cmd := exec.Command("go", "list", "-f", `{{if ne .Name "main"}}{{.ImportPath}}{{end}}`, "./...")
		cmd.Dir, cmd.Env = repo, goEnv()
		out, _ := cmd.Output()
		libPkgs = strings.Fields(string(out))
	}
	cold := os.Getenv("VERIF_MATRIX_COLD") == "1"
	tmp, _ := os.MkdirTemp("", "c13matrix")
	defer os.RemoveAll(tmp)
	res := make([]buildResult, len(targets))
	var wg sync.WaitGroup
	sem := make(chan struct{}, 8)
	for i, t := range targets {
		wg.Add(1)
		sem <- struct{}{}
		go func(i int, t string) {
			defer wg.Done()
			defer func() { <-sem }()
			t0 := time.Now()
			osArch := strings.SplitN(t, "/", 2)
			env := []string{"GOOS=" + osArch[0], "GOARCH=" + osArch[1], "CGO_ENABLED=0"}
			if cold {
				env = append(env, "GOCACHE="+filepath.Join(tmp, strings.ReplaceAll(t, "/", "_")))
			}
			ctx, cancel := context.WithTimeout(context.Background(), 15*time.Minute)
			defer cancel()
			cmd := exec.CommandContext(ctx, "go", "build", "./...")
			cmd.Dir, cmd.Env = repo, goEnv(env...)
			out, err := cmd.CombinedOutput()
			r := buildResult{Target: t, OK: err == nil, Class: "ok", Wall: time.Since(t0).Seconds()}
			if err != nil {
				r.Class = classifyBuild(t, string(out))
				r.Output = short(string(out), 1200)
				if r.Class == "cgo-only" {
					// the linker limitation only concerns main packages: the library packages must still compile
					pk := exec.CommandContext(ctx, "go", append([]string{"build"}, libPkgs...)...)
					pk.Dir, pk.Env = repo, goEnv(env...)
					if o2, e2 := pk.CombinedOutput(); e2 != nil && !strings.Contains(string(o2), "matched no packages") {
						if c2 := classifyBuild(t, string(o2)); c2 == "fail" {
							r.Class = "fail"
							r.Output = short(string(o2), 1200)
						}
					}
				}
			}
			res[i] = r
		}(i, t)
	}
	wg.Wait()
	rep.Extra["compile_matrix"] = res
	rep.Extra["compile_cache"] = map[bool]string{true: "private temporary GOCACHE per target (VERIF_MATRIX_COLD=1)", false: "shared GOCACHE (content-addressed; failures are never cached)"}[cold]
	for _, r := range res {
		rep.Eval(true, []byte("compile|"+r.Target))
		rep.Count("compile/" + r.Class)
		switch r.Class {
		case "ok":
		case "cgo-only":
			rep.Notes = append(rep.Notes, fmt.Sprintf("compile %s: the toolchain needs external (cgo) linking for main packages on this platform; all library packages compile (toolchain limitation, not counted)", r.Target))
		case "toolchain-bug":
			rep.Notes = append(rep.Notes, fmt.Sprintf("compile %s: KNOWN toolchain limitation — internal compiler error `illegal combination MOVWBR ADDR` of the s390x back end (go1.24.2 … go1.26.8) on binary.LittleEndian.PutUint32(buf, <package-level uint32 variable>) at mux/mux.go:332/334/428/430 (mux.FourCCRIFF / FourCCWEBP are `var` re-exports in mux/chunk.go); go1.23.5 compiles it; declaring the two values `const` avoids it", r.Target))
		default:
			rep.Add(Finding{Kind: "property", Property: "C13", Signature: "compile:" + r.Target, Detail: short(r.Output, 600),
				Input: map[string]any{"target": r.Target, "cmd": "CGO_ENABLED=0 GOOS=" + strings.Replace(r.Target, "/", " GOARCH=", 1) + " go build ./..."}})
		}
	}
	if rep.Tier == "thorough" {
		rep.Exhaustive = true
	}
}

// ---------------------------------------------------------------------------
// the suite

func suiteKernels(rep *Report) error {
	t0 := time.Now()
	var wgMatrix sync.WaitGroup
	matrixRep := NewReport(rep.Suite, rep.Tier, rep.Seed)
	if os.Getenv("VERIF_KERNELS_NOMATRIX") != "1" {
		wgMatrix.Add(1)
		go func() { defer wgMatrix.Done(); compileMatrix(matrixRep) }()
	}

	// children are built while the in-process legs run
	tmp, err := os.MkdirTemp("", "c13kernels")
	if err != nil {
		return err
	}
	defer os.RemoveAll(tmp)
	filesDir := filepath.Join(tmp, "files")
	os.MkdirAll(filesDir, 0o755)
	filesReady := make(chan struct{})
	type childSpec struct {
		label     string
		args, env []string
	}
	var specs []childSpec
	arch, asm := verifapi.DspArch()
	if os.Getenv("VERIF_KERNELS_NOCHILD") != "1" && os.Getenv("VERIF_KERNELS_LABEL") == "" {
		if arch == "amd64" && asm {
			if mod, n, err := puregoOverlay(tmp); err != nil {
				rep.Notes = append(rep.Notes, "purego child skipped: "+err.Error())
			} else if ov, err := childOverlay(tmp, "purego", mod); err != nil {
				rep.Notes = append(rep.Notes, "purego child skipped: "+err.Error())
			} else {
				specs = append(specs, childSpec{"purego", []string{"-overlay", ov}, nil})
				rep.Extra["purego_overlay_files"] = n
			}
			if why := probe386(tmp); why != "" {
				rep.Notes = append(rep.Notes, "go386 child (portable Go with a 32-bit int) skipped: "+why)
			} else if ov, err := childOverlay(tmp, "go386", nil); err != nil {
				rep.Notes = append(rep.Notes, "go386 child skipped: "+err.Error())
			} else {
				specs = append(specs, childSpec{"go386", []string{"-overlay", ov}, []string{"GOARCH=386", "GOOS=linux", "CGO_ENABLED=0"}})
			}
		}
	}
	children := make([]childResult, len(specs))
	var wgChild sync.WaitGroup
	for i, s := range specs {
		wgChild.Add(1)
		go func(i int, s childSpec) {
			defer wgChild.Done()
			children[i] = runChild(rep, s.label, tmp, s.args, s.env, filesDir, filesReady)
		}(i, s)
	}

	if err := kernelLevel(rep); err != nil {
		close(filesReady)
		wgChild.Wait()
		wgMatrix.Wait()
		return err
	}
	rep.Extra["kernel_level_wall_s"] = time.Since(t0).Seconds()
	pr := pipelineLevel(rep)
	rep.Extra["pipeline_level_wall_s"] = time.Since(t0).Seconds()
	// hand the files over to the children
	var fileIdx []int
	for i, f := range pr.files {
		if err := os.WriteFile(filepath.Join(filesDir, fmt.Sprintf("f%05d.webp", len(fileIdx))), f.Data, 0o644); err == nil {
			fileIdx = append(fileIdx, i)
		}
	}
	close(filesReady)

	// the parent's portable-path digests are what the children are compared with
	_, dig, _ := runKernelPaths(rep.Seed, rep.Tier, []kpath{{"go", ""}})
	parentKernels := map[string][]uint64{}
	for name, m := range dig {
		parentKernels[name] = m["go"]
	}
	wgChild.Wait()
	pref := parentRef(parentKernels, pr, fileIdx)
	var freshOnce sync.Once
	var freshRes childResult
	fresh := func() childResult {
		freshOnce.Do(func() {
			ov, err := childOverlay(tmp, "fresh", nil)
			if err != nil {
				freshRes = childResult{Label: "fresh", Err: err.Error()}
				return
			}
			freshRes = runChild(rep, "fresh", tmp, []string{"-overlay", ov}, nil, filesDir, filesReady)
		})
		return freshRes
	}
	for _, c := range children {
		compareChild(rep, c, pref, pr, fileIdx, fresh)
	}
	wgMatrix.Wait()
	// merge the matrix report
	for k, v := range matrixRep.Extra {
		rep.Extra[k] = v
	}
	rep.Notes = append(rep.Notes, matrixRep.Notes...)
	for _, f := range matrixRep.Findings {
		rep.Add(f)
	}
	for k, v := range matrixRep.Distribution {
		rep.CountN(k, v)
	}
	rep.Evaluations += matrixRep.Evaluations
	for h := range matrixRep.distinct {
		rep.distinct[h] = struct{}{}
	}
	rep.Exhaustive = matrixRep.Exhaustive
	if _, ok := rep.Extra["compile_matrix"]; !ok {
		rep.Exhaustive = false
	}

	rep.Rule = "kernel level: every dsp dispatch slot, every *_direct_* wrapper and lossy.QuantizeCoeffs/DequantCoeffs driven with the same vectors " +
		"(coefficient classes zero/DC/DC rounding ties/{0,1,4}/sparse/±2048 extremes/saturation and the wide classes full-int16; pixel classes random/0/255/near-0/near-255; " +
		"predictor edges incl. TM saturation and DC ties; filter thresholds 0..193 and segments at the limit/interior-limit/hev boundaries; strides 16..100 with random bytes around every block, whole buffers compared) " +
		"through AVX2 (default table), SSE2 (hasAVX2 off), the portable Go twin, a purego build (amd64 without any *_amd64 file) and a GOARCH=386 build, and through the Lean reference; " +
		"single-path Go kernels (decoder loop filters, dsp/filter.go, YUV→RGB, clip tables, nzCodeBits/doTransform/doUVTransform) against Lean only; " +
		"pipeline level: a grid of images (photo/noise/gradient/palette/flat × alpha classes, 1x1 … 64x64, thorough up to 320x240) × lossy options (Method 0..6, qualities, sharp YUV, both filters, partitions, segments, passes, dithering, target size/PSNR, presets, alpha options) and lossless options " +
		"encoded under default / AVX2-off / all-portable tables in process and in the purego and 386 children (bytes must be identical); every encoded file, the repository's test files and entropy-mutated lossy streams decoded under every configuration (pixels must be identical); " +
		"compile clause: CGO_ENABLED=0 go build ./... for a fixed subset (quick) or every GOOS/GOARCH of `go tool dist list` (thorough, exhaustive). non-trivial = every kernel vector, every image larger than 1x1, every build"
	return nil
}
