package main

// Suite "kernels", third part:
//   * the quantiser sweep: all 128 quantiser indices × {y1 (with sharpening), y2, uv} with every raster position
//     placed at a rounding threshold of its own matrix entry;
//   * the range scan: from which input magnitude each SIMD kernel leaves the portable one (signature
//     kernel-range:<name>; in-range equality, |coeff| ≤ 2047, is the C13 obligation and keeps kernel:<name>:…);
//   * the audit that every TEXT symbol of every *_amd64.s file is reached by a compared kernel.

import (
	"bytes"
	"fmt"
	"os"
	"path/filepath"
	"regexp"
	"sort"
	"strings"

	"github.com/deepteams/webp/verifapi"
)

// inRangeCoeff is the largest coefficient magnitude of the in-range ("std") domain.
const inRangeCoeff = 2047

// ---------------------------------------------------------------------------
// quantiser sweep

var quantSweepLevels = []int{1, 2, 3, 7, 64, 2046, 2047, 2048}

const quantSweepPerMatrix = 8 * 3 * 2 // levels × deltas × signs

func quantSweepCount() int { return 128 * 3 * quantSweepPerMatrix }

// quantSweepVec: case j of the sweep.  Every raster position n carries the smallest |v| whose level reaches L for
// that position's own (iq, bias, sharpen[n]) — shifted by delta ∈ {-1, 0, +1} — so one block probes 16 thresholds.
func quantSweepVec(j int) *kvec {
	q := j / (3 * quantSweepPerMatrix)
	typ := (j / quantSweepPerMatrix) % 3
	rest := j % quantSweepPerMatrix
	L := quantSweepLevels[rest/6]
	delta := (rest/2)%3 - 1
	sign := 1 - 2*(rest%2)
	y1, y2, uv := verifapi.DspSegmentMatrices(q)
	sq := []verifapi.DspSegmentQuant{y1, y2, uv}[typ]
	v := &kvec{Dom: "std", Class: fmt.Sprintf("sweep q=%d type=%d L=%d d=%d s=%d", q, typ, L, delta, sign)}
	v.S[0] = make([]int16, 16)
	v.S[2] = append([]int16(nil), sq.Sharpen[:]...)
	v.I[0] = (j / 2) % 2 // firstCoeff
	v.I[1], v.I[2], v.I[3], v.I[4] = sq.IQuant, sq.Bias, sq.DCIQuant, sq.DCBias
	for n := 0; n < 16; n++ {
		iq, bias := sq.IQuant, sq.Bias
		if n == 0 {
			iq, bias = sq.DCIQuant, sq.DCBias
		}
		// smallest a with (a*iq + bias) >> 17 >= L
		a := (L<<17 - bias + iq - 1) / iq
		x := a - int(sq.Sharpen[n]) + delta
		if x < 0 {
			x = 0
		}
		if x > 32767 {
			x = 32767
		}
		if x > inRangeCoeff {
			v.Dom = "wide"
		}
		v.S[0][n] = int16(sign * x)
	}
	r := NewRNG(0x715, uint64(j))
	v.S[1] = make([]int16, 16+8)
	for k := range v.S[1] {
		v.S[1][k] = int16(r.Next())
	}
	return v
}

// ---------------------------------------------------------------------------
// range scan

type rangeInfo struct {
	Path           string `json:"path"`
	FirstDiverging int    `json:"first_diverging"` // smallest magnitude at which a difference was found (0 = none up to the maximum)
	EqualBelow     int    `json:"equal_verified_from"`
	Witness        string `json:"witness,omitempty"`
	Detail         string `json:"detail,omitempty"`
	Vectors        int    `json:"vectors_per_magnitude"`
}

// coefFamily: the vectors tried at magnitude M.  The 2-D transforms are separable, so the sign patterns that
// maximise an intermediate are products of a row and a column pattern; sparse and random vectors are added.
func coefFamily(M int, r *RNG) [][16]int16 {
	var out [][16]int16
	m := int16(M)
	sg := func(bit int) int16 {
		if bit != 0 {
			return -m
		}
		return m
	}
	for rp := 0; rp < 16; rp++ {
		for cp := 0; cp < 16; cp++ {
			var c [16]int16
			for y := 0; y < 4; y++ {
				for x := 0; x < 4; x++ {
					c[4*y+x] = sg((rp >> y & 1) ^ (cp >> x & 1))
				}
			}
			out = append(out, c)
		}
	}
	for line := 0; line < 4; line++ {
		for p := 0; p < 16; p++ {
			var a, b [16]int16
			for k := 0; k < 4; k++ {
				a[4*k+line] = sg(p >> k & 1) // one column
				b[4*line+k] = sg(p >> k & 1) // one row
			}
			out = append(out, a, b)
		}
	}
	for i := 0; i < 16; i++ {
		var c [16]int16
		c[i] = m
		out = append(out, c)
		c[i] = -m
		out = append(out, c)
		for j := i + 1; j < 16; j++ {
			for s := 0; s < 4; s++ {
				var d [16]int16
				d[i], d[j] = sg(s&1), sg(s>>1)
				out = append(out, d)
			}
		}
	}
	for k := 0; k < 600; k++ {
		var c [16]int16
		for i := range c {
			switch k % 3 {
			case 0:
				c[i] = int16(rnd(r, -M, M))
			case 1:
				c[i] = sg(r.Intn(2))
			default:
				c[i] = []int16{m, -m, 0}[r.Intn(3)]
			}
		}
		out = append(out, c)
	}
	return out
}

// rangeVec builds the kernel vector for coefficient block c and a flat prediction of value pix.
func rangeVec(k kentry, base *kvec, c [16]int16, pix byte) *kvec {
	v := *base
	v.S[0] = make([]int16, len(base.S[0]))
	for b := 0; b+16 <= len(v.S[0]); b += 16 {
		copy(v.S[0][b:], c[:])
	}
	for i := 0; i < 2; i++ {
		if base.B[i] != nil {
			v.B[i] = append([]byte(nil), base.B[i]...)
			for y := 0; y < 8; y++ {
				for x := 0; x < 8; x++ {
					v.B[i][v.Off[i]+y*kBPS+x] = pix
				}
			}
		}
	}
	v.Two = true
	return &v
}

var rangeEvals int

var rangeKernels = []string{"ITransform", "ITransformDirect", "Transform", "TransformUV", "TransformWHT", "FTransformWHT"}

func findKernel(name string) (kentry, bool) {
	for _, k := range kernelList() {
		if k.Name == name {
			return k, true
		}
	}
	return kentry{}, false
}

// divergesAt reports the first vector of magnitude M on which the installed kernel differs from the portable twin.
func divergesAt(k kentry, base *kvec, M int, fam [][16]int16) (bool, *kvec, string) {
	sig := ksigs[k.Sig]
	defer func() { rangeEvals += len(fam) }()
	pixes := []byte{128}
	if base.B[0] != nil {
		pixes = []byte{128, 0, 255}
	}
	for _, c := range fam {
		for _, pix := range pixes {
			v := rangeVec(k, base, c, pix)
			var a, b *kout
			func() {
				defer func() { recover() }()
				a, b = sig.run(k.Cur, v), sig.run(k.Go, v)
			}()
			if a == nil || b == nil {
				return true, v, "panic"
			}
			if !bytes.Equal(a.bytes(), b.bytes()) {
				return true, v, koutFirstDiff(a, b)
			}
		}
	}
	return false, nil, ""
}

func rangeScan(rep *Report, paths []kpath) {
	out := map[string][]rangeInfo{}
	window := 12
	if rep.Tier == "thorough" {
		window = 160
	}
	for _, p := range paths {
		if p.Cfg == "" {
			continue
		}
		verifapi.DspSetConfig(p.Cfg)
		for _, name := range rangeKernels {
			k, ok := findKernel(name)
			if !ok {
				continue
			}
			base := ksigs[k.Sig].gen(k.Name, NewRNG(rep.Seed^0x7a9e, 1), 0)
			fam := func(M int) [][16]int16 { return coefFamily(M, NewRNG(rep.Seed^0x7a9e, uint64(M))) }
			info := rangeInfo{Path: p.Label, Vectors: len(fam(1))}
			if d, _, _ := divergesAt(k, base, 32767, fam(32767)); !d {
				info.Detail = "no difference up to 32767"
				out[name] = append(out[name], info)
				continue
			}
			lo, hi := inRangeCoeff, 32767 // invariant: differs at hi; lo is a candidate lower end
			if d, w, det := divergesAt(k, base, lo, fam(lo)); d {
				hi = lo // already inside the in-range domain: the ordinary kernel: finding reports it as well
				info.Witness, info.Detail = i16s(w.S[0][:16]), det
			}
			for lo+1 < hi {
				mid := (lo + hi) / 2
				if d, _, _ := divergesAt(k, base, mid, fam(mid)); d {
					hi = mid
				} else {
					lo = mid
				}
			}
			// the predicate need not be monotone: walk the window below the boundary
			first := hi
			for M := hi - 1; M >= hi-window && M > inRangeCoeff; M-- {
				if d, _, _ := divergesAt(k, base, M, fam(M)); d {
					first = M
				}
			}
			if first < hi {
				hi = first
				for M := hi - 1; M >= hi-window && M > inRangeCoeff; M-- {
					if d, _, _ := divergesAt(k, base, M, fam(M)); d {
						hi = M
					}
				}
			}
			_, w, det := divergesAt(k, base, hi, fam(hi))
			info.FirstDiverging, info.EqualBelow = hi, hi-window
			if w != nil {
				info.Witness, info.Detail = i16s(w.S[0][:16]), det
			}
			out[name] = append(out[name], info)
		}
		// quantiser: |in| at which the 16-bit |in| + sharpen of the SIMD code wraps (y1 matrix of the largest quantiser)
		if k, ok := findKernel("lossy.QuantizeCoeffs"); ok {
			y1, _, _ := verifapi.DspSegmentMatrices(127)
			mk := func(M int, sign int) *kvec {
				v := quantSweepVec(0)
				v.S[2] = append([]int16(nil), y1.Sharpen[:]...)
				v.I[0], v.I[1], v.I[2], v.I[3], v.I[4] = 0, y1.IQuant, y1.Bias, y1.DCIQuant, y1.DCBias
				for n := range v.S[0] {
					v.S[0][n] = int16(sign * M)
				}
				return v
			}
			differs := func(M int) (bool, *kvec, string) {
				for _, s := range []int{1, -1} {
					v := mk(M, s)
					a, b := ksigs["quant"].run(k.Cur, v), ksigs["quant"].run(k.Go, v)
					if !bytes.Equal(a.bytes(), b.bytes()) {
						return true, v, koutFirstDiff(a, b)
					}
				}
				return false, nil, ""
			}
			info := rangeInfo{Path: p.Label, Vectors: 2}
			if d, _, _ := differs(32767); d {
				first := 32767
				for M := 32766; M > inRangeCoeff; M-- { // linear: cheap
					if d, _, _ := differs(M); d {
						first = M
					} else if M < first-2048 {
						break
					}
				}
				_, w, det := differs(first)
				info.FirstDiverging, info.EqualBelow, info.Witness, info.Detail = first, first-2048, i16s(w.S[0]), det+fmt.Sprintf(" (y1 matrix of q=127, sharpen %s)", i16s(w.S[2]))
			} else {
				info.Detail = "no difference up to 32767"
			}
			out["lossy.QuantizeCoeffs"] = append(out["lossy.QuantizeCoeffs"], info)
		}
		// simple filter: thresholds at which the SIMD code leaves the portable one (the decoder passes 1..193)
		if k, ok := findKernel("SimpleVFilter16"); ok {
			var bad []int
			ts := []int{}
			for t := -3; t <= 640; t++ {
				ts = append(ts, t)
			}
			ts = append(ts, 1000, 4096, 32767, 65536, -128, -32768)
			for _, t := range ts {
				diff := false
				for i := 0; i < 60 && !diff; i++ {
					v := ksigs["sfilter"].gen(k.Name, NewRNG(rep.Seed^0x5f17, uint64(i)), i)
					v.I[2] = t
					a, b := ksigs["sfilter"].run(k.Cur, v), ksigs["sfilter"].run(k.Go, v)
					diff = !bytes.Equal(a.bytes(), b.bytes())
				}
				if diff {
					bad = append(bad, t)
				}
			}
			info := rangeInfo{Path: p.Label, Vectors: 60, Detail: "thresholds tried: -3..640 and {-32768,-128,1000,4096,32767,65536}; differing: " + intRanges(bad)}
			if len(bad) > 0 {
				for _, t := range bad {
					if t > 0 && (info.FirstDiverging == 0 || t < info.FirstDiverging) {
						info.FirstDiverging = t
					}
				}
			}
			out["SimpleVFilter16"] = append(out["SimpleVFilter16"], info)
		}
	}
	verifapi.DspSetConfig("default")
	rep.Evaluations += rangeEvals
	rep.Extra["kernel_range"] = out
	names := make([]string, 0, len(out))
	for n := range out {
		names = append(names, n)
	}
	sort.Strings(names)
	for _, n := range names {
		var parts []string
		diverges := false
		inRange := false
		var witness string
		for _, in := range out[n] {
			switch {
			case n == "SimpleVFilter16":
				parts = append(parts, in.Path+": "+in.Detail)
				diverges = diverges || strings.Contains(in.Detail, "differing: ") && !strings.HasSuffix(in.Detail, "differing: none")
			case in.FirstDiverging == 0:
				parts = append(parts, in.Path+": "+in.Detail)
			default:
				diverges = true
				inRange = inRange || in.FirstDiverging <= inRangeCoeff
				witness = in.Witness
				parts = append(parts, fmt.Sprintf("%s: differs from the portable kernel from max|input| = %d on (equal for every tried vector of magnitude %d..%d; %d vectors per magnitude); first difference %s on %s",
					in.Path, in.FirstDiverging, in.EqualBelow, in.FirstDiverging-1, in.Vectors, in.Detail, in.Witness))
			}
		}
		if !diverges {
			continue
		}
		sig := "kernel-range:" + n
		if inRange {
			sig = "kernel:" + n + ":in-range-divergence"
		}
		rep.Add(Finding{Kind: "property", Property: "C13", Signature: sig, Detail: strings.Join(parts, " || "),
			Input: map[string]any{"kernel": n, "witness": witness, "in_range_limit": inRangeCoeff, "seed": rep.Seed}})
	}
}

func intRanges(xs []int) string {
	if len(xs) == 0 {
		return "none"
	}
	sort.Ints(xs)
	var parts []string
	for i := 0; i < len(xs); {
		j := i
		for j+1 < len(xs) && xs[j+1] == xs[j]+1 {
			j++
		}
		if j > i {
			parts = append(parts, fmt.Sprintf("%d..%d", xs[i], xs[j]))
		} else {
			parts = append(parts, fmt.Sprint(xs[i]))
		}
		i = j + 1
	}
	return strings.Join(parts, ",")
}

// ---------------------------------------------------------------------------
// audit: every assembly symbol is reached by a compared kernel

// asmCoverage: TEXT symbol → the compared kernel entries through which it runs (amd64).
var asmCoverage = map[string]string{
	"addGreenToBlueAndRedAVX2": "AddGreenToBlueAndRedFunc (default)", "addGreenToBlueAndRedSSE2": "AddGreenToBlueAndRedFunc (noavx2)",
	"subtractGreenAVX2": "SubtractGreenFunc (default)", "subtractGreenSSE2": "SubtractGreenFunc (noavx2)",
	"dc16asmSSE2": "PredLuma16[0], PredLuma16Direct", "tm16asmSSE2": "PredLuma16[1], PredLuma16Direct",
	"ve16asmSSE2": "PredLuma16[2], PredLuma16Direct", "he16asmSSE2": "PredLuma16[3], PredLuma16Direct",
	"dc8uvasmSSE2": "PredChroma8[0], PredChroma8Direct", "tm8uvasmSSE2": "PredChroma8[1], PredChroma8Direct",
	"ve8uvasmSSE2": "PredChroma8[2], PredChroma8Direct", "he8uvasmSSE2": "PredChroma8[3], PredChroma8Direct",
	"dequantCoeffsSSE2": "lossy.DequantCoeffs", "quantizeACSSE2": "lossy.QuantizeCoeffs (noavx2)", "quantizeACAVX2": "lossy.QuantizeCoeffs (default)",
	"nzCountACSSE2":  "lossy.QuantizeCoeffs",
	"fTransformAVX2": "FTransform, FTransform2, FTransformDirect (default)", "fTransformSSE2": "FTransform, FTransformDirect (noavx2)",
	"fTransformWHTSSE2": "FTransformWHT", "transformWHTSSE2": "TransformWHT",
	"iTransformOneAVX2":   "ITransform, Transform, TransformUV, ITransformDirect (default)",
	"iTransformOneSSE2":   "ITransform, Transform, TransformUV, ITransformDirect (noavx2)",
	"simpleVFilter16AVX2": "SimpleVFilter16, SimpleVFilter16i (default)", "simpleVFilter16SSE2": "SimpleVFilter16, SimpleVFilter16i (noavx2)",
	"sse16x16AVX2": "SSE16x16, SSE16x16Direct (default)", "sse16x16SSE2": "SSE16x16, SSE16x16Direct (noavx2)", "sse4x4SSE2": "SSE4x4, SSE4x4Direct",
	"tDisto4x4AVX2": "TDisto4x4, TDisto16x16 (default)", "tDisto4x4SSE2": "TDisto4x4, TDisto16x16 (noavx2)",
	"yuvPackedToNRGBABatchAVX2": "UpsampleLinePairNRGBA (default, widths >= 8)", "yuvPackedToNRGBABatchSSE2": "UpsampleLinePairNRGBA (widths >= 4)",
	"cpuidAVX2Check": "feature detection (not a kernel)",
}

var reText = regexp.MustCompile(`(?m)^TEXT\s+·([A-Za-z0-9_]+)\(SB\)`)

func asmAudit(rep *Report) {
	repo := repoDir()
	found := map[string][]string{}
	filepath.Walk(repo, func(p string, fi os.FileInfo, err error) error {
		if err != nil || fi.IsDir() || !strings.HasSuffix(p, ".s") {
			return nil
		}
		b, err := os.ReadFile(p)
		if err != nil {
			return nil
		}
		arch := "other"
		for _, a := range []string{"amd64", "arm64"} {
			if strings.HasSuffix(p, "_"+a+".s") {
				arch = a
			}
		}
		for _, m := range reText.FindAllStringSubmatch(string(b), -1) {
			found[arch] = append(found[arch], m[1])
			if arch == "amd64" {
				if _, ok := asmCoverage[m[1]]; !ok {
					rel, _ := filepath.Rel(repo, p)
					rep.Add(Finding{Kind: "correspondence", Property: "C13", Signature: "hook:uncovered-asm-symbol:" + m[1],
						Detail: "assembly routine " + m[1] + " in " + rel + " is not reached by any kernel the suite compares", Input: map[string]any{"file": rel}})
				}
			} else if arch == "other" {
				rel, _ := filepath.Rel(repo, p)
				rep.Add(Finding{Kind: "correspondence", Property: "C13", Signature: "hook:uncovered-asm-file", Detail: rel, Input: map[string]any{"file": rel}})
			}
		}
		return nil
	})
	for _, l := range found {
		sort.Strings(l)
	}
	rep.Extra["asm_symbols"] = found
	rep.Extra["asm_coverage"] = asmCoverage
	if n := len(found["arm64"]); n > 0 {
		arch, _ := verifapi.DspArch()
		if arch != "arm64" {
			rep.Notes = append(rep.Notes, fmt.Sprintf("%d arm64 NEON routines (%s) cannot be executed on this %s machine: they are covered by the compile matrix only", n, strings.Join(found["arm64"], " "), arch))
		}
	}
}
