package main

import (
	"bytes"
	"fmt"
	"image"
	"math/bits"
	"os"
	"path/filepath"
	"regexp"
	"runtime"
	"sort"
	"strings"
	"sync"
	"time"

	webp "github.com/deepteams/webp"
	"github.com/deepteams/webp/verifapi"
)

// Suite vp8l: whole-stream differential test of the Go VP8L decoder (lossless.DecodeVP8L)
// against the Lean spec decoder Webp.Spec.VP8L.decode (driver ops vp8l / vp8lpx / vp8linfo),
// with the source image of every encoder-made stream as a third voice.

func init() {
	suites["vp8l"] = suiteVP8L
	replayers["vp8l"] = replayVP8L
}

type vp8lCase struct {
	payload []byte
	kind    string // enc | testdata | mut:<what>
	desc    string // generator configuration
	// encoder-made streams only:
	src   *image.NRGBA
	exact bool
	area  int
}

// vp8lPayload returns the payload of the first VP8L chunk of a RIFF/WebP file (simple or VP8X).
func vp8lPayload(file []byte) []byte {
	if len(file) < 20 || string(file[:4]) != "RIFF" || string(file[8:12]) != "WEBP" {
		return nil
	}
	for _, c := range scanChunks(file) {
		if string(file[c.off:c.off+4]) == "VP8L" {
			end := c.off + 8 + c.size
			if end > len(file) {
				end = len(file)
			}
			return file[c.off+8 : end]
		}
	}
	return nil
}

// vp8lDims reads width, height and the alpha bit from a VP8L header (needs 5 bytes).
func vp8lDims(p []byte) (w, h int, alpha bool) {
	if len(p) < 5 {
		return 0, 0, false
	}
	bits := uint32(p[1]) | uint32(p[2])<<8 | uint32(p[3])<<16 | uint32(p[4])<<24
	return int(bits&0x3fff) + 1, int((bits>>14)&0x3fff) + 1, (bits>>28)&1 == 1
}

// normPix returns a copy of NRGBA bytes with every alpha-0 pixel set to 00000000.
func normPix(pix []byte) []byte {
	out := append([]byte(nil), pix...)
	for i := 0; i+3 < len(out); i += 4 {
		if out[i+3] == 0 {
			out[i], out[i+1], out[i+2] = 0, 0, 0
		}
	}
	return out
}

// tightPix returns the R,G,B,A bytes of img without stride padding.
func tightPix(img *image.NRGBA) []byte {
	w, h := img.Rect.Dx(), img.Rect.Dy()
	if img.Stride == 4*w {
		return img.Pix[:4*w*h]
	}
	out := make([]byte, 0, 4*w*h)
	for y := 0; y < h; y++ {
		out = append(out, img.Pix[y*img.Stride:y*img.Stride+4*w]...)
	}
	return out
}

func vp8lLine(w, h int, alpha bool, pix []byte) string {
	return fmt.Sprintf("ok w=%d h=%d alpha=%s px=%s npx=%s", w, h, b2s(alpha), digest(pix), digest(normPix(pix)))
}

// goVP8L is the canonical line of the real decoder for op "vp8l". The alpha flag is not
// returned by DecodeVP8L; it is the header's alpha_is_used bit (as webp.GetFeatures reports it).
func goVP8L(data []byte) string {
	img, err := verifapi.DecodeVP8L(data)
	if err != nil {
		return "err " + verifapi.VP8LErrorClass(err)
	}
	_, _, alpha := vp8lDims(data)
	return vp8lLine(img.Rect.Dx(), img.Rect.Dy(), alpha, tightPix(img))
}

func goVP8LPx(data []byte) string {
	img, err := verifapi.DecodeVP8L(data)
	if err != nil {
		return "err " + verifapi.VP8LErrorClass(err)
	}
	_, _, alpha := vp8lDims(data)
	return fmt.Sprintf("ok w=%d h=%d alpha=%s px=%s", img.Rect.Dx(), img.Rect.Dy(), b2s(alpha), hx(tightPix(img)))
}

var vp8lQualities = []int{0, 10, 25, 50, 75, 90, 100}

var vp8lSides = []int{1, 2, 3, 4, 5, 7, 8, 9, 15, 16, 17, 31, 32, 33, 63, 64, 65}

// vp8lEncCases builds the deterministic list of encoder configurations.
func vp8lEncCases(seed uint64, tier string) []func() vp8lCase {
	perCombo := 40
	nBig := 4
	if tier == "thorough" {
		perCombo = 110
		nBig = 14
	}
	var gens []func() vp8lCase
	idx := uint64(0)
	mk := func(w, h, cls, acls, q, m int, exact bool, id uint64) func() vp8lCase {
		return func() vp8lCase {
			r := NewRNG(seed, 0x10000000+id)
			img := GenImage(r, w, h, cls, acls)
			o := webp.DefaultOptions()
			o.Lossless = true
			o.Quality = float32(q)
			o.Method = m
			o.Exact = exact
			var buf bytes.Buffer
			desc := fmt.Sprintf("%s q=%d m=%d exact=%s", imgDesc(w, h, cls, acls), q, m, b2s(exact))
			if err := webp.Encode(&buf, img, o); err != nil {
				return vp8lCase{kind: "encfail", desc: desc + ": " + err.Error()}
			}
			return vp8lCase{payload: vp8lPayload(buf.Bytes()), kind: "enc", desc: desc, src: img, exact: exact, area: w * h}
		}
	}
	for _, q := range vp8lQualities {
		for m := 0; m <= 6; m++ {
			for _, exact := range []bool{false, true} {
				for k := 0; k < perCombo; k++ {
					r := NewRNG(seed, 0x20000000+idx)
					var w, h int
					switch r.Intn(8) {
					case 0:
						w, h = 1, 1+r.Intn(200)
					case 1:
						w, h = 1+r.Intn(200), 1
					case 2:
						w, h = 1, 1
					default:
						w, h = r.Pick(vp8lSides), r.Pick(vp8lSides)
					}
					if tier == "thorough" && r.Chance(1, 40) {
						w, h = r.Pick([]int{127, 128, 129, 255, 257}), r.Pick([]int{33, 64, 127, 129})
					}
					// k walks the colour classes so that every (q, m, exact) sees every class
					cls := (k + int(idx)) % NumImgClasses
					if (cls == ClsPhoto || cls == ClsNoise || cls == ClsGradient) && r.Bool() {
						// enough pixels for > 256 colours: predictor + cross-colour + meta codes instead of a palette
						w, h = r.Pick(vp8lSides[10:]), r.Pick(vp8lSides[10:])
					}
					acls := r.Intn(NumAlphaClasses)
					if r.Chance(1, 2) {
						acls = AlphaNone
					}
					gens = append(gens, mk(w, h, cls, acls, q, m, exact, idx))
					idx++
				}
			}
		}
	}
	// pictures above the decoder's 100000-pixel parallel threshold, heights prime / odd (so that the
	// row split over the workers has a remainder for every worker count) next to 320x320
	for k := 0; k < nBig; k++ {
		r := NewRNG(seed, 0x30000000+uint64(k))
		cls := []int{ClsPhoto, ClsPal16, ClsNoise, ClsGradient, ClsPal256, ClsPal4}[k%6]
		acls := []int{AlphaNone, AlphaGradient, AlphaBinary}[k%3]
		sz := vp8lBigSizes[(k+int(seed))%len(vp8lBigSizes)]
		gens = append(gens, mk(sz[0], sz[1], cls, acls, r.Pick([]int{50, 75, 90}), []int{4, 6, 2, 5, 3, 1}[k%6], k%2 == 1, 0x900000+uint64(k)))
	}
	// threshold leg (thresholds.go): sizes just below / on / just above the numeric thresholds of the
	// code, cheap content (flat / gradient / sparse marks / per-row colours)
	nThr := 12
	if tier == "thorough" {
		nThr = 1 << 20
	}
	for k, tc := range DrawThresholdCases(seed, 0x03, nThr, ThresholdFilter{MaxPixels: 140000, MinValue: 200}) {
		tc := tc
		id := 0x980000 + uint64(k)
		gens = append(gens, func() vp8lCase {
			r := NewRNG(seed, 0x10000000+id)
			kind := r.Intn(NumCheapClasses)
			acls := []int{AlphaNone, AlphaNone, AlphaGradient, AlphaSparse}[r.Intn(4)]
			img := GenCheapImage(r, tc.W, tc.H, kind, acls)
			o := webp.DefaultOptions()
			o.Lossless = true
			o.Quality = float32(r.Pick([]int{25, 50, 75, 90}))
			o.Method = r.Intn(7)
			o.Exact = r.Bool()
			desc := fmt.Sprintf("%s %s q=%d m=%d exact=%s", cheapDesc(tc.W, tc.H, kind, acls), tc.Tag(), int(o.Quality), o.Method, b2s(o.Exact))
			var buf bytes.Buffer
			if err := webp.Encode(&buf, img, o); err != nil {
				return vp8lCase{kind: "encfail", desc: desc + ": " + err.Error()}
			}
			return vp8lCase{payload: vp8lPayload(buf.Bytes()), kind: "enc", desc: desc, src: img, exact: o.Exact, area: tc.W * tc.H}
		})
	}
	return gens
}

var vp8lBigSizes = [][2]int{{317, 331}, {400, 251}, {256, 401}, {320, 320}, {1000, 101}, {101, 1000}, {333, 307}}

// vp8lProcsLeg decodes every large encoder-made stream again under GOMAXPROCS 2, 3, 5 and 7 (the batch
// runs under the ambient value): above 100000 pixels the decoder splits the inverse transforms and the
// ARGB->NRGBA conversion by rows over the workers; every worker count must reproduce the source.
func (v *vp8lRun) procsLeg(cases []vp8lCase) {
	defer runtime.GOMAXPROCS(runtime.GOMAXPROCS(0))
	for _, c := range cases {
		if c.src == nil || c.area < 90000 {
			continue
		}
		want := tightPix(c.src)
		if !c.exact {
			want = normPix(want)
		}
		for _, p := range []int{2, 3, 5, 7} {
			runtime.GOMAXPROCS(p)
			var got []byte
			st, pm := guardT(func() string {
				img, err := verifapi.DecodeVP8L(c.payload)
				if err != nil {
					return "err " + verifapi.VP8LErrorClass(err)
				}
				got = tightPix(img)
				if !c.exact {
					got = normPix(got)
				}
				return "ok"
			})
			v.rep.Count(fmt.Sprintf("big-decode:GOMAXPROCS=%d", p))
			v.rep.Eval(true, append([]byte(fmt.Sprintf("procs=%d ", p)), c.payload...))
			in := map[string]any{"op": "vp8l", "hex": hx(c.payload), "kind": c.kind, "config": c.desc, "procs": p}
			switch {
			case st == "ok" && bytes.Equal(got, want):
			case st == "ok":
				k := 0
				for k < len(got) && k < len(want) && got[k] == want[k] {
					k++
				}
				w := c.src.Rect.Dx()
				v.add(Finding{Kind: "property", Property: "C01", Signature: "roundtrip:go-decode:gomaxprocs",
					Detail: fmt.Sprintf("Go decoder's pixels differ from the source image when decoding with GOMAXPROCS=%d (%s): first difference at pixel (%d,%d)", p, c.desc, (k/4)%w, (k/4)/w), Input: in})
			case st == "hang" || st == "skipped":
				return
			default:
				v.add(Finding{Kind: "property", Property: "C01", Signature: "roundtrip:go-rejects:gomaxprocs",
					Detail: fmt.Sprintf("Go decoder fails on an encoder output with GOMAXPROCS=%d (%s): %s %s", p, c.desc, st, pm), Input: in})
			}
		}
	}
}

// vp8lMutate derives an invalid-or-different stream from a valid payload. Header mutations that
// would declare more than 2^18 pixels are re-drawn (both decoders would just allocate).
func vp8lMutate(r *RNG, src []byte) ([]byte, string) {
	for try := 0; try < 20; try++ {
		b := append([]byte(nil), src...)
		kind := ""
		switch r.Intn(9) {
		case 0, 1: // 1..3 bit flips anywhere
			n := 1 + r.Intn(3)
			for i := 0; i < n && len(b) > 0; i++ {
				b[r.Intn(len(b))] ^= 1 << uint(r.Intn(8))
			}
			kind = "bit"
		case 2: // bit flip right after the header (transform / code area)
			if len(b) > 5 {
				p := 5 + r.Intn(mini(len(b)-5, 24))
				b[p] ^= 1 << uint(r.Intn(8))
			}
			kind = "hdrbit"
		case 3: // truncation at a random point
			if len(b) > 0 {
				b = b[:r.Intn(len(b))]
			}
			kind = "trunc"
		case 4: // drop 1..8 tail bytes
			n := 1 + r.Intn(8)
			if n > len(b) {
				n = len(b)
			}
			b = b[:len(b)-n]
			kind = "tailcut"
		case 5: // byte set
			if len(b) > 0 {
				b[r.Intn(len(b))] = byte(r.Next())
			}
			kind = "byte"
		case 6: // zero or 0xff a tail segment
			if len(b) > 6 {
				p := 5 + r.Intn(len(b)-5)
				v := byte(0)
				if r.Bool() {
					v = 0xff
				}
				for i := p; i < len(b) && i < p+1+r.Intn(16); i++ {
					b[i] = v
				}
			}
			kind = "fill"
		case 7: // appended garbage (trailing bytes are not part of the stream)
			b = append(b, r.Bytes(1+r.Intn(8))...)
			kind = "append"
		case 8: // flip, then cut
			if len(b) > 6 {
				b[5+r.Intn(len(b)-5)] ^= 1 << uint(r.Intn(8))
				b = b[:5+r.Intn(len(b)-5)]
			}
			kind = "bit+trunc"
		}
		if len(b) >= 5 {
			w, h, _ := vp8lDims(b)
			if w*h > 1<<18 {
				continue
			}
		}
		return b, kind
	}
	return append([]byte(nil), src...), "none"
}

var reTfNum = regexp.MustCompile(`(pred|cross|ci)[0-9]+`)

// tfClass turns the transform chain of a vp8linfo line (`tf=ci2p3+pred4`) into a stable class (`cip3+pred`).
func tfClass(info string) string {
	if !strings.HasPrefix(info, "ok ") {
		return strings.ReplaceAll(info, " ", "-")
	}
	for _, f := range strings.Fields(info) {
		if strings.HasPrefix(f, "tf=") {
			return reTfNum.ReplaceAllString(f[3:], "$1")
		}
	}
	return "?"
}

func parallelDo(n int, f func(i int)) {
	var wg sync.WaitGroup
	nw := runtime.NumCPU()
	ch := make(chan int, 64)
	for w := 0; w < nw; w++ {
		wg.Add(1)
		go func() {
			defer wg.Done()
			for i := range ch {
				f(i)
			}
		}()
	}
	for i := 0; i < n; i++ {
		ch <- i
	}
	close(ch)
	wg.Wait()
}

func sizeBucket(area int) string {
	switch {
	case area <= 1:
		return "1px"
	case area <= 64:
		return "<=64px"
	case area <= 1024:
		return "<=1Kpx"
	case area <= 8192:
		return "<=8Kpx"
	default:
		return ">8Kpx"
	}
}

// pixelClass names the class of a pixel disagreement from the transform chain. A colour-indexing
// transform that packs pixels (2..16 colours) and is followed by another transform in the stream is
// one class (the decoder then runs the unpacking inverse in place): "packed-ci-not-last".
func pixelClass(info string) string {
	c := tfClass(info)
	parts := strings.Split(c, "+")
	for i, p := range parts {
		if i < len(parts)-1 && (p == "cip1" || p == "cip2" || p == "cip3") {
			return "packed-ci-not-last"
		}
	}
	return c
}

type vp8lRun struct {
	stopped bool // a Go decode hung: finish up and return the report
	rep     *Report
	mins    map[string]vp8lMin
	phase   map[string]float64   // wall seconds per phase
	kept    map[string][]Finding // per property|signature: the 5 findings with the shortest inputs
	totals  map[string]int
	aligns  uint32 // window alignments (bits read mod 32) at which a backward reference of an accepted long-code stream starts
}

// add keeps, per signature, the five findings with the shortest input (Report.Add keeps the first five).
func (v *vp8lRun) add(f Finding) {
	key := f.Property + "|" + f.Signature
	v.totals[key]++
	l := append(v.kept[key], f)
	sort.SliceStable(l, func(i, j int) bool {
		hi, _ := l[i].Input["hex"].(string)
		hj, _ := l[j].Input["hex"].(string)
		return len(hi) < len(hj)
	})
	if len(l) > 5 {
		l = l[:5]
	}
	v.kept[key] = l
}

type vp8lMin struct {
	area int
	desc string
}

func (v *vp8lRun) noteMin(sig string, c vp8lCase) {
	if c.src == nil {
		return
	}
	if m, ok := v.mins[sig]; !ok || c.area < m.area || (c.area == m.area && c.desc < m.desc) {
		v.mins[sig] = vp8lMin{c.area, c.desc}
	}
}

// batch decodes every case with Go and with the Lean spec decoder and files the disagreements.
// infoAll asks for the stream structure of every case (otherwise only of disagreeing ones).
func (v *vp8lRun) batch(all []vp8lCase, infoAll bool) error {
	rep := v.rep
	t0 := time.Now()
	goOut := make([]string, len(all))
	goPanic := make([]string, len(all))
	parallelDo(len(all), func(i int) {
		goOut[i], goPanic[i] = guardT(func() string { return goVP8L(all[i].payload) })
	})
	v.phase["go-decode"] += time.Since(t0).Seconds()
	if hangSeen.Load() {
		// a decode did not return: file it as C05 (hang) and, when the specification decodes the same
		// bytes, as C03 (a valid stream that never decodes), then let the suite finish up - the
		// spinning goroutine cannot be recovered
		var hl []string
		var hi []int
		for i := range all {
			if goOut[i] == "hang" {
				hi = append(hi, i)
				hl = append(hl, "vp8l "+hx(all[i].payload), "vp8linfo "+hx(all[i].payload))
			}
		}
		lo, err := RunDriver(hl)
		if err != nil {
			return err
		}
		for k, i := range hi {
			c := all[i]
			in := map[string]any{"op": "vp8l", "hex": hx(c.payload), "kind": c.kind, "config": c.desc}
			v.add(hangFinding("DecodeVP8L", "lossless.DecodeVP8L ("+c.kind+" "+c.desc+"; "+lo[2*k+1]+")", in))
			if strings.HasPrefix(lo[2*k], "ok ") {
				v.add(Finding{Kind: "property", Property: "C03", Signature: "vp8l-accept:go-hang-spec-ok",
					Detail: fmt.Sprintf("the specification decodes the stream (%s), lossless.DecodeVP8L does not return (%s %s): spec=%q", lo[2*k+1], c.kind, c.desc, lo[2*k]), Input: in})
			}
			rep.Eval(true, c.payload)
			rep.Count("outcome:go-hang")
		}
		v.stopped = true
		rep.Notes = append(rep.Notes, "suite stopped early: a Go decode call did not return (see the hang finding)")
		return nil
	}
	t0 = time.Now()
	lines := make([]string, len(all))
	for i, c := range all {
		lines[i] = "vp8l " + hx(c.payload)
	}
	leanOut, err := RunDriver(lines)
	if err != nil {
		return err
	}
	v.phase["lean-decode"] += time.Since(t0).Seconds()
	t0 = time.Now()
	var infoIdx []int
	var infoLines []string
	for i := range all {
		if infoAll || leanOut[i] != goOut[i] {
			infoIdx = append(infoIdx, i)
			infoLines = append(infoLines, "vp8linfo "+hx(all[i].payload))
		}
	}
	infoOut, err := RunDriver(infoLines)
	if err != nil {
		return err
	}
	v.phase["lean-info"] += time.Since(t0).Seconds()
	info := map[int]string{}
	for k, i := range infoIdx {
		info[i] = infoOut[k]
	}
	input := func(c vp8lCase) map[string]any {
		return map[string]any{"op": "vp8l", "hex": hx(c.payload), "kind": c.kind, "config": c.desc}
	}
	dash := func(s string) string { return strings.ReplaceAll(s, " ", "-") }

	for i, c := range all {
		g, l := goOut[i], leanOut[i]
		gOK, lOK := strings.HasPrefix(g, "ok "), strings.HasPrefix(l, "ok ")
		rep.Count("kind:" + c.kind)
		rep.Eval(l != "err header" && l != "bad-op", c.payload)
		if c.kind == "syn" {
			what := "clean"
			if k := strings.Index(c.desc, "defect="); k >= 0 {
				what = c.desc[k:]
			}
			rep.Count("syn:" + what + ":" + strings.SplitN(l, " ", 2)[0])
			if strings.Contains(c.desc, " narrow=") {
				rep.Count("syn:narrow:" + strings.SplitN(l, " ", 2)[0])
			}
			if strings.Contains(c.desc, " deg=") {
				v.countLong(c.desc, strings.SplitN(l, " ", 2)[0])
			}
			rep.Count(fmt.Sprintf("syn:transforms=%d", strings.Count(strings.SplitN(c.desc, " ", 2)[0], "+")+b2i(!strings.HasPrefix(c.desc, "none"))))
		}
		if c.kind == "enc" {
			rep.Count("enc:tf:" + tfClass(info[i]))
			rep.Count("enc:size:" + sizeBucket(c.area))
			for _, f := range strings.Fields(info[i]) {
				if strings.HasPrefix(f, "cache=") || strings.HasPrefix(f, "meta=") {
					rep.Count("enc:" + f)
				}
			}
		}
		if g == "panic" {
			v.add(Finding{Kind: "property", Property: "C05", Signature: "panic:vp8l:" + panicClass(goPanic[i]),
				Detail: "lossless.DecodeVP8L panicked: " + goPanic[i] + " (" + c.kind + " " + c.desc + ")", Input: input(c)})
		}
		if l == "panic" || l == "hang" || l == "bad-op" || l == "" {
			v.add(Finding{Kind: "correspondence", Property: "C03", Signature: "vp8l-spec-model:" + l,
				Detail: "Lean spec decoder answered " + l + " (" + c.kind + " " + c.desc + ")", Input: input(c)})
		}
		switch {
		case g == l:
			if gOK {
				rep.Count("outcome:agree-ok")
			} else {
				rep.Count("outcome:agree-" + dash(g))
			}
		case g == "panic":
		case gOK && lOK:
			rep.Count("outcome:pixels-differ")
			rep.Count("pixels-differ:" + pixelClass(info[i]))
			sig := "vp8l-pixels:" + pixelClass(info[i])
			v.noteMin(sig, c)
			v.add(Finding{Kind: "property", Property: "C03", Signature: sig,
				Detail: fmt.Sprintf("Go decoder and spec decoder both accept but differ (%s %s; %s): go=%q spec=%q", c.kind, c.desc, info[i], g, l),
				Input:  input(c)})
		case gOK && !lOK && strings.Contains(info[i], "eos") && len(c.payload) <= 8:
			// C03 quantifies over VALID streams. The Go bit reader pads inputs of <= 8 bytes with zero
			// bits, so a stream cut inside its last byte(s) decodes when the missing bits were zero; the
			// spec model reports end-of-stream. Not a violation of C03 (the stream is not valid); counted.
			rep.Count("outcome:go-ok-spec-eos-short-payload(tolerated)")
		case gOK && !lOK:
			rep.Count("outcome:go-ok-spec-err")
			v.add(Finding{Kind: "correspondence", Property: "C03", Signature: "vp8l-accept:go-ok-spec-" + dash(info[i]),
				Detail: fmt.Sprintf("Go accepts, spec rejects (%s) (%s %s, %d bytes): go=%q", info[i], c.kind, c.desc, len(c.payload), g), Input: input(c)})
		case !gOK && lOK:
			rep.Count("outcome:go-err-spec-ok")
			v.add(Finding{Kind: "property", Property: "C03", Signature: "vp8l-accept:go-" + dash(g) + "-spec-ok:" + tfClass(info[i]),
				Detail: fmt.Sprintf("spec accepts (%s), Go rejects (%s %s): go=%q spec=%q", info[i], c.kind, c.desc, g, l), Input: input(c)})
		default:
			rep.Count("outcome:errclass-differ")
			v.add(Finding{Kind: "correspondence", Property: "C03", Signature: "vp8l-errclass:go-" + dash(g) + "-spec-" + dash(info[i]),
				Detail: fmt.Sprintf("both reject with different classes (%s %s): go=%q spec=%q (%s)", c.kind, c.desc, g, l, info[i]), Input: input(c)})
		}
		// third voice: the source image of an encoder-made stream
		if c.src == nil {
			continue
		}
		want := tightPix(c.src)
		field := " px="
		if !c.exact {
			want = normPix(want)
			field = " npx="
		}
		wantLine := vp8lLine(c.src.Rect.Dx(), c.src.Rect.Dy(), false, want)
		pick := func(line string) string { // "ok w=.. h=.." + the digest field that applies
			k := strings.Index(line, field)
			a := strings.Index(line, " alpha=")
			if k < 0 || a < 0 {
				return line
			}
			return line[:a] + strings.Fields(line[k:])[0]
		}
		voice := func(name, line string, ok bool) {
			switch {
			case ok && pick(line) == pick(wantLine):
				rep.Count("roundtrip:" + name + "-equals-source")
			case ok:
				rep.Count("roundtrip:" + name + "-differs")
				sig := "roundtrip:" + name + "-decode:" + pixelClass(info[i])
				v.noteMin(sig, c)
				v.add(Finding{Kind: "property", Property: "C01", Signature: sig,
					Detail: fmt.Sprintf("%s decoder's pixels differ from the source image (%s; %s): got=%q want=%q", name, c.desc, info[i], line, wantLine), Input: input(c)})
			case line != "panic":
				rep.Count("roundtrip:" + name + "-rejects")
				sig := "roundtrip:" + name + "-rejects:" + dash(info[i])
				v.noteMin(sig, c)
				v.add(Finding{Kind: "property", Property: "C01", Signature: sig,
					Detail: fmt.Sprintf("%s decoder rejects an encoder output (%s; %s): %s", name, c.desc, info[i], line), Input: input(c)})
			}
		}
		voice("spec", l, lOK)
		voice("go", g, gOK)
		if !c.exact && lOK { // distribution only: does the encoder zero the colour under alpha 0?
			if strings.Contains(l, " px="+digest(want)+" ") {
				rep.Count("enc:alpha0-zeroed-or-none")
			} else {
				rep.Count("enc:alpha0-colour-not-zero")
			}
		}
	}
	for i := 0; i < len(all) && infoAll; i += 331 {
		rep.Sample(map[string]any{"kind": all[i].kind, "config": all[i].desc, "info": info[i], "go": goOut[i], "hex": short(hx(all[i].payload), 120)})
	}
	return nil
}

// countLong files the code-shape bookkeeping of the writer (gen_vp8l.go: deg= maxlen= span= aligns=).
func (v *vp8lRun) countLong(desc, outcome string) {
	rep := v.rep
	var deg, maxlen, span int
	var aligns uint32
	isLong := false
	for _, f := range strings.Fields(desc) {
		switch {
		case strings.HasPrefix(f, "deg="):
			fmt.Sscanf(f, "deg=%d", &deg)
		case strings.HasPrefix(f, "maxlen="):
			fmt.Sscanf(f, "maxlen=%d", &maxlen)
		case strings.HasPrefix(f, "span="):
			fmt.Sscanf(f, "span=%d", &span)
		case strings.HasPrefix(f, "aligns="):
			fmt.Sscanf(f, "aligns=%x", &aligns)
		case strings.HasPrefix(f, "long="):
			isLong = true
			var w, h int
			fmt.Sscanf(f, "long=%dx%d", &w, &h)
			for _, e := range []int{18, 17, 16, 15} {
				if w*h >= 1<<uint(e) {
					rep.Count(fmt.Sprintf("syn:long:pixels>=2^%d", e))
					rep.Count(fmt.Sprintf("threshold:%dpixels", 1<<uint(e)))
					break
				}
			}
		}
	}
	if isLong {
		rep.Count("syn:long:" + outcome)
	}
	if deg > 0 {
		rep.Count("syn:degenerate-code:" + outcome)
	}
	if outcome != "ok" {
		return
	}
	if maxlen >= 12 {
		rep.Count(fmt.Sprintf("syn:used-codeword-bits:%d", maxlen))
		rep.Count("threshold:15codebits")
	}
	// a backward reference whose green code [+ length extra bits] + distance code + distance extra bits,
	// counted from where the token starts in the 32-bit window, runs past 32 / 48 / 64 bits
	switch {
	case span > 64:
		rep.Count("syn:copy-span:>64")
		rep.Count("threshold:32windowbits")
	case span > 48:
		rep.Count("syn:copy-span:49..64")
	case span > 32:
		rep.Count("syn:copy-span:33..48")
	}
	if isLong {
		v.aligns |= aligns
	}
}

func b2i(b bool) int {
	if b {
		return 1
	}
	return 0
}

func suiteVP8L(rep *Report) error {
	rep.Rule = "streams: (a) webp.Encode Lossless outputs over colour class x alpha class x size (1x1, 1xN, Nx1, sides around 2^k; 4 pictures >= 100000 pixels with prime/odd heights - 317x331, 400x251, 256x401, 1000x101, 101x1000 ... -, each also decoded under GOMAXPROCS 2,3,5,7; 12 cheap pictures on the numeric thresholds of the code, thresholds.go) x Quality {0,10,25,50,75,90,100} x Method 0..6 x Exact, VP8L payload extracted; (b) testdata lossless files and corpus/vp8l/*.hex; (c) streams of a random VP8L writer (any transform subset/order, tile bits 2..9, mode nibble 0..15, palettes 1..256, cache bits 1..11, meta codes, simple/single/normal codes, max_symbol, repeat codes; one third with a deliberate defect; every tenth stream is a picture of width 1..8 dense in short 2-D distance codes, incl. those whose offset maps to a distance below 1; 1 code in 12 has the degenerate shape 1,2,...,14,15,15; every twentieth stream is the long-code variant: degenerate green and distance codes with the length-prefix and distance symbols on the 12..15-bit words, half of the tokens long far backward references with up to 10 length and 10 distance extra bits, 1 in 20 of those on pictures of >= 2^15..2^18 pixels for 14..17 distance extra bits; the alignment of every such reference in the decoder's 32-bit window and the bits it needs are recorded); (d) mutations of (a)-(c): bit flips, byte sets, truncations, fills, appended bytes. Each stream is decoded by lossless.DecodeVP8L and by the Lean spec decoder Webp.Spec.VP8L.decode; the lines (ok w h alpha pixel-digests | err header|bitstream) are compared; for (a) both decoders' pixels are also compared with the source image (alpha-0 pixels normalised unless Exact). Every Go decode runs under a 20 s deadline: a call that does not return is a finding (C05 hang:DecodeVP8L, and C03 vp8l-accept:go-hang-spec-ok when the spec decodes the stream) and ends the suite. non-trivial = the spec decoder got past the 5-byte header; distinct = FNV of the payload"
	v := &vp8lRun{rep: rep, mins: map[string]vp8lMin{}, kept: map[string][]Finding{}, totals: map[string]int{}, phase: map[string]float64{}}
	finish := func() error {
		mf := map[string]string{}
		for k, m := range v.mins {
			mf[k] = fmt.Sprintf("%s (%d px)", m.desc, m.area)
		}
		rep.Extra["min_failing_config"] = mf
		rep.Extra["finding_totals"] = v.totals
		rep.Extra["phase_s"] = v.phase
		rep.Extra["long_code_copy_alignments_visited"] = fmt.Sprintf("%d of 32 (%08x)", bits.OnesCount32(v.aligns), v.aligns)
		var keys []string
		for k := range v.kept {
			keys = append(keys, k)
		}
		sort.Strings(keys)
		for _, k := range keys {
			for _, f := range v.kept[k] {
				rep.Add(f)
			}
		}
		sortFindings(rep)
		return nil
	}

	// (a) encoder outputs
	t0 := time.Now()
	gens := vp8lEncCases(rep.Seed, rep.Tier)
	cases := make([]vp8lCase, len(gens))
	parallelDo(len(gens), func(i int) { cases[i] = gens[i]() })
	v.phase["encode"] = time.Since(t0).Seconds()
	// Reproducibility probe (not a finding of this suite): re-encode every 8th case, serially, and
	// count byte differences. The pinned encoder's output depends on what was encoded before, so
	// the derived mutation inputs are not bit-reproducible across runs; the pixels always are.
	for i := 0; i < len(gens); i += 8 {
		if again := gens[i](); cases[i].payload != nil && !bytes.Equal(again.payload, cases[i].payload) {
			rep.Count("enc:bytes-differ-on-reencode")
			if len(rep.Notes) < 4 {
				rep.Notes = append(rep.Notes, "encoder output not reproducible (same image, same options, different bytes): "+cases[i].desc)
			}
		} else {
			rep.Count("enc:bytes-equal-on-reencode")
		}
	}
	var valid []vp8lCase
	for _, c := range cases {
		if c.kind == "encfail" || c.payload == nil {
			rep.Count("enc:failed")
			rep.Notes = append(rep.Notes, "encode failed or no VP8L chunk: "+c.desc)
			continue
		}
		valid = append(valid, c)
	}
	// (b) testdata and corpus (one hex payload per line)
	var files []string
	for _, pat := range []string{"/repo/testdata/*.webp", "/repo/testdata/lossless/*.webp", "/repo/testdata/lossless/*/*.webp"} {
		m, _ := filepath.Glob(pat)
		files = append(files, m...)
	}
	sort.Strings(files)
	for _, f := range files {
		b, err := os.ReadFile(f)
		if err != nil {
			continue
		}
		if p := vp8lPayload(b); p != nil {
			valid = append(valid, vp8lCase{payload: p, kind: "testdata", desc: strings.TrimPrefix(f, "/repo/")})
		}
	}
	cfiles, _ := filepath.Glob(filepath.Join(CorpusDir, "vp8l", "*.hex"))
	sort.Strings(cfiles)
	for _, f := range cfiles {
		b, err := os.ReadFile(f)
		if err != nil {
			continue
		}
		for _, ln := range strings.Split(string(b), "\n") {
			ln = strings.TrimSpace(ln)
			if ln == "" || strings.HasPrefix(ln, "#") {
				continue
			}
			valid = append(valid, vp8lCase{payload: unhx(ln), kind: "corpus", desc: filepath.Base(f)})
		}
	}
	if err := v.batch(valid, true); err != nil {
		return err
	}
	if v.stopped {
		return finish()
	}
	t0 = time.Now()
	v.procsLeg(valid)
	v.phase["procs-leg"] = time.Since(t0).Seconds()
	for _, c := range valid {
		if k := strings.Index(c.desc, "threshold:"); k >= 0 && c.kind == "enc" {
			rep.Count(strings.Fields(c.desc[k:])[0])
		}
	}
	// mutation sources: the small valid streams (sources are kept without their images)
	var pool []vp8lCase
	for _, c := range valid {
		if len(c.payload) <= 20000 && len(c.payload) >= 6 {
			pool = append(pool, vp8lCase{payload: c.payload, desc: c.desc})
		}
	}
	valid = nil

	// (c) synthetic streams, (d) mutations — in batches to bound memory
	nSyn, nMut := 60000, 60000
	if rep.Tier == "thorough" {
		nSyn, nMut = 1000000, 800000
	}
	const batchSize = 100000
	for off := 0; off < nSyn; off += batchSize {
		n := mini(batchSize, nSyn-off)
		syn := make([]vp8lCase, n)
		parallelDo(n, func(i int) {
			r := NewRNG(rep.Seed, 0x50000000+uint64(off+i))
			var b []byte
			var d string
			switch {
			case (off+i)%10 == 9: // every tenth: the narrow-picture variant (width 1..8, short distance codes)
				b, d = SynVP8LNarrow(r)
			case (off+i)%20 == 3: // every twentieth: long code words on the symbols of long, far backward references
				sc := 0
				if (off+i)%400 == 3 { // 1 in 20 of those: >= 2^15 .. 2^18 pixels (14..17 distance extra bits)
					sc = 1 + ((off+i)/400)%4
				}
				b, d = SynVP8LLong(r, sc)
			default:
				b, d = SynVP8L(r)
			}
			syn[i] = vp8lCase{payload: b, kind: "syn", desc: d}
		})
		if off == 0 {
			for i := 0; i < n && i < 20000; i++ {
				if len(syn[i].payload) >= 6 {
					pool = append(pool, vp8lCase{payload: syn[i].payload, desc: "syn " + syn[i].desc})
				}
			}
		}
		if err := v.batch(syn, false); err != nil {
			return err
		}
		if v.stopped {
			return finish()
		}
	}
	for off := 0; off < nMut && len(pool) > 0; off += batchSize {
		n := mini(batchSize, nMut-off)
		mut := make([]vp8lCase, n)
		parallelDo(n, func(i int) {
			r := NewRNG(rep.Seed, 0x40000000+uint64(off+i))
			s := pool[r.Intn(len(pool))]
			b, k := vp8lMutate(r, s.payload)
			mut[i] = vp8lCase{payload: b, kind: "mut:" + k, desc: s.desc}
		})
		if err := v.batch(mut, false); err != nil {
			return err
		}
		if v.stopped {
			return finish()
		}
	}

	return finish()
}

func replayVP8L(in map[string]any) int {
	hs, _ := in["hex"].(string)
	data := unhx(hs)
	g, pm := guardT(func() string { return goVP8L(data) })
	l, err := RunDriver([]string{"vp8l " + hs, "vp8linfo " + hs})
	fmt.Printf("go:   %s %s\n", g, pm)
	if err != nil {
		fmt.Println(err)
		return 2
	}
	fmt.Printf("lean: %s\ninfo: %s\n", l[0], l[1])
	if g == "hang" {
		return 1
	}
	if w, h, _ := vp8lDims(data); len(data) >= 5 && w*h <= 64 {
		gp, _ := guard(func() string { return goVP8LPx(data) })
		lp, _ := RunDriver([]string{"vp8lpx " + hs})
		fmt.Printf("go px:   %s\nlean px: %s\n", gp, lp[0])
	}
	if g == "panic" || l[0] != g {
		return 1
	}
	return 0
}
