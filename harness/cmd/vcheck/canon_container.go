package main

import (
	"bytes"
	"errors"
	"fmt"
	"image"
	"image/color"

	webp "github.com/deepteams/webp"
	"github.com/deepteams/webp/mux"
	"github.com/deepteams/webp/verifapi"
)

func containerErrName(err error) string {
	for _, e := range verifapi.ContainerErrors {
		if errors.Is(err, e.Err) {
			return e.Name
		}
	}
	return "other"
}

var muxErrs = []struct {
	name string
	err  error
}{
	{"invalidRIFF", mux.ErrInvalidRIFF}, {"truncated", mux.ErrTruncated}, {"noImage", mux.ErrNoImage},
	{"invalidVP8X", mux.ErrInvalidVP8X}, {"invalidANIM", mux.ErrInvalidANIM}, {"invalidANMF", mux.ErrInvalidANMF},
	{"invalidFrame", mux.ErrInvalidFrame}, {"metadataTooLarge", mux.ErrMetadataTooLarge},
	{"tooManyFrames", mux.ErrTooManyFrames}, {"invalidChunkHeader", mux.ErrInvalidChunkHeader},
	{"chunkTooLarge", mux.ErrChunkTooLarge},
}

func muxErrName(err error) string {
	for _, e := range muxErrs {
		if errors.Is(err, e.err) {
			return e.name
		}
	}
	return "other"
}

// goParser is the canonical line for container.NewParser.
func goParser(data []byte) string {
	p, err := verifapi.NewContainerParser(data)
	if err != nil {
		return "err " + containerErrName(err)
	}
	f := p.Features()
	var frames []string
	for _, fr := range p.Frames() {
		frames = append(frames, fmt.Sprintf("%d,%d,%d,%d,%d,%s,%s,%s,%s,%s,%s", fr.XOffset, fr.YOffset, fr.Width, fr.Height,
			fr.Duration, b2s(fr.DisposeMethod != 0), b2s(fr.BlendMethod != 0), b2s(fr.HasAlpha), b2s(fr.IsLossless),
			digestOpt(fr.Payload), digestOpt(fr.AlphaData)))
	}
	var chunks []string
	for _, c := range p.Chunks() {
		chunks = append(chunks, fmt.Sprintf("%d:%s", c.FourCC, digest(c.Payload)))
	}
	return fmt.Sprintf("ok fmt=%d w=%d h=%d alpha=%s anim=%s iccp=%s exif=%s xmp=%s loop=%d bg=%d cw=%d ch=%d frames=[%s] chunks=[%s]",
		int(f.Format), f.Width, f.Height, b2s(f.HasAlpha), b2s(f.HasAnim), b2s(f.HasICCP), b2s(f.HasEXIF), b2s(f.HasXMP),
		f.LoopCount, f.BGColor, f.CanvasWidth, f.CanvasHeight, join(frames, ";"), join(chunks, ";"))
}

func goDemux(data []byte) string {
	d, err := mux.NewDemuxer(data)
	if err != nil {
		return "err " + muxErrName(err)
	}
	f := d.GetFeatures()
	var frames []string
	for i := 0; i < d.NumFrames(); i++ {
		fr, _ := d.Frame(i)
		frames = append(frames, fmt.Sprintf("%d,%d,%d,%d,%d,%s,%s,%s,%s,%s,%s", fr.OffsetX, fr.OffsetY, fr.Width, fr.Height,
			fr.Duration, b2s(fr.DisposeMode != 0), b2s(fr.BlendMode != 0), b2s(fr.HasAlpha), b2s(fr.IsKeyframe),
			digestOpt(fr.Data), digestOpt(fr.AlphaData)))
	}
	var chunks []string
	for _, c := range d.VerifChunks() {
		chunks = append(chunks, fmt.Sprintf("%d:%d:%s", c.ID, c.Size, digest(c.Data)))
	}
	get := func(id mux.ChunkID) string {
		b, err := d.GetChunk(id)
		if err != nil {
			return "nil"
		}
		return digestOpt(b)
	}
	return fmt.Sprintf("ok fmt=%d w=%d h=%d alpha=%s anim=%s icc=%s exif=%s xmp=%s loop=%d bg=%d iccd=%s exifd=%s xmpd=%s frames=[%s] chunks=[%s]",
		int(f.Format), f.Width, f.Height, b2s(f.HasAlpha), b2s(f.HasAnimation), b2s(f.HasICC), b2s(f.HasEXIF), b2s(f.HasXMP),
		d.LoopCount(), d.BackgroundColor(), get(mux.FourCCICCP), get(mux.FourCCEXIF), get(mux.FourCCXMP),
		join(frames, ";"), join(chunks, ";"))
}

func goFeatures(data []byte) string {
	f, err := webp.GetFeatures(bytes.NewReader(data))
	if err != nil {
		return "err " + containerErrName(err)
	}
	return fmt.Sprintf("ok w=%d h=%d alpha=%s anim=%s format=%s loop=%d frames=%d", f.Width, f.Height, b2s(f.HasAlpha),
		b2s(f.HasAnimation), f.Format, f.LoopCount, f.FrameCount)
}

func cmName(m color.Model) string {
	switch m {
	case color.NRGBAModel:
		return "NRGBA"
	case color.YCbCrModel:
		return "YCbCr"
	}
	return "?"
}

func imgModelName(img image.Image) string {
	switch img.(type) {
	case *image.NRGBA:
		return "NRGBA"
	case *image.YCbCr:
		return "YCbCr"
	}
	return fmt.Sprintf("%T", img)
}

func goConfig(data []byte) string {
	c, err := webp.DecodeConfig(bytes.NewReader(data))
	if err != nil {
		return "err " + containerErrName(err)
	}
	return fmt.Sprintf("ok cm=%s w=%d h=%d", cmName(c.ColorModel), c.Width, c.Height)
}
