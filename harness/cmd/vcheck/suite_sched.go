package main

import (
	"bytes"
	"fmt"
	"image"
	"runtime"
	"strings"
	"sync"
	"sync/atomic"
	"time"

	webp "github.com/deepteams/webp"
	"github.com/deepteams/webp/animation"
	"github.com/deepteams/webp/mux"
	"github.com/deepteams/webp/verifapi"
)

func init() {
	suites["sched"] = suiteSched
	suites["gomaxprocs"] = suiteGomaxprocs
	replayers["gomaxprocs-decode"] = replayGomaxprocsDecode
	replayers["gomaxprocs-fillsplit"] = replayGomaxprocsFillSplit
	replayers["sched-syn-decode"] = replaySchedSynDecode
}

type schedCase struct {
	w, h, cls, acls int
	method          int
	quality         float32
	procs           int
	perturb         int // 0 none, 1 gosched, 2 sleeps, 3 stall upper rows
}

func encodeBytes(img image.Image, o *webp.EncoderOptions) ([]byte, error) {
	var buf bytes.Buffer
	err := webp.Encode(&buf, img, o)
	return buf.Bytes(), err
}

// suiteSched: C10 — (i) row-pipeline runs under perturbed schedules: output bytes must equal the
// unperturbed single-worker run and the recorded claim/process/record trace must be accepted by the
// Lean RowPipe model (every guard true); (ii) concurrent use of the public API equals solo results.
func suiteSched(rep *Report) error {
	rep.Rule = "(i) lossy Encode (Method>=3, >=4 macroblock rows => row pipeline) with GOMAXPROCS 2..8 and seeded Gosched/sleep/stall perturbation at every hook point; bytes compared with the GOMAXPROCS=1 unperturbed run; event trace validated against the Lean RowPipe guards (op pipetrace); (i-c) a lossless Encode parked inside its writer's first Write (or writing through a yielding chunking writer / an io.Pipe with a slow consumer) while three other encodes run, under GOMAXPROCS(1) and the value in force: every call's bytes equal its solo bytes and decode; (i-d) lossless Encode of pictures with >= 64 histogram tiles (noise blocks + large flat areas, correlated channels; Quality 90..100, Method 3..6) with 2..8 workers: bytes equal the GOMAXPROCS=1 run and decode to the source; (ii-a) synthetic VP8L streams of the random writer that use colour indexing (pixel indices beyond the palette, any transform chain) decoded after and while larger noisy pictures are decoded, under GOMAXPROCS 1 and 8: result equals the decode on a quiet process with emptied pools; (ii) N goroutines calling Encode/Decode/DecodeConfig/GetFeatures/animation/mux concurrently vs solo results, incl. per round 4 pairs of different pictures with equal macroblock dimensions whose lossy encodes take the serial path (Method >= 3 with < 4 macroblock rows, or a size target) and so compete for the same pooled encoders; non-trivial = run used >= 2 workers and hit the slow wait path or had overlapping rows"
	defer runtime.GOMAXPROCS(runtime.GOMAXPROCS(0))
	n := 60
	if rep.Tier == "thorough" {
		n = 1500
	}
	sizes := [][2]int{{64, 64}, {80, 112}, {160, 96}, {33, 130}, {200, 200}, {320, 320}, {17, 64}}
	var lines []string
	var lineCase []schedCase
	for i := 0; i < n; i++ {
		r := NewRNG(rep.Seed, uint64(i))
		sz := sizes[r.Intn(len(sizes))]
		if rep.Tier != "thorough" && i%10 != 0 && sz[0]*sz[1] > 30000 {
			sz = sizes[r.Intn(3)]
		}
		c := schedCase{w: sz[0], h: sz[1], cls: r.Intn(NumImgClasses), acls: []int{AlphaNone, AlphaNone, AlphaGradient}[r.Intn(3)],
			method: 3 + r.Intn(4), quality: float32([]int{30, 50, 75, 90}[r.Intn(4)]), procs: 2 + r.Intn(7), perturb: r.Intn(4)}
		img := GenImage(NewRNG(rep.Seed, uint64(1000000+i)), c.w, c.h, c.cls, c.acls)
		o := webp.DefaultOptions()
		o.Method = c.method
		o.Quality = c.quality
		o.Segments = 1 + r.Intn(4)
		o.Partitions = r.Intn(4)
		// reference: single CPU, no hook
		verifapi.SetSchedHook(nil)
		runtime.GOMAXPROCS(1)
		ref, err := encodeBytes(img, o)
		if err != nil {
			return err
		}
		// perturbed run with trace
		var mu sync.Mutex
		var events []string
		workers := map[uintptr]int{}
		slow := 0
		pr := NewRNG(rep.Seed, uint64(7000000+i))
		var prMu sync.Mutex
		rnd := func(k int) int { prMu.Lock(); v := pr.Intn(k); prMu.Unlock(); return v }
		hook := func(ev int, worker uintptr, y, x int) {
			switch ev {
			case verifapi.SchedClaim, verifapi.SchedProc, verifapi.SchedRecord:
				mu.Lock()
				id, ok := workers[worker]
				if !ok && ev != verifapi.SchedRecord {
					id = len(workers)
					workers[worker] = id
				}
				switch ev {
				case verifapi.SchedClaim:
					events = append(events, fmt.Sprintf("c:%d:%d", id, y))
				case verifapi.SchedProc:
					events = append(events, fmt.Sprintf("p:%d:%d:%d", id, y, x))
				case verifapi.SchedRecord:
					events = append(events, fmt.Sprintf("r:%d", y))
				}
				mu.Unlock()
			case verifapi.SchedSlowWait:
				mu.Lock()
				slow++
				mu.Unlock()
			}
			switch c.perturb {
			case 1:
				if rnd(3) == 0 {
					runtime.Gosched()
				}
			case 2:
				if rnd(8) == 0 {
					time.Sleep(time.Duration(rnd(200)) * time.Microsecond)
				}
			case 3:
				// stall even rows at their first columns so that lower rows run into the wait
				if ev == verifapi.SchedProc && y%2 == 0 && x < 2 {
					time.Sleep(time.Duration(50+rnd(300)) * time.Microsecond)
				}
				if ev == verifapi.SchedSignal && rnd(5) == 0 {
					runtime.Gosched()
				}
			}
		}
		verifapi.SetSchedHook(hook)
		runtime.GOMAXPROCS(c.procs)
		type encRes struct {
			b   []byte
			err error
		}
		resCh := make(chan encRes, 1)
		go func() { b, err := encodeBytes(img, o); resCh <- encRes{b, err} }()
		var got []byte
		select {
		case r := <-resCh:
			got, err = r.b, r.err
		case <-time.After(180 * time.Second):
			verifapi.SetSchedHook(nil)
			rep.Add(Finding{Kind: "property", Property: "C10", Signature: "sched:deadlock",
				Detail: fmt.Sprintf("lossy Encode did not return within 180 s under a perturbed schedule (workers blocked: lost wake-up or deadlock): %s m=%d procs=%d perturb=%d", imgDesc(c.w, c.h, c.cls, c.acls), c.method, c.procs, c.perturb),
				Input:  map[string]any{"op": "sched", "case": i, "seed": rep.Seed}})
			return nil // the blocked goroutines cannot be recovered; stop the suite here
		}
		verifapi.SetSchedHook(nil)
		if err != nil {
			return err
		}
		desc := fmt.Sprintf("%s m=%d q=%v seg=%d part=%d procs=%d perturb=%d", imgDesc(c.w, c.h, c.cls, c.acls), c.method, c.quality, o.Segments, o.Partitions, c.procs, c.perturb)
		if !bytes.Equal(ref, got) {
			rep.Add(Finding{Kind: "property", Property: "C10", Signature: "sched:lossy-bytes-differ",
				Detail: fmt.Sprintf("lossy Encode bytes under perturbed schedule differ from the single-CPU run (%s): %d vs %d bytes", desc, len(got), len(ref)),
				Input:  map[string]any{"op": "sched", "case": i, "seed": rep.Seed, "desc": desc}})
		}
		mbW, mbH := (c.w+15)/16, (c.h+15)/16
		rep.Count(fmt.Sprintf("workers:%d", len(workers)))
		rep.Count(fmt.Sprintf("perturb:%d", c.perturb))
		if slow > 0 {
			rep.Count("slow-wait-path-hit")
		}
		rep.CountN("events", len(events))
		rep.Eval(len(workers) >= 2 && (slow > 0 || len(events) > mbW*mbH), []byte(desc))
		if len(events) > 0 {
			lines = append(lines, fmt.Sprintf("pipetrace %d %d %s", mbW, mbH, strings.Join(events, ";")))
			lineCase = append(lineCase, c)
			if i < 2 {
				rep.Sample(map[string]any{"case": desc, "events": len(events), "trace_head": strings.Join(events[:mini(12, len(events))], ";")})
			}
		} else if mbH >= 4 {
			rep.Add(Finding{Kind: "correspondence", Property: "C10", Signature: "sched:no-trace",
				Detail: "row pipeline expected (mbH>=4, Method>=3) but no hook events were recorded: " + desc,
				Input:  map[string]any{"op": "sched", "case": i, "seed": rep.Seed, "desc": desc}})
		}
	}
	out, err := RunDriver(lines)
	if err != nil {
		return err
	}
	okTraces := 0
	for i, l := range out {
		if l == "ok" {
			okTraces++
			continue
		}
		c := lineCase[i]
		rep.Add(Finding{Kind: "correspondence", Property: "C10", Signature: "sched:trace-rejected",
			Detail: fmt.Sprintf("Lean RowPipe model rejects a recorded execution trace (%s): %dx%d m=%d procs=%d perturb=%d", l, c.w, c.h, c.method, c.procs, c.perturb),
			Input:  map[string]any{"op": "pipetrace-line", "line": short(lines[i], 20000)}})
	}
	rep.Extra["traces_validated"] = okTraces

	// (i-b) direct stress of the wait/signal handshake: a waiter and a signaller race on one row with a
	// swept phase; every handshake must complete (a lost wake-up parks the waiter forever)
	if dl := rowSyncStress(rep); dl {
		return nil
	}

	// (i-c) calls that overlap an Encode parked inside (or yielding in) its writer's Write: every call's
	// bytes must equal its solo bytes (suite_writer.go parkedWriterLeg)
	{
		pr := 6
		if rep.Tier == "thorough" {
			pr = 100
		}
		if !parkedWriterLeg(rep, "C10", "concurrent:slow-writer", pr, 10) {
			return nil
		}
	}

	// (i-d) the LOSSLESS encoder's parallel stages (hash chain, predictor / cross-colour selection, histogram
	// build and remap: WaitGroup fan-outs over GOMAXPROCS workers) under the same oracle as (i): bytes equal the
	// GOMAXPROCS=1 run, for every worker count 2..8 - and the bytes decode to the source. Pictures with >= 64
	// histogram tiles, several clusters and runs of empty tiles (noise blocks + large flat areas), and
	// correlated channels; Quality 90 / 100 so that the full remap pass runs, Method 3..6.
	if !schedLosslessWorkers(rep) {
		return nil
	}

	// (ii-a) synthetic VP8L streams the library's encoder never writes (random writer of gen_vp8l.go: colour
	// indexing with pixel indices beyond the palette, colour cache, meta prefix codes, any transform chain),
	// decoded while larger noisy pictures are decoded by other goroutines: every result must equal the decode
	// of the same bytes on a quiet process whose pools were just emptied (two GC cycles) - what a decoder
	// leaves in a pooled buffer must never show in a later result.
	schedSynDecodes(rep)

	// (ii) concurrent public API use vs solo results
	rounds := 6
	if rep.Tier == "thorough" {
		rounds = 120
	}
	runtime.GOMAXPROCS(8)
	type job struct {
		name string
		f    func() string
	}
	for rd := 0; rd < rounds; rd++ {
		r := NewRNG(rep.Seed, uint64(9000000+rd))
		var jobs []job
		for k := 0; k < 10; k++ {
			w, h := 8+r.Intn(90), 8+r.Intn(90)
			img := GenImage(NewRNG(rep.Seed, uint64(9500000+rd*100+k)), w, h, r.Intn(NumImgClasses), r.Intn(NumAlphaClasses))
			o := webp.DefaultOptions()
			o.Lossless = r.Bool()
			o.Method = r.Intn(7)
			o.Quality = float32([]int{20, 50, 75, 80}[r.Intn(4)])
			file, err := encodeBytes(img, o)
			if err != nil {
				return err
			}
			oo := *o
			jobs = append(jobs, job{fmt.Sprintf("encode:lossless=%v:m=%d:q=%v:%dx%d", oo.Lossless, oo.Method, oo.Quality, w, h), func() string { b, _ := encodeBytes(img, &oo); return digest(b) }})
			jobs = append(jobs, job{"decode", func() string {
				im, err := webp.Decode(bytes.NewReader(file))
				if err != nil {
					return "err"
				}
				return digest(toNRGBA(im).Pix)
			}})
			jobs = append(jobs, job{"config", func() string { return goConfig(file) + "|" + goFeatures(file) }})
			jobs = append(jobs, job{"demux", func() string { return goDemux(file) }})
			if k%3 == 0 {
				jobs = append(jobs, job{"anim", func() string {
					var buf bytes.Buffer
					e := animation.NewEncoder(&buf, w, h, &animation.EncodeOptions{Lossless: true, Quality: 50})
					_ = e.AddFrame(img, 40*time.Millisecond)
					_ = e.AddFrame(img, 50*time.Millisecond)
					_ = e.Close()
					a, err := animation.DecodeBytes(buf.Bytes())
					if err != nil {
						return digest(buf.Bytes()) + "|err"
					}
					_ = a.DecodeFramesParallel()
					return digest(buf.Bytes()) + fmt.Sprint(len(a.Frames))
				}})
				jobs = append(jobs, job{"mux", func() string {
					m := mux.NewMuxer()
					d, err := mux.NewDemuxer(file)
					if err != nil {
						return "err"
					}
					f, _ := d.Frame(0)
					_ = m.AddFrame(f.Data, &mux.FrameOptions{Duration: 10})
					_ = m.AddFrame(f.Data, &mux.FrameOptions{Duration: 20, BlendMode: mux.BlendNone})
					var b bytes.Buffer
					_ = m.Assemble(&b)
					return digest(b.Bytes())
				}})
			}
		}
		// pairs of DIFFERENT pictures with the same macroblock dimensions whose lossy encodes take the
		// serial path (Method >= 3 and fewer than 4 macroblock rows, or a size target): they compete for
		// the same pooled encoders, so any state a pooled encoder keeps from its previous picture shows
		// up as a result that depends on which encoder a call was handed
		for p := 0; p < 4; p++ {
			w, h := 8+r.Intn(90), 8+r.Intn(41)
			ts := 0
			if p == 3 {
				h, ts = 49+r.Intn(60), 400+r.Intn(2000)
			}
			for q := 0; q < 2; q++ {
				cls := []int{ClsNoise, ClsPhoto, ClsGradient, ClsPal16}[(p+2*q+r.Intn(2))%4]
				img := GenImage(NewRNG(rep.Seed, uint64(9600000+rd*100+p*2+q)), w, h, cls, AlphaNone)
				o := webp.DefaultOptions()
				o.Method = 3 + r.Intn(4)
				o.Quality = float32([]int{20, 50, 75, 80}[r.Intn(4)])
				o.TargetSize = ts
				oo := *o
				jobs = append(jobs, job{fmt.Sprintf("encode:lossless=false:pool-pair:m=%d:q=%v:ts=%d:%dx%d", oo.Method, oo.Quality, ts, w, h), func() string { b, _ := encodeBytes(img, &oo); return digest(b) }})
			}
		}
		solo := make([]string, len(jobs))
		for i, j := range jobs {
			solo[i] = j.f()
		}
		conc := make([][3]string, len(jobs))
		var wg sync.WaitGroup
		for rep3 := 0; rep3 < 3; rep3++ {
			for i := range jobs {
				wg.Add(1)
				go func(i, k int) {
					defer wg.Done()
					defer func() {
						if e := recover(); e != nil {
							conc[i][k] = fmt.Sprint("panic: ", e)
						}
					}()
					conc[i][k] = jobs[i].f()
				}(i, rep3)
			}
		}
		wg.Wait()
		// a second solo pass tells history dependence (C11: result changed because of earlier calls,
		// concurrent or not) from a genuine concurrency effect (C10)
		solo2 := make([]string, len(jobs))
		for i, j := range jobs {
			solo2[i] = j.f()
		}
		for i := range jobs {
			for k := 0; k < 3; k++ {
				rep.Eval(true, []byte(fmt.Sprintf("conc %d %d %d %s", rd, i, k, solo[i])))
				if conc[i][k] != solo[i] && conc[i][k] == solo2[i] {
					rep.Add(Finding{Kind: "property", Property: "C11", Signature: "history:" + strings.SplitN(jobs[i].name, ":", 3)[0] + ":" + lossKind(jobs[i].name),
						Detail: fmt.Sprintf("%s: first call returned %q, later calls (sequential and concurrent) %q (round %d)", jobs[i].name, short(solo[i], 80), short(solo2[i], 80), rd),
						Input:  map[string]any{"op": "concurrent", "round": rd, "seed": rep.Seed, "job": jobs[i].name}})
					continue
				}
				if conc[i][k] != solo[i] {
					rep.Add(Finding{Kind: "property", Property: "C10", Signature: "concurrent:" + strings.SplitN(jobs[i].name, ":", 2)[0],
						Detail: fmt.Sprintf("%s under concurrent use returned %q, alone %q (round %d)", jobs[i].name, short(conc[i][k], 80), short(solo[i], 80), rd),
						Input:  map[string]any{"op": "concurrent", "round": rd, "seed": rep.Seed, "job": jobs[i].name}})
				}
			}
			rep.Count("concurrent:" + jobs[i].name)
		}
	}
	return nil
}

// genNoiseFlat: rectangular blocks of noise of varying strength (several histogram clusters)
// separated by large flat areas (histogram tiles entirely covered by long backward references,
// i.e. tiles in which no token starts).  Bands are 24..120 rows high; a band is strong colour
// noise, flat, weak noise on its left part only, gradient + noise, or flat again.
func genNoiseFlat(r *RNG, w, h int) *image.NRGBA {
	img := image.NewNRGBA(image.Rect(0, 0, w, h))
	y := 0
	kind := r.Intn(2) * 2 // start with noise (0) or weak noise (2)
	for y < h {
		bh := 24 + r.Intn(97)
		if y+bh > h || h-(y+bh) < 16 {
			bh = h - y
		}
		flatA := [3]byte{byte(r.Next()), byte(r.Next()), byte(r.Next())}
		flatB := [3]byte{byte(r.Next()), byte(r.Next()), byte(r.Next())}
		split := w/4 + r.Intn(w/2+1)
		base := [3]int{r.Intn(200), r.Intn(200), r.Intn(200)}
		amp := [3]int{2 + r.Intn(14), 2 + r.Intn(6), 2 + r.Intn(30)}
		for yy := y; yy < y+bh; yy++ {
			for x := 0; x < w; x++ {
				var c [3]byte
				switch kind {
				case 0: // strong colour noise
					c = [3]byte{byte(r.Next()), byte(r.Next()), byte(r.Next())}
				case 2: // weak noise on the left part, flat on the right
					if x < split {
						c = [3]byte{byte(base[0] + r.Intn(amp[0])), byte(base[1] + r.Intn(amp[1])), byte(base[2] + r.Intn(amp[2]))}
					} else {
						c = flatB
					}
				case 4: // gradient + a little noise
					c = [3]byte{byte(x * 255 / w), byte(yy*255/h + r.Intn(3)), byte((x + yy) * 255 / (w + h))}
				default: // 1, 3, 5: flat
					c = flatA
				}
				o := img.PixOffset(x, yy)
				img.Pix[o], img.Pix[o+1], img.Pix[o+2], img.Pix[o+3] = c[0], c[1], c[2], 0xff
			}
		}
		y += bh
		kind = (kind + 1) % 6
	}
	return img
}

// genCorrelated: green carries the signal (ramp + noise); red and blue follow green with a gain
// that changes from region to region, plus a little noise — content for which the lossless
// encoder selects the cross-colour transform.
func genCorrelated(r *RNG, w, h int) *image.NRGBA {
	img := image.NewNRGBA(image.Rect(0, 0, w, h))
	rx, ry := 24+r.Intn(72), 24+r.Intn(72)
	bx, by := 16+r.Intn(48), 16+r.Intn(48)
	sx, sy := 1+r.Intn(4), 1+r.Intn(6)
	for y := 0; y < h; y++ {
		for x := 0; x < w; x++ {
			g := (x*sx+y*sy)/4 + r.Intn(32)
			kr := 1 + (x/rx+y/ry)%3
			kb := 1 + (x/bx+2*(y/by))%4
			o := img.PixOffset(x, y)
			img.Pix[o] = byte(g*kr/2 + r.Intn(4))
			img.Pix[o+1] = byte(g)
			img.Pix[o+2] = byte(g*kb/3 + r.Intn(4))
			img.Pix[o+3] = 0xff
		}
	}
	return img
}

// GOMAXPROCS values of the sweep: 4, 7 and 13 were added after round 3 (a worker's first row is the
// bottom tile row only for some counts: (T-1) mod ceil(T/G) == 0), 6, 9 and 11 after round 4 (range ends of
// the hash-chain workers)
var gmpProcs = []int{1, 2, 3, 4, 5, 6, 7, 8, 9, 11, 13, 16, 32}

// gmpDecodeSweep decodes one file under every GOMAXPROCS value; results (pixels or error class)
// must equal the GOMAXPROCS=1 result.  It returns whether the single-CPU decode succeeded.
func gmpDecodeSweep(rep *Report, file []byte, desc, sigSuffix string, nontrivial bool, evalKey string) bool {
	dec := func() string {
		s, pm := guard(func() string {
			im, err := webp.Decode(bytes.NewReader(file))
			if err != nil {
				return "err"
			}
			return "ok " + digest(toNRGBA(im).Pix)
		})
		if s == "panic" {
			return "panic:" + panicClass(pm)
		}
		return s
	}
	var ref string
	for _, p := range gmpProcs {
		runtime.GOMAXPROCS(p)
		got := dec()
		if p == 1 {
			ref = got
			if !strings.HasPrefix(ref, "ok ") {
				return false
			}
			continue
		}
		if got != ref {
			rep.Add(Finding{Kind: "property", Property: "C12", Signature: "gomaxprocs:decode-pixels-differ:" + sigSuffix,
				Detail: fmt.Sprintf("Decode result differs between GOMAXPROCS=1 (%s) and %d (%s): %s", ref, p, got, desc),
				Input:  map[string]any{"op": "gomaxprocs-decode", "procs": p, "desc": desc, "hex": hx(file)}})
		}
		rep.Eval(nontrivial, []byte(fmt.Sprintf("%s p=%d", evalKey, p)))
	}
	return true
}

func replayGomaxprocsDecode(in map[string]any) int {
	defer runtime.GOMAXPROCS(runtime.GOMAXPROCS(0))
	hs, _ := in["hex"].(string)
	file := unhx(hs)
	pf, _ := in["procs"].(float64)
	procs := []int{int(pf)}
	if procs[0] < 2 {
		procs = gmpProcs[1:]
	}
	dec := func() string {
		s, _ := guard(func() string {
			im, err := webp.Decode(bytes.NewReader(file))
			if err != nil {
				return "err"
			}
			return "ok " + digest(toNRGBA(im).Pix)
		})
		return s
	}
	runtime.GOMAXPROCS(1)
	ref := dec()
	fmt.Printf("GOMAXPROCS=1:  %s\n", ref)
	rc := 0
	for _, p := range procs {
		runtime.GOMAXPROCS(p)
		got := dec()
		fmt.Printf("GOMAXPROCS=%d: %s\n", p, got)
		if got != ref {
			rc = 1
		}
	}
	return rc
}

// suiteGomaxprocs: C12 — same inputs under GOMAXPROCS 1,2,3,5,8,16,32: identical bytes / pixels.
func suiteGomaxprocs(rep *Report) error {
	rep.Rule = "Encode (lossy; lossless with Quality in {25,50,75,80,90,100}) and Decode on inputs large enough to pass every parallel threshold (>=4 macroblock rows, >50000 / >=100000 pixels, >=16 / >=64 histogram tiles, >2 animation frames) plus small ones, under GOMAXPROCS in {1,2,3,4,5,6,7,8,9,11,13,16,32}; image classes: the 8 generic classes, 'noise blocks + large flat areas' (several histogram clusters AND empty histogram tiles; lossless Quality 90/100 so that the histogram remap pass runs), 'correlated colour channels' (the lossless encoder selects the cross-colour transform — confirmed per case with the Lean stream parser, op vp8linfo — at sizes whose rows/GOMAXPROCS is not tile-aligned: 400x404, 512x300, 330x333), 'tile geometry' (correlated channels at lossless Method 5/6 = 4x4 transform tiles, height = 4(T-1)+1 or +3 with T <= 32 tile rows, widths of every residue mod 4 and 3xN pictures narrower than a tile: 64x51, 96x53, 200x125, 3x67 ... - ragged tiles of 4/9/12 pixels that are the first tile of a worker), lossy pictures one macroblock column wide (1..15 x 49..130, neither a multiple of 16) at Method 3..6, 'wide flat runs' (9000x8, 4097x14, 5000x11 palette pictures: two equal noise rows, then one flat colour with stray pixels at p-xsize+4095 and p-4096 for the range ends p of the hash-chain workers of every swept GOMAXPROCS value) end to end and at hook level (verifapi.FillMatchEnds: the matches the worker body computes just below a range end e equal those inside an uncut range, e around every p, the range ends of every swept value, 150 random ends; also random run-length pictures with runs of 4094..4098, 8191..8193), sizes on the numeric thresholds of the code (thresholds.go) with cheap content; decode-only: synthetic VP8L streams (writer SynVP8LCross) with a forced cross-colour transform, tile bits 2..5, optional predictor/subtract-green, >=100000 pixels, prime or odd heights; outputs must be byte/pixel identical to the GOMAXPROCS=1 result; non-trivial = the input crosses at least one parallel threshold (for the cross-colour cases: the stream really contains a cross-colour transform)"
	defer runtime.GOMAXPROCS(runtime.GOMAXPROCS(0))
	procs := gmpProcs
	thorough := rep.Tier == "thorough"
	lapT := time.Now()
	lap := func(name string) {
		rep.Extra["t_"+name+"_s"] = float64(int(time.Since(lapT).Seconds()*100)) / 100
		lapT = time.Now()
	}

	// sweep: encode under every GOMAXPROCS value (bytes must equal the single-CPU bytes) and
	// decode the single-CPU file under every value (pixels must be equal).
	sweep := func(caseID string, img image.Image, w, h int, o *webp.EncoderOptions, desc string, nontrivial bool) ([]byte, error) {
		var ref, refPix []byte
		for _, p := range procs {
			runtime.GOMAXPROCS(p)
			b, err := encodeBytes(img, o)
			if err != nil {
				return nil, err
			}
			if p == 1 {
				ref = b
				im, err := webp.Decode(bytes.NewReader(ref))
				if err != nil {
					return nil, err
				}
				refPix = toNRGBA(im).Pix
				continue
			}
			if !bytes.Equal(b, ref) {
				// lossless history dependence (C11) can masquerade: re-encode at p=1 and compare again
				runtime.GOMAXPROCS(1)
				b1, _ := encodeBytes(img, o)
				runtime.GOMAXPROCS(p)
				cls := "encode-bytes-differ"
				if !bytes.Equal(b1, ref) {
					cls = "encode-nondeterministic-at-1cpu"
				}
				rep.Add(Finding{Kind: "property", Property: map[string]string{"encode-bytes-differ": "C12", "encode-nondeterministic-at-1cpu": "C11"}[cls],
					Signature: "gomaxprocs:" + cls + fmt.Sprintf(":lossless=%v", o.Lossless),
					Detail:    fmt.Sprintf("Encode bytes differ between GOMAXPROCS=1 (%d bytes) and %d (%d bytes): %s", len(ref), p, len(b), desc),
					Input:     map[string]any{"op": "gomaxprocs", "case": caseID, "seed": rep.Seed, "procs": p, "desc": desc}})
			}
			im, err := webp.Decode(bytes.NewReader(ref))
			if err != nil || !bytes.Equal(toNRGBA(im).Pix, refPix) {
				rep.Add(Finding{Kind: "property", Property: "C12", Signature: fmt.Sprintf("gomaxprocs:decode-pixels-differ:lossless=%v", o.Lossless),
					Detail: fmt.Sprintf("Decode result differs between GOMAXPROCS=1 and %d: %s (err=%v)", p, desc, err),
					Input:  map[string]any{"op": "gomaxprocs-decode", "case": caseID, "seed": rep.Seed, "procs": p, "desc": desc, "hex": hx(ref)}})
			}
			rep.Eval(nontrivial, []byte(fmt.Sprintf("%s p=%d", desc, p)))
		}
		rep.Count(fmt.Sprintf("lossless=%v", o.Lossless))
		if o.Lossless {
			rep.Count(fmt.Sprintf("lossless:q=%v", o.Quality))
		}
		return ref, nil
	}

	// --- (a) generic image classes ---
	n := 14
	if thorough {
		n = 300
	}
	sizes := [][2]int{{400, 300}, {320, 320}, {64, 64}, {600, 180}, {350, 300}, {1000, 110}, {96, 48}, {512, 256}}
	type tfProbe struct {
		desc string
		file []byte
	}
	var tfProbes []tfProbe
	for i := 0; i < n; i++ {
		r := NewRNG(rep.Seed, uint64(i))
		sz := sizes[i%len(sizes)]
		cls, acls := r.Intn(NumImgClasses), []int{AlphaNone, AlphaGradient, AlphaBinary, AlphaNone}[r.Intn(4)]
		img := GenImage(NewRNG(rep.Seed, uint64(2000000+i)), sz[0], sz[1], cls, acls)
		o := webp.DefaultOptions()
		o.Lossless = i%2 == 1
		o.Method = []int{0, 2, 3, 4, 6}[r.Intn(5)]
		o.Quality = float32([]int{25, 50, 75, 80}[r.Intn(4)])
		if o.Lossless {
			// Quality >= 90 switches on the full histogram remap pass; 100 disables entropy-bin combining
			o.Quality = float32([]int{25, 50, 75, 80, 90, 100}[r.Intn(6)])
		} else {
			o.Segments = 1 + r.Intn(4)
			o.UseSharpYUV = r.Chance(1, 5)
		}
		desc := fmt.Sprintf("%s lossless=%v m=%d q=%v sharp=%v", imgDesc(sz[0], sz[1], cls, acls), o.Lossless, o.Method, o.Quality, o.UseSharpYUV)
		ref, err := sweep(fmt.Sprint(i), img, sz[0], sz[1], o, desc, sz[0]*sz[1] > 50000 || (sz[1]+15)/16 >= 4)
		if err != nil {
			return err
		}
		rep.Count("class:generic")
		if o.Lossless && sz[0]*sz[1] >= 100000 {
			tfProbes = append(tfProbes, tfProbe{desc, ref})
		}
		if i < 3 {
			rep.Sample(map[string]any{"case": desc, "procs": procs, "bytes": len(ref)})
		}
	}

	lap("a_generic")
	// --- (b) noise blocks + large flat areas, lossless, Quality 90 / 100 (histogram remap pass, >= 64 tiles) ---
	nNF := 2
	if thorough {
		nNF = 24
	}
	for k := 0; k < nNF; k++ {
		r := NewRNG(rep.Seed, uint64(2500000+k))
		w, h := 512, 512
		if k >= 2 {
			w, h = []int{512, 384, 640, 448}[r.Intn(4)], []int{512, 384, 300, 576}[r.Intn(4)]
		}
		img := genNoiseFlat(NewRNG(rep.Seed, uint64(2600000+k)), w, h)
		o := webp.DefaultOptions()
		o.Lossless = true
		o.Quality = []float32{100, 90}[k%2]
		o.Method = 4
		if k >= 2 {
			o.Method = []int{3, 4, 5, 6}[r.Intn(4)]
			if r.Chance(1, 4) {
				o.Quality = float32(91 + r.Intn(9))
			}
		}
		desc := fmt.Sprintf("%dx%d/noise-blocks+flat lossless=true m=%d q=%v", w, h, o.Method, o.Quality)
		ref, err := sweep(fmt.Sprintf("nf%d", k), img, w, h, o, desc, true)
		if err != nil {
			return err
		}
		rep.Count("class:noise-blocks+flat")
		tfProbes = append(tfProbes, tfProbe{desc, ref})
	}

	lap("b_noiseflat")
	// --- (c) correlated colour channels, lossless: the encoder uses the cross-colour transform ---
	corrSizes := [][2]int{{400, 404}, {512, 300}, {330, 333}}
	nCorr := len(corrSizes)
	if thorough {
		nCorr = 30
	}
	for k := 0; k < nCorr; k++ {
		r := NewRNG(rep.Seed, uint64(2700000+k))
		sz := corrSizes[k%len(corrSizes)]
		if k >= len(corrSizes) {
			sz = [2]int{320 + r.Intn(300), 0}
			sz[1] = 100000/sz[0] + 1 + r.Intn(120)
		}
		img := genCorrelated(NewRNG(rep.Seed, uint64(2800000+k)), sz[0], sz[1])
		o := webp.DefaultOptions()
		o.Lossless = true
		o.Quality = float32([]int{75, 50, 90, 25}[k%4])
		o.Method = []int{4, 3, 4, 6, 2}[k%5]
		desc := fmt.Sprintf("%dx%d/correlated-channels lossless=true m=%d q=%v", sz[0], sz[1], o.Method, o.Quality)
		ref, err := sweep(fmt.Sprintf("corr%d", k), img, sz[0], sz[1], o, desc, true)
		if err != nil {
			return err
		}
		rep.Count("class:correlated-channels")
		tfProbes = append(tfProbes, tfProbe{desc, ref})
	}

	lap("c_correlated")
	// --- (c2) tile geometry: lossless Method 5 / 6 (4x4 transform tiles), correlated channels, sizes derived
	// from the tile grid instead of from round numbers: height = 4(T-1) + {1,3} (ragged bottom tile row of 1
	// or 3 pixel rows: tiles of 4, 12 or 9 pixels, not a multiple of the 8-wide inner loops), T <= 32 tile
	// rows so that for G >= T every tile row is some worker's FIRST row (and for smaller G the bottom row is
	// for (T-1) mod ceil(T/G) == 0), widths with w mod 4 in {0..3}, and pictures narrower than one tile (3xN:
	// every tile is ragged and is the first of its row). Small pictures: cheap.
	{
		tg := [][2]int{{64, 51}, {96, 53}, {200, 125}, {3, 67}, {64, 49}, {37, 35}, {100, 51}}
		nTG := 6
		if thorough {
			nTG = 60
		}
		for k := 0; k < nTG; k++ {
			r := NewRNG(rep.Seed, uint64(2750000+k))
			T := 5 + r.Intn(28)
			tg = append(tg, [2]int{[]int{3, 2, 4*(2+r.Intn(40)) + r.Intn(4), 64, 33}[r.Intn(5)], 4*(T-1) + 1 + 2*r.Intn(2)})
		}
		for k, sz := range tg {
			for _, m := range []int{5, 6} {
				if !thorough && k >= 7 && m != 5+k%2 {
					continue
				}
				img := genCorrelated(NewRNG(rep.Seed, uint64(2760000+k)), sz[0], sz[1])
				o := webp.DefaultOptions()
				o.Lossless = true
				o.Method = m
				o.Quality = float32([]int{75, 50, 90, 100}[(k+m)%4])
				desc := fmt.Sprintf("%dx%d/correlated-channels/tile-geometry lossless=true m=%d q=%v", sz[0], sz[1], o.Method, o.Quality)
				if _, err := sweep(fmt.Sprintf("tg%d-%d", k, m), img, sz[0], sz[1], o, desc, true); err != nil {
					return err
				}
				rep.Count("class:tile-geometry")
				rep.Count(fmt.Sprintf("tile-geometry:h%%4=%d,w%%4=%d", sz[1]%4, sz[0]%4))
			}
		}
	}

	lap("c2_tilegeom")
	// --- (c2b) one macroblock column: lossy pictures 1..15 pixels wide and 49..130 high, neither a multiple of
	// 16 (clipped corner block; with one column the block a worker handled before is another ROW, and which
	// one depends on the worker count), Method 3..6 = row-pipelined encoder, content differing from row to row
	{
		oc := [][2]int{{9, 101}, {10, 100}, {15, 49}, {7, 83}, {1, 67}, {13, 130}, {3, 97}, {5, 65}}
		nOC := 2
		if thorough {
			nOC = 40
		}
		for k := 0; k < nOC; k++ {
			r := NewRNG(rep.Seed, uint64(2780000+k))
			oc = append(oc, [2]int{1 + r.Intn(15), 49 + r.Intn(82)})
		}
		for k, sz := range oc {
			r := NewRNG(rep.Seed, uint64(2781000+k))
			cls := []int{ClsNoise, ClsPhoto, ClsNoise, ClsPal16}[k%4]
			img := GenImage(NewRNG(rep.Seed, uint64(2782000+k)), sz[0], sz[1], cls, AlphaNone)
			o := webp.DefaultOptions()
			o.Method = 3 + (k+int(rep.Seed))%4
			o.Quality = float32([]int{75, 50, 90}[r.Intn(3)])
			o.Segments = 1 + r.Intn(4)
			desc := fmt.Sprintf("%s/one-mb-column lossless=false m=%d q=%v seg=%d", imgDesc(sz[0], sz[1], cls, AlphaNone), o.Method, o.Quality, o.Segments)
			if _, err := sweep(fmt.Sprintf("oc%d", k), img, sz[0], sz[1], o, desc, true); err != nil {
				return err
			}
			rep.Count("class:one-mb-column")
		}
	}

	lap("c2b_onecolumn")
	// --- (c4) wide flat runs (thresholds 4095 / 4096 pixels: longest match, window of the hash chain): a
	// picture wider than 4096 with two equal noise rows and then ONE flat colour, except for stray pixels
	// placed relative to the range ends of the parallel hash-chain workers for several worker counts G:
	// p = k*ceil((size-2)/G) is the last position of worker k-1; strays at p-xsize+4095 (just right of the
	// 4095-pixel window one row above p) and p-4096 (so that a copy of the greedy parse ends at p-1). What a
	// worker computes for p must not depend on whether p+1 belongs to it. End to end (bytes equal for every
	// GOMAXPROCS) and at hook level (verifapi.FillMatchEnds: the matches of the tail of a range ending at e equal
	// those inside the uncut range, for every e around every p).
	{
		wf := [][2]int{{9000, 8}, {4097, 14}, {5000, 11}}
		if thorough {
			wf = append(wf, [2]int{6001, 9}, [2]int{4100, 13}, [2]int{12000, 6}, [2]int{4099, 25})
		}
		for k, sz := range wf {
			r := NewRNG(rep.Seed, uint64(2790000+k))
			img, argb, ps := genWideFlatRun(r, sz[0], sz[1], gmpProcs)
			o := webp.DefaultOptions()
			o.Lossless = true
			o.Quality = float32([]int{75, 60, 75, 90}[(k+int(rep.Seed))%4])
			o.Method = []int{4, 3, 5, 4}[(k+int(rep.Seed))%4]
			desc := fmt.Sprintf("%dx%d/wide-flat-run(%d range ends marked) lossless=true m=%d q=%v", sz[0], sz[1], len(ps), o.Method, o.Quality)
			if _, err := sweep(fmt.Sprintf("wf%d", k), img, sz[0], sz[1], o, desc, true); err != nil {
				return err
			}
			rep.Count("class:wide-flat-run")
			rep.Count("threshold:4095pixels")
			rep.Count("threshold:4096pixels-copy")
			gmpFillSplit(rep, fmt.Sprintf("wf%d", k), argb, sz[0], sz[1], int(o.Quality), ps, r)
		}
		// hook level only: random index pictures with long runs (run lengths around 4095 / 4096 / 4097)
		nRuns := 3
		if thorough {
			nRuns = 40
		}
		for k := 0; k < nRuns; k++ {
			r := NewRNG(rep.Seed, uint64(2795000+k))
			w, h := 4097+r.Intn(3000), 0
			h = 50000/w + 2 + r.Intn(4)
			argb := make([]uint32, w*h)
			pos := 0
			var ps []int
			for pos < len(argb) {
				c := 0xff000000 | uint32(r.Intn(40))<<8
				n := 1 + r.Intn(6)
				if r.Chance(1, 6) {
					n = []int{4094, 4095, 4096, 4097, 4098, 8191, 8192, 8193, w, w + 4095}[r.Intn(10)]
					ps = append(ps, mini(pos+n, len(argb)-2), mini(pos+n/2, len(argb)-2))
				}
				for ; n > 0 && pos < len(argb); n-- {
					argb[pos] = c
					pos++
				}
			}
			// the second row band repeats the first (far matches one row / two rows back)
			copy(argb[w:2*w], argb[:w])
			gmpFillSplit(rep, fmt.Sprintf("runs%d", k), argb, w, h, []int{75, 50, 90}[k%3], ps, r)
		}
	}

	lap("c4_wideflat")
	// --- (c3) sizes on the numeric thresholds of the code (thresholds.go), cheap content, both codecs ---
	{
		nT := 6
		if thorough {
			nT = 80
		}
		for k, tc := range DrawThresholdCases(rep.Seed, 0x12, nT, ThresholdFilter{MaxPixels: 140000, MinValue: 200}) {
			r := NewRNG(rep.Seed, uint64(2770000+k))
			kind := r.Intn(NumCheapClasses)
			acls := []int{AlphaNone, AlphaGradient, AlphaNone, AlphaSparse}[r.Intn(4)]
			img := GenCheapImage(r, tc.W, tc.H, kind, acls)
			o := webp.DefaultOptions()
			o.Lossless = k%2 == 0
			o.Method = []int{0, 3, 4, 6}[r.Intn(4)]
			o.Quality = float32([]int{50, 75, 90}[r.Intn(3)])
			desc := fmt.Sprintf("%s %s lossless=%v m=%d q=%v", cheapDesc(tc.W, tc.H, kind, acls), tc.String(), o.Lossless, o.Method, o.Quality)
			if _, err := sweep(fmt.Sprintf("thr%d", k), img, tc.W, tc.H, o, desc, tc.W*tc.H > 50000 || (tc.H+15)/16 >= 4); err != nil {
				return err
			}
			rep.Count("class:threshold")
			CountThreshold(rep, tc)
		}
	}

	lap("c3_threshold")
	// which transforms did the large lossless files really use? (Lean stream parser)
	{
		var lines []string
		for _, t := range tfProbes {
			lines = append(lines, "vp8linfo "+hx(vp8lPayload(t.file)))
		}
		info, err := RunDriver(lines)
		if err != nil {
			return err
		}
		crossCorr := 0
		for i, t := range tfProbes {
			tf := tfClass(info[i])
			rep.Count("large-lossless:tf:" + tf)
			if strings.Contains(t.desc, "correlated-channels") {
				if strings.Contains(tf, "cross") {
					crossCorr++
				} else {
					rep.Notes = append(rep.Notes, "no cross-colour transform in "+t.desc+" ("+short(info[i], 120)+")")
				}
			}
		}
		rep.Extra["correlated_cases_with_cross_colour"] = crossCorr
		if crossCorr == 0 {
			rep.Add(Finding{Kind: "correspondence", Property: "C12", Signature: "gomaxprocs:generator-lost-cross-colour",
				Detail: "none of the correlated-channel lossless files contains a cross-colour transform any more: the sweep no longer reaches the parallel inverse cross-colour transform through encoder output",
				Input:  map[string]any{"op": "gomaxprocs", "case": "corr", "seed": rep.Seed}})
		}
	}

	lap("tfprobe")
	// --- (d) decode-only: synthetic VP8L streams with a forced cross-colour transform ---
	synDims := [][2]int{{400, 251}, {317, 331}, {512, 197}, {1000, 101}, {347, 293}, {640, 157}, {359, 283}, {333, 307}}
	nSyn := 8
	if thorough {
		nSyn = 120
	}
	for k := 0; k < nSyn; k++ {
		d := synDims[k%len(synDims)]
		crossBits := 2 + k%4
		ok := false
		for try := 0; try < 6 && !ok; try++ {
			r := NewRNG(rep.Seed, uint64(2900000+k*16+try))
			predBits := 0
			if r.Chance(1, 2) {
				predBits = 2 + r.Intn(5)
			}
			payload, tf := SynVP8LCross(r, d[0], d[1], crossBits, r.Chance(1, 2), predBits)
			desc := fmt.Sprintf("syn %dx%d tf=%s (%d bytes)", d[0], d[1], tf, len(payload))
			ok = gmpDecodeSweep(rep, riff(chunk("VP8L", payload)), desc, "syn-cross", true, fmt.Sprintf("syn %d %d", k, try))
			if ok {
				rep.Count(fmt.Sprintf("syn-cross:bits=%d", crossBits))
				if k < 2 {
					rep.Sample(map[string]any{"case": desc, "procs": procs})
				}
			} else {
				rep.Count("syn-cross:rejected-at-1cpu")
			}
		}
	}

	lap("d_syncross")
	// animation: DecodeFramesParallel with > 2 frames
	for k := 0; k < 3; k++ {
		var buf bytes.Buffer
		w, h := 40+k*8, 32
		e := animation.NewEncoder(&buf, w, h, &animation.EncodeOptions{Lossless: k%2 == 0, Quality: 60, Kmax: 2})
		r := NewRNG(rep.Seed, uint64(3000000+k))
		for f := 0; f < 5; f++ {
			_ = e.AddFrame(GenImage(r, w, h, ClsPhoto, AlphaNone), 30*time.Millisecond)
		}
		_ = e.Close()
		var refd string
		for _, p := range procs {
			runtime.GOMAXPROCS(p)
			a, err := animation.DecodeBytes(buf.Bytes())
			if err != nil {
				return err
			}
			perr := a.DecodeFramesParallel()
			s := fmt.Sprint(perr)
			for i := range a.Frames {
				if a.Frames[i].Image != nil {
					s += digest(toNRGBA(a.Frames[i].Image).Pix)
				}
			}
			if p == 1 {
				refd = s
			} else if s != refd {
				rep.Add(Finding{Kind: "property", Property: "C12", Signature: "gomaxprocs:anim-decode-differs",
					Detail: fmt.Sprintf("DecodeFramesParallel differs between GOMAXPROCS=1 and %d", p),
					Input:  map[string]any{"op": "gomaxprocs-anim", "hex": hx(buf.Bytes()), "procs": p}})
			}
			rep.Eval(true, []byte(fmt.Sprintf("anim %d p=%d", k, p)))
		}
	}
	return nil
}

// genWideFlatRun: w x h picture (w > 4096) of 30 noise colours in rows 0 and 1 (row 1 repeats row 0) and one
// flat colour below, with two stray pixels per marked range end. It returns the picture, the index image the
// hash chain will see (one value per pixel; the lossless encoder palettises the picture: 33 colours, unpacked)
// and the marked positions.
func genWideFlatRun(r *RNG, w, h int, procs []int) (*image.NRGBA, []uint32, []int) {
	img := image.NewNRGBA(image.Rect(0, 0, w, h))
	size := w * h
	noise := make([][3]byte, 30)
	for i := range noise {
		noise[i] = [3]byte{byte(40 + 5*i), byte(200 - 3*i), byte(17 * i)}
	}
	set := func(pos int, c [3]byte) {
		o := 4 * pos
		img.Pix[o], img.Pix[o+1], img.Pix[o+2], img.Pix[o+3] = c[0], c[1], c[2], 255
	}
	for x := 0; x < w; x++ {
		c := noise[r.Intn(len(noise))]
		set(x, c)
		set(w+x, c)
	}
	flat := [3]byte{10, 20, 30}
	for pos := 2 * w; pos < size; pos++ {
		set(pos, flat)
	}
	var ps []int
	used := map[int]bool{}
	for _, g := range procs {
		if g < 2 || g > size/1000 {
			continue
		}
		ppw := (size - 2 + g - 1) / g
		for k := 1; k < g; k++ {
			p := k * ppw // last position of worker k-1 (its range is [1+(k-1)*ppw, 1+k*ppw))
			if p-w-1 < 2*w || p >= size-2 || used[p] {
				continue
			}
			// keep the marks apart: a stray pixel inside another mark's window would change both
			near := false
			for _, q := range ps {
				if q-p < 2*w+8200 && p-q < 2*w+8200 {
					near = true
				}
			}
			if near {
				continue
			}
			used[p] = true
			ps = append(ps, p)
			set(p-w+4095, [3]byte{250, 1, 1})
			set(p-4096, [3]byte{1, 250, 1})
		}
	}
	argb := make([]uint32, size)
	for i := 0; i < size; i++ {
		o := 4 * i
		argb[i] = 0xff000000 | uint32(img.Pix[o])<<16 | uint32(img.Pix[o+1])<<8 | uint32(img.Pix[o+2])
	}
	return img, argb, ps
}

// gmpFillSplit: split invariance of the parallel hash-chain pass at hook level. What the worker body computes
// for the positions just below a range end e must equal what it computes for them inside one uncut range:
// e = p-2..p+3 around every marked position p, the range ends of every GOMAXPROCS value of the sweep, and
// random ends.
func gmpFillSplit(rep *Report, caseID string, argb []uint32, w, h, quality int, ps []int, r *RNG) {
	size := w * h
	const span = 96
	var ends []int
	for _, p := range ps {
		for e := p - 2; e <= p+3; e++ {
			if e > 1 && e < size-1 {
				ends = append(ends, e)
			}
		}
	}
	for _, g := range gmpProcs {
		if g < 2 || g > size/1000 {
			continue
		}
		ppw := (size - 2 + g - 1) / g
		for k := 1; k < g; k++ {
			if c := 1 + k*ppw; c < size-1 {
				ends = append(ends, c)
			}
		}
	}
	for k := 0; k < 150; k++ {
		ends = append(ends, 2+r.Intn(size-4))
	}
	whole, pieces, ok := verifapi.FillMatchEnds(argb, w, h, quality, ends, span)
	if !ok {
		rep.Count("fill-split:too-small")
		return
	}
	reported := 0
	for k, e := range ends {
		rep.Eval(true, []byte(fmt.Sprintf("fill-split %s %d", caseID, e)))
		rep.Count("fill-split:range-ends")
		s0 := maxi(e-span, 1)
		for i, v := range pieces[k] {
			if v != whole[s0+i] && reported < 3 {
				reported++
				rep.Add(Finding{Kind: "property", Property: "C12", Signature: "gomaxprocs:fill-split-differs",
					Detail: fmt.Sprintf("hash-chain worker body (fillMatchRange): as the tail of a range ending at %d it gives offset/length %d/%d at position %d, inside an uncut range %d/%d (%dx%d index picture, quality %d): the matches depend on where fillParallel cuts the position range, i.e. on GOMAXPROCS",
						e, v>>12, v&4095, s0+i, whole[s0+i]>>12, whole[s0+i]&4095, w, h, quality),
					Input: map[string]any{"op": "gomaxprocs-fillsplit", "seed": rep.Seed, "case": caseID, "w": w, "h": h, "quality": quality, "end": e, "position": s0 + i, "argb_digest": digestU32(argb), "argb_rle": rleU32(argb)}})
				break
			}
		}
	}
}

func digestU32(a []uint32) string {
	b := make([]byte, 4*len(a))
	for i, v := range a {
		b[4*i], b[4*i+1], b[4*i+2], b[4*i+3] = byte(v), byte(v>>8), byte(v>>16), byte(v>>24)
	}
	return digest(b)
}

// rleU32 is a compact literal form of an index picture with long runs: "value*count,value*count,...".
func rleU32(a []uint32) string {
	var sb strings.Builder
	for i := 0; i < len(a); {
		j := i
		for j < len(a) && a[j] == a[i] {
			j++
		}
		if sb.Len() > 0 {
			sb.WriteByte(',')
		}
		fmt.Fprintf(&sb, "%x*%d", a[i], j-i)
		i = j
	}
	return sb.String()
}

func unrleU32(s string) []uint32 {
	var out []uint32
	for _, f := range strings.Split(s, ",") {
		var v uint32
		var n int
		if _, err := fmt.Sscanf(f, "%x*%d", &v, &n); err != nil {
			return nil
		}
		for ; n > 0; n-- {
			out = append(out, v)
		}
	}
	return out
}

func replayGomaxprocsFillSplit(in map[string]any) int {
	argb := unrleU32(fmt.Sprint(in["argb_rle"]))
	w, _ := in["w"].(float64)
	h, _ := in["h"].(float64)
	q, _ := in["quality"].(float64)
	e, _ := in["end"].(float64)
	if len(argb) != int(w)*int(h) || len(argb) == 0 {
		fmt.Println("bad replay input")
		return 2
	}
	const span = 96
	whole, pieces, ok := verifapi.FillMatchEnds(argb, int(w), int(h), int(q), []int{int(e)}, span)
	if !ok || len(pieces) != 1 {
		fmt.Println("picture too small for the parallel path")
		return 2
	}
	s0 := maxi(int(e)-span, 1)
	for i, v := range pieces[0] {
		if v != whole[s0+i] {
			fmt.Printf("go: position %d: as tail of a range ending at %d -> offset/length %d/%d, uncut %d/%d\n", s0+i, int(e), v>>12, v&4095, whole[s0+i]>>12, whole[s0+i]&4095)
			return 1
		}
	}
	fmt.Printf("go: range ending at %d and uncut range agree on positions %d..%d\n", int(e), s0, int(e)-1)
	return 0
}

// schedLosslessWorkers: leg (i-d) of suite sched. Returns false when an encode hung.
func schedLosslessWorkers(rep *Report) bool {
	defer runtime.GOMAXPROCS(runtime.GOMAXPROCS(0))
	n := 5
	if rep.Tier == "thorough" {
		n = 60
	}
	dims := [][2]int{{512, 512}, {256, 256}, {320, 200}, {384, 300}, {200, 330}, {448, 256}}
	for k := 0; k < n; k++ {
		r := NewRNG(rep.Seed, uint64(9100000+k))
		d := dims[(k+int(rep.Seed))%len(dims)]
		if k == 0 {
			d = dims[0]
		}
		var img *image.NRGBA
		class := "noise-blocks+flat"
		if k%4 == 3 {
			img = genCorrelated(NewRNG(rep.Seed, uint64(9110000+k)), d[0], d[1])
			class = "correlated-channels"
		} else {
			img = genNoiseFlat(NewRNG(rep.Seed, uint64(9110000+k)), d[0], d[1])
		}
		o := webp.DefaultOptions()
		o.Lossless = true
		o.Quality = []float32{100, 90, 95, 100}[k%4]
		o.Method = []int{4, 3, 5, 6, 4}[(k+r.Intn(2))%5]
		desc := fmt.Sprintf("%dx%d/%s lossless=true m=%d q=%v", d[0], d[1], class, o.Method, o.Quality)
		runtime.GOMAXPROCS(1)
		ref, err := encodeBytes(img, o)
		if err != nil {
			rep.Count("lossless-workers:encode-error")
			continue
		}
		procsList := []int{2, 3, 4, 5, 6, 7, 8}
		if rep.Tier != "thorough" && k > 0 {
			procsList = []int{2 + (k+int(rep.Seed))%2, 5 + (k+int(rep.Seed))%4, 4}
		}
		for _, p := range procsList {
			runtime.GOMAXPROCS(p)
			type res struct {
				b   []byte
				err error
			}
			ch := make(chan res, 1)
			go func() { b, err := encodeBytes(img, o); ch <- res{b, err} }()
			var got res
			select {
			case got = <-ch:
			case <-time.After(180 * time.Second):
				rep.Add(Finding{Kind: "property", Property: "C10", Signature: "sched:deadlock:lossless",
					Detail: fmt.Sprintf("lossless Encode did not return within 180 s at GOMAXPROCS=%d: %s", p, desc),
					Input:  map[string]any{"op": "sched-lossless", "case": k, "seed": rep.Seed, "procs": p, "desc": desc}})
				return false
			}
			rep.Eval(true, []byte(fmt.Sprintf("%s p=%d", desc, p)))
			rep.Count(fmt.Sprintf("lossless-workers:procs=%d", p))
			in := map[string]any{"op": "sched-lossless", "case": k, "seed": rep.Seed, "procs": p, "desc": desc,
				"gen": "k%4==3: genCorrelated else genNoiseFlat, NewRNG(seed, 9110000+k); see schedLosslessWorkers"}
			if got.err != nil {
				rep.Add(Finding{Kind: "property", Property: "C10", Signature: "sched:lossless-encode-error", Detail: fmt.Sprintf("%s at GOMAXPROCS=%d: %v", desc, p, got.err), Input: in})
				continue
			}
			if !bytes.Equal(got.b, ref) {
				rep.Add(Finding{Kind: "property", Property: "C10", Signature: "sched:lossless-bytes-differ",
					Detail: fmt.Sprintf("lossless Encode bytes with %d workers differ from the single-CPU run (%s): %d vs %d bytes", p, desc, len(got.b), len(ref)), Input: in})
			}
			dec, derr := webp.Decode(bytes.NewReader(got.b))
			if derr != nil {
				in2 := map[string]any{}
				for kk, v := range in {
					in2[kk] = v
				}
				in2["hex"] = short(hx(got.b), 6000)
				rep.Add(Finding{Kind: "property", Property: "C10", Signature: "sched:lossless-output-not-decodable",
					Detail: fmt.Sprintf("lossless Encode with %d workers returned nil but its output does not decode (%s): %v", p, desc, derr), Input: in2})
			} else if same, why := nrgbaEqual(img, toNRGBA(dec), false); !same {
				rep.Add(Finding{Kind: "property", Property: "C10", Signature: "sched:lossless-output-other-picture",
					Detail: fmt.Sprintf("lossless Encode with %d workers: the output decodes to another picture (%s): %s", p, desc, why), Input: in})
			}
		}
		rep.Count("lossless-workers:" + class)
	}
	return true
}

// schedSynStreams draws synthetic VP8L streams that use colour indexing (chains containing "ci") and that the
// decoder accepts, wrapped as simple lossless files.
func schedSynStreams(seed uint64, want int) (files [][]byte, descs []string) {
	for i := 0; len(files) < want && i < 40*want; i++ {
		r := NewRNG(seed, uint64(9200000+i))
		var b []byte
		var d string
		if i%3 == 2 {
			b, d = SynVP8LNarrow(r)
		} else {
			b, d = SynVP8L(r)
		}
		if !strings.Contains(strings.SplitN(d, " ", 2)[0], "ci") || strings.Contains(d, "defect=") || len(b) > 6000 {
			continue
		}
		f := riff(chunk("VP8L", b))
		if s, _ := guard(func() string {
			if _, err := webp.Decode(bytes.NewReader(f)); err != nil {
				return "err"
			}
			return "ok"
		}); s != "ok" {
			continue
		}
		files = append(files, f)
		descs = append(descs, d)
	}
	return
}

// schedSynDecodes: leg (ii-a) of suite sched.
func schedSynDecodes(rep *Report) {
	defer runtime.GOMAXPROCS(runtime.GOMAXPROCS(0))
	nStreams, reps := 10, 3
	if rep.Tier == "thorough" {
		nStreams, reps = 200, 4
	}
	files, descs := schedSynStreams(rep.Seed, nStreams)
	// larger noisy pictures (lossless and lossy+alpha: the alpha plane is a VP8L stream too) to dirty the pools
	var noisy [][]byte
	for k := 0; k < 4; k++ {
		r := NewRNG(rep.Seed, uint64(9300000+k))
		img := GenImage(r, 96+16*k, 80, ClsNoise, []int{AlphaNoise, AlphaNone, AlphaGradient, AlphaNoise}[k])
		o := webp.DefaultOptions()
		o.Lossless = k != 2
		o.Method = 1
		if b, err := encodeBytes(img, o); err == nil {
			noisy = append(noisy, b)
		}
	}
	dec := func(f []byte) string {
		s, pm := guard(func() string {
			im, err := webp.Decode(bytes.NewReader(f))
			if err != nil {
				return "err"
			}
			return "ok " + im.Bounds().String() + " " + digest(toNRGBA(im).Pix)
		})
		if s == "panic" {
			return "panic: " + pm
		}
		return s
	}
	for _, procs := range []int{1, 8} {
		runtime.GOMAXPROCS(procs)
		for i, f := range files {
			// quiet reference: pools emptied (sync.Pool drops its contents over two GC cycles)
			runtime.GC()
			runtime.GC()
			ref := dec(f)
			// dirty the pools on this goroutine, then decode; and the same concurrently
			var results []string
			for _, nf := range noisy {
				dec(nf)
				results = append(results, dec(f))
			}
			var wg sync.WaitGroup
			conc := make([]string, reps*2)
			for g := 0; g < reps*2; g++ {
				wg.Add(1)
				go func(g int) {
					defer wg.Done()
					if g%2 == 0 {
						for _, nf := range noisy {
							dec(nf)
						}
						conc[g] = ref
						return
					}
					dec(noisy[g%len(noisy)])
					conc[g] = dec(f)
				}(g)
			}
			wg.Wait()
			results = append(results, conc...)
			rep.Count(fmt.Sprintf("syn-decode:GOMAXPROCS=%d", procs))
			for k, got := range results {
				rep.Eval(true, []byte(fmt.Sprintf("syn-decode %d %d %d", procs, i, k)))
				if got != ref {
					how := "after other decodes on the same goroutine"
					if k >= len(noisy) {
						how = "while other goroutines decode"
					}
					rep.Add(Finding{Kind: "property", Property: "C10", Signature: "concurrent:decode-synthetic",
						Detail: fmt.Sprintf("Decode of a synthetic VP8L stream (%s, %d bytes) %s returned %s; on a quiet process with empty pools %s (GOMAXPROCS=%d)", descs[i], len(f), how, short(got, 90), short(ref, 90), procs),
						Input:  map[string]any{"op": "sched-syn-decode", "hex": hx(f), "noisy": hx(noisy[0]), "desc": descs[i]}})
					break
				}
			}
		}
	}
}

func replaySchedSynDecode(in map[string]any) int {
	f := unhx(fmt.Sprint(in["hex"]))
	nf := unhx(fmt.Sprint(in["noisy"]))
	dec := func(f []byte) string {
		s, pm := guard(func() string {
			im, err := webp.Decode(bytes.NewReader(f))
			if err != nil {
				return "err"
			}
			return "ok " + im.Bounds().String() + " " + digest(toNRGBA(im).Pix)
		})
		return s + pm
	}
	runtime.GC()
	runtime.GC()
	ref := dec(f)
	dec(nf)
	got := dec(f)
	fmt.Printf("go (fresh pools):        %s\ngo (after another decode): %s\n", ref, got)
	if ref != got {
		return 1
	}
	return 0
}

func lossKind(name string) string {
	if strings.Contains(name, "lossless=true") {
		return "lossless"
	}
	if strings.Contains(name, "lossless=false") {
		return "lossy"
	}
	return "other"
}

// rowSyncStress hammers rowSync.waitFor / signal exactly as the pipeline uses them (monotone done
// values, final signal(y, n) racing with the waiter's slow path). Returns true on deadlock.
func rowSyncStress(rep *Report) bool {
	iters := 60000
	if rep.Tier == "thorough" {
		iters = 1500000
	}
	runtime.GOMAXPROCS(4)
	rs := verifapi.NewRowSync(1)
	done := make(chan struct{})
	var progress atomic.Int64
	go func() {
		defer close(done)
		spin := 0
		for i := 0; i < iters; i++ {
			rs.Reset(0)
			ready := make(chan struct{})
			fin := make(chan struct{})
			go func() {
				close(ready)
				rs.WaitFor(0, 3)
				close(fin)
			}()
			<-ready
			// swept phase: 0..~200 spin iterations between the waiter's start and the signals
			for k := 0; k < spin; k++ {
				runtime.Gosched()
			}
			spin = (spin + 1) % 7
			rs.Signal(0, 1)
			rs.Signal(0, 2)
			rs.Signal(0, 3)
			<-fin
			progress.Add(1)
		}
	}()
	last := int64(-1)
	for {
		select {
		case <-done:
			rep.CountN("rowsync-handshakes", iters)
			rep.Eval(true, []byte("rowsync-stress"))
			if w := rs.Waiters(0); w != 0 {
				rep.Add(Finding{Kind: "property", Property: "C10", Signature: "rowsync:waiters-not-zero-at-rest",
					Detail: fmt.Sprintf("waiters counter is %d after all handshakes completed", w), Input: map[string]any{"op": "rowsync-stress"}})
			}
			return false
		case <-time.After(20 * time.Second):
			cur := progress.Load()
			if cur == last {
				rep.Add(Finding{Kind: "property", Property: "C10", Signature: "rowsync:lost-wakeup",
					Detail: fmt.Sprintf("wait/signal handshake %d of %d never completed: the waiter is parked although done >= needed (lost wake-up)", cur+1, iters),
					Input:  map[string]any{"op": "rowsync-stress", "handshake": cur + 1}})
				return true
			}
			last = cur
		}
	}
}
