package main

import (
	"bytes"
	"fmt"
	"image"
	"runtime"
	"strings"
	"sync"
	"time"

	webp "github.com/deepteams/webp"
	"github.com/deepteams/webp/animation"
	"github.com/deepteams/webp/mux"
	"github.com/deepteams/webp/verifapi"
)

func init() {
	suites["sched"] = suiteSched
	suites["gomaxprocs"] = suiteGomaxprocs
}

type schedCase struct {
	w, h, cls, acls int
	method          int
	quality         float32
	procs           int
	perturb         int // 0 none, 1 gosched, 2 sleeps, 3 stall upper rows
}

func encodeBytes(img image.Image, o *webp.EncoderOptions) ([]byte, error) {
	var buf bytes.Buffer
	err := webp.Encode(&buf, img, o)
	return buf.Bytes(), err
}

// suiteSched: C10 — (i) row-pipeline runs under perturbed schedules: output bytes must equal the
// unperturbed single-worker run and the recorded claim/process/record trace must be accepted by the
// Lean RowPipe model (every guard true); (ii) concurrent use of the public API equals solo results.
func suiteSched(rep *Report) error {
	rep.Rule = "(i) lossy Encode (Method>=3, >=4 macroblock rows => row pipeline) with GOMAXPROCS 2..8 and seeded Gosched/sleep/stall perturbation at every hook point; bytes compared with the GOMAXPROCS=1 unperturbed run; event trace validated against the Lean RowPipe guards (op pipetrace); (ii) N goroutines calling Encode/Decode/DecodeConfig/GetFeatures/animation/mux concurrently vs solo results; non-trivial = run used >= 2 workers and hit the slow wait path or had overlapping rows"
	defer runtime.GOMAXPROCS(runtime.GOMAXPROCS(0))
	n := 60
	if rep.Tier == "thorough" {
		n = 1500
	}
	sizes := [][2]int{{64, 64}, {80, 112}, {160, 96}, {33, 130}, {200, 200}, {320, 320}, {17, 64}}
	var lines []string
	var lineCase []schedCase
	for i := 0; i < n; i++ {
		r := NewRNG(rep.Seed, uint64(i))
		sz := sizes[r.Intn(len(sizes))]
		if rep.Tier != "thorough" && i%10 != 0 && sz[0]*sz[1] > 30000 {
			sz = sizes[r.Intn(3)]
		}
		c := schedCase{w: sz[0], h: sz[1], cls: r.Intn(NumImgClasses), acls: []int{AlphaNone, AlphaNone, AlphaGradient}[r.Intn(3)],
			method: 3 + r.Intn(4), quality: float32([]int{30, 50, 75, 90}[r.Intn(4)]), procs: 2 + r.Intn(7), perturb: r.Intn(4)}
		img := GenImage(NewRNG(rep.Seed, uint64(1000000+i)), c.w, c.h, c.cls, c.acls)
		o := webp.DefaultOptions()
		o.Method = c.method
		o.Quality = c.quality
		o.Segments = 1 + r.Intn(4)
		o.Partitions = r.Intn(4)
		// reference: single CPU, no hook
		verifapi.SetSchedHook(nil)
		runtime.GOMAXPROCS(1)
		ref, err := encodeBytes(img, o)
		if err != nil {
			return err
		}
		// perturbed run with trace
		var mu sync.Mutex
		var events []string
		workers := map[uintptr]int{}
		slow := 0
		pr := NewRNG(rep.Seed, uint64(7000000+i))
		var prMu sync.Mutex
		rnd := func(k int) int { prMu.Lock(); v := pr.Intn(k); prMu.Unlock(); return v }
		hook := func(ev int, worker uintptr, y, x int) {
			switch ev {
			case verifapi.SchedClaim, verifapi.SchedProc, verifapi.SchedRecord:
				mu.Lock()
				id, ok := workers[worker]
				if !ok && ev != verifapi.SchedRecord {
					id = len(workers)
					workers[worker] = id
				}
				switch ev {
				case verifapi.SchedClaim:
					events = append(events, fmt.Sprintf("c:%d:%d", id, y))
				case verifapi.SchedProc:
					events = append(events, fmt.Sprintf("p:%d:%d:%d", id, y, x))
				case verifapi.SchedRecord:
					events = append(events, fmt.Sprintf("r:%d", y))
				}
				mu.Unlock()
			case verifapi.SchedSlowWait:
				mu.Lock()
				slow++
				mu.Unlock()
			}
			switch c.perturb {
			case 1:
				if rnd(3) == 0 {
					runtime.Gosched()
				}
			case 2:
				if rnd(8) == 0 {
					time.Sleep(time.Duration(rnd(200)) * time.Microsecond)
				}
			case 3:
				// stall even rows at their first columns so that lower rows run into the wait
				if ev == verifapi.SchedProc && y%2 == 0 && x < 2 {
					time.Sleep(time.Duration(50+rnd(300)) * time.Microsecond)
				}
				if ev == verifapi.SchedSignal && rnd(5) == 0 {
					runtime.Gosched()
				}
			}
		}
		verifapi.SetSchedHook(hook)
		runtime.GOMAXPROCS(c.procs)
		got, err := encodeBytes(img, o)
		verifapi.SetSchedHook(nil)
		if err != nil {
			return err
		}
		desc := fmt.Sprintf("%s m=%d q=%v seg=%d part=%d procs=%d perturb=%d", imgDesc(c.w, c.h, c.cls, c.acls), c.method, c.quality, o.Segments, o.Partitions, c.procs, c.perturb)
		if !bytes.Equal(ref, got) {
			rep.Add(Finding{Kind: "property", Property: "C10", Signature: "sched:lossy-bytes-differ",
				Detail: fmt.Sprintf("lossy Encode bytes under perturbed schedule differ from the single-CPU run (%s): %d vs %d bytes", desc, len(got), len(ref)),
				Input:  map[string]any{"op": "sched", "case": i, "seed": rep.Seed, "desc": desc}})
		}
		mbW, mbH := (c.w+15)/16, (c.h+15)/16
		rep.Count(fmt.Sprintf("workers:%d", len(workers)))
		rep.Count(fmt.Sprintf("perturb:%d", c.perturb))
		if slow > 0 {
			rep.Count("slow-wait-path-hit")
		}
		rep.CountN("events", len(events))
		rep.Eval(len(workers) >= 2 && (slow > 0 || len(events) > mbW*mbH), []byte(desc))
		if len(events) > 0 {
			lines = append(lines, fmt.Sprintf("pipetrace %d %d %s", mbW, mbH, strings.Join(events, ";")))
			lineCase = append(lineCase, c)
			if i < 2 {
				rep.Sample(map[string]any{"case": desc, "events": len(events), "trace_head": strings.Join(events[:mini(12, len(events))], ";")})
			}
		} else if mbH >= 4 {
			rep.Add(Finding{Kind: "correspondence", Property: "C10", Signature: "sched:no-trace",
				Detail: "row pipeline expected (mbH>=4, Method>=3) but no hook events were recorded: " + desc,
				Input:  map[string]any{"op": "sched", "case": i, "seed": rep.Seed, "desc": desc}})
		}
	}
	out, err := RunDriver(lines)
	if err != nil {
		return err
	}
	okTraces := 0
	for i, l := range out {
		if l == "ok" {
			okTraces++
			continue
		}
		c := lineCase[i]
		rep.Add(Finding{Kind: "correspondence", Property: "C10", Signature: "sched:trace-rejected",
			Detail: fmt.Sprintf("Lean RowPipe model rejects a recorded execution trace (%s): %dx%d m=%d procs=%d perturb=%d", l, c.w, c.h, c.method, c.procs, c.perturb),
			Input:  map[string]any{"op": "pipetrace-line", "line": short(lines[i], 20000)}})
	}
	rep.Extra["traces_validated"] = okTraces

	// (ii) concurrent public API use vs solo results
	rounds := 6
	if rep.Tier == "thorough" {
		rounds = 120
	}
	runtime.GOMAXPROCS(8)
	type job struct {
		name string
		f    func() string
	}
	for rd := 0; rd < rounds; rd++ {
		r := NewRNG(rep.Seed, uint64(9000000+rd))
		var jobs []job
		for k := 0; k < 10; k++ {
			w, h := 8+r.Intn(90), 8+r.Intn(90)
			img := GenImage(NewRNG(rep.Seed, uint64(9500000+rd*100+k)), w, h, r.Intn(NumImgClasses), r.Intn(NumAlphaClasses))
			o := webp.DefaultOptions()
			o.Lossless = r.Bool()
			o.Method = r.Intn(7)
			o.Quality = float32([]int{20, 50, 75, 80}[r.Intn(4)])
			file, err := encodeBytes(img, o)
			if err != nil {
				return err
			}
			oo := *o
			jobs = append(jobs, job{fmt.Sprintf("encode:lossless=%v:m=%d:q=%v:%dx%d", oo.Lossless, oo.Method, oo.Quality, w, h), func() string { b, _ := encodeBytes(img, &oo); return digest(b) }})
			jobs = append(jobs, job{"decode", func() string {
				im, err := webp.Decode(bytes.NewReader(file))
				if err != nil {
					return "err"
				}
				return digest(toNRGBA(im).Pix)
			}})
			jobs = append(jobs, job{"config", func() string { return goConfig(file) + "|" + goFeatures(file) }})
			jobs = append(jobs, job{"demux", func() string { return goDemux(file) }})
			if k%3 == 0 {
				jobs = append(jobs, job{"anim", func() string {
					var buf bytes.Buffer
					e := animation.NewEncoder(&buf, w, h, &animation.EncodeOptions{Lossless: true, Quality: 50})
					_ = e.AddFrame(img, 40*time.Millisecond)
					_ = e.AddFrame(img, 50*time.Millisecond)
					_ = e.Close()
					a, err := animation.DecodeBytes(buf.Bytes())
					if err != nil {
						return digest(buf.Bytes()) + "|err"
					}
					_ = a.DecodeFramesParallel()
					return digest(buf.Bytes()) + fmt.Sprint(len(a.Frames))
				}})
				jobs = append(jobs, job{"mux", func() string {
					m := mux.NewMuxer()
					d, err := mux.NewDemuxer(file)
					if err != nil {
						return "err"
					}
					f, _ := d.Frame(0)
					_ = m.AddFrame(f.Data, &mux.FrameOptions{Duration: 10})
					_ = m.AddFrame(f.Data, &mux.FrameOptions{Duration: 20, BlendMode: mux.BlendNone})
					var b bytes.Buffer
					_ = m.Assemble(&b)
					return digest(b.Bytes())
				}})
			}
		}
		solo := make([]string, len(jobs))
		for i, j := range jobs {
			solo[i] = j.f()
		}
		conc := make([][3]string, len(jobs))
		var wg sync.WaitGroup
		for rep3 := 0; rep3 < 3; rep3++ {
			for i := range jobs {
				wg.Add(1)
				go func(i, k int) {
					defer wg.Done()
					defer func() {
						if e := recover(); e != nil {
							conc[i][k] = fmt.Sprint("panic: ", e)
						}
					}()
					conc[i][k] = jobs[i].f()
				}(i, rep3)
			}
		}
		wg.Wait()
		// a second solo pass tells history dependence (C11: result changed because of earlier calls,
		// concurrent or not) from a genuine concurrency effect (C10)
		solo2 := make([]string, len(jobs))
		for i, j := range jobs {
			solo2[i] = j.f()
		}
		for i := range jobs {
			for k := 0; k < 3; k++ {
				rep.Eval(true, []byte(fmt.Sprintf("conc %d %d %d %s", rd, i, k, solo[i])))
				if conc[i][k] != solo[i] && conc[i][k] == solo2[i] {
					rep.Add(Finding{Kind: "property", Property: "C11", Signature: "history:" + strings.SplitN(jobs[i].name, ":", 3)[0] + ":" + lossKind(jobs[i].name),
						Detail: fmt.Sprintf("%s: first call returned %q, later calls (sequential and concurrent) %q (round %d)", jobs[i].name, short(solo[i], 80), short(solo2[i], 80), rd),
						Input:  map[string]any{"op": "concurrent", "round": rd, "seed": rep.Seed, "job": jobs[i].name}})
					continue
				}
				if conc[i][k] != solo[i] {
					rep.Add(Finding{Kind: "property", Property: "C10", Signature: "concurrent:" + strings.SplitN(jobs[i].name, ":", 2)[0],
						Detail: fmt.Sprintf("%s under concurrent use returned %q, alone %q (round %d)", jobs[i].name, short(conc[i][k], 80), short(solo[i], 80), rd),
						Input:  map[string]any{"op": "concurrent", "round": rd, "seed": rep.Seed, "job": jobs[i].name}})
				}
			}
			rep.Count("concurrent:" + jobs[i].name)
		}
	}
	return nil
}

// suiteGomaxprocs: C12 — same inputs under GOMAXPROCS 1,2,3,5,8,16,32: identical bytes / pixels.
func suiteGomaxprocs(rep *Report) error {
	rep.Rule = "Encode (lossy and lossless) and Decode on inputs large enough to pass every parallel threshold (>=4 macroblock rows, >50000 / >=100000 pixels, >=16 tiles, >2 animation frames) plus small ones, under GOMAXPROCS in {1,2,3,5,8,16,32}; outputs must be byte/pixel identical to the GOMAXPROCS=1 result; non-trivial = the input crosses at least one parallel threshold"
	defer runtime.GOMAXPROCS(runtime.GOMAXPROCS(0))
	procs := []int{1, 2, 3, 5, 8, 16, 32}
	n := 14
	if rep.Tier == "thorough" {
		n = 300
	}
	sizes := [][2]int{{400, 300}, {320, 320}, {64, 64}, {600, 180}, {350, 300}, {1000, 110}, {96, 48}, {512, 256}}
	for i := 0; i < n; i++ {
		r := NewRNG(rep.Seed, uint64(i))
		sz := sizes[i%len(sizes)]
		cls, acls := r.Intn(NumImgClasses), []int{AlphaNone, AlphaGradient, AlphaBinary, AlphaNone}[r.Intn(4)]
		img := GenImage(NewRNG(rep.Seed, uint64(2000000+i)), sz[0], sz[1], cls, acls)
		o := webp.DefaultOptions()
		o.Lossless = i%2 == 1
		o.Method = []int{0, 2, 3, 4, 6}[r.Intn(5)]
		o.Quality = float32([]int{25, 50, 75, 80}[r.Intn(4)])
		if !o.Lossless {
			o.Segments = 1 + r.Intn(4)
			o.UseSharpYUV = r.Chance(1, 5)
		}
		desc := fmt.Sprintf("%s lossless=%v m=%d q=%v sharp=%v", imgDesc(sz[0], sz[1], cls, acls), o.Lossless, o.Method, o.Quality, o.UseSharpYUV)
		var ref, refPix []byte
		for _, p := range procs {
			runtime.GOMAXPROCS(p)
			b, err := encodeBytes(img, o)
			if err != nil {
				return err
			}
			if p == 1 {
				ref = b
				im, err := webp.Decode(bytes.NewReader(ref))
				if err != nil {
					return err
				}
				refPix = toNRGBA(im).Pix
				continue
			}
			if !bytes.Equal(b, ref) {
				// lossless history dependence (C11) can masquerade: re-encode at p=1 and compare again
				runtime.GOMAXPROCS(1)
				b1, _ := encodeBytes(img, o)
				cls := "encode-bytes-differ"
				if !bytes.Equal(b1, ref) {
					cls = "encode-nondeterministic-at-1cpu"
				}
				rep.Add(Finding{Kind: "property", Property: map[string]string{"encode-bytes-differ": "C12", "encode-nondeterministic-at-1cpu": "C11"}[cls],
					Signature: "gomaxprocs:" + cls + fmt.Sprintf(":lossless=%v", o.Lossless),
					Detail:    fmt.Sprintf("Encode bytes differ between GOMAXPROCS=1 (%d bytes) and %d (%d bytes): %s", len(ref), p, len(b), desc),
					Input:     map[string]any{"op": "gomaxprocs", "case": i, "seed": rep.Seed, "procs": p, "desc": desc}})
			}
			im, err := webp.Decode(bytes.NewReader(ref))
			if err != nil || !bytes.Equal(toNRGBA(im).Pix, refPix) {
				rep.Add(Finding{Kind: "property", Property: "C12", Signature: fmt.Sprintf("gomaxprocs:decode-pixels-differ:lossless=%v", o.Lossless),
					Detail: fmt.Sprintf("Decode result differs between GOMAXPROCS=1 and %d: %s (err=%v)", p, desc, err),
					Input:  map[string]any{"op": "gomaxprocs", "case": i, "seed": rep.Seed, "procs": p, "desc": desc, "hex": hx(ref)}})
			}
			rep.Eval(sz[0]*sz[1] > 50000 || (sz[1]+15)/16 >= 4, []byte(fmt.Sprintf("%s p=%d", desc, p)))
		}
		rep.Count(fmt.Sprintf("lossless=%v", o.Lossless))
		if i < 3 {
			rep.Sample(map[string]any{"case": desc, "procs": procs, "bytes": len(ref)})
		}
	}
	// animation: DecodeFramesParallel with > 2 frames
	for k := 0; k < 3; k++ {
		var buf bytes.Buffer
		w, h := 40+k*8, 32
		e := animation.NewEncoder(&buf, w, h, &animation.EncodeOptions{Lossless: k%2 == 0, Quality: 60, Kmax: 2})
		r := NewRNG(rep.Seed, uint64(3000000+k))
		for f := 0; f < 5; f++ {
			_ = e.AddFrame(GenImage(r, w, h, ClsPhoto, AlphaNone), 30*time.Millisecond)
		}
		_ = e.Close()
		var refd string
		for _, p := range procs {
			runtime.GOMAXPROCS(p)
			a, err := animation.DecodeBytes(buf.Bytes())
			if err != nil {
				return err
			}
			perr := a.DecodeFramesParallel()
			s := fmt.Sprint(perr)
			for i := range a.Frames {
				if a.Frames[i].Image != nil {
					s += digest(toNRGBA(a.Frames[i].Image).Pix)
				}
			}
			if p == 1 {
				refd = s
			} else if s != refd {
				rep.Add(Finding{Kind: "property", Property: "C12", Signature: "gomaxprocs:anim-decode-differs",
					Detail: fmt.Sprintf("DecodeFramesParallel differs between GOMAXPROCS=1 and %d", p),
					Input:  map[string]any{"op": "gomaxprocs-anim", "hex": hx(buf.Bytes()), "procs": p}})
			}
			rep.Eval(true, []byte(fmt.Sprintf("anim %d p=%d", k, p)))
		}
	}
	return nil
}

func lossKind(name string) string {
	if strings.Contains(name, "lossless=true") {
		return "lossless"
	}
	if strings.Contains(name, "lossless=false") {
		return "lossy"
	}
	return "other"
}
