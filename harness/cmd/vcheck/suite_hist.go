package main

// Suite "history" — property C11 (results do not depend on what was encoded or decoded before;
// memory already returned is never modified by later calls).
//
// The implementation is exercised through its public API only (webp.Encode / Decode /
// DecodeConfig / GetFeatures, animation.NewEncoder…Close, animation.DecodeBytes + AnimDecoder,
// mux.NewDemuxer + Muxer.Assemble).  No pool hooks: reuse is provoked by behaviour —
//   - calls that share a macroblock grid (32x32 vs 30x31) so the lossy encoder pool accepts the
//     pooled object, larger-then-smaller images (64x48 then 19x17) for the `cap()` reuse paths,
//     codec / method / quality / segment / partition / filter / SNS / alpha switches in between;
//   - the history goroutine is locked to its OS thread and the GC is off while a walk runs, so
//     sync.Pool's per-P cache keeps handing the same objects back (reuse is visible in the
//     allocation drop of repeated calls, printed as `reuse:*` buckets).
//
// Reference = the same call as the FIRST call of a FRESH process: the harness re-executes itself
// (`-suite history-child`, call list in $VERIF_HIST_CALLS, byte inputs in temp files named by
// $VERIF_HIST_INPUTS); one child per distinct call, cached.  Decode inputs are the fresh reference
// outputs of their producing encode call (optionally with a truncated image chunk).
//
// Walks (one long-lived process, so every walk is also a suffix of a much longer history):
//   quick    — all ordered triples of the 15 configurations' encodes (de Bruijn walk), and
//              per grid an Euler circuit through ALL ordered pairs of the grid's 64 calls
//              (15 configurations × the grid's two sizes: 30 encodes, their 30 decodes, 4 decodes
//              of truncated files), plus a random mixed walk with animations, header queries,
//              truncated files and remuxing; per grid an Euler circuit through all ordered pairs of
//              the serial-import configurations (hImportConfigs: RGB->YUV dithering and the image
//              types generic wrapper / NRGBA64 / Paletted, each as a picture with alpha and its
//              opaque twin) × the grid's two sizes;
//              ROW-PIPELINED lossy encoder: two more grids with >= 4 macroblock rows (32x64 / 30x63,
//              16x80 / 9x101 = one macroblock column), all ordered pairs of the 9 lossy configurations
//              (two of them flat pictures with Partitions 3 / 1) × two sizes + lossless encodes + decodes;
//              macroblock-row thresholds as (noise, flat) encode pairs and colour-count pictures;
//              decode steps on SYNTHETIC streams (gen_vp8.go frames with the conditionally present
//              header parts absent — segment data, segment map, filter deltas, probability updates,
//              skip probability — on every grid; gen_vp8l.go streams with a colour-indexing transform
//              whose indices exceed the palette), all ordered pairs with decodes of ordinary files;
//   thorough — additionally de Bruijn walks through all ordered TRIPLES of 24 configurations
//              (two size assignments), all ordered triples of the serial-import calls per grid,
//              and 20 000 random histories of length ≤ 12.
// Encode steps come in two forms: explicit options (DefaultOptions() + changes) and `enc:nil`
// (webp.Encode with nil options) — the latter in the pair walks, in the mixed walk and in a walk of
// its own through all ordered pairs of {animation encodes (lossy, lossless, mixed, one-frame),
// enc:nil, explicit encodes}: "nil means DefaultOptions()" must not depend on what ran before.
// A few pictures per run have threshold-crossing sizes (thresholds.go) with cheap content.
// After every call all images / byte slices returned earlier in the walk window are re-hashed
// (immutability).  A mismatch is shrunk by re-running candidate sub-histories in fresh child
// processes (window doubling, then one-at-a-time removal) and reported with the literal call list.

import (
	"bytes"
	"encoding/hex"
	"encoding/json"
	"fmt"
	"image"
	"image/color"
	"os"
	"os/exec"
	"path/filepath"
	"runtime"
	"runtime/debug"
	"sort"
	"strings"
	"sync"
	"time"

	webp "github.com/deepteams/webp"
	"github.com/deepteams/webp/animation"
	"github.com/deepteams/webp/mux"
)

func init() {
	suites["history"] = suiteHistory
	suites["history-child"] = suiteHistoryChild
	replayers["history"] = replayHistory
}

// ---------- calls ----------

type hAnim struct {
	Frames   int  `json:"frames"`
	Lossless bool `json:"lossless,omitempty"`
	Quality  int  `json:"quality"`
	Mixed    bool `json:"mixed,omitempty"`
	Kmax     int  `json:"kmax,omitempty"`
}

// hcall is one public-API call with literal, regenerable inputs.
type hcall struct {
	Op    string `json:"op"` // enc | dec | cfg | animenc | animdec | remux
	W     int    `json:"w,omitempty"`
	H     int    `json:"h,omitempty"`
	Cls   int    `json:"cls,omitempty"`
	Acls  int    `json:"acls,omitempty"`
	ISeed uint64 `json:"iseed,omitempty"`
	IType string `json:"itype,omitempty"` // enc: Go type of the image handed to Encode: "" = *image.NRGBA, "nrgba64", "paletted", "generic"
	Cheap int    `json:"cheap,omitempty"` // enc: 0 = GenImage(Cls, Acls); k+1 = GenCheapImage kind k (threshold-crossing sizes)
	Opts  string `json:"opts,omitempty"`  // encOpts() wire form; "nil" = Encode is called with nil options
	Anim  *hAnim `json:"anim,omitempty"`
	Src   *hcall `json:"src,omitempty"` // producer of the bytes to decode (its fresh reference output)
	Cut   int    `json:"cut,omitempty"` // dec: per-mille of the image chunk's payload kept; 0 = intact
	Tag   string `json:"tag,omitempty"` // configuration name (informational)
	// enc: Colors = n > 0: the picture is GenColorCountImage(W, H, n) (exactly n colours; colour-count thresholds)
	Colors int `json:"colors,omitempty"`
	// syn: a synthetic codec stream of the random writers gen_vp8.go / gen_vp8l.go wrapped as a simple
	// file (producer of a dec step, never an encoder call of /repo): Syn = "vp8" | "vp8l" | "vp8l-narrow",
	// drawn from NewRNG(ISeed, K); vp8: W x H = frame size, Mod = header parts forced present / absent
	// (histSynVP8)
	Syn string `json:"syn,omitempty"`
	Mod string `json:"mod,omitempty"`
	K   uint64 `json:"k,omitempty"`
}

func (c *hcall) key() string {
	b, _ := json.Marshal(c)
	return string(b)
}

func (c *hcall) codec() string {
	switch c.Op {
	case "enc":
		if o, _ := decOpts(c.Opts); o != nil && o.Lossless {
			return "lossless"
		}
		return "lossy"
	case "dec", "cfg":
		if c.Src != nil {
			if c.Src.Op == "animenc" {
				return "anim-dec"
			}
			return c.Src.codec() + "-dec"
		}
		return "dec"
	case "animenc":
		return "anim"
	case "animdec":
		return "anim-dec"
	case "syn":
		if strings.HasPrefix(c.Syn, "vp8l") {
			return "lossless"
		}
		return "lossy"
	}
	return c.Op
}

func (c *hcall) short() string {
	s := c.Op
	if c.Tag != "" {
		s += ":" + c.Tag
	}
	if c.W > 0 {
		s += fmt.Sprintf(":%dx%d", c.W, c.H)
	}
	if c.Src != nil {
		s += "(" + c.Src.short() + ")"
	}
	if c.Cut > 0 {
		s += fmt.Sprintf("cut%d", c.Cut)
	}
	return s
}

// hres is what a call returned: the canonical line, the produced bytes (encoders), and the object
// handed to the caller (kept for the immutability check).
type hres struct {
	line string
	out  []byte
	img  image.Image
	imgs []*image.NRGBA
}

func (r *hres) retainedDigest() string {
	var b strings.Builder
	if r.out != nil {
		b.WriteString(digest(r.out))
	}
	if r.img != nil {
		b.WriteString("|" + imgDigest(r.img))
	}
	for _, im := range r.imgs {
		b.WriteString("|" + imgDigest(im))
	}
	return b.String()
}

func imgDigest(im image.Image) string {
	h := uint64(14695981039346656037)
	add := func(p []byte) {
		for _, c := range p {
			h ^= uint64(c)
			h *= 1099511628211
		}
	}
	b := im.Bounds()
	kind := "other"
	switch t := im.(type) {
	case *image.YCbCr:
		kind = "ycbcr" + t.SubsampleRatio.String()
		for y := b.Min.Y; y < b.Max.Y; y++ {
			o := t.YOffset(b.Min.X, y)
			add(t.Y[o : o+b.Dx()])
		}
		cw := (b.Dx() + 1) / 2
		for y := b.Min.Y; y < b.Max.Y; y += 2 {
			o := t.COffset(b.Min.X, y)
			if o+cw <= len(t.Cb) {
				add(t.Cb[o : o+cw])
				add(t.Cr[o : o+cw])
			}
		}
	case *image.NRGBA:
		kind = "nrgba"
		for y := b.Min.Y; y < b.Max.Y; y++ {
			o := t.PixOffset(b.Min.X, y)
			add(t.Pix[o : o+4*b.Dx()])
		}
	case *image.RGBA:
		kind = "rgba"
		for y := b.Min.Y; y < b.Max.Y; y++ {
			o := t.PixOffset(b.Min.X, y)
			add(t.Pix[o : o+4*b.Dx()])
		}
	default:
		n := toNRGBA(im)
		add(n.Pix)
	}
	return fmt.Sprintf("%dx%d/%s/%d", b.Dx(), b.Dy(), kind, h)
}

// cutImageChunk keeps permille/1000 of the payload of the last VP8/VP8L chunk of a RIFF file
// and repairs the chunk and RIFF sizes, so the container parser accepts the file and the codec
// sees a truncated bitstream.
func cutImageChunk(data []byte, permille int) []byte {
	if permille <= 0 || len(data) < 20 || string(data[0:4]) != "RIFF" || string(data[8:12]) != "WEBP" {
		return data
	}
	pos, last, lastSize := 12, -1, 0
	for pos+8 <= len(data) {
		sz := int(data[pos+4]) | int(data[pos+5])<<8 | int(data[pos+6])<<16 | int(data[pos+7])<<24
		fc := string(data[pos : pos+4])
		if fc == "VP8 " || fc == "VP8L" {
			last, lastSize = pos, sz
		}
		pos += 8 + sz + sz&1
	}
	if last < 0 || last+8+lastSize > len(data) {
		return data
	}
	keep := lastSize * permille / 1000
	keep &^= 1
	if keep < 12 {
		keep = 12
	}
	if keep >= lastSize {
		return data
	}
	out := append([]byte(nil), data[:last+8+keep]...)
	// the image chunk is the last chunk we keep: everything after it is dropped
	put := func(o, v int) { out[o], out[o+1], out[o+2], out[o+3] = byte(v), byte(v>>8), byte(v>>16), byte(v>>24) }
	put(last+4, keep)
	put(4, len(out)-8)
	return out
}

// generator images are inputs only; they are built once per (size, class, seed)
var histImgCache = map[[7]uint64]*image.NRGBA{}

func histImage(c *hcall) *image.NRGBA {
	k := [7]uint64{uint64(c.W), uint64(c.H), uint64(c.Cls), uint64(c.Acls), c.ISeed, uint64(c.Cheap), uint64(c.Colors)}
	if im, ok := histImgCache[k]; ok {
		return im
	}
	var im *image.NRGBA
	if c.Colors > 0 {
		im = GenColorCountImage(NewRNG(c.ISeed, 0), c.W, c.H, c.Colors)
	} else if c.Cheap > 0 {
		im = GenCheapImage(NewRNG(c.ISeed, 0), c.W, c.H, (c.Cheap-1)%NumCheapClasses, c.Acls)
	} else {
		im = GenImage(NewRNG(c.ISeed, 0), c.W, c.H, c.Cls, c.Acls)
	}
	histImgCache[k] = im
	return im
}

// histTyped: the picture of an enc call as the Go image type named by c.IType (same pixels; a
// Paletted image uses the picture's first 256 distinct colours).  Types other than *image.NRGBA /
// *image.RGBA take the lossy encoder's serial import path.
var histTypedCache = map[string]image.Image{}

func histTyped(c *hcall) image.Image {
	src := histImage(c)
	if c.IType == "" {
		return src
	}
	k := fmt.Sprintf("%d|%d|%d|%d|%d|%s|%d|%d", c.W, c.H, c.Cls, c.Acls, c.ISeed, c.IType, c.Cheap, c.Colors)
	if im, ok := histTypedCache[k]; ok {
		return im
	}
	var im image.Image
	switch c.IType {
	case "nrgba64":
		im, _ = asTypeAt(nil, src, 4, image.Point{})
	case "paletted":
		im, _ = asTypeAt(nil, src, 3, image.Point{})
	case "generic":
		im = genericImage{src}
	default:
		return nil
	}
	histTypedCache[k] = im
	return im
}

func animFrames(c *hcall) []*image.NRGBA {
	base := GenImage(NewRNG(c.ISeed, 0), c.W, c.H, c.Cls, c.Acls)
	frames := []*image.NRGBA{base}
	r := NewRNG(c.ISeed, 77)
	for i := 1; i < c.Anim.Frames; i++ {
		f := image.NewNRGBA(base.Rect)
		copy(f.Pix, frames[i-1].Pix)
		// a moving rectangle of fresh colour, sometimes translucent
		rw, rh := 1+r.Intn(maxi(c.W/2, 1)), 1+r.Intn(maxi(c.H/2, 1))
		x0, y0 := r.Intn(c.W-rw+1), r.Intn(c.H-rh+1)
		col := color.NRGBA{byte(r.Next()), byte(r.Next()), byte(r.Next()), 255}
		if c.Acls != AlphaNone && r.Chance(1, 2) {
			col.A = byte(r.Next())
		}
		for y := y0; y < y0+rh; y++ {
			for x := x0; x < x0+rw; x++ {
				f.SetNRGBA(x, y, col)
			}
		}
		frames = append(frames, f)
	}
	return frames
}

// execCall runs one call on the real implementation.  input = the bytes to decode (dec-type ops).
func execCall(c *hcall, input []byte) *hres {
	res := &hres{}
	line, pm := guard(func() string {
		switch c.Op {
		case "enc":
			o, err := decOpts(c.Opts)
			if err != nil {
				return "bad-call"
			}
			img := histTyped(c)
			if img == nil {
				return "bad-call"
			}
			var buf bytes.Buffer
			if err := webp.Encode(&buf, img, o); err != nil {
				return "err"
			}
			res.out = buf.Bytes()
			return "ok " + digest(res.out)
		case "syn":
			b := histSynBytes(c)
			if b == nil {
				return "bad-call"
			}
			res.out = b
			return "ok " + digest(res.out)
		case "dec":
			im, err := webp.Decode(bytes.NewReader(input))
			if err != nil {
				return "err"
			}
			res.img = im
			return "ok " + imgDigest(im)
		case "cfg":
			cfg, err := webp.DecodeConfig(bytes.NewReader(input))
			if err != nil {
				return "err"
			}
			ft, err := webp.GetFeatures(bytes.NewReader(input))
			if err != nil {
				return "err-features"
			}
			return fmt.Sprintf("ok %dx%d %T %dx%d a%s n%s f%d", cfg.Width, cfg.Height, cfg.ColorModel, ft.Width, ft.Height,
				b2s(ft.HasAlpha), b2s(ft.HasAnimation), ft.FrameCount)
		case "animenc":
			var buf bytes.Buffer
			e := animation.NewEncoder(&buf, c.W, c.H, &animation.EncodeOptions{Quality: c.Anim.Quality,
				Lossless: c.Anim.Lossless, AllowMixed: c.Anim.Mixed, Kmax: c.Anim.Kmax})
			if e == nil {
				return "err-new"
			}
			for _, f := range animFrames(c) {
				if err := e.AddFrame(f, 40*time.Millisecond); err != nil {
					return "err-add"
				}
			}
			if err := e.Close(); err != nil {
				return "err-close"
			}
			res.out = buf.Bytes()
			return "ok " + digest(res.out)
		case "animdec":
			a, err := animation.DecodeBytes(input)
			if err != nil {
				return "err"
			}
			if err := a.DecodeFrames(); err != nil {
				return "err-frames"
			}
			d, err := animation.NewAnimDecoder(a)
			if err != nil {
				return "err-dec"
			}
			var ds []string
			for d.HasNext() {
				cv, _, err := d.NextFrame()
				if err != nil {
					return "err-next"
				}
				cp := image.NewNRGBA(cv.Rect)
				copy(cp.Pix, cv.Pix)
				res.imgs = append(res.imgs, cp)
				ds = append(ds, imgDigest(cv))
			}
			for _, f := range a.Frames { // the decoded frame images are returned objects too
				if n, ok := f.Image.(*image.NRGBA); ok {
					res.imgs = append(res.imgs, n)
				}
			}
			return fmt.Sprintf("ok %d %d", len(ds), fnv1a([]byte(join(ds, ","))))
		case "remux":
			d, err := mux.NewDemuxer(input)
			if err != nil {
				return "err"
			}
			m := mux.NewMuxer()
			ft := d.GetFeatures()
			m.SetCanvasSize(ft.Width, ft.Height)
			m.SetLoopCount(d.LoopCount())
			m.SetBackgroundColor(d.BackgroundColor())
			it := d.NewFrameIterator()
			for it.HasNext() {
				f, err := it.Next()
				if err != nil {
					return "err-frame"
				}
				payload := f.Data
				if len(f.AlphaData) > 0 {
					payload = append(alphChunk(f.AlphaData), f.Data...)
				}
				if err := m.AddFrame(payload, &mux.FrameOptions{Duration: f.Duration, OffsetX: f.OffsetX, OffsetY: f.OffsetY,
					BlendMode: f.BlendMode, DisposeMode: f.DisposeMode}); err != nil {
					return "err-add"
				}
			}
			var buf bytes.Buffer
			if err := m.Assemble(&buf); err != nil {
				return "err-assemble"
			}
			res.out = buf.Bytes()
			return "ok " + digest(res.out)
		}
		return "bad-call"
	})
	if line == "panic" {
		line = "panic:" + panicClass(pm)
		res.out, res.img, res.imgs = nil, nil, nil
	}
	res.line = line
	return res
}

func alphChunk(a []byte) []byte {
	n := len(a)
	b := []byte{'A', 'L', 'P', 'H', byte(n), byte(n >> 8), byte(n >> 16), byte(n >> 24)}
	b = append(b, a...)
	if n&1 == 1 {
		b = append(b, 0)
	}
	return b
}

// ---------- fresh-process references ----------

type hRef struct {
	line string
	out  []byte
	err  error
}

type histRunner struct {
	rep         *Report
	mu          sync.Mutex
	refs        map[string]*hRef
	exe         string
	tmp         string
	nproc       int
	child       int
	log         []*hcall      // every call executed in this process so far, in order (all walks)
	logOK       []bool        // … and whether it returned "ok …"
	shrinkSpent time.Duration // wall time spent shrinking mismatches (not charged to the walk budgets)
}

func newHistRunner(rep *Report) (*histRunner, error) {
	exe, err := os.Executable()
	if err != nil {
		return nil, err
	}
	tmp, err := os.MkdirTemp("", "vhist")
	if err != nil {
		return nil, err
	}
	return &histRunner{rep: rep, refs: map[string]*hRef{}, exe: exe, tmp: tmp, nproc: runtime.NumCPU()}, nil
}

func (hr *histRunner) close() { os.RemoveAll(hr.tmp) }

// input resolves the byte input of a dec-type call: the fresh reference output of its producer.
func (hr *histRunner) input(c *hcall) ([]byte, error) {
	if c.Src == nil {
		return nil, nil
	}
	if c.Src.Op == "syn" { // a pure function of the literal call: no producer process needed
		b := histSynBytes(c.Src)
		if b == nil {
			return nil, fmt.Errorf("bad synthetic-stream call %s", c.Src.key())
		}
		return cutImageChunk(b, c.Cut), nil
	}
	r := hr.ref(c.Src)
	if r.err != nil {
		return nil, r.err
	}
	if r.out == nil {
		return nil, fmt.Errorf("producer %s has no output (%s)", c.Src.short(), r.line)
	}
	return cutImageChunk(r.out, c.Cut), nil
}

// runChild executes the calls, in order, in one fresh process; returns one line per call and the
// output bytes of the last call.
func (hr *histRunner) runChild(calls []*hcall) ([]string, []byte, error) {
	return hr.runChildRegime(calls, "pinned")
}

func (hr *histRunner) runChildRegime(calls []*hcall, regime string) ([]string, []byte, error) {
	js, _ := json.Marshal(calls)
	var paths []string
	hr.mu.Lock()
	hr.child++
	id := hr.child
	hr.mu.Unlock()
	for i, c := range calls {
		in, err := hr.input(c)
		if err != nil {
			return nil, nil, err
		}
		if in == nil {
			paths = append(paths, "-")
			continue
		}
		p := fmt.Sprintf("%s/in_%d_%d", hr.tmp, id, i)
		if err := os.WriteFile(p, in, 0o600); err != nil {
			return nil, nil, err
		}
		defer os.Remove(p)
		paths = append(paths, p)
	}
	cmd := exec.Command(hr.exe, "-suite", "history-child")
	cmd.Env = append(os.Environ(), "VERIF_HIST_CALLS="+string(js), "VERIF_HIST_INPUTS="+strings.Join(paths, "\n"),
		"VERIF_HIST_REGIME="+regime)
	var ob, eb bytes.Buffer
	cmd.Stdout, cmd.Stderr = &ob, &eb
	if err := cmd.Run(); err != nil {
		return nil, nil, fmt.Errorf("history-child: %v: %s", err, short(eb.String(), 400))
	}
	lines := make([]string, len(calls))
	var out []byte
	got := 0
	for _, ln := range strings.Split(ob.String(), "\n") {
		if strings.HasPrefix(ln, "HIST ") {
			var i int
			var rest string
			p := strings.SplitN(ln[5:], " ", 2)
			fmt.Sscanf(p[0], "%d", &i)
			if len(p) == 2 {
				rest = p[1]
			}
			if i >= 0 && i < len(lines) {
				lines[i] = rest
				got++
			}
		} else if strings.HasPrefix(ln, "HISTOUT ") {
			out = unhx(strings.TrimSpace(ln[8:]))
		}
	}
	if got != len(calls) {
		return nil, nil, fmt.Errorf("history-child: %d of %d result lines (stderr: %s)", got, len(calls), short(eb.String(), 400))
	}
	return lines, out, nil
}

// ref returns the result of the call as the first call of a fresh process (cached).
func (hr *histRunner) ref(c *hcall) *hRef {
	k := c.key()
	hr.mu.Lock()
	r, ok := hr.refs[k]
	hr.mu.Unlock()
	if ok {
		return r
	}
	lines, out, err := hr.runChild([]*hcall{c})
	r = &hRef{err: err}
	if err == nil {
		r.line, r.out = lines[0], out
	}
	hr.mu.Lock()
	hr.refs[k] = r
	hr.mu.Unlock()
	hr.rep.Count("reference-children")
	return r
}

// prefetch computes the references of the calls in parallel, producers first.
func (hr *histRunner) prefetch(calls []*hcall) error {
	var level0, level1 []*hcall
	seen := map[string]bool{}
	var add func(c *hcall)
	add = func(c *hcall) {
		if c.Op == "syn" {
			return
		}
		if c.Src != nil {
			add(c.Src)
		}
		if seen[c.key()] {
			return
		}
		seen[c.key()] = true
		if c.Src == nil || c.Src.Op == "syn" {
			level0 = append(level0, c)
		} else {
			level1 = append(level1, c)
		}
	}
	for _, c := range calls {
		add(c)
	}
	// level1 may contain chains (remux of animenc…): order by depth
	depth := func(c *hcall) int {
		d := 0
		for x := c; x.Src != nil; x = x.Src {
			d++
		}
		return d
	}
	sort.SliceStable(level1, func(i, j int) bool { return depth(level1[i]) < depth(level1[j]) })
	run := func(batch []*hcall) error {
		sem := make(chan struct{}, hr.nproc)
		var wg sync.WaitGroup
		var first error
		var emu sync.Mutex
		for _, c := range batch {
			wg.Add(1)
			sem <- struct{}{}
			go func(c *hcall) {
				defer wg.Done()
				defer func() { <-sem }()
				if r := hr.ref(c); r.err != nil {
					emu.Lock()
					if first == nil {
						first = r.err
					}
					emu.Unlock()
				}
			}(c)
		}
		wg.Wait()
		return first
	}
	if err := run(level0); err != nil {
		return err
	}
	for d := 1; d <= 3; d++ {
		var b []*hcall
		for _, c := range level1 {
			if depth(c) == d {
				b = append(b, c)
			}
		}
		if err := run(b); err != nil {
			return err
		}
	}
	return nil
}

// suiteHistoryChild: execute $VERIF_HIST_CALLS in this (fresh) process.
func suiteHistoryChild(rep *Report) error {
	var calls []*hcall
	if err := json.Unmarshal([]byte(os.Getenv("VERIF_HIST_CALLS")), &calls); err != nil {
		return fmt.Errorf("history-child: bad VERIF_HIST_CALLS: %v", err)
	}
	paths := strings.Split(os.Getenv("VERIF_HIST_INPUTS"), "\n")
	// default regime = the walks': one OS thread, no collection — sync.Pool then hands the objects
	// of earlier calls straight back.  "free": ordinary scheduling and GC (goroutines started by
	// the codec may then share a P with the caller, which some reuse paths need).
	if os.Getenv("VERIF_HIST_REGIME") != "free" {
		runtime.LockOSThread()
		debug.SetGCPercent(-1)
	}
	var last *hres
	for i, c := range calls {
		var in []byte
		if i < len(paths) && paths[i] != "-" && paths[i] != "" {
			b, err := os.ReadFile(paths[i])
			if err != nil {
				return err
			}
			in = b
		}
		last = execCall(c, in)
		fmt.Printf("HIST %d %s\n", i, last.line)
	}
	if last != nil && last.out != nil {
		fmt.Printf("HISTOUT %s\n", hex.EncodeToString(last.out))
	}
	return nil
}

// ---------- configurations ----------

type hConfig struct {
	tag   string
	opts  func() *webp.EncoderOptions
	cls   int
	acls  int
	itype string // "" = *image.NRGBA
}

func hOpt(f func(o *webp.EncoderOptions)) func() *webp.EncoderOptions {
	return func() *webp.EncoderOptions { o := webp.DefaultOptions(); f(o); return o }
}

// the first hNQuick = 15 are the quick tier's; all 25 the thorough tier's
var hConfigs = []hConfig{
	{"ly-default", hOpt(func(o *webp.EncoderOptions) {}), ClsPhoto, AlphaNone, ""},
	{"ly-q50m0s1", hOpt(func(o *webp.EncoderOptions) { o.Quality, o.Method, o.Segments = 50, 0, 1 }), ClsNoise, AlphaNone, ""},
	{"ly-q90m6-alpha", hOpt(func(o *webp.EncoderOptions) { o.Quality, o.Method = 90, 6 }), ClsPhoto, AlphaGradient, ""},
	{"ly-q75m4p3-flat", hOpt(func(o *webp.EncoderOptions) { o.Partitions = 3 }), ClsFlat, AlphaNone, ""},
	{"ly-q95m2-sns100-f0", hOpt(func(o *webp.EncoderOptions) {
		o.Quality, o.Method, o.SNSStrength, o.FilterStrength, o.FilterType = 95, 2, 100, 0, 0
	}), ClsPhoto, AlphaNone, ""},
	{"ly-q50m4s2-pass3-dither", hOpt(func(o *webp.EncoderOptions) { o.Quality, o.Segments, o.Pass, o.Preprocessing = 50, 2, 3, 3 }), ClsGradient, AlphaNone, ""},
	{"ly-q75m4-alphaq50", hOpt(func(o *webp.EncoderOptions) { o.AlphaQuality, o.AlphaFiltering = 50, 2 }), ClsPhoto, AlphaBinary, ""},
	{"ll-q75m4", hOpt(func(o *webp.EncoderOptions) { o.Lossless = true }), ClsPhoto, AlphaNone, ""},
	{"ll-q90m0-alpha", hOpt(func(o *webp.EncoderOptions) { o.Lossless, o.Quality, o.Method = true, 90, 0 }), ClsPhoto, AlphaGradient, ""},
	{"ll-q100m6-pal16", hOpt(func(o *webp.EncoderOptions) { o.Lossless, o.Quality, o.Method = true, 100, 6 }), ClsPal16, AlphaBinary, ""},
	{"ll-q50m2-noise", hOpt(func(o *webp.EncoderOptions) { o.Lossless, o.Quality, o.Method = true, 50, 2 }), ClsNoise, AlphaNone, ""},
	{"ll-q95m4", hOpt(func(o *webp.EncoderOptions) { o.Lossless, o.Quality = true, 95 }), ClsPhoto, AlphaNone, ""},
	{"ly-q75m4-sharp-p1", hOpt(func(o *webp.EncoderOptions) { o.UseSharpYUV, o.Partitions = true, 1 }), ClsPhoto, AlphaNone, ""},
	{"ll-q90m4-exact-few", hOpt(func(o *webp.EncoderOptions) { o.Lossless, o.Quality, o.Exact = true, 90, true }), ClsGradient, AlphaFewLevels, ""},
	{"ly-q30m3p1-flat", hOpt(func(o *webp.EncoderOptions) { o.Quality, o.Method, o.Partitions = 30, 3, 1 }), ClsFlat, AlphaNone, ""},
	// thorough only
	{"ly-q100m6", hOpt(func(o *webp.EncoderOptions) { o.Quality, o.Method = 100, 6 }), ClsNoise, AlphaNone, ""},
	{"ly-q75m3-s3-sharp7", hOpt(func(o *webp.EncoderOptions) { o.Method, o.Segments, o.FilterSharpness = 3, 3, 7 }), ClsPhoto, AlphaNone, ""},
	{"ly-q50m5-target", hOpt(func(o *webp.EncoderOptions) { o.Quality, o.Method, o.TargetSize = 50, 5, 600 }), ClsPhoto, AlphaNone, ""},
	{"ly-q75m4-psnr", hOpt(func(o *webp.EncoderOptions) { o.TargetPSNR = 38 }), ClsGradient, AlphaNone, ""},
	{"ly-q90m4p2-alpha-raw", hOpt(func(o *webp.EncoderOptions) { o.Quality, o.Partitions, o.AlphaCompression = 90, 2, 0 }), ClsPal16, AlphaNoise, ""},
	{"ly-q75m1-qmin-qmax", hOpt(func(o *webp.EncoderOptions) { o.Method, o.QMin, o.QMax = 1, 20, 60 }), ClsPhoto, AlphaSemiFlat, ""},
	{"ll-q76m3-pal256", hOpt(func(o *webp.EncoderOptions) { o.Lossless, o.Quality, o.Method = true, 76, 3 }), ClsPal256, AlphaNone, ""},
	{"ll-q100m5-pal4-alpha", hOpt(func(o *webp.EncoderOptions) { o.Lossless, o.Quality, o.Method = true, 100, 5 }), ClsPal4, AlphaFewLevels, ""},
	{"ll-q25m1", hOpt(func(o *webp.EncoderOptions) { o.Lossless, o.Quality, o.Method = true, 25, 1 }), ClsPhoto, AlphaNoise, ""},
	{"ll-q89m6-flat", hOpt(func(o *webp.EncoderOptions) { o.Lossless, o.Quality, o.Method = true, 89, 6 }), ClsFlat, AlphaGradient, ""},
}

// hImportConfigs: lossy encodes that take the SERIAL import path (RGB->YUV dithering, i.e.
// Preprocessing&2, or an image type other than *image.NRGBA / *image.RGBA), every one in two
// versions — a picture with alpha and its opaque twin — so that, walked over all ordered pairs on
// one macroblock grid, a pooled encoder sees "alpha, then opaque" (and the reverse) on that path.
var hImportConfigs = []hConfig{
	{"ly-dither-alpha", hOpt(func(o *webp.EncoderOptions) { o.Preprocessing = 2 }), ClsPhoto, AlphaGradient, ""},
	{"ly-dither-opaque", hOpt(func(o *webp.EncoderOptions) { o.Preprocessing = 2 }), ClsPhoto, AlphaNone, ""},
	{"ly-generic-alpha", hOpt(func(o *webp.EncoderOptions) {}), ClsPhoto, AlphaNoise, "generic"},
	{"ly-generic-opaque", hOpt(func(o *webp.EncoderOptions) {}), ClsPhoto, AlphaNone, "generic"},
	{"ly-nrgba64-alpha", hOpt(func(o *webp.EncoderOptions) { o.Quality, o.Method = 90, 2 }), ClsNoise, AlphaGradient, "nrgba64"},
	{"ly-nrgba64-opaque", hOpt(func(o *webp.EncoderOptions) { o.Quality, o.Method = 90, 2 }), ClsNoise, AlphaNone, "nrgba64"},
	{"ly-paletted-alpha", hOpt(func(o *webp.EncoderOptions) { o.Quality = 60 }), ClsPal16, AlphaFewLevels, "paletted"},
	{"ly-paletted-opaque", hOpt(func(o *webp.EncoderOptions) { o.Quality = 60 }), ClsPal16, AlphaNone, "paletted"},
	{"ly-dither3-generic-alpha", hOpt(func(o *webp.EncoderOptions) { o.Preprocessing, o.Method = 3, 5 }), ClsGradient, AlphaSemiFlat, "generic"},
	{"ly-dither3-generic-opaque", hOpt(func(o *webp.EncoderOptions) { o.Preprocessing, o.Method = 3, 5 }), ClsGradient, AlphaNone, "generic"},
}

// grids: two sizes each — equal macroblock count, larger-then-smaller, different shape
var hGrids = [][2][2]int{
	{{32, 32}, {30, 31}},
	{{64, 48}, {19, 17}},
	{{48, 16}, {17, 33}},
}

// hRowGrids: grids with >= 4 macroblock rows — the lossy encoder takes its ROW-PIPELINED path there
// (useParallel: mbH >= 4 && Method >= 3; thresholds.go "4 mbrows"): equal macroblock grid 2x4, and a
// single macroblock column with 5 / 7 rows.  Quick tier: a pair walk over the lossy configurations
// (hRowConfigIdx) per grid; thorough tier: the full pair walk of section A as well.
var hRowGrids = [][2][2]int{
	{{32, 64}, {30, 63}},
	{{16, 80}, {9, 101}},
}

const hNQuick = 15

// the lossy configurations of the quick tier (textured, flat, alpha, partitions 0 / 1 / 3, methods 0..6)
var hRowConfigIdx = []int{0, 1, 2, 3, 4, 5, 6, 12, 14}

func (cf *hConfig) enc(seed uint64, w, h int) *hcall {
	return &hcall{Op: "enc", W: w, H: h, Cls: cf.cls, Acls: cf.acls, ISeed: seed*1000 + uint64(w*64+h), IType: cf.itype, Opts: encOpts(cf.opts()), Tag: cf.tag}
}

// hEncNil: webp.Encode(w, picture, nil) — must behave like DefaultOptions() whatever ran before.
func hEncNil(seed uint64, w, h, cls, acls int) *hcall {
	return &hcall{Op: "enc", W: w, H: h, Cls: cls, Acls: acls, ISeed: seed*1000 + uint64(w*64+h), Opts: "nil", Tag: "nil"}
}

// hThresholdEncs: k encode calls on threshold-crossing sizes (thresholds.go) with cheap content,
// alternating nil options / lossless / explicit lossy; recorded in the distribution.
func hThresholdEncs(rep *Report, k int) []*hcall {
	tcs := DrawThresholdCases(rep.Seed, 0x1157, k, ThresholdFilter{Units: []string{"width", "height", "pixels", "mbrows"}, MinValue: 200, MaxPixels: 70000})
	var out []*hcall
	for i, tc := range tcs {
		r := NewRNG(rep.Seed, uint64(5600+i))
		c := &hcall{Op: "enc", W: tc.W, H: tc.H, Cheap: 1 + r.Intn(NumCheapClasses), Acls: []int{AlphaNone, AlphaGradient, AlphaNone, AlphaBinary}[r.Intn(4)],
			ISeed: rep.Seed*1000 + 5600 + uint64(i), Tag: "threshold-" + tc.String()}
		switch i % 3 {
		case 0:
			c.Opts = "nil"
		case 1:
			c.Opts = encOpts(hOpt(func(o *webp.EncoderOptions) { o.Lossless, o.Quality, o.Method = true, 40, 2 })())
		default:
			c.Opts = encOpts(hOpt(func(o *webp.EncoderOptions) { o.Quality, o.Method, o.Partitions = 60, 3, 1 })())
		}
		out = append(out, c)
		CountThreshold(rep, tc)
	}
	return out
}

// hThresholdPairs: the count-type thresholds of the history suite.
//   - k macroblock-row thresholds (3 / 4 / 6 rows: segment-map smoothing, serial vs ROW-PIPELINED lossy
//     encoder, worker count) each as a (noise, flat-or-sparse) PAIR of lossy encodes with equal options
//     (Method >= 3, Partitions 1 or 3) on one size: the second picture reuses the pooled encoder of the
//     first and has next to no tokens of its own;
//   - nc colour-count pictures (GenColorCountImage around 2 / 4 / 16 / 192 / 256 colours), lossless.
func hThresholdPairs(rep *Report, k, nc int) (pairs [][2]*hcall, colours []*hcall) {
	tcs := DrawThresholdCases(rep.Seed, 0x1159, k, ThresholdFilter{Units: []string{"mbrows"}})
	for i, tc := range tcs {
		o := hOpt(func(o *webp.EncoderOptions) { o.Quality, o.Method, o.Partitions = 60, 3, 1 })()
		if i%2 == 1 {
			o = hOpt(func(o *webp.EncoderOptions) { o.Quality, o.Method, o.Partitions = 75, 4, 3 })()
		}
		noise := &hcall{Op: "enc", W: tc.W, H: tc.H, Cls: ClsNoise, Acls: AlphaNone, ISeed: rep.Seed*1000 + 5700 + uint64(i), Opts: encOpts(o),
			Tag: "threshold-" + tc.String() + "-noise"}
		flat := &hcall{Op: "enc", W: tc.W, H: tc.H, Cheap: 1 + []int{CheapFlat, CheapSparse}[(int(rep.Seed)+i)%2], Acls: AlphaNone,
			ISeed: rep.Seed*1000 + 5750 + uint64(i), Opts: encOpts(o), Tag: "threshold-" + tc.String() + "-flat"}
		pairs = append(pairs, [2]*hcall{noise, flat})
		CountThreshold(rep, tc)
	}
	for i, cc := range DrawCountCases(rep.Seed, 0x1158, nc, "colors", 2, 300) {
		o := hOpt(func(o *webp.EncoderOptions) { o.Lossless, o.Quality, o.Method = true, 90, 6 })()
		if i%2 == 1 {
			o = hOpt(func(o *webp.EncoderOptions) { o.Lossless, o.Quality, o.Method = true, 40, 2 })()
		}
		colours = append(colours, &hcall{Op: "enc", W: 40, H: 30, Colors: cc.N, ISeed: rep.Seed*1000 + 5800 + uint64(i), Opts: encOpts(o),
			Tag: "threshold-" + cc.String()})
		CountCount(rep, cc)
	}
	return pairs, colours
}

// ---------- synthetic streams (decode steps on files this library's encoder never writes) ----------

// hSynVP8Mods: which conditionally present parts of the VP8 frame header are forced present / absent:
//
//	seg1 / seg0   segmentation enabled (fresh random segment header and map) / disabled
//	data0         update_segment_feature_data = 0: NO segment quantiser / filter-strength data
//	map0          update_mb_segmentation_map = 0: no tree probabilities, no per-macroblock ids
//	lfupd0        loop_filter_adj_enable = 1 with mode_ref_lf_delta_update = 0: no filter deltas
//	upd0          no coefficient-probability update
//	skip0         mb_no_coeff_skip = 0: no skip probability, no per-macroblock skip flag
//
// A decoder object that served an ordinary file before (4 segments with data, deltas, updates, skip
// probability) must treat every absent part as the format's default, not as "keep what I have".
var hSynVP8Mods = []string{"seg1,data0", "seg1,data0,map0,lfupd0,upd0,skip0", "seg1,map0,skip0", "seg0,lfupd0,upd0"}

var (
	histSynMu    sync.Mutex
	histSynCache = map[string][]byte{}
)

// histSynBytes: the file a syn call stands for — a pure function of the call.
func histSynBytes(c *hcall) []byte {
	k := c.key()
	histSynMu.Lock()
	b, ok := histSynCache[k]
	histSynMu.Unlock()
	if ok {
		return b
	}
	switch c.Syn {
	case "vp8":
		if p := histSynVP8(c); p != nil {
			b = riff(chunk("VP8 ", p.Emit()))
		}
	case "vp8l":
		pl, _ := SynVP8L(NewRNG(c.ISeed, c.K))
		b = riff(chunk("VP8L", pl))
	case "vp8l-narrow":
		pl, _ := SynVP8LNarrow(NewRNG(c.ISeed, c.K))
		b = riff(chunk("VP8L", pl))
	}
	histSynMu.Lock()
	histSynCache[k] = b
	histSynMu.Unlock()
	return b
}

// histSynVP8: a plan of the random VP8 writer (gen_vp8.go, SynVP8Plan drawn from NewRNG(ISeed, K)) put on
// the frame size W x H (the macroblock plans are independent of each other: they are repeated
// cyclically to fill the grid), version 0, no scaling bits, no partition padding, with the header parts
// named in Mod forced.
func histSynVP8(c *hcall) *vp8Plan {
	if c.W < 1 || c.H < 1 || c.W > 4096 || c.H > 4096 {
		return nil
	}
	p := SynVP8Plan(NewRNG(c.ISeed, c.K), "quick")
	r := NewRNG(c.ISeed, c.K^0x5151_0000_0000)
	src := p.mbs
	p.w, p.h = c.W, c.H
	p.mbs = make([]vp8MBPlan, p.mbW()*p.mbH())
	for i := range p.mbs {
		p.mbs[i] = src[i%len(src)]
	}
	p.version, p.xs, p.ys, p.padPart, p.colorSpace = 0, 0, 0, -1, false
	for _, m := range strings.Split(c.Mod, ",") {
		switch m {
		case "":
		case "seg1":
			p.segEnabled, p.segMap, p.segData, p.segAbs = true, true, true, r.Bool()
			for i := 0; i < 4; i++ {
				p.segQPresent[i], p.segLPresent[i] = r.Chance(5, 6), r.Chance(5, 6)
				if p.segAbs {
					p.segQ[i], p.segL[i] = r.Intn(128), r.Intn(64)
				} else {
					p.segQ[i], p.segL[i] = r.Intn(41)-20, r.Intn(41)-20
				}
			}
			for i := 0; i < 3; i++ {
				p.segProbPresent[i], p.segProb[i] = r.Chance(3, 4), r.Intn(256)
			}
			for i := range p.mbs {
				p.mbs[i].segment = r.Intn(4)
			}
		case "seg0":
			p.segEnabled = false
		case "data0":
			p.segData = false
		case "map0":
			p.segMap = false
		case "lfupd0":
			p.lfDelta, p.lfUpdate = true, false
		case "upd0":
			p.probUpd = map[int]int{}
		case "skip0":
			p.skipEnabled = false
			for i := range p.mbs {
				p.mbs[i].skip = false
			}
		default:
			return nil
		}
	}
	return p
}

// histSynVP8Coded: per-mille of the plan's macroblocks that carry at least one non-zero coefficient
// (a stale quantiser shows only on those).
func histSynVP8Coded(p *vp8Plan) int {
	n := 0
	for i := range p.mbs {
		m := &p.mbs[i]
		if m.skip {
			continue
		}
		nz := false
		for _, t := range m.tokens {
			for _, v := range t {
				if v != 0 {
					nz = true
				}
			}
		}
		if nz {
			n++
		}
	}
	return n * 1000 / maxi(len(p.mbs), 1)
}

// hSynVP8Dec: a dec step on a synthetic VP8 frame of size w x h with the header parts of mod; the
// writer's draw index K is the first (from salt*64) whose plan has coefficients in at least half of
// its macroblocks and a non-zero filter level.
func hSynVP8Dec(seed uint64, w, h int, mod string, salt uint64) *hcall {
	src := &hcall{Op: "syn", Syn: "vp8", W: w, H: h, Mod: mod, ISeed: seed*1000 + 880, Tag: "synvp8:" + mod}
	for k := uint64(0); k < 64; k++ {
		src.K = 0x5100_0000 + salt*64 + k
		if p := histSynVP8(src); p != nil && histSynVP8Coded(p) >= 500 && p.level > 0 {
			break
		}
	}
	return &hcall{Op: "dec", Src: src}
}

// hSynVP8LDecs: n dec steps on streams of the random VP8L writer (gen_vp8l.go; two of three from
// SynVP8L, every third from SynVP8LNarrow) that contain a colour-indexing transform ("ci" in the
// writer's description) and no deliberate defect.  Their pixel data is drawn without regard to the
// palette size, so indices beyond the palette arise by themselves.
func hSynVP8LDecs(seed uint64, n int) []*hcall {
	var out []*hcall
	k := uint64(0x5200_0000)
	for len(out) < n && k < 0x5200_0000+4000 {
		kind := "vp8l"
		if len(out)%3 == 2 {
			kind = "vp8l-narrow"
		}
		var d string
		if kind == "vp8l" {
			_, d = SynVP8L(NewRNG(seed*1000+881, k))
		} else {
			_, d = SynVP8LNarrow(NewRNG(seed*1000+881, k))
		}
		if strings.Contains(d, "ci") && !strings.Contains(d, "defect=") {
			out = append(out, &hcall{Op: "dec", Src: &hcall{Op: "syn", Syn: kind, ISeed: seed*1000 + 881, K: k, Tag: "syn" + kind + ":" + strings.SplitN(d, " ", 2)[0]}})
		}
		k++
	}
	return out
}

// hAnimCalls: the animation encodes of the walks.  Frames == 1 goes through the one-frame still
// path of Close (SimpleEncodeFunc), the others through the per-frame hook (FrameEncoderFunc).
func hAnimCalls(seed uint64) []*hcall {
	var out []*hcall
	for ai, a := range []hAnim{{Frames: 3, Quality: 75}, {Frames: 4, Lossless: true, Quality: 90}, {Frames: 3, Quality: 60, Mixed: true, Kmax: 2},
		{Frames: 1, Quality: 30}, {Frames: 1, Lossless: true, Quality: 75}, {Frames: 2, Quality: 10}} {
		a := a
		acls := AlphaNone
		if ai > 0 && ai < 3 {
			acls = AlphaBinary
		}
		out = append(out, &hcall{Op: "animenc", W: 32, H: 30, Cls: ClsPhoto, Acls: acls, ISeed: seed*1000 + 900 + uint64(ai), Anim: &a, Tag: fmt.Sprintf("anim%d", ai)})
	}
	return out
}

// ---------- walks ----------

// eulerPairs returns a sequence over 0..n-1 in which every ordered pair (i,j), i≠j or i=j,
// occurs as two consecutive elements (an Euler circuit of the complete digraph with loops).
func eulerPairs(n int) []int {
	if n == 0 {
		return nil
	}
	next := make([]int, n) // next unused out-edge of each vertex
	var stack, circuit []int
	stack = append(stack, 0)
	for len(stack) > 0 {
		v := stack[len(stack)-1]
		if next[v] < n {
			u := (v + 1 + next[v]) % n // visit the loop (u = v) last
			next[v]++
			stack = append(stack, u)
		} else {
			circuit = append(circuit, v)
			stack = stack[:len(stack)-1]
		}
	}
	for i, j := 0, len(circuit)-1; i < j; i, j = i+1, j-1 {
		circuit[i], circuit[j] = circuit[j], circuit[i]
	}
	return circuit
}

// deBruijn3 returns a cyclic sequence over 0..k-1 containing every ordered triple once
// (standard Lyndon-word construction), unrolled by two elements.
func deBruijn3(k int) []int {
	const n = 3
	a := make([]int, k*n)
	var seq []int
	var db func(t, p int)
	db = func(t, p int) {
		if t > n {
			if n%p == 0 {
				seq = append(seq, a[1:p+1]...)
			}
			return
		}
		a[t] = a[t-p]
		db(t+1, p)
		for j := a[t-p] + 1; j < k; j++ {
			a[t] = j
			db(t+1, t)
		}
	}
	db(1, 1)
	return append(seq, seq[0], seq[1])
}

type hWalk struct {
	hr      *histRunner
	name    string
	seq     []*hcall
	window  []*hres // results returned during this walk (bounded), for the immutability check
	wdigest []string
	wcall   []*hcall
	first   map[string]uint64 // bytes allocated by the first in-process occurrence of a call
	sigDone map[string]int
	t0      time.Time
	budget  time.Duration
	shrink0 time.Duration
}

const hWindow = 12 // how many earlier results are re-hashed after each call

func (hr *histRunner) walk(name string, seq []*hcall, budget time.Duration, sigDone map[string]int) (done int) {
	w := &hWalk{hr: hr, name: name, seq: seq, first: map[string]uint64{}, sigDone: sigDone, t0: time.Now(), budget: budget, shrink0: hr.shrinkSpent}
	runtime.LockOSThread()
	defer runtime.UnlockOSThread()
	old := debug.SetGCPercent(-1)
	defer debug.SetGCPercent(old)
	var ms runtime.MemStats
	for i, c := range seq {
		if budget > 0 && time.Since(w.t0)-(hr.shrinkSpent-w.shrink0) > budget {
			hr.rep.Notes = append(hr.rep.Notes, fmt.Sprintf("walk %s stopped by its time budget after %d of %d calls", name, i, len(seq)))
			break
		}
		if i%256 == 255 { // bounded memory: one collection every 256 calls (victim cache keeps the pools warm)
			runtime.GC()
		}
		ref := hr.ref(c)
		if ref.err != nil {
			hr.rep.Notes = append(hr.rep.Notes, "reference failed: "+ref.err.Error())
			continue
		}
		in, _ := hr.input(c)
		runtime.ReadMemStats(&ms)
		a0 := ms.TotalAlloc
		res := execCall(c, in)
		runtime.ReadMemStats(&ms)
		alloc := ms.TotalAlloc - a0
		hr.log = append(hr.log, c)
		hr.logOK = append(hr.logOK, strings.HasPrefix(res.line, "ok"))
		done++
		k := c.key()
		if f, ok := w.first[k]; !ok {
			w.first[k] = alloc
		} else if f > 0 {
			switch {
			case alloc*2 < f:
				hr.rep.Count("reuse:" + c.Op + ":alloc<50%-of-first-occurrence")
			default:
				hr.rep.Count("reuse:" + c.Op + ":alloc>=50%-of-first-occurrence")
			}
		}
		hr.rep.Eval(true, []byte(name+"|"+k+"|"+prevKey(seq, i)))
		hr.rep.Count("call:" + c.codec())
		hr.rep.Count("result:" + strings.SplitN(res.line, " ", 2)[0])
		if res.line != ref.line {
			w.mismatch(len(hr.log)-1, res, ref)
		}
		// immutability of everything returned earlier in the window
		for j := range w.window {
			if d := w.window[j].retainedDigest(); d != w.wdigest[j] {
				sig := "history:immutable:" + w.wcall[j].codec()
				if w.sigDone[sig] < 3 {
					w.sigDone[sig]++
					hr.rep.Add(Finding{Kind: "property", Property: "C11", Signature: sig,
						Detail: fmt.Sprintf("walk %s: the object returned by %s changed (%s -> %s) during the later call %s",
							name, w.wcall[j].short(), short(w.wdigest[j], 60), short(d, 60), c.short()),
						Input: map[string]any{"op": "history", "calls": []*hcall{w.wcall[j], c}, "check": "immutable"}})
				}
				w.wdigest[j] = d
			}
		}
		if res.out != nil || res.img != nil || len(res.imgs) > 0 {
			w.window = append(w.window, res)
			w.wdigest = append(w.wdigest, res.retainedDigest())
			w.wcall = append(w.wcall, c)
			if len(w.window) > hWindow {
				w.window, w.wdigest, w.wcall = w.window[1:], w.wdigest[1:], w.wcall[1:]
			}
		}
	}
	hr.rep.Extra["walk_s:"+name] = (time.Since(w.t0) - (hr.shrinkSpent - w.shrink0)).Seconds()
	return done
}

// the two predecessors: the context that makes an evaluation distinct
func prevKey(seq []*hcall, i int) string {
	k := "-"
	if i >= 1 {
		k = seq[i-1].key()
	}
	if i >= 2 {
		k += "|" + seq[i-2].key()
	}
	return k
}

func histClass(last *hcall, hist []*hcall, lines []string) string {
	codec := last.codec()
	cls := "other"
	switch last.Op {
	case "enc":
		o, _ := decOpts(last.Opts)
		switch {
		case o == nil:
			if last.Opts == "nil" {
				cls = "nil-options"
			}
		case o.Lossless && o.Quality > 75:
			cls = "q>75"
		case o.Lossless:
			cls = "q<=75"
		case o.Partitions > 0:
			cls = "partitions"
		case last.Acls != AlphaNone:
			cls = "alpha"
		case last.IType != "" || o.Preprocessing&2 != 0:
			cls = "serial-import"
		}
	case "dec", "animdec", "cfg":
		if last.Src != nil && last.Src.Op == "syn" {
			cls = "synthetic-stream"
		}
		for i, h := range hist {
			if (h.Op == "dec" || h.Op == "animdec") && i < len(lines) && !strings.HasPrefix(lines[i], "ok") {
				cls = "after-error"
			}
		}
	case "animenc":
		if last.Anim.Lossless || last.Anim.Mixed {
			cls = "lossless-frames"
		} else {
			cls = "lossy-frames"
		}
	}
	return "history:" + codec + ":" + cls
}

// mismatch: call i of the walk returned something else than its fresh reference.  Shrink in fresh
// child processes, classify, report.
func (w *hWalk) mismatch(i int, res *hres, ref *hRef) {
	hr := w.hr
	seq := hr.log // position i is the failing call; everything before it ran in this process
	last := seq[i]
	hr.rep.Count("mismatch")
	pre := histClass(last, nil, nil)
	hr.rep.Count("mismatch:" + pre)
	limit := 45 * time.Second
	if hr.rep.Tier == "thorough" {
		limit = 5 * time.Minute
	}
	if w.sigDone[pre+"#attempts"] >= 3 || hr.shrinkSpent > limit {
		return // enough shrunk examples of this class; do not spend more child processes
	}
	w.sigDone[pre+"#attempts"]++
	tShrink := time.Now()
	defer func() { hr.shrinkSpent += time.Since(tShrink) }()
	reproduces := func(h []*hcall) (bool, []string) {
		for _, regime := range []string{"pinned", "free"} {
			lines, _, err := hr.runChildRegime(append(append([]*hcall(nil), h...), last), regime)
			if err == nil && lines[len(lines)-1] != ref.line {
				return true, lines
			}
		}
		return false, nil
	}
	var hist []*hcall
	var lines []string
	found := false
	for win := 1; ; win *= 2 {
		lo := i - win
		if lo < 0 {
			lo = 0
		}
		if ok, ls := reproduces(seq[lo:i]); ok {
			hist, lines, found = append([]*hcall(nil), seq[lo:i]...), ls, true
			break
		}
		if lo == 0 || win >= 256 {
			break
		}
	}
	if !found && i > 256 {
		// a pooled object can sit unused for a long time: suspect every earlier call that did not
		// return ok (distinct ones, most recent 32), followed by the last 8 calls
		var sus []*hcall
		seen := map[string]bool{}
		for j := i - 1; j >= 0 && len(sus) < 32; j-- {
			if !hr.logOK[j] && !seen[seq[j].key()] {
				seen[seq[j].key()] = true
				sus = append([]*hcall{seq[j]}, sus...)
			}
		}
		cand := append(append([]*hcall(nil), sus...), seq[i-8:i]...)
		if ok, ls := reproduces(cand); ok {
			hist, lines, found = cand, ls, true
		}
		for j := len(sus) - 1; j >= 0 && !found; j-- { // … or one suspect alone
			if ok, ls := reproduces(sus[j : j+1]); ok {
				hist, lines, found = []*hcall{sus[j]}, ls, true
			}
		}
	}
	if !found && hr.rep.Tier == "thorough" && i > 256 && i <= 20000 {
		if ok, ls := reproduces(seq[:i]); ok { // the whole life of the process
			hist, lines, found = append([]*hcall(nil), seq[:i]...), ls, true
		}
	}
	if !found {
		// is the fresh result itself unstable?
		l2, _, e2 := hr.runChild([]*hcall{last})
		l3, _, e3 := hr.runChild([]*hcall{last})
		sig := "history:" + last.codec() + ":unreproduced"
		detail := fmt.Sprintf("walk %s, call %d of the process (%s): got %s, fresh %s; not reproduced by replaying up to 256 preceding calls in a fresh process", w.name, i, last.short(), res.line, ref.line)
		if e2 == nil && e3 == nil && (l2[0] != ref.line || l3[0] != ref.line) {
			sig = "history:" + last.codec() + ":nondeterministic-fresh"
			detail = fmt.Sprintf("the same first call of a fresh process gives different results: %s / %s / %s (%s)", ref.line, l2[0], l3[0], last.short())
		}
		lo := i - 16
		if lo < 0 {
			lo = 0
		}
		hr.rep.Add(Finding{Kind: "property", Property: "C11", Signature: sig, Detail: detail,
			Input: map[string]any{"op": "history", "calls": append(append([]*hcall(nil), seq[lo:i]...), last), "check": "last"}})
		return
	}
	// delta debugging: drop chunks (halves, quarters, …), then single calls, while the mismatch persists
	for chunk := len(hist) / 2; chunk >= 1; chunk /= 2 {
		for j := 0; j+chunk <= len(hist); {
			cand := append(append([]*hcall(nil), hist[:j]...), hist[j+chunk:]...)
			if ok, ls := reproduces(cand); ok {
				hist, lines = cand, ls
			} else {
				j += chunk
			}
		}
	}
	for changed := true; changed && len(hist) > 0; {
		changed = false
		for j := 0; j < len(hist); j++ {
			cand := append(append([]*hcall(nil), hist[:j]...), hist[j+1:]...)
			if ok, ls := reproduces(cand); ok {
				hist, lines, changed = cand, ls, true
				j--
			}
		}
	}
	sig := histClass(last, hist, lines)
	var names []string
	for _, h := range hist {
		names = append(names, h.short())
	}
	hr.rep.Add(Finding{Kind: "property", Property: "C11", Signature: sig,
		Detail: fmt.Sprintf("after [%s] the call %s returns %s; as the first call of a fresh process it returns %s (walk %s, call %d of the process; shrunk to %d preceding calls, replayed in a fresh process)",
			join(names, ", "), last.short(), lines[len(lines)-1], ref.line, w.name, i, len(hist)),
		Input: map[string]any{"op": "history", "calls": append(append([]*hcall(nil), hist...), last), "check": "last",
			"fresh": ref.line, "observed": lines[len(lines)-1]}})
}

// ---------- the suite ----------

func histDecCalls(encs []*hcall) []*hcall {
	var out []*hcall
	for _, e := range encs {
		out = append(out, &hcall{Op: "dec", Src: e})
	}
	return out
}

func suiteHistory(rep *Report) error {
	hr, err := newHistRunner(rep)
	if err != nil {
		return err
	}
	defer hr.close()
	thorough := rep.Tier == "thorough"
	nq := hNQuick
	sigDone := map[string]int{}
	t0 := time.Now()

	// 0. corpus first: shrunk histories of past findings, each replayed in its own fresh process
	if err := hr.runCorpus(); err != nil {
		return err
	}

	// A. per grid: an Euler circuit through ALL ordered pairs of the grid's calls —
	//    14 configurations × 2 sizes encodes, their 28 decodes, and 4 decodes of truncated files
	pairGrids := append([][2][2]int{}, hGrids...)
	if thorough {
		pairGrids = append(pairGrids, hRowGrids...)
	}
	for gi, g := range pairGrids {
		var calls []*hcall
		for ci := 0; ci < nq; ci++ {
			for _, sz := range g {
				calls = append(calls, hConfigs[ci].enc(rep.Seed, sz[0], sz[1]))
			}
		}
		calls = append(calls, histDecCalls(calls)...)
		calls = append(calls, hEncNil(rep.Seed, g[0][0], g[0][1], ClsPhoto, AlphaNone), hEncNil(rep.Seed, g[1][0], g[1][1], ClsPhoto, AlphaGradient))
		for k, ci := range []int{0, 2, 3, 6} { // lossy, lossy+alpha, partitions, alpha-quality: image chunk cut short
			calls = append(calls, &hcall{Op: "dec", Src: calls[2*ci+k%2], Cut: []int{300, 900, 600, 950}[k]})
		}
		if err := hr.prefetch(calls); err != nil {
			return err
		}
		idx := eulerPairs(len(calls))
		seq := make([]*hcall, len(idx))
		for i, k := range idx {
			seq[i] = calls[k]
		}
		budget := 13 * time.Second
		if thorough {
			budget = 0
		}
		rep.CountN("walk:pairs", hr.walk(fmt.Sprintf("pairs-grid%d", gi), seq, budget, sigDone))
		rep.CountN("pairs-covered", len(calls)*len(calls))
	}

	// A2. the ROW-PIPELINED lossy encoder (>= 4 macroblock rows and Method >= 3): per grid of hRowGrids an
	//     Euler circuit through ALL ordered pairs of {the 9 lossy quick configurations (textured / flat,
	//     Partitions 0 / 1 / 3, Methods 0..6, alpha) x the grid's two sizes, 2 lossless encodes, the
	//     decodes of three of the lossy configurations' files per size}: every flat picture follows
	//     every textured one on the pooled encoder of its macroblock grid, and decoded pictures whose
	//     width is a multiple of 16 are followed by decodes on an equal or smaller grid
	for gi, g := range hRowGrids {
		var calls []*hcall
		for _, ci := range hRowConfigIdx {
			for _, sz := range g {
				calls = append(calls, hConfigs[ci].enc(rep.Seed, sz[0], sz[1]))
			}
		}
		decs := histDecCalls(calls[:6])
		calls = append(calls, hConfigs[7].enc(rep.Seed, g[0][0], g[0][1]), hConfigs[9].enc(rep.Seed, g[1][0], g[1][1]))
		calls = append(calls, decs...)
		if err := hr.prefetch(calls); err != nil {
			return err
		}
		idx := eulerPairs(len(calls))
		seq := make([]*hcall, len(idx))
		for i, k := range idx {
			seq[i] = calls[k]
		}
		budget := 12 * time.Second
		if thorough {
			budget = 0
		}
		rep.CountN("walk:rowpipe-pairs", hr.walk(fmt.Sprintf("rowpipe-pairs-grid%d", gi), seq, budget, sigDone))
		rep.CountN("rowpipe-pairs-covered", len(calls)*len(calls))
		rep.Count(fmt.Sprintf("grid:%dx%d+%dx%d:mbrows>=4", g[0][0], g[0][1], g[1][0], g[1][1]))
	}

	// A3. threshold pairs: macroblock-row thresholds as (noise, flat) pairs of lossy encodes with
	//     Partitions > 0, and colour-count pictures — all ordered pairs
	thrPairs, thrColours := hThresholdPairs(rep, 2, 2)
	{
		var calls []*hcall
		for _, pr := range thrPairs {
			calls = append(calls, pr[0], pr[1])
		}
		calls = append(calls, thrColours...)
		if err := hr.prefetch(calls); err != nil {
			return err
		}
		idx := eulerPairs(len(calls))
		seq := make([]*hcall, len(idx))
		for i, k := range idx {
			seq[i] = calls[k]
		}
		budget := 6 * time.Second
		if thorough {
			budget = 0
		}
		rep.CountN("walk:threshold-pairs", hr.walk("threshold-pairs", seq, budget, sigDone))
	}

	// A4. decode steps on SYNTHETIC streams.  (a) per grid (hGrids and hRowGrids): all ordered pairs of
	//     {decodes of five ordinary lossy files (4 segments, 1 segment, 2 segments, no filter, alpha) x
	//     the grid's two sizes, decodes of synthetic VP8 frames of the same two sizes with every
	//     conditionally present header part absent in turn (hSynVP8Mods)}; (b) all ordered pairs of
	//     {10 synthetic VP8L streams with a colour-indexing transform, decodes of larger noisy /
	//     palette / photo lossless files}.  Oracle as everywhere: the result (planes digest or error
	//     class) equals that of the same decode as the first call of a fresh process.
	synGrids := append(append([][2][2]int{}, hGrids...), hRowGrids...)
	for gi, g := range synGrids {
		var calls []*hcall
		for _, ci := range []int{0, 1, 5, 4, 2} {
			for _, sz := range g {
				calls = append(calls, &hcall{Op: "dec", Src: hConfigs[ci].enc(rep.Seed, sz[0], sz[1])})
			}
		}
		for si, sz := range g {
			for mi, mod := range hSynVP8Mods {
				calls = append(calls, hSynVP8Dec(rep.Seed, sz[0], sz[1], mod, uint64(gi*16+si*8+mi)))
				rep.Count("syn-vp8:" + mod)
			}
		}
		if err := hr.prefetch(calls); err != nil {
			return err
		}
		idx := eulerPairs(len(calls))
		seq := make([]*hcall, len(idx))
		for i, k := range idx {
			seq[i] = calls[k]
		}
		budget := 5 * time.Second
		if thorough {
			budget = 0
		}
		rep.CountN("walk:syn-dec", hr.walk(fmt.Sprintf("syn-vp8-dec-grid%d", gi), seq, budget, sigDone))
	}
	{
		calls := hSynVP8LDecs(rep.Seed, 10)
		rep.CountN("syn-vp8l:colour-indexing", len(calls))
		for _, e := range []*hcall{hConfigs[10].enc(rep.Seed, 64, 48), hConfigs[10].enc(rep.Seed, 32, 64), hConfigs[10].enc(rep.Seed, 30, 31),
			hConfigs[9].enc(rep.Seed, 64, 48), hConfigs[7].enc(rep.Seed, 32, 32)} {
			calls = append(calls, &hcall{Op: "dec", Src: e})
		}
		if err := hr.prefetch(calls); err != nil {
			return err
		}
		idx := eulerPairs(len(calls))
		seq := make([]*hcall, len(idx))
		for i, k := range idx {
			seq[i] = calls[k]
		}
		budget := 5 * time.Second
		if thorough {
			budget = 0
		}
		rep.CountN("walk:syn-dec", hr.walk("syn-vp8l-dec", seq, budget, sigDone))
	}

	// B. mixed walk: encodes, decodes, truncated files, header queries, animations, remux — random order
	thrEncs := hThresholdEncs(rep, 3)
	thrEncs = append(thrEncs, thrColours...)
	{
		var pool []*hcall
		r := NewRNG(rep.Seed, 5000)
		for ci := 0; ci < nq; ci++ {
			sz := hGrids[ci%3][ci%2]
			e := hConfigs[ci].enc(rep.Seed, sz[0], sz[1])
			pool = append(pool, e, &hcall{Op: "dec", Src: e}, &hcall{Op: "cfg", Src: e})
			if ci%2 == 0 {
				pool = append(pool, &hcall{Op: "dec", Src: e, Cut: 300 + 50*ci}, &hcall{Op: "dec", Src: e, Cut: 900})
			}
		}
		for _, e := range hAnimCalls(rep.Seed) {
			pool = append(pool, e, &hcall{Op: "animdec", Src: e}, &hcall{Op: "remux", Src: e}, &hcall{Op: "cfg", Src: e})
		}
		// Encode with nil options (between animations and explicit encodes), and threshold-crossing sizes
		for k := 0; k < 3; k++ {
			sz := hGrids[k][k%2]
			nilEnc := hEncNil(rep.Seed, sz[0], sz[1], []int{ClsPhoto, ClsNoise, ClsPal16}[k], []int{AlphaNone, AlphaGradient, AlphaBinary}[k])
			pool = append(pool, nilEnc, nilEnc) // drawn twice as often
		}
		pool = append(pool, thrEncs...)
		for _, pr := range thrPairs {
			pool = append(pool, pr[0], pr[1])
		}
		pool = append(pool, hSynVP8Dec(rep.Seed, 32, 32, hSynVP8Mods[1], 900), hSynVP8Dec(rep.Seed, 19, 17, hSynVP8Mods[0], 901))
		pool = append(pool, hSynVP8LDecs(rep.Seed, 2)...)
		if err := hr.prefetch(pool); err != nil {
			return err
		}
		n := 2500
		if thorough {
			n = 20000
		}
		seq := make([]*hcall, n)
		for i := range seq {
			seq[i] = pool[r.Intn(len(pool))]
		}
		budget := 8 * time.Second
		if thorough {
			budget = 0
		}
		rep.CountN("walk:mixed", hr.walk("mixed", seq, budget, sigDone))
	}

	// B2. nil options after animations: an Euler circuit through ALL ordered pairs of
	//     {6 animation encodes (lossy q75 / lossless / mixed / one frame lossy / one frame lossless /
	//     lossy q10), 3 Encode calls with nil options, 2 with explicit options, 2 threshold-size encodes}
	{
		calls := hAnimCalls(rep.Seed)
		calls = append(calls, hEncNil(rep.Seed, 32, 32, ClsPhoto, AlphaNone), hEncNil(rep.Seed, 30, 31, ClsPhoto, AlphaGradient), hEncNil(rep.Seed, 19, 17, ClsNoise, AlphaNone),
			hConfigs[0].enc(rep.Seed, 32, 32), hConfigs[8].enc(rep.Seed, 30, 31))
		calls = append(calls, thrEncs[:mini(2, len(thrEncs))]...)
		if err := hr.prefetch(calls); err != nil {
			return err
		}
		idx := eulerPairs(len(calls))
		if thorough {
			idx = append(idx, deBruijn3(len(calls))...)
		}
		seq := make([]*hcall, len(idx))
		for i, k := range idx {
			seq[i] = calls[k]
		}
		budget := 5 * time.Second
		if thorough {
			budget = 0
		}
		rep.CountN("walk:nil-after-anim", hr.walk("nil-after-anim", seq, budget, sigDone))
		rep.CountN("nil-after-anim-pairs-covered", len(calls)*len(calls))
	}

	// B'. serial import path: per grid an Euler circuit through ALL ordered pairs of the
	//     alpha/opaque twins (dithering, generic wrapper, NRGBA64, Paletted) × the grid's two sizes;
	//     thorough: additionally all ordered triples
	for gi, g := range hGrids {
		var calls []*hcall
		for ci := range hImportConfigs {
			for _, sz := range g {
				calls = append(calls, hImportConfigs[ci].enc(rep.Seed, sz[0], sz[1]))
			}
		}
		if err := hr.prefetch(calls); err != nil {
			return err
		}
		idx := eulerPairs(len(calls))
		if thorough {
			idx = append(idx, deBruijn3(len(calls))...)
		}
		seq := make([]*hcall, len(idx))
		for i, k := range idx {
			seq[i] = calls[k]
		}
		budget := 4 * time.Second
		if thorough {
			budget = 0
		}
		rep.CountN("walk:import-pairs", hr.walk(fmt.Sprintf("import-pairs-grid%d", gi), seq, budget, sigDone))
		rep.CountN("import-pairs-covered", len(calls)*len(calls))
		for _, c := range calls {
			t := c.IType
			if t == "" {
				t = "nrgba+dither"
			}
			rep.Count("import-type:" + t)
		}
	}

	if !thorough {
		// C'. all ordered triples of the 14 quick configurations (sizes of grid 0, alternating)
		var calls []*hcall
		for ci := 0; ci < nq; ci++ {
			sz := hGrids[0][ci%2]
			calls = append(calls, hConfigs[ci].enc(rep.Seed, sz[0], sz[1]))
		}
		if err := hr.prefetch(calls); err != nil {
			return err
		}
		idx := deBruijn3(len(calls))
		seq := make([]*hcall, len(idx))
		for i, k := range idx {
			seq[i] = calls[k]
		}
		rep.CountN("walk:triples", hr.walk("triples-quick", seq, 12*time.Second, sigDone))
	}

	if thorough {
		// C. all ordered triples of 24 configurations, two size assignments
		for pass := 0; pass < 2; pass++ {
			var calls []*hcall
			for ci := range hConfigs {
				sz := hGrids[pass][ci%2]
				calls = append(calls, hConfigs[ci].enc(rep.Seed, sz[0], sz[1]))
			}
			if err := hr.prefetch(calls); err != nil {
				return err
			}
			idx := deBruijn3(len(calls))
			seq := make([]*hcall, len(idx))
			for i, k := range idx {
				seq[i] = calls[k]
			}
			rep.CountN("walk:triples", hr.walk(fmt.Sprintf("triples-pass%d", pass), seq, 0, sigDone))
		}
		// D. 20 000 random histories of length ≤ 12 over the whole catalogue
		var pool []*hcall
		for ci := range hConfigs {
			for gi, g := range hGrids {
				e := hConfigs[ci].enc(rep.Seed, g[ci%2][0], g[ci%2][1])
				pool = append(pool, e)
				if (ci+gi)%2 == 0 {
					pool = append(pool, &hcall{Op: "dec", Src: e})
				}
				if (ci+gi)%5 == 0 {
					pool = append(pool, &hcall{Op: "dec", Src: e, Cut: 500})
				}
			}
		}
		pool = append(pool, hAnimCalls(rep.Seed)...)
		for gi, g := range hGrids {
			pool = append(pool, hEncNil(rep.Seed, g[gi%2][0], g[gi%2][1], ClsPhoto, []int{AlphaNone, AlphaGradient, AlphaBinary}[gi]))
		}
		if err := hr.prefetch(pool); err != nil {
			return err
		}
		r := NewRNG(rep.Seed, 7000)
		var seq []*hcall
		nh := 0
		for ; nh < 20000; nh++ {
			l := 1 + r.Intn(12)
			for j := 0; j < l; j++ {
				seq = append(seq, pool[r.Intn(len(pool))])
			}
			if len(seq) >= 4096 {
				rep.CountN("walk:random", hr.walk("random", seq, 0, sigDone))
				seq = seq[:0]
				if time.Since(t0) > 13*time.Minute {
					rep.Notes = append(rep.Notes, fmt.Sprintf("random histories stopped by the time budget after %d of 20000", nh+1))
					break
				}
			}
		}
		if len(seq) > 0 {
			rep.CountN("walk:random", hr.walk("random", seq, 0, sigDone))
		}
		rep.CountN("random-histories", nh)
	}

	rep.Rule = "calls are webp.Encode (25 option sets over quality/method/segments/partitions/SNS/filter/alpha/sharp/target, lossy and lossless, two of them flat pictures with Partitions 3 / Partitions 1 Method 3 Quality 30, and Encode with NIL options - in the pair walks, the mixed walk and a walk through all ordered pairs of {6 animation encodes incl. one-frame and lossless ones, 3 nil-option encodes, 2 explicit ones, 2 threshold-size encodes}) on generator images (plus per run 3 pictures on threshold-crossing sizes of thresholds.go with cheap content, 2 macroblock-row thresholds (3 / 4 / 6 rows) as (noise, flat-or-sparse) PAIRS of lossy encodes with Partitions 1 / 3 and Method 3 / 4, and 2 colour-count pictures (GenColorCountImage around 2 / 4 / 16 / 192 / 256 colours, lossless): buckets threshold:*) of sizes sharing a macroblock grid, larger-then-smaller and of different shape (grids 32x32/30x31, 64x48/19x17, 48x16/17x33 and, for the row-pipelined lossy encoder = at least 4 macroblock rows and Method >= 3, 32x64/30x63 and 16x80/9x101), webp.Decode/DecodeConfig/GetFeatures of the fresh outputs (intact and with a truncated image chunk), animation encode/decode and remux; lossy encodes on the serial import path (RGB->YUV dithering; image types generic wrapper, NRGBA64, Paletted) as alpha/opaque twins, all ordered pairs per macroblock grid; decode steps on SYNTHETIC streams wrapped as simple files: per grid 8 VP8 frames of the random writer gen_vp8.go on the grid's two sizes with the conditionally present header parts forced absent (segmentation on without segment data / without map / filter deltas enabled without update / no probability updates / no skip probability) in all ordered pairs with decodes of five ordinary lossy files of the same sizes, and 10 VP8L streams of gen_vp8l.go with a colour-indexing transform (indices beyond the palette occur) in all ordered pairs with decodes of larger noisy / palette / photo lossless files; every call of every walk (all ordered pairs per grid; thorough: all ordered triples and 20000 random histories ≤ 12) is compared with the same call run first in a fresh process (encodes: output bytes; decodes: plane digest or error class), and the last 12 results returned earlier (decoded pictures, among them widths that are multiples of 16 followed by decodes on an equal or smaller macroblock grid) are re-hashed after every call. Distinct = distinct (walk, call, two predecessors) contexts."
	rep.Sample(map[string]any{"walk": "pairs-enc-grid0", "first_calls": []string{hConfigs[0].enc(rep.Seed, 32, 32).short(), hConfigs[1].enc(rep.Seed, 30, 31).short()}})
	rep.Extra["reference_processes"] = hr.child
	rep.Extra["shrink_s"] = hr.shrinkSpent.Seconds()
	return nil
}

// corpus files: <CorpusDir>/history/*.json = {"what": …, "signature": …, "check": "last", "calls": [ … ]}
type hCorpusCase struct {
	What      string   `json:"what"`
	Signature string   `json:"signature"`
	Check     string   `json:"check"`
	Calls     []*hcall `json:"calls"`
}

func (hr *histRunner) runCorpus() error {
	files, _ := filepath.Glob(filepath.Join(CorpusDir, "history", "*.json"))
	sort.Strings(files)
	for _, f := range files {
		b, err := os.ReadFile(f)
		if err != nil {
			return err
		}
		var cc hCorpusCase
		if err := json.Unmarshal(b, &cc); err != nil || len(cc.Calls) == 0 {
			return fmt.Errorf("corpus file %s: bad history (%v)", f, err)
		}
		if err := hr.prefetch(cc.Calls); err != nil {
			return err
		}
		hr.rep.Count("corpus-histories")
		for _, regime := range []string{"pinned", "free"} {
			lines, _, err := hr.runChildRegime(cc.Calls, regime)
			if err != nil {
				return err
			}
			flagged := false
			for i, c := range cc.Calls {
				hr.rep.Eval(true, []byte("corpus|"+filepath.Base(f)+"|"+c.key()))
				ref := hr.ref(c)
				if ref.err != nil {
					return ref.err
				}
				if lines[i] != ref.line && (cc.Check != "last" || i == len(cc.Calls)-1) {
					sig := cc.Signature
					if sig == "" {
						sig = histClass(c, cc.Calls[:i], lines)
					}
					hr.rep.Add(Finding{Kind: "property", Property: "C11", Signature: sig,
						Detail: fmt.Sprintf("corpus history %s (%s): call %d %s returns %s after the preceding calls, %s as the first call of a fresh process",
							filepath.Base(f), cc.What, i, c.short(), lines[i], ref.line),
						Input: map[string]any{"op": "history", "calls": cc.Calls[:i+1], "check": "last", "fresh": ref.line, "observed": lines[i]}})
					flagged = true
				}
			}
			if flagged {
				break
			}
		}
	}
	return nil
}

// replayHistory re-executes a reported call list in this (fresh) process and compares every
// result with the single-call fresh references.
func replayHistory(in map[string]any) int {
	raw, _ := json.Marshal(in["calls"])
	var calls []*hcall
	if err := json.Unmarshal(raw, &calls); err != nil || len(calls) == 0 {
		fmt.Fprintln(os.Stderr, "history replay: bad call list")
		return 2
	}
	check, _ := in["check"].(string)
	rep := NewReport("history-replay", "quick", 1)
	hr, err := newHistRunner(rep)
	if err != nil {
		fmt.Fprintln(os.Stderr, err)
		return 2
	}
	defer hr.close()
	if err := hr.prefetch(calls); err != nil {
		fmt.Fprintln(os.Stderr, "history replay:", err)
		return 2
	}
	runtime.LockOSThread()
	old := debug.SetGCPercent(-1)
	defer debug.SetGCPercent(old)
	bad := 0
	var kept []*hres
	var keptD []string
	for i, c := range calls {
		in, _ := hr.input(c)
		res := execCall(c, in)
		ref := hr.ref(c)
		mark := "=="
		if res.line != ref.line {
			mark = "!="
			if check != "immutable" && (check != "last" || i == len(calls)-1) {
				bad++
			}
		}
		fmt.Printf("call %d %-40s here: %s %s fresh: %s\n", i, c.short(), res.line, mark, ref.line)
		for j := range kept {
			if d := kept[j].retainedDigest(); d != keptD[j] {
				fmt.Printf("  object returned by call %d was modified by call %d\n", j, i)
				keptD[j] = d
				bad++
			}
		}
		kept = append(kept, res)
		keptD = append(keptD, res.retainedDigest())
	}
	if bad == 0 && check != "immutable" {
		// which pooled object a call gets is up to the runtime: a few more attempts in fresh child
		// processes, alternating ordinary scheduling/GC ("free") with the pinned regime
		for attempt := 0; attempt < 4 && bad == 0; attempt++ {
			regime := []string{"free", "pinned"}[attempt%2]
			lines, _, err := hr.runChildRegime(calls, regime)
			if err != nil {
				continue
			}
			for i, c := range calls {
				if lines[i] != hr.ref(c).line && (check != "last" || i == len(calls)-1) {
					fmt.Printf("call %d %-40s %s child: %s != fresh: %s\n", i, c.short(), regime, lines[i], hr.ref(c).line)
					bad++
				}
			}
		}
	}
	if bad > 0 {
		return 1
	}
	return 0
}
