package main

import (
	"fmt"
	"image"
	"sort"
)

// Numeric size / length thresholds of the code under test, and generators that cross them.
//
// Lesson of the round-3 seeded changes: four of five misses were a literal threshold inside the
// code (a 1024-pixel zero page, a 2048-entry stack array, the 100000-pixel parallel threshold times
// the worker count, the 32-bit refill window) that no size generator crossed, because the suites'
// size lists were chosen for speed. This file is the curated list of the thresholds that occur in
// /repo (grep of literal comparisons / fixed-size arrays / constants on widths, heights, pixel
// counts, byte lengths, token and macroblock counts), plus the power-of-two row-buffer sizes a
// fast path is likely to introduce. Every size generator of the suites draws a few cases per run
// from SizesAround(t) = {t-1, t, t+1} with a tiny other dimension and cheap content (flat /
// gradient / sparse), and records `threshold:<value><unit>` in its distribution.

// Threshold is one numeric boundary. Unit: width | height | side (either axis) | pixels | mbs
// (macroblocks) | mbrows | bytes | tokens | colors | frames | tiles | symbols.
type Threshold struct {
	Value int
	Unit  string
	Site  string // where it lives in /repo ("generic" = plausible buffer size, not a literal of the current code)
	What  string // what switches
}

// Thresholds is the curated list (kept sorted by unit, value by init()).
var Thresholds = []Threshold{
	// ---- row widths: stack / scratch / page buffers ----
	{8, "side", "encode.go blockSize (cleanupTransparentAreaLossy); dsp upsample n8/n4 kernels", "full 8x8 blocks vs edge remainder; AVX2 8-px / SSE2 4-px loops vs scalar tail"},
	{16, "side", "internal/lossy macroblock; lossless/decode.go numArgbCacheRows", "one macroblock / one cache-row batch"},
	{64, "side", "internal/lossless/encode_near.go minDimForNearLossless", "near-lossless skipped below 64x64"},
	{256, "width", "generic (pool.Size256B; 1 KiB NRGBA row)", "256-entry row scratch"},
	{512, "width", "lossless tile size 1<<9 (maxTransformBits / maxHuffmanBits); lossy tmpAn* [512]byte", "largest transform / histogram tile; 512-byte scratch"},
	{1024, "width", "generic: 4096-byte NRGBA row page (pool.Size4K); bitio writers round to 1 KiB", "1024-pixel row page (round-3 C09_4 zeroPage, C05_4 halved scratch)"},
	{2048, "width", "internal/dsp/upsample_direct_amd64.go maxStackWidth, uvCount = 2*width <= 4096", "stack vs heap packed-UV scratch of the fancy upsampler when a line PAIR is converted"},
	{4096, "width", "internal/dsp/upsample_direct_amd64.go [maxStackWidth*2]uint32, uvCount = width <= 4096", "stack vs heap scratch when a single line is converted (first / last row); 16 KiB NRGBA row"},
	{8192, "width", "generic (encode_huffman.go newCap 8192)", "8192-entry row buffers"},
	{16383, "width", "encode.go MaxDimension; lossless.Encode literal 16383; animation.maxCanvasDimension", "largest legal dimension (14-bit field)"},
	{16383, "height", "encode.go MaxDimension; lossless.Encode literal 16383; animation.maxCanvasDimension", "largest legal dimension (14-bit field)"},
	{16384, "side", "VP8LImageSizeBits 14; dsp/yuv.go 16384-entry clip tables; pool.Size16K", "first illegal VP8/VP8L dimension"},
	{1 << 24, "side", "internal/container MaxCanvasSize, MaxPositionOff; mux.SetCanvasSize", "VP8X 24-bit canvas / offset fields"},
	// ---- heights / rows ----
	{3, "side", "internal/lossy/alpha.go filter statistics loops (w<=3 or h<=3 give empty stats); encode_near.go height < 3; webp.go upsample height==1 / pair loop / even last row", "degenerate row/column counts"},
	{1024, "height", "generic", "row-count tables"},
	{2048, "height", "generic", "row-count tables"},
	{4096, "height", "generic", "row-count tables"},
	// ---- pixel counts ----
	{100000, "pixels", "internal/lossless/decode_transform.go minPixelsForParallel; decode.go argbToNRGBA rowsPerWorker = height/numWorkers", "serial vs row-parallel inverse cross-colour and ARGB->NRGBA conversion"},
	{50000, "pixels", "internal/lossless/hashchain.go size > 50000", "serial vs parallel hash-chain second pass"},
	{1000, "pixels", "internal/lossless/hashchain.go numWorkers = size/1000", "positions per hash-chain worker"},
	{4095, "pixels", "internal/lossless/hashchain.go maxLength; encode_backward.go costCache [maxLength]", "longest match / run the encoder emits; cost cache size min(pixels, 4095)"},
	{65536, "pixels", "internal/lossless/decode.go huffSlabSize 1<<16; encode_histogram fastSLog2LUTSize; pool.Size64K", "slab / LUT sizes"},
	{1 << 14, "pixels", "pool.Size16K", "16 K-entry pooled buffers"},
	{1 << 15, "pixels", "VP8L distance prefix 30/31", "14 distance extra bits"},
	{1 << 17, "pixels", "VP8L distance prefix 34/35", "16 distance extra bits"},
	{1 << 18, "pixels", "internal/lossless/hashchain.go hashSize 1<<18; pool.Size256K", "hash table size; 17 distance extra bits"},
	{1 << 20, "pixels", "internal/lossless/hashchain.go windowSize (1<<20)-120; pool.Size1M", "largest backward distance"},
	{1 << 28, "bytes", "internal/lossy/decode.go totalRows*16*cacheYStride > 1<<28", "lossy frame too large"},
	{1 << 30, "pixels", "container.MaxImageArea; animation.maxCanvasArea; lossless/decode.go; lossy/alpha.go; webp.go totalSize; sharpyuv", "largest accepted area"},
	// ---- tiles / histograms / groups ----
	{16, "tiles", "internal/lossless/encode_predictor.go numTiles >= 16", "serial vs parallel predictor / cross-colour mode selection"},
	{64, "tiles", "internal/lossless/encode_histogram.go n >= 64", "serial vs parallel histogram remap"},
	{100, "tiles", "internal/lossless/encode_histogram.go maxHistoGreedy / minClusterSize", "greedy vs stochastic combine"},
	{128, "tiles", "internal/lossless/encode_histogram.go entropyCombineNumBins*2", "entropy-bin combine"},
	{256, "tiles", "internal/lossless/encode_histogram.go n < 256; histoSize > 256", "serial vs parallel histogram cost; combine factor"},
	{512, "tiles", "internal/lossless/encode_histogram.go histoSize > 512", "combine factor"},
	{1024, "tiles", "internal/lossless/encode_histogram.go histoSize > 1024", "combine factor"},
	{1000, "tiles", "internal/lossless/decode_image.go numHTreeGroupsMax > 1000", "meta prefix-code group remapping"},
	{2600, "tiles", "internal/lossless/encode.go maxHuffImageSize", "histogram bits raised until the entropy image has at most 2600 tiles"},
	// ---- macroblocks ----
	{3, "mbrows", "internal/lossy/encode_analysis.go w < 3 || h < 3 (mb units)", "segment-map smoothing skipped"},
	{4, "mbrows", "internal/lossy/encode.go useParallel mbH >= 4 && Method >= 3", "serial vs row-pipelined lossy encoder"},
	{6, "mbrows", "internal/lossy/encode_parallel.go numWorkers cap 6 / > mbH", "worker count of the row pipeline"},
	{510, "mbs", "internal/lossy segment map (round-2 C06_1)", "segment-map statistics"},
	{768, "mbs", "internal/lossy/encode_frame.go minRefreshCount 96 = totalMB>>3", "probability refresh interval"},
	{2048, "mbs", "generic (dsp.VP8LevelFixedCosts [2048])", "per-macroblock tables"},
	// ---- byte lengths ----
	{8, "bytes", "bitio/reader_lossless.go initial preload; reader_bool.go pos+8 <= len", "bulk load vs final bytes"},
	{1024, "bytes", "internal/bitio/writer_bool.go, writer_lossless.go expectedSize < 1024, 1 KiB rounding", "initial writer capacity / growth"},
	{4096, "bytes", "generic / pool.Size4K", "4 KiB pages"},
	{65536, "bytes", "internal/lossy token partitions (round-2 C04_2); pool.Size64K", "third byte of the 24-bit partition size"},
	{1 << 19, "bytes", "internal/lossy/encode_syntax.go maxPartition0Size", "19-bit first-partition size field"},
	{1 << 24, "bytes", "internal/lossy/encode_syntax.go maxPartitionSize", "24-bit token-partition size field (D10)"},
	{100 << 20, "bytes", "encode.go maxEncoderMetadataSize; mux.maxMetadataSize; container.MaxMetadataSize", "metadata blob cap"},
	{256 << 20, "bytes", "webp.go MaxInputSize; animation.maxInputSize; container.MaxReadChunkSize", "input cap"},
	// ---- tokens / symbols / colours / frames ----
	{32768, "tokens", "internal/lossy/encode_token.go tokenPageSize", "token page straddle"},
	{500, "tokens", "internal/lossless/encode_backward.go costCacheIntervalSizeMax", "cost-interval manager"},
	{4096, "pixels-copy", "VP8L length prefix 22/23", "longest backward-reference length of the format (10 length extra bits)"},
	{256, "pixels-copy", "internal/lossless/hashchain.go lengthMax > 256", "chain walk stops at a 256-pixel match"},
	{256, "colors", "internal/lossless MaxPaletteSize", "palette vs no palette"},
	{16, "colors", "internal/lossless colour-index packing; lossy/alpha.go kMinColorsForFilterNone", "2 pixels per byte vs none"},
	{4, "colors", "internal/lossless colour-index packing", "4 pixels per byte"},
	{2, "colors", "internal/lossless colour-index packing", "8 pixels per byte"},
	{192, "colors", "internal/lossy/alpha.go kMaxColorsForFilterNone", "alpha filter choice"},
	{2, "frames", "animation.go len(toDecodeIdx) <= 2", "serial vs parallel frame decoding"},
	{30, "frames", "animation.go maxCachedFrames", "kmin raised"},
	{10000, "frames", "mux.maxFrames, container.MaxFrames", "frame-count cap"},
	{1000, "chunks", "container.MaxChunks", "chunk-count cap"},
	{15, "codebits", "internal/lossless MaxAllowedCodeLength", "longest prefix-code word"},
	{32, "windowbits", "internal/bitio/reader_lossless.go vp8lWBits", "bits guaranteed after FillBitWindow (green 15 + length extra 10 | distance 15 + distance extra 18)"},
}

func init() {
	sort.SliceStable(Thresholds, func(i, j int) bool {
		if Thresholds[i].Unit != Thresholds[j].Unit {
			return Thresholds[i].Unit < Thresholds[j].Unit
		}
		return Thresholds[i].Value < Thresholds[j].Value
	})
}

// Tag is the key recorded in a suite's distribution: threshold:<value><unit>.
func (t Threshold) Tag() string { return fmt.Sprintf("threshold:%d%s", t.Value, t.Unit) }

// SizesAround returns {t-1, t, t+1} (values below 1 dropped).
func SizesAround(t Threshold) []int {
	var out []int
	for _, v := range []int{t.Value - 1, t.Value, t.Value + 1} {
		if v >= 1 {
			out = append(out, v)
		}
	}
	return out
}

// ThresholdCase is one picture size that sits just below, on, or just above a threshold.
type ThresholdCase struct {
	W, H int
	T    Threshold
	Rel  int // -1 below, 0 on, +1 above the threshold
}

func (c ThresholdCase) Tag() string { return c.T.Tag() }
func (c ThresholdCase) String() string {
	return fmt.Sprintf("%dx%d(%s%+d)", c.W, c.H, c.T.Tag()[len("threshold:"):], c.Rel)
}

// oddHeights are "other dimension" values for pixel-count thresholds: primes and odd numbers, so
// that rows / workers never divides evenly for any plausible worker count.
var oddHeights = []int{251, 101, 331, 401, 53, 7, 997, 3}

// ThresholdDims lists pictures crossing threshold t. For width / height thresholds the other
// dimension takes the values of `tiny` (default 1..4); for pixel counts the picture is w x h with h
// from oddHeights and w*h just below / at-or-just-above the value; for macroblock counts the
// picture is (16a) x (16b) (minus a ragged edge) with a*b = value-1, value, value+1.
func ThresholdDims(t Threshold, tiny []int) []ThresholdCase {
	if len(tiny) == 0 {
		tiny = []int{1, 2, 3, 4}
	}
	var out []ThresholdCase
	rel := func(v int) int {
		switch {
		case v < t.Value:
			return -1
		case v > t.Value:
			return 1
		}
		return 0
	}
	switch t.Unit {
	case "width", "side":
		for _, w := range SizesAround(t) {
			for _, h := range tiny {
				out = append(out, ThresholdCase{w, h, t, rel(w)})
			}
		}
		if t.Unit == "width" {
			break
		}
		fallthrough
	case "height":
		for _, h := range SizesAround(t) {
			for _, w := range tiny {
				out = append(out, ThresholdCase{w, h, t, rel(h)})
			}
		}
	case "pixels":
		for _, h := range oddHeights {
			if h > t.Value {
				continue
			}
			w := t.Value / h // w*h <= value
			if w < 1 || w > 16383 {
				continue
			}
			if w*h == t.Value {
				out = append(out, ThresholdCase{w, h, t, 0})
				if w > 1 {
					out = append(out, ThresholdCase{w - 1, h, t, -1})
				}
			} else {
				out = append(out, ThresholdCase{w, h, t, -1})
			}
			if w+1 <= 16383 {
				out = append(out, ThresholdCase{w + 1, h, t, 1})
			}
		}
		// exact value where it factors into legal sides
		for _, h := range []int{1, 2, 4, 5, 8, 10, 16, 20, 25, 32, 64, 100, 125, 128, 250, 256, 400, 512, 1024} {
			if t.Value%h == 0 && t.Value/h <= 16383 && t.Value/h >= 1 {
				out = append(out, ThresholdCase{t.Value / h, h, t, 0})
				break
			}
		}
	case "mbs":
		for _, n := range SizesAround(t) {
			// a factorisation a*b = n with both sides <= 1023 macroblocks, a as small as possible but > 1 if any
			a := 1
			for d := 2; d*d <= n; d++ {
				if n%d == 0 {
					a = d
					break
				}
			}
			b := n / a
			if b > 1023 {
				continue
			}
			out = append(out, ThresholdCase{16*b - 5, 16*a - 3, t, rel(n)})
		}
	case "mbrows":
		for _, n := range SizesAround(t) {
			out = append(out, ThresholdCase{33, 16*n - 7, t, rel(n)}, ThresholdCase{16, 16 * n, t, rel(n)})
		}
	}
	return out
}

// ThresholdFilter selects thresholds and bounds the pictures made from them.
type ThresholdFilter struct {
	Units     []string // empty = width, height, side, pixels, mbs, mbrows
	MaxW      int      // 0 = 16383
	MaxH      int      // 0 = 16383
	MaxPixels int      // 0 = 300000
	MinValue  int      // thresholds below are skipped (they are covered by the ordinary small sizes)
	Tiny      []int
}

// ThresholdCases: every threshold-crossing picture that passes the filter, in a stable order.
func ThresholdCases(f ThresholdFilter) []ThresholdCase {
	units := f.Units
	if len(units) == 0 {
		units = []string{"width", "height", "side", "pixels", "mbs", "mbrows"}
	}
	maxW, maxH, maxP := f.MaxW, f.MaxH, f.MaxPixels
	if maxW == 0 {
		maxW = 16383
	}
	if maxH == 0 {
		maxH = 16383
	}
	if maxP == 0 {
		maxP = 300000
	}
	var out []ThresholdCase
	seen := map[[3]int]bool{}
	for _, t := range Thresholds {
		ok := false
		for _, u := range units {
			if u == t.Unit {
				ok = true
			}
		}
		if !ok || t.Value < f.MinValue {
			continue
		}
		for _, c := range ThresholdDims(t, f.Tiny) {
			if c.W < 1 || c.H < 1 || c.W > maxW || c.H > maxH || c.W*c.H > maxP {
				continue
			}
			k := [3]int{c.W, c.H, t.Value}
			if seen[k] {
				continue
			}
			seen[k] = true
			out = append(out, c)
		}
	}
	return out
}

// DrawThresholdCases picks k of the cases that pass the filter: a deterministic function of
// (seed, salt), without replacement, spread so that consecutive seeds visit different cases. When
// k >= number of cases, all are returned.
func DrawThresholdCases(seed, salt uint64, k int, f ThresholdFilter) []ThresholdCase {
	all := ThresholdCases(f)
	if k >= len(all) {
		return all
	}
	r := NewRNG(seed, 0x7410_0000+salt)
	idx := make([]int, len(all))
	for i := range idx {
		idx[i] = i
	}
	for i := len(idx) - 1; i > 0; i-- {
		j := r.Intn(i + 1)
		idx[i], idx[j] = idx[j], idx[i]
	}
	out := make([]ThresholdCase, 0, k)
	for _, i := range idx[:k] {
		out = append(out, all[i])
	}
	return out
}

// CountThreshold records the threshold a case crosses in the suite's distribution.
func CountThreshold(rep *Report, c ThresholdCase) { rep.Count(c.Tag()) }

// Cheap content for large threshold pictures: the cost of a case must be dominated by the size
// logic, not by entropy coding.
const (
	CheapFlat     = iota // one colour
	CheapGradient        // horizontal + vertical ramps (every pixel knows its coordinates)
	CheapSparse          // flat with a handful of marked pixels (first, last, row ends, around multiples of 1024)
	CheapRows            // every row its own colour, columns around multiples of 512 marked: row/column mix-ups show
	NumCheapClasses
)

var cheapNames = []string{"flat", "gradient", "sparse", "rows"}

// GenCheapImage builds a w x h NRGBA picture of one of the cheap classes with alpha pattern acls
// (AlphaNone, AlphaGradient, AlphaBinary, AlphaSparse, AlphaSemiFlat, AlphaAllZero are cheap;
// others fall back to GenImage's definition per pixel).
func GenCheapImage(r *RNG, w, h, kind, acls int) *image.NRGBA {
	img := image.NewNRGBA(image.Rect(0, 0, w, h))
	base := [3]byte{byte(r.Next()), byte(r.Next()), byte(r.Next())}
	mark := [3]byte{base[0] ^ 0x80, base[1] ^ 0x55, base[2] ^ 0x2a}
	var sparse map[int]byte
	if acls == AlphaSparse {
		sparse = sparseAlphaDraw(r, w*h)
	}
	for y := 0; y < h; y++ {
		for x := 0; x < w; x++ {
			c := base
			switch kind {
			case CheapGradient:
				c = [3]byte{byte(x), byte(x>>8) ^ byte(y*37), byte(y) ^ byte(x>>4)}
			case CheapSparse:
				if (x == 0 && y == 0) || (x == w-1 && y == h-1) || x == w-1 || (x&1023) <= 1 || (x&1023) == 1023 {
					c = mark
					c[0] ^= byte(x >> 10)
					c[1] ^= byte(y)
				}
			case CheapRows:
				c = [3]byte{base[0] + byte(31*y), base[1] + byte(y>>3), base[2] ^ byte(y)}
				if (x&511) == 0 || (x&511) == 511 {
					c[2] ^= 0xff
				}
			}
			a := byte(255)
			switch acls {
			case AlphaGradient:
				a = byte(x*255/maxi(w-1, 1)) ^ byte(y)
			case AlphaBinary:
				if (x/3+y)%3 == 0 {
					a = 0
				}
			case AlphaSemiFlat:
				a = 128
			case AlphaAllZero:
				a = 0
			case AlphaFewLevels:
				a = []byte{0, 64, 128, 200, 255}[(x/5+y)%5]
			case AlphaNoise:
				a = byte(r.Next())
			case AlphaSparse:
				if v, ok := sparse[y*w+x]; ok {
					a = v
				}
			}
			o := img.PixOffset(x, y)
			img.Pix[o], img.Pix[o+1], img.Pix[o+2], img.Pix[o+3] = c[0], c[1], c[2], a
		}
	}
	return img
}

func cheapDesc(w, h, kind, acls int) string {
	return fmt.Sprintf("%dx%d/cheap-%s/%s", w, h, cheapNames[kind], alphaClassNames[acls])
}

// WideWidths / WideHeights: the explicit wide-row family used by the decode-side suites (C05, C04,
// C07, C09): widths around 1024, 2048 and 4096 plus one in between, heights 1..4 (1 row: no bottom
// line pair; 2: one pair; 3: pair + last single row; 4: two pairs).
var WideWidths = []int{1023, 1024, 1025, 1100, 2047, 2048, 2049, 4097}
var WideHeights = []int{1, 2, 3, 4}

// ---------------------------------------------------------------------------------------------------
// Units without a picture dimension: bytes, tokens, colors, frames, chunks. Cheap generators where one
// exists; the suites draw a few per run and record them with CountCount.

// CountCase is one count (blob length, colour count, frame count ...) just below / on / above a threshold.
type CountCase struct {
	N   int
	T   Threshold
	Rel int
}

func (c CountCase) Tag() string { return c.T.Tag() }
func (c CountCase) String() string {
	return fmt.Sprintf("%d(%s%+d)", c.N, c.T.Tag()[len("threshold:"):], c.Rel)
}

// CountCases lists {t-1, t, t+1} for every threshold of the unit with min <= t and t+1 <= max.
func CountCases(unit string, min, max int) []CountCase {
	var out []CountCase
	seen := map[[2]int]bool{}
	for _, t := range Thresholds {
		if t.Unit != unit || t.Value < min || t.Value+1 > max {
			continue
		}
		for i, n := range []int{t.Value - 1, t.Value, t.Value + 1} {
			if n < 0 || seen[[2]int{n, t.Value}] {
				continue
			}
			seen[[2]int{n, t.Value}] = true
			out = append(out, CountCase{n, t, i - 1})
		}
	}
	return out
}

// DrawCountCases: deterministic draw of k of them (all when k >= their number).
func DrawCountCases(seed, salt uint64, k int, unit string, min, max int) []CountCase {
	all := CountCases(unit, min, max)
	if k >= len(all) {
		return all
	}
	r := NewRNG(seed, 0x7420_0000+salt)
	for i := len(all) - 1; i > 0; i-- {
		j := r.Intn(i + 1)
		all[i], all[j] = all[j], all[i]
	}
	return all[:k]
}

func CountCount(rep *Report, c CountCase) { rep.Count(c.Tag()) }

// BlobLens: metadata / payload lengths around the byte thresholds up to max (1024, 4096, 65536 are
// cheap; 2^19 and 2^24 cost a copy each; the 100 MiB metadata cap is probed separately with one shared
// buffer - see MetadataCap).
func BlobLens(max int) []CountCase { return CountCases("bytes", 8, max) }

// MetadataCap is the documented cap of an ICC / EXIF / XMP blob (encode.go maxEncoderMetadataSize,
// mux.maxMetadataSize, container.MaxMetadataSize): writers and readers must agree on exactly n > cap.
const MetadataCap = 100 << 20

var capBufOnce []byte

// CapBuffer returns one shared buffer of MetadataCap+1 bytes (content: a cheap byte pattern); callers
// slice it to cap-1 / cap / cap+1 and must not modify it.
func CapBuffer() []byte {
	if capBufOnce == nil {
		b := make([]byte, MetadataCap+1)
		for i := 0; i < len(b); i += 4093 {
			b[i] = byte(i >> 12)
		}
		b[0], b[len(b)-1], b[len(b)-2], b[len(b)-3] = 'c', 0xA1, 0xA2, 0xA3
		capBufOnce = b
	}
	return capBufOnce
}

// GenColorCountImage: a w x h opaque picture with exactly n distinct colours (n <= w*h, n <= 1<<24),
// every colour occurring, arranged in short runs (colour thresholds 2 / 4 / 16 / 256: palette packing
// 8 / 4 / 2 / 1 pixels per byte, palette vs no palette at 257).
func GenColorCountImage(r *RNG, w, h, n int) *image.NRGBA {
	if n > w*h {
		n = w * h
	}
	if n < 1 {
		n = 1
	}
	img := image.NewNRGBA(image.Rect(0, 0, w, h))
	base := uint32(r.Next())
	col := func(k int) (byte, byte, byte) {
		v := base + uint32(k)*0x010305 // distinct for k < 2^24 / 5
		return byte(v), byte(v >> 8), byte(v>>16) ^ byte(k>>8)
	}
	// distinctness guard for the rare wrap: fall back to a plain counter
	seen := map[[3]byte]bool{}
	ok := true
	for k := 0; k < n && ok; k++ {
		a, b, c := col(k)
		if seen[[3]byte{a, b, c}] {
			ok = false
		}
		seen[[3]byte{a, b, c}] = true
	}
	if !ok {
		col = func(k int) (byte, byte, byte) { return byte(k), byte(k >> 8), byte(k >> 16) }
	}
	run := 1 + r.Intn(4)
	for i := 0; i < w*h; i++ {
		k := i // the first n pixels: every colour once
		if i >= n {
			k = ((i / run) * 7) % n
		}
		a, b, c := col(k)
		o := 4 * i
		img.Pix[o], img.Pix[o+1], img.Pix[o+2], img.Pix[o+3] = a, b, c, 255
	}
	return img
}

// GenAlphaLevelsImage: like GenColorCountImage for the ALPHA channel: exactly n distinct alpha values
// (n <= 256, n <= w*h) on a flat colour (alpha thresholds 16 and 192 of the lossy alpha filter choice,
// 2 / 4 / 16 of the palette packing of the compressed plane).
func GenAlphaLevelsImage(r *RNG, w, h, n int) *image.NRGBA {
	if n > 256 {
		n = 256
	}
	if n > w*h {
		n = w * h
	}
	if n < 1 {
		n = 1
	}
	img := image.NewNRGBA(image.Rect(0, 0, w, h))
	c := [3]byte{byte(r.Next()), byte(r.Next()), byte(r.Next())}
	lv := func(k int) byte { return byte(255 - k*255/maxi(n-1, 1)) } // spread over 0..255, 0 and 255 included for n >= 2
	if n == 256 {
		lv = func(k int) byte { return byte(k) }
	}
	run := 1 + r.Intn(5)
	for i := 0; i < w*h; i++ {
		k := i
		if i >= n {
			k = ((i / run) * 5) % n
		}
		o := 4 * i
		img.Pix[o], img.Pix[o+1], img.Pix[o+2], img.Pix[o+3] = c[0], c[1], c[2], lv(k)
	}
	return img
}

// TokenCase: a lossy picture whose token count is estimated to sit below / above a token threshold.
// Estimate: uniform colour noise at Quality 90 costs about 9.6 coefficient tokens per pixel (measured on
// the unchanged tree: 208x176 -> 352 k tokens), so 32768 tokens are crossed between 56x56 and 64x56;
// the cases bracket the threshold generously instead of pretending to hit it: 48x48 (~22 k), 56x56
// (~30 k), 64x56 (~34 k), 64x64 (~39 k), 80x64 (~49 k). Partitions 1..3 put the page straddle into play.
type TokenCase struct {
	W, H    int
	Quality int
	Est     int
	T       Threshold
}

func TokenCases() []TokenCase {
	var t Threshold
	for _, x := range Thresholds {
		if x.Unit == "tokens" && x.Value == 32768 {
			t = x
		}
	}
	var out []TokenCase
	for _, d := range [][2]int{{48, 48}, {56, 56}, {64, 56}, {64, 64}, {80, 64}, {33, 120}} {
		out = append(out, TokenCase{d[0], d[1], 90, d[0] * d[1] * 96 / 10, t})
	}
	return out
}

// FrameCounts: animation lengths around the frame thresholds (2: serial vs parallel frame decoding; 30:
// key-frame cache; 10000: the frame cap, only when max allows it - 10001 one-pixel frames through the
// muxer are cheap, through the animation encoder they are not).
func FrameCounts(max int) []CountCase { return CountCases("frames", 2, max) }
