package main

// Suite "opts" — property C20 (option handling is total and matches its documentation).
//
// Tie between the Lean model Webp.Impl.Opts and /repo, by observable:
//   validateConfig            exact: hook webp.VerifValidate, error class by message prefix   (op optvalidate)
//   resolve*                  exact: hook webp.VerifResolve                                   (op optresolve)
//   DefaultOptions            exact: public API                                               (op optdefault)
//   OptionsForPreset          exact: public API                                               (op optpreset)
//   lossy.DefaultConfig       exact: verifapi.LossyDefaultConfig                              (op optdefcfg)
//   alpha filter-mode enums   exact: verifapi constants                                       (op optenum)
//   float32 primitives        exact: Go float32 comparisons / int() on bit patterns           (op optf32)
//   documented defaults       go/ast extraction from encode.go doc comments                   (op optdoc)
//   Encode nil/dimension checks and error-vs-ok:  real webp.Encode                            (op optfront)
//   propagation block / alpha mapping / lossless config: END-TO-END only —
//       model says "same resolved configuration"  ⇒ real Encode outputs must be byte-identical
//       (sentinel pairs, nil vs default, lossy-only under Lossless, EmulateJpegSize, Preset,
//        random records that the model resolves identically), plus a sensitivity count per
//       resolved field (two different resolved values give different bytes at least once).

import (
	"bytes"
	"fmt"
	"go/ast"
	"go/parser"
	"go/token"
	"image"
	"image/color"
	"math"
	"regexp"
	"sort"
	"strconv"
	"strings"
	"sync"
	"time"

	webp "github.com/deepteams/webp"
	"github.com/deepteams/webp/animation"
	"github.com/deepteams/webp/verifapi"
)

func init() {
	suites["opts"] = suiteOpts
	replayers["optpair"] = replayOptPair
	replayers["optline"] = replayOptLine
	replayers["optempty"] = replayOptEmpty
}

const maxMeta = 100 * 1024 * 1024

var bigMeta []byte // 100 MB + 1, allocated lazily (pages stay untouched)

func metaBuf(n int) []byte {
	if n <= 64 {
		b := make([]byte, n)
		for i := range b {
			b[i] = byte(i*37 + 1)
		}
		return b
	}
	if bigMeta == nil {
		bigMeta = make([]byte, maxMeta+1)
	}
	return bigMeta[:n]
}

// ---------- wire form ----------

func f32bits(f float32) uint32 { return math.Float32bits(f) }

func encMeta(b []byte) string {
	if b == nil {
		return "n"
	}
	return strconv.Itoa(len(b))
}

func encOpts(o *webp.EncoderOptions) string {
	if o == nil {
		return "nil"
	}
	return join([]string{
		b2s(o.Lossless), strconv.FormatUint(uint64(f32bits(o.Quality)), 10), strconv.Itoa(o.Method),
		strconv.Itoa(int(o.Preset)), b2s(o.UseSharpYUV), b2s(o.Exact), strconv.Itoa(o.TargetSize),
		strconv.FormatUint(uint64(f32bits(o.TargetPSNR)), 10), strconv.Itoa(o.Preprocessing),
		strconv.Itoa(o.SNSStrength), strconv.Itoa(o.FilterStrength), strconv.Itoa(o.FilterSharpness),
		strconv.Itoa(o.FilterType), strconv.Itoa(o.Partitions), strconv.Itoa(o.Segments), strconv.Itoa(o.Pass),
		b2s(o.EmulateJpegSize), strconv.Itoa(o.QMin), strconv.Itoa(o.QMax), strconv.Itoa(o.AlphaCompression),
		strconv.Itoa(o.AlphaFiltering), strconv.Itoa(o.AlphaQuality), encMeta(o.ICC), encMeta(o.EXIF), encMeta(o.XMP),
	}, ",")
}

func decOpts(s string) (*webp.EncoderOptions, error) {
	if s == "nil" {
		return nil, nil
	}
	p := strings.Split(s, ",")
	if len(p) != 25 {
		return nil, fmt.Errorf("bad options encoding")
	}
	iv := func(k int) int { v, _ := strconv.Atoi(p[k]); return v }
	fv := func(k int) float32 { v, _ := strconv.ParseUint(p[k], 10, 32); return math.Float32frombits(uint32(v)) }
	mv := func(k int) []byte {
		if p[k] == "n" {
			return nil
		}
		n, _ := strconv.Atoi(p[k])
		if n == 0 {
			return []byte{}
		}
		return metaBuf(n)
	}
	return &webp.EncoderOptions{
		Lossless: p[0] == "1", Quality: fv(1), Method: iv(2), Preset: webp.Preset(iv(3)), UseSharpYUV: p[4] == "1",
		Exact: p[5] == "1", TargetSize: iv(6), TargetPSNR: fv(7), Preprocessing: iv(8), SNSStrength: iv(9),
		FilterStrength: iv(10), FilterSharpness: iv(11), FilterType: iv(12), Partitions: iv(13), Segments: iv(14),
		Pass: iv(15), EmulateJpegSize: p[16] == "1", QMin: iv(17), QMax: iv(18), AlphaCompression: iv(19),
		AlphaFiltering: iv(20), AlphaQuality: iv(21), ICC: mv(22), EXIF: mv(23), XMP: mv(24),
	}, nil
}

// f32str mirrors Webp.Impl.Opts.F32.toStr ∘ F32.ofBits.
func f32str(bits uint32) string {
	s, ex, m := bits>>31, (bits>>23)&0xff, uint64(bits&0x7fffff)
	if ex == 255 {
		if m != 0 {
			return "nan"
		}
		if s == 1 {
			return "-inf"
		}
		return "+inf"
	}
	e := -149
	if ex != 0 {
		m |= 1 << 23
		e = int(ex) - 150
	}
	if m == 0 {
		e = 0
	} else {
		for m%2 == 0 {
			m /= 2
			e++
		}
	}
	sign := "+"
	if s == 1 {
		sign = "-"
	}
	return fmt.Sprintf("%s%dp%d", sign, m, e)
}

// canonOpts mirrors Driver.Opts.sOpts.
func canonOpts(o *webp.EncoderOptions) string {
	return join([]string{
		b2s(o.Lossless), f32str(f32bits(o.Quality)), strconv.Itoa(o.Method),
		strconv.Itoa(int(o.Preset)), b2s(o.UseSharpYUV), b2s(o.Exact), strconv.Itoa(o.TargetSize),
		f32str(f32bits(o.TargetPSNR)), strconv.Itoa(o.Preprocessing),
		strconv.Itoa(o.SNSStrength), strconv.Itoa(o.FilterStrength), strconv.Itoa(o.FilterSharpness),
		strconv.Itoa(o.FilterType), strconv.Itoa(o.Partitions), strconv.Itoa(o.Segments), strconv.Itoa(o.Pass),
		b2s(o.EmulateJpegSize), strconv.Itoa(o.QMin), strconv.Itoa(o.QMax), strconv.Itoa(o.AlphaCompression),
		strconv.Itoa(o.AlphaFiltering), strconv.Itoa(o.AlphaQuality), encMeta(o.ICC), encMeta(o.EXIF), encMeta(o.XMP),
	}, ",")
}

// ---------- error classes (never the message, only which check fired) ----------

var optErrPrefixes = []struct{ prefix, cls string }{
	{"webp: nil writer", "nilWriter"}, {"webp: nil image", "nilImage"},
	{"webp: invalid Quality ", "Quality"}, {"webp: invalid Method ", "Method"},
	{"webp: invalid TargetSize ", "TargetSize"}, {"webp: invalid TargetPSNR ", "TargetPSNR"},
	{"webp: invalid Preprocessing ", "Preprocessing"}, {"webp: invalid Preset ", "Preset"},
	{"webp: invalid SNSStrength ", "SNSStrength"}, {"webp: invalid FilterStrength ", "FilterStrength"},
	{"webp: invalid FilterSharpness ", "FilterSharpness"}, {"webp: invalid FilterType ", "FilterType"},
	{"webp: invalid Partitions ", "Partitions"}, {"webp: invalid Segments ", "Segments"},
	{"webp: invalid Pass ", "Pass"}, {"webp: invalid QMin/QMax ", "QMinQMax"},
	{"webp: invalid AlphaCompression ", "AlphaCompression"}, {"webp: invalid AlphaFiltering ", "AlphaFiltering"},
	{"webp: invalid AlphaQuality ", "AlphaQuality"}, {"webp: ICC profile too large", "ICC"},
	{"webp: EXIF data too large", "EXIF"}, {"webp: XMP data too large", "XMP"},
	{"webp: invalid image dimensions ", "dimsEmpty"}, {"webp: image dimension ", "dimsTooLarge"},
}

func optErrClass(err error) string {
	if err == nil {
		return "ok"
	}
	m := err.Error()
	for _, p := range optErrPrefixes {
		if strings.HasPrefix(m, p.prefix) {
			return "err " + p.cls
		}
	}
	return "err other"
}

// ---------- a cheap image with arbitrary bounds (nothing allocated) ----------

type boundsImg struct {
	r     image.Rectangle
	alpha bool
}

func (b boundsImg) ColorModel() color.Model { return color.NRGBAModel }
func (b boundsImg) Bounds() image.Rectangle { return b.r }
func (b boundsImg) At(x, y int) color.Color {
	if b.alpha && (x+y)%3 == 0 {
		return color.NRGBA{uint8(x), uint8(y), 7, 128}
	}
	return color.NRGBA{uint8(x), uint8(y), 7, 255}
}

// ---------- empty rectangles on concrete image types ----------

// Every rectangle here has Empty() == true; the literal Min/Max are kept (image.Rect would swap them).
var optEmptyRects = []image.Rectangle{
	{Min: image.Pt(1, 1), Max: image.Pt(0, 0)},         // -1 x -1
	{Min: image.Pt(4, 4), Max: image.Pt(0, 0)},         // -4 x -4
	{Min: image.Pt(3, 4), Max: image.Pt(0, 0)},         // -3 x -4
	{Min: image.Pt(16, 16), Max: image.Pt(0, 0)},       // -16 x -16
	{Min: image.Pt(20, 20), Max: image.Pt(0, 0)},       // -20 x -20
	{Min: image.Pt(16, 1), Max: image.Pt(0, 0)},        // -16 x -1
	{Min: image.Pt(16383, 16383), Max: image.Pt(0, 0)}, // -16383 x -16383
	{Min: image.Pt(0, 0), Max: image.Pt(math.MinInt32, math.MinInt32)},
	{Min: image.Pt(3, 0), Max: image.Pt(0, 0)}, // Dx<0, Dy==0
	{Min: image.Pt(3, 0), Max: image.Pt(0, 5)}, // Dx<0, Dy>0
	{Min: image.Pt(0, 3), Max: image.Pt(5, 0)}, // Dx>0, Dy<0
	{Min: image.Pt(0, 0), Max: image.Pt(0, 0)}, // 0x0
	{Min: image.Pt(5, 7), Max: image.Pt(5, 7)}, // 0x0 away from the origin
	{Min: image.Pt(0, 0), Max: image.Pt(0, 9)}, // 0xN
	{Min: image.Pt(0, 0), Max: image.Pt(9, 0)}, // Nx0
}

var optEmptyTypes = []string{"NRGBA", "RGBA", "Gray", "NRGBA64", "Paletted", "generic", "generic+alpha"}

var optEmptyOpts = []func() *webp.EncoderOptions{
	func() *webp.EncoderOptions { return nil },
	func() *webp.EncoderOptions { return webp.DefaultOptions() },
	func() *webp.EncoderOptions { return &webp.EncoderOptions{Quality: 50, Method: 0, Preprocessing: 2} },
	func() *webp.EncoderOptions { return &webp.EncoderOptions{Lossless: true, Quality: 75} },
}

func optEmptyImage(ri, ti int) image.Image {
	r := optEmptyRects[ri]
	switch optEmptyTypes[ti] {
	case "NRGBA":
		return &image.NRGBA{Pix: make([]byte, 4096), Stride: 64, Rect: r}
	case "RGBA":
		return &image.RGBA{Pix: make([]byte, 4096), Stride: 64, Rect: r}
	case "Gray":
		return &image.Gray{Pix: make([]byte, 4096), Stride: 64, Rect: r}
	case "NRGBA64":
		return &image.NRGBA64{Pix: make([]byte, 4096), Stride: 128, Rect: r}
	case "Paletted":
		return &image.Paletted{Pix: make([]byte, 4096), Stride: 64, Rect: r, Palette: color.Palette{color.NRGBA{1, 2, 3, 255}, color.NRGBA{9, 8, 7, 255}}}
	case "generic":
		return boundsImg{r, false}
	}
	return boundsImg{r, true}
}

// emptyBoundsCheck runs the real Encode on an empty image; "" when it returned the dimension
// error without writing, otherwise the finding class and a description.
func emptyBoundsCheck(ri, ti, oi int) (bad, detail string) {
	img := optEmptyImage(ri, ti)
	var buf bytes.Buffer
	cls := watchedEncode(fmt.Sprintf("empty %d %d", ri, oi), func() string { return optErrClass(webp.Encode(&buf, img, optEmptyOpts[oi]())) })
	where := fmt.Sprintf("Encode(%s with Bounds %v, options #%d)", optEmptyTypes[ti], optEmptyRects[ri], oi)
	switch {
	case strings.HasPrefix(cls, "panic:"):
		return cls, where + " panicked: " + cls[len("panic:"):]
	case cls == "hang":
		return "hang", fmt.Sprintf("%s did not return within %v (an empty image must be rejected before touching pixels)", where, optWatchdog)
	case cls == "ok":
		return "accepted", fmt.Sprintf("%s returned nil for an empty image and wrote %d bytes", where, buf.Len())
	case cls != "err dimsEmpty":
		return "wrong-error", where + " returned " + cls + ", want the invalid-dimensions error"
	case buf.Len() != 0:
		return "wrote-on-error", fmt.Sprintf("%s failed but wrote %d bytes", where, buf.Len())
	}
	return "", ""
}

func replayOptEmpty(in map[string]any) int {
	num := func(k string) int { v, _ := in[k].(float64); return int(v) }
	ri, ti, oi := num("rect"), num("type"), num("opts")
	if ri < 0 || ri >= len(optEmptyRects) || ti < 0 || ti >= len(optEmptyTypes) || oi < 0 || oi >= len(optEmptyOpts) {
		return 2
	}
	bad, detail := emptyBoundsCheck(ri, ti, oi)
	if bad != "" {
		fmt.Println("go:   " + bad + ": " + detail)
		return 1
	}
	fmt.Println("go:   err dimsEmpty, nothing written")
	return 0
}

// ---------- boundary values ----------

type intField struct {
	name          string
	lo, hi, deflt int
	get           func(*webp.EncoderOptions) *int
}

var optIntFields = []intField{
	{"Method", 0, 6, 4, func(o *webp.EncoderOptions) *int { return &o.Method }},
	{"TargetSize", 0, math.MaxInt, 0, func(o *webp.EncoderOptions) *int { return &o.TargetSize }},
	{"Preprocessing", 0, 3, 0, func(o *webp.EncoderOptions) *int { return &o.Preprocessing }},
	{"SNSStrength", 0, 100, 50, func(o *webp.EncoderOptions) *int { return &o.SNSStrength }},
	{"FilterStrength", 0, 100, 60, func(o *webp.EncoderOptions) *int { return &o.FilterStrength }},
	{"FilterSharpness", 0, 7, 0, func(o *webp.EncoderOptions) *int { return &o.FilterSharpness }},
	{"FilterType", 0, 1, 1, func(o *webp.EncoderOptions) *int { return &o.FilterType }},
	{"Partitions", 0, 3, 0, func(o *webp.EncoderOptions) *int { return &o.Partitions }},
	{"Segments", 1, 4, 4, func(o *webp.EncoderOptions) *int { return &o.Segments }},
	{"Pass", 1, 10, 1, func(o *webp.EncoderOptions) *int { return &o.Pass }},
	{"QMin", 0, 100, 0, func(o *webp.EncoderOptions) *int { return &o.QMin }},
	{"QMax", 0, 100, 100, func(o *webp.EncoderOptions) *int { return &o.QMax }},
	{"AlphaCompression", 0, 1, 1, func(o *webp.EncoderOptions) *int { return &o.AlphaCompression }},
	{"AlphaFiltering", 0, 2, 1, func(o *webp.EncoderOptions) *int { return &o.AlphaFiltering }},
	{"AlphaQuality", 0, 100, 100, func(o *webp.EncoderOptions) *int { return &o.AlphaQuality }},
	{"Preset", 0, 5, 0, nil},
}

func boundaryInts(f intField) []int {
	raw := []int{f.lo - 1, f.lo, f.lo + 1, f.deflt, f.hi - 1, f.hi, -1, -2, 0, math.MinInt, math.MaxInt}
	if f.hi != math.MaxInt {
		raw = append(raw, f.hi+1)
	}
	seen := map[int]bool{}
	var out []int
	for _, v := range raw {
		if !seen[v] {
			seen[v] = true
			out = append(out, v)
		}
	}
	return out
}

var qualityBits = []uint32{
	0x00000000, 0x80000000, 0x00000001, 0x80000001, 0x3F000000, 0x3F800000, 0x42960000, 0x424A0000,
	0x42C7FFFF, 0x42C80000, 0x42C80001, 0xB8D1B717, 0x42CA0000, 0x7FC00000, 0xFFC00001, 0x7F800001,
	0x7F800000, 0xFF800000, 0x7F7FFFFF, 0xFF7FFFFF, 0x3F7FFFFF, 0x007FFFFF, 0x00800000,
}

var psnrBits = []uint32{
	0x00000000, 0x80000000, 0x00000001, 0x80000001, 0x41F00000, 0x422A0000, 0x42C80000, 0x7149F2CA,
	0x7F7FFFFF, 0x7FC00000, 0xFFC00000, 0x7F800000, 0xFF800000, 0xB8D1B717, 0xFF7FFFFF, 0x00800000,
}

// a field setter over a uniform value index space
type optAxis struct {
	name string
	n    int
	set  func(o *webp.EncoderOptions, k int)
	desc func(k int) string
}

func optAxes() []optAxis {
	var ax []optAxis
	bl := func(name string, get func(*webp.EncoderOptions) *bool) {
		ax = append(ax, optAxis{name, 2, func(o *webp.EncoderOptions, k int) { *get(o) = k == 1 }, func(k int) string { return strconv.Itoa(k) }})
	}
	bl("Lossless", func(o *webp.EncoderOptions) *bool { return &o.Lossless })
	bl("UseSharpYUV", func(o *webp.EncoderOptions) *bool { return &o.UseSharpYUV })
	bl("Exact", func(o *webp.EncoderOptions) *bool { return &o.Exact })
	bl("EmulateJpegSize", func(o *webp.EncoderOptions) *bool { return &o.EmulateJpegSize })
	ax = append(ax, optAxis{"Quality", len(qualityBits),
		func(o *webp.EncoderOptions, k int) { o.Quality = math.Float32frombits(qualityBits[k]) },
		func(k int) string { return f32str(qualityBits[k]) }})
	ax = append(ax, optAxis{"TargetPSNR", len(psnrBits),
		func(o *webp.EncoderOptions, k int) { o.TargetPSNR = math.Float32frombits(psnrBits[k]) },
		func(k int) string { return f32str(psnrBits[k]) }})
	for _, f := range optIntFields {
		f := f
		vals := boundaryInts(f)
		set := func(o *webp.EncoderOptions, k int) { *f.get(o) = vals[k] }
		if f.name == "Preset" {
			set = func(o *webp.EncoderOptions, k int) { o.Preset = webp.Preset(vals[k]) }
		}
		ax = append(ax, optAxis{f.name, len(vals), set, func(k int) string { return strconv.Itoa(vals[k]) }})
	}
	metaLens := []int{-1, 0, 1, 5, maxMeta, maxMeta + 1}
	mt := func(name string, get func(*webp.EncoderOptions) *[]byte) {
		ax = append(ax, optAxis{name, len(metaLens), func(o *webp.EncoderOptions, k int) {
			switch n := metaLens[k]; {
			case n < 0:
				*get(o) = nil
			case n == 0:
				*get(o) = []byte{}
			default:
				*get(o) = metaBuf(n)
			}
		}, func(k int) string { return strconv.Itoa(metaLens[k]) }})
	}
	mt("ICC", func(o *webp.EncoderOptions) *[]byte { return &o.ICC })
	mt("EXIF", func(o *webp.EncoderOptions) *[]byte { return &o.EXIF })
	mt("XMP", func(o *webp.EncoderOptions) *[]byte { return &o.XMP })
	return ax
}

// validBase draws an options value that passes validateConfig (explicit values and sentinels mixed).
func validBase(r *RNG) *webp.EncoderOptions {
	o := webp.DefaultOptions()
	o.Lossless = r.Chance(1, 3)
	o.Quality = []float32{0, 10.5, 50, 75, 90, 99.5, 100}[r.Intn(7)]
	o.Method = r.Intn(7)
	o.Preset = webp.Preset(r.Intn(6))
	o.UseSharpYUV = r.Chance(1, 4)
	o.Exact = r.Chance(1, 3)
	if r.Chance(1, 5) {
		o.TargetSize = 1 + r.Intn(5000)
	}
	if r.Chance(1, 5) {
		o.TargetPSNR = float32(20 + r.Intn(30))
	}
	o.Preprocessing = r.Intn(4)
	pick := func(sentinel int, lo, hi int) int {
		if r.Chance(1, 3) {
			return sentinel
		}
		return lo + r.Intn(hi-lo+1)
	}
	o.SNSStrength = pick(-1, 0, 100)
	o.FilterStrength = pick(-1, 0, 100)
	o.FilterSharpness = r.Intn(8)
	o.FilterType = pick(-1, 0, 1)
	o.Partitions = r.Intn(4)
	o.Segments = pick(-1, 0, 4)
	o.Pass = pick(-1, 0, 10)
	o.QMax = pick(-1, 0, 100)
	qm := o.QMax
	if qm < 0 {
		qm = 100
	}
	o.QMin = r.Intn(qm + 1)
	o.AlphaCompression = pick(-1, 0, 1)
	o.AlphaFiltering = pick(-1, 0, 2)
	o.AlphaQuality = pick(-1, 0, 100)
	o.EmulateJpegSize = r.Chance(1, 4)
	if r.Chance(1, 4) {
		o.ICC = metaBuf(1 + r.Intn(8))
	}
	if r.Chance(1, 5) {
		o.EXIF = metaBuf(1 + r.Intn(8))
	}
	if r.Chance(1, 6) {
		o.XMP = []byte{}
	}
	return o
}

type optCase struct {
	o     *webp.EncoderOptions
	kind  string
	w, h  int
	flags string // subset of W I A, or "-"
}

var optDims = [][2]int{{1, 1}, {16383, 1}, {1, 16383}, {16383, 16383}, {16384, 1}, {1, 16384}, {0, 5}, {5, 0}, {-3, 4},
	{7, 5}, {24, 24}, {math.MaxInt32, 2}, {2, math.MinInt32}, {16384, 16384},
	// both axes inverted (Min > Max on x AND y): the rectangle is empty although Dx()*Dy() > 0
	{-3, -4}, {-1, -1}, {-16, -16}, {-16383, -16383}, {math.MinInt32, math.MinInt32}}

var optFlags = []string{"-", "-", "-", "-", "-", "-", "-", "-", "-", "-", "A", "A", "A", "A", "A", "A", "A", "A", "W", "I", "WI", "WA", "IA", "WIA"}

func genOptCases(seed uint64, tier string, emit func(optCase)) {
	ax := optAxes()
	axByName := map[string]int{}
	for i, a := range ax {
		axByName[a.name] = i
	}
	add := func(o *webp.EncoderOptions, kind string, r *RNG) {
		d := optDims[r.Intn(len(optDims))]
		if r.Chance(1, 2) {
			d = optDims[r.Intn(3)] // mostly valid dims so that the options decide
		}
		emit(optCase{o, kind, d[0], d[1], optFlags[r.Intn(len(optFlags))]})
	}
	idx := uint64(0)
	next := func() *RNG { idx++; return NewRNG(seed, 20_000_000+idx) }

	// fixed records
	fixed := []*webp.EncoderOptions{nil, webp.DefaultOptions(), {}, {Lossless: true}}
	for p := -1; p <= 6; p++ {
		fixed = append(fixed, webp.OptionsForPreset(webp.Preset(p), 75), webp.OptionsForPreset(webp.Preset(p), float32(math.NaN())))
	}
	for _, o := range fixed {
		for _, d := range optDims {
			for _, fl := range []string{"-", "A", "W", "I"} {
				emit(optCase{o, "fixed", d[0], d[1], fl})
			}
		}
	}
	// single: valid base, one field at each boundary value (complete)
	for rep := 0; rep < 3; rep++ {
		for _, a := range ax {
			for k := 0; k < a.n; k++ {
				r := next()
				o := validBase(r)
				a.set(o, k)
				add(o, "single", r)
			}
		}
	}
	nPairsBases, nProduct, nRaw := 0, 7000, 5000
	pairSample := 15000
	if tier == "thorough" {
		nPairsBases, nProduct, nRaw = 60, 0, 340000
		pairSample = 0
	}
	// pairs: all pairs of fields × all pairs of boundary values on a valid base
	type pr struct{ a, b, ka, kb int }
	var allPairs []pr
	for i := 0; i < len(ax); i++ {
		for j := i + 1; j < len(ax); j++ {
			for ka := 0; ka < ax[i].n; ka++ {
				for kb := 0; kb < ax[j].n; kb++ {
					allPairs = append(allPairs, pr{i, j, ka, kb})
				}
			}
		}
	}
	if pairSample > 0 {
		r0 := NewRNG(seed, 31337)
		for i := 0; i < pairSample; i++ {
			p := allPairs[r0.Intn(len(allPairs))]
			r := next()
			o := validBase(r)
			ax[p.a].set(o, p.ka)
			ax[p.b].set(o, p.kb)
			add(o, "pair", r)
		}
	}
	for b := 0; b < nPairsBases; b++ {
		for _, p := range allPairs {
			r := next()
			o := validBase(r)
			ax[p.a].set(o, p.ka)
			ax[p.b].set(o, p.kb)
			add(o, "pair", r)
		}
	}
	// product of the small fields
	small := []struct {
		name string
		vals []int
	}{
		{"Lossless", []int{0, 1}}, {"UseSharpYUV", []int{0, 1}}, {"Exact", []int{0, 1}}, {"EmulateJpegSize", []int{0, 1}},
		{"Preset", []int{-1, 0, 1, 2, 3, 4, 5, 6}}, {"Preprocessing", []int{-1, 0, 1, 2, 3, 4}},
		{"FilterType", []int{-2, -1, 0, 1, 2}}, {"AlphaCompression", []int{-1, 0, 1, 2}},
		{"AlphaFiltering", []int{-1, 0, 1, 2, 3}}, {"Partitions", []int{-1, 0, 1, 2, 3, 4}},
	}
	setSmall := func(o *webp.EncoderOptions, name string, v int) {
		switch name {
		case "Lossless":
			o.Lossless = v == 1
		case "UseSharpYUV":
			o.UseSharpYUV = v == 1
		case "Exact":
			o.Exact = v == 1
		case "EmulateJpegSize":
			o.EmulateJpegSize = v == 1
		case "Preset":
			o.Preset = webp.Preset(v)
		case "Preprocessing":
			o.Preprocessing = v
		case "FilterType":
			o.FilterType = v
		case "AlphaCompression":
			o.AlphaCompression = v
		case "AlphaFiltering":
			o.AlphaFiltering = v
		case "Partitions":
			o.Partitions = v
		}
	}
	total := 1
	for _, s := range small {
		total *= len(s.vals)
	}
	emitProduct := func(code int) {
		r := next()
		o := validBase(r)
		for _, s := range small {
			setSmall(o, s.name, s.vals[code%len(s.vals)])
			code /= len(s.vals)
		}
		add(o, "product", r)
	}
	if nProduct > 0 {
		r0 := NewRNG(seed, 4242)
		for i := 0; i < nProduct; i++ {
			emitProduct(r0.Intn(total))
		}
	} else {
		for c := 0; c < total; c++ {
			emitProduct(c)
		}
	}
	// raw: every field independently at a boundary value (mostly invalid: exercises the order of checks)
	for i := 0; i < nRaw; i++ {
		r := next()
		o := &webp.EncoderOptions{}
		for _, a := range ax {
			k := r.Intn(a.n)
			if (a.name == "ICC" || a.name == "EXIF" || a.name == "XMP") && !r.Chance(1, 6) {
				k = r.Intn(4)
			}
			a.set(o, k)
		}
		add(o, "raw", r)
	}
}

// ---------- Go side of the ops ----------

func goOptValidate(o *webp.EncoderOptions) string { return optErrClass(webp.VerifValidate(o)) }

type nopWriter struct{ n int }

func (w *nopWriter) Write(p []byte) (int, error) { w.n += len(p); return len(p), nil }

// goOptFront: the real Encode when it is cheap (it must reject before touching pixels), otherwise
// the accept decision assembled from VerifValidate and the dimension rule. The real Encode for
// accepted records is run by the encode phase.
func goOptFront(c optCase) (line string, real bool) {
	wNil, iNil, alpha := strings.Contains(c.flags, "W"), strings.Contains(c.flags, "I"), strings.Contains(c.flags, "A")
	var img image.Image
	if !iNil {
		img = boundsImg{image.Rect(-2, 3, -2+c.w, 3+c.h), alpha}
		if c.w < 0 || c.h < 0 { // image.Rect would swap; build the rectangle literally
			img = boundsImg{image.Rectangle{Min: image.Pt(-2, 3), Max: image.Pt(-2+c.w, 3+c.h)}, alpha}
		}
	}
	valid := true
	if c.o != nil {
		valid = webp.VerifValidate(c.o) == nil
	}
	dimsOK := c.w >= 1 && c.h >= 1 && c.w <= 16383 && c.h <= 16383
	if wNil || iNil || !valid || !dimsOK {
		// must reject before touching pixels: watched, so that an implementation that walks an
		// "empty" 16383x16383 image instead is reported as a hang rather than stalling the suite
		key := fmt.Sprintf("front %d %d %v", c.w, c.h, c.o != nil && c.o.Lossless)
		return watchedEncode(key, func() string {
			if wNil {
				return optErrClass(webp.Encode(nil, img, c.o))
			}
			return optErrClass(webp.Encode(&nopWriter{}, img, c.o))
		}), true
	}
	return "ok", false
}

// watchedEncode runs a real Encode call that is expected to return at once (it must reject its
// arguments before touching pixels) under a recover guard and a watchdog.  Result: the canonical
// line, "panic:<class>", or "hang".  A hung call keeps running in its goroutine (it cannot be
// cancelled), so every later call with the same key is answered "hang" without running it.
var (
	optHangMu   sync.Mutex
	optHangKeys = map[string]bool{}
	optWatchdog = 10 * time.Second
)

func watchedEncode(key string, f func() string) string {
	optHangMu.Lock()
	hung := optHangKeys[key]
	optHangMu.Unlock()
	if hung {
		return "hang"
	}
	done := make(chan string, 1)
	go func() {
		s, pm := guard(f)
		if s == "panic" {
			s = "panic:" + panicClass(pm)
		}
		done <- s
	}()
	t := time.NewTimer(optWatchdog)
	defer t.Stop()
	select {
	case s := <-done:
		return s
	case <-t.C:
		optHangMu.Lock()
		optHangKeys[key] = true
		optHangMu.Unlock()
		return "hang"
	}
}

func goOptDoc() (string, error) {
	fset := token.NewFileSet()
	f, err := parser.ParseFile(fset, webp.VerifEncodeSource(), nil, parser.ParseComments)
	if err != nil {
		return "", err
	}
	reSent := regexp.MustCompile(`\(or any value < 0\) is treated as (\d+)`)
	reRange := regexp.MustCompile(`\((\d+)-(\d+), default (\d+)\)`)
	ws := regexp.MustCompile(`\s+`)
	var sent, rng []string
	found := false
	ast.Inspect(f, func(n ast.Node) bool {
		ts, ok := n.(*ast.TypeSpec)
		if !ok || ts.Name.Name != "EncoderOptions" {
			return true
		}
		st, ok := ts.Type.(*ast.StructType)
		if !ok {
			return true
		}
		found = true
		for _, fld := range st.Fields.List {
			if fld.Doc == nil || len(fld.Names) != 1 {
				continue
			}
			name := fld.Names[0].Name
			txt := ws.ReplaceAllString(fld.Doc.Text(), " ")
			if m := reSent.FindStringSubmatch(txt); m != nil {
				sent = append(sent, fmt.Sprintf("%s<0=%s", name, m[1]))
			}
			if m := reRange.FindStringSubmatch(txt); m != nil {
				rng = append(rng, fmt.Sprintf("%s=%s..%s/%s", name, m[1], m[2], m[3]))
			}
		}
		return false
	})
	if !found {
		return "", fmt.Errorf("EncoderOptions not found in %s", webp.VerifEncodeSource())
	}
	return "ok " + join(sent, ",") + " | " + join(rng, ","), nil
}

func goOptF32(bits uint32) string {
	x := math.Float32frombits(bits)
	is := "-"
	nan, inf := math.IsNaN(float64(x)), math.IsInf(float64(x), 0)
	if !nan && !inf && math.Abs(float64(x)) < (1<<62) {
		is = strconv.Itoa(int(x))
	}
	return fmt.Sprintf("ok nan=%s inf=%s lt0=%s gt0=%s gt100=%s int=%s str=%s", b2s(nan), b2s(inf), b2s(x < 0), b2s(x > 0), b2s(x > 100), is, f32str(bits))
}

func goOptDefCfg(q int) string {
	c := verifapi.LossyDefaultConfig(q)
	d := "0"
	if c.Dithering != 0 {
		d = "nonzero"
	}
	return fmt.Sprintf("ok q=%d ts=%d psnr=%s m=%d sns=%d fs=%d fsh=%d ft=%d part=%d seg=%d pass=%d pre=%d dith=%s qmin=%d qmax=%d ha=%d",
		c.Quality, c.TargetSize, f32str(f32bits(c.TargetPSNR)), c.Method, c.SNSStrength, c.FilterStrength, c.FilterSharpness,
		c.FilterType, c.Partitions, c.Segments, c.Pass, c.Preprocessing, d, c.QMin, c.QMax, c.HasAlpha)
}

// ---------- real encodes ----------

type encResult struct {
	data  []byte
	cls   string // "ok" | "err <class>" | "panic"
	panic string
	mod   string // "" or "<before> -> <after>": Encode wrote into the caller's option struct
}

// optSnapshot: every field of the caller's option struct, metadata by length, slice identity and
// (up to 4 KiB) content — Encode must treat *opts as read-only.
func optSnapshot(o *webp.EncoderOptions) string {
	if o == nil {
		return "nil"
	}
	md := func(b []byte) string {
		if b == nil {
			return "n"
		}
		if len(b) == 0 {
			return "0"
		}
		if len(b) > 4096 {
			return fmt.Sprintf("%d@%p", len(b), &b[0])
		}
		return fmt.Sprintf("%d@%p:%x", len(b), &b[0], fnv1a(b))
	}
	return encOpts(o) + "|" + md(o.ICC) + "|" + md(o.EXIF) + "|" + md(o.XMP)
}

func realEncode(img image.Image, o *webp.EncoderOptions) encResult {
	var buf bytes.Buffer
	var res encResult
	before := optSnapshot(o)
	s, pm := guard(func() string { return optErrClass(webp.Encode(&buf, img, o)) })
	res.cls, res.panic = s, pm
	if after := optSnapshot(o); after != before {
		res.mod = before + " -> " + after
	}
	if s == "ok" {
		res.data = buf.Bytes()
	}
	return res
}

// decodeCheck decodes an encoder output with the Go decoder; bad = "" when it decodes to w x h.
func decodeCheck(data []byte, w, h int) (im image.Image, bad string) {
	s, pm := guard(func() string {
		d, err := webp.Decode(bytes.NewReader(data))
		if err != nil {
			return "decode-error"
		}
		if d.Bounds().Dx() != w || d.Bounds().Dy() != h {
			return "decode-dims"
		}
		im = d
		return ""
	})
	if s == "panic" {
		return nil, "decode-panic:" + panicClass(pm)
	}
	return im, s
}

func decodesTo(data []byte, w, h int) string {
	_, bad := decodeCheck(data, w, h)
	return bad
}

// ---------- PSNR floor: a successful lossy Encode must produce a picture that resembles its source ----------

// optLumaPSNR: PSNR (dB, peak 255) of the BT.601 studio-range luma of the decoded picture against
// the source over the pixels the viewer can see (source alpha != 0; the encoder may repaint fully
// transparent pixels).  An opaque lossy file decodes to *image.YCbCr: its Y plane is used as it is
// (Go's YCbCr colour model is the full-range JFIF one, not the conversion of the format).
// n = number of such pixels; exact = no luma error at all (PSNR infinite).
func optLumaPSNR(src, dec image.Image) (psnr float64, exact bool, n int) {
	a := toNRGBA(src)
	w, h := a.Bounds().Dx(), a.Bounds().Dy()
	luma := func(p []byte) int { return (66*int(p[0])+129*int(p[1])+25*int(p[2])+128)>>8 + 16 }
	yc, isYC := dec.(*image.YCbCr)
	var b *image.NRGBA
	if !isYC {
		b = toNRGBA(dec)
	}
	var sse uint64
	for y := 0; y < h; y++ {
		pa := a.Pix[a.PixOffset(a.Rect.Min.X, a.Rect.Min.Y+y):]
		for x := 0; x < w; x++ {
			qa := pa[4*x : 4*x+4]
			if qa[3] == 0 {
				continue
			}
			var lb int
			if isYC {
				lb = int(yc.Y[yc.YOffset(yc.Rect.Min.X+x, yc.Rect.Min.Y+y)])
			} else {
				o := b.PixOffset(b.Rect.Min.X+x, b.Rect.Min.Y+y)
				lb = luma(b.Pix[o : o+4])
			}
			d := luma(qa) - lb
			sse += uint64(d * d)
			n++
		}
	}
	if n == 0 || sse == 0 {
		return math.Inf(1), true, n
	}
	return 10 * math.Log10(255*255*float64(n)/float64(sse)), false, n
}

// optSamePicture: two decoded pictures are the same picture (YCbCr: the three planes; otherwise
// the NRGBA pixels).
func optSamePicture(a, b image.Image) (bool, string) {
	ya, ok1 := a.(*image.YCbCr)
	yb, ok2 := b.(*image.YCbCr)
	if ok1 != ok2 {
		return false, fmt.Sprintf("decoded types differ: %T vs %T", a, b)
	}
	if !ok1 {
		return nrgbaEqual(toNRGBA(a), toNRGBA(b), false)
	}
	if ya.Rect.Dx() != yb.Rect.Dx() || ya.Rect.Dy() != yb.Rect.Dy() || ya.SubsampleRatio != yb.SubsampleRatio {
		return false, fmt.Sprintf("size %v/%v vs %v/%v", ya.Rect, ya.SubsampleRatio, yb.Rect, yb.SubsampleRatio)
	}
	w, h := ya.Rect.Dx(), ya.Rect.Dy()
	bad, first := 0, ""
	for y := 0; y < h; y++ {
		for x := 0; x < w; x++ {
			pa, pb := ya.YCbCrAt(ya.Rect.Min.X+x, ya.Rect.Min.Y+y), yb.YCbCrAt(yb.Rect.Min.X+x, yb.Rect.Min.Y+y)
			if pa != pb {
				if bad == 0 {
					first = fmt.Sprintf("first at (%d,%d): %v vs %v", x, y, pa, pb)
				}
				bad++
			}
		}
	}
	if bad > 0 {
		return false, fmt.Sprintf("%d of %d pixels differ, %s", bad, w*h, first)
	}
	return true, ""
}

// optQualityBand names the quality regime of a lossy encode: rate-controlled encodes (TargetSize,
// TargetPSNR) and a capped quantiser range (QMax < 100 lowers, QMin > 0 raises the quality the
// encoder may use) are bands of their own; otherwise the band of Quality.
func optQualityBand(o *webp.EncoderOptions) string {
	if o == nil {
		return "q60-84"
	}
	switch {
	case o.TargetSize > 0:
		return "target-size"
	case o.TargetPSNR > 0:
		return "target-psnr"
	}
	q := float64(o.Quality)
	if qm := o.QMax; qm >= 0 && float64(qm) < q { // resolveQMax: negative = 100; lossy.newPassStats treats 0 as 100
		if qm > 0 {
			q = float64(qm)
		}
	}
	if float64(o.QMin) > q {
		q = float64(o.QMin)
	}
	switch {
	case q < 25:
		return "q0-24"
	case q < 60:
		return "q25-59"
	case q < 85:
		return "q60-84"
	}
	return "q85-100"
}

type optImg struct {
	name string
	img  image.Image
	w, h int
	a    bool // has alpha
	spec map[string]any
	cls  string // content class for the PSNR floor: generator class name, or "cheap-<kind>"
}

// mkOptImg builds (and, for a replay, rebuilds) a generator image from its literal parameters.
func mkOptImg(seed, k uint64, w, h, cls, acls int) optImg {
	im := GenImage(NewRNG(seed, k), w, h, cls, acls)
	return optImg{imgDesc(w, h, cls, acls) + fmt.Sprintf("#%d", k), im, w, h, acls != AlphaNone,
		map[string]any{"seed": seed, "k": k, "w": w, "h": h, "cls": cls, "acls": acls}, imgClassNames[cls]}
}

// mkOptCheapImg: a threshold-crossing picture with cheap content (thresholds.go GenCheapImage).
func mkOptCheapImg(seed, k uint64, w, h, kind, acls int) optImg {
	im := GenCheapImage(NewRNG(seed, k), w, h, kind, acls)
	return optImg{cheapDesc(w, h, kind, acls) + fmt.Sprintf("#%d", k), im, w, h, acls != AlphaNone,
		map[string]any{"seed": seed, "k": k, "w": w, "h": h, "cheap": kind + 1, "acls": acls}, "cheap-" + cheapNames[kind]}
}

// mkOptColorImg: an opaque picture with exactly n distinct colours (thresholds.go GenColorCountImage).
func mkOptColorImg(seed, k uint64, w, h, n int) optImg {
	im := GenColorCountImage(NewRNG(seed, k), w, h, n)
	return optImg{fmt.Sprintf("%dx%d/colours-%d#%d", w, h, n, k), im, w, h, false,
		map[string]any{"seed": seed, "k": k, "w": w, "h": h, "colors": n}, "pal-count"}
}

// mkOptAlphaLevelsImg: a flat colour under an alpha plane with exactly n distinct levels
// (thresholds.go GenAlphaLevelsImage): the ALPH plane of a lossy encode is a few-colour VP8L picture.
func mkOptAlphaLevelsImg(seed, k uint64, w, h, n int) optImg {
	im := GenAlphaLevelsImage(NewRNG(seed, k), w, h, n)
	return optImg{fmt.Sprintf("%dx%d/alpha-levels-%d#%d", w, h, n, k), im, w, h, true,
		map[string]any{"seed": seed, "k": k, "w": w, "h": h, "alevels": n}, "flat"}
}

// optImgFromSpec rebuilds the picture of a finding.
func optImgFromSpec(sp map[string]any) optImg {
	num := func(k string) int { v, _ := sp[k].(float64); return int(v) }
	if n := num("colors"); n > 0 {
		return mkOptColorImg(uint64(num("seed")), uint64(num("k")), num("w"), num("h"), n)
	}
	if n := num("alevels"); n > 0 {
		return mkOptAlphaLevelsImg(uint64(num("seed")), uint64(num("k")), num("w"), num("h"), n)
	}
	if c := num("cheap"); c > 0 {
		return mkOptCheapImg(uint64(num("seed")), uint64(num("k")), num("w"), num("h"), c-1, num("acls"))
	}
	return mkOptImg(uint64(num("seed")), uint64(num("k")), num("w"), num("h"), num("cls"), num("acls"))
}

func optImages(seed uint64, rich bool) []optImg {
	mk := func(k uint64, w, h, cls, acls int) optImg { return mkOptImg(seed, 900+k, w, h, cls, acls) }
	imgs := []optImg{
		mk(1, 19, 17, ClsPhoto, AlphaGradient),
		mk(2, 24, 24, ClsPhoto, AlphaNone),
		mk(3, 16, 16, ClsPal16, AlphaBinary),
		mk(4, 1, 1, ClsNoise, AlphaSemiFlat),
	}
	if rich {
		imgs = append(imgs, mk(5, 23, 9, ClsNoise, AlphaNoise), mk(6, 8, 24, ClsGradient, AlphaFewLevels), mk(7, 17, 17, ClsPal4, AlphaNone))
	}
	return imgs
}

type optEncoder struct {
	rep    *Report
	budget int
	used   int
	cache  map[string]encResult
	// pending model checks: one optfront line per real encode
	lines  []string
	goOut  []string
	what   []string
	pairs  [][3]string // (key a, key b, why) of every pair asserted byte-identical
	probes []optProbe  // pairs on which the model decides: model-equal must imply byte-identical
	// phase: "" for the body of the suite; the equivalence blocks that are repeated later (at the
	// end, after the animation prelude) run under their own phase name = their own cache, so that
	// the encodes are really executed again in the process state of that moment.
	phase string
	// prelude: the animation encodes that ran (in this order) before the current phase; copied into
	// the Input of pair findings so that a replay in a fresh process runs them first
	prelude []any
	// PSNR bookkeeping: observed minimum per "<band>|<content class>" (finite values only)
	psnrMin map[string]float64
	decoded map[string]image.Image // decoded pictures kept for the layout-only comparison (big pictures only)
	keep    bool
}

type optProbe struct {
	ka, kb, label string
	same          bool
	a, b          string
	img           map[string]any
}

// probe encodes two values that differ in one field at a critical value (0 vs the default, …);
// whether they must be identical is decided by the model afterwards.
func (e *optEncoder) probe(im optImg, a, b *webp.EncoderOptions, label string) {
	ra, ok1 := e.encode(im, a)
	rb, ok2 := e.encode(im, b)
	if !ok1 || !ok2 {
		return
	}
	e.probes = append(e.probes, optProbe{im.name + "|" + encOpts(a), im.name + "|" + encOpts(b), label,
		ra.cls == rb.cls && bytes.Equal(ra.data, rb.data), encOpts(a), encOpts(b), im.spec})
}

func (e *optEncoder) encode(im optImg, o *webp.EncoderOptions) (encResult, bool) {
	key := im.name + "|" + encOpts(o)
	ckey := e.phase + "@" + key
	if r, ok := e.cache[ckey]; ok {
		return r, true
	}
	if e.used >= e.budget {
		return encResult{}, false
	}
	e.used++
	r := realEncode(im.img, o)
	e.cache[ckey] = r
	fl := "-"
	if im.a {
		fl = "A"
	}
	e.lines = append(e.lines, fmt.Sprintf("optfront %s %d %d %s", encOpts(o), im.w, im.h, fl))
	e.goOut = append(e.goOut, r.cls)
	e.what = append(e.what, key)
	e.rep.Count("encode:" + strings.SplitN(r.cls, " ", 2)[0])
	lossless := o != nil && o.Lossless
	if lossless {
		e.rep.Count("encode:lossless")
	} else {
		e.rep.Count("encode:lossy")
	}
	in := map[string]any{"op": "optpair", "a": encOpts(o), "b": encOpts(o), "img": im.spec}
	e.checkMod(r, in)
	if r.cls == "panic" {
		e.rep.Add(Finding{Kind: "property", Property: "C20", Signature: "panic:Encode:" + panicClass(r.panic),
			Detail: "webp.Encode panicked: " + r.panic, Input: in})
	}
	if r.cls == "ok" {
		dec, bad := decodeCheck(r.data, im.w, im.h)
		if bad != "" {
			e.rep.Add(Finding{Kind: "property", Property: "C20", Signature: "invalid-output:" + bad,
				Detail: "Encode succeeded but the Go decoder does not accept the file (" + bad + ")", Input: in})
		} else {
			if e.keep {
				e.decoded[ckey] = dec
			}
			if sig, detail := e.pictureCheck(im, o, dec); sig != "" {
				e.rep.Add(Finding{Kind: "property", Property: "C20", Signature: sig, Detail: detail, Input: in})
			}
		}
	}
	return r, true
}

// checkMod reports an Encode call that wrote into the option struct of its caller.
func (e *optEncoder) checkMod(r encResult, in map[string]any) {
	if r.mod != "" {
		e.rep.Add(Finding{Kind: "property", Property: "C20", Signature: "opts:caller-options-modified",
			Detail: "webp.Encode modified the EncoderOptions value of its caller: " + short(r.mod, 400), Input: in})
	}
}

// pictureCheck: the decoded picture of a successful encode against its source.  Lossless: exact
// (RGB of fully transparent pixels is free unless Exact).  Lossy: luma PSNR over the visible pixels
// not below the floor of the quality band and content class (optPSNRFloor).
func (e *optEncoder) pictureCheck(im optImg, o *webp.EncoderOptions, dec image.Image) (sig, detail string) {
	if o != nil && o.Lossless {
		if ok, why := nrgbaEqual(toNRGBA(im.img), toNRGBA(dec), !o.Exact); !ok {
			return "invalid-output:lossless-not-exact", "Lossless Encode succeeded but the decoded picture differs from the source: " + why
		}
		e.rep.Count("picture:lossless-exact")
		return "", ""
	}
	psnr, exact, n := optLumaPSNR(im.img, dec)
	band := optQualityBand(o)
	if exact || n == 0 {
		e.rep.Count("psnr:" + band + ":infinite")
		return "", ""
	}
	if n < optPSNRMinPixels {
		e.rep.Count("psnr:" + band + ":tiny-unchecked")
		return "", ""
	}
	k := band + "|" + im.cls
	if m, ok := e.psnrMin[k]; !ok || psnr < m {
		e.psnrMin[k] = psnr
	}
	floor := optPSNRFloor(band, im.cls)
	e.rep.Count("psnr:" + band + ":checked")
	if psnr < floor {
		return "invalid-output:psnr", fmt.Sprintf("lossy Encode succeeded and the file decodes, but the picture does not resemble the source: luma PSNR over %d visible pixels = %.2f dB, floor for %s / %s content = %.1f dB (%s)", n, psnr, band, im.cls, floor, im.name)
	}
	return "", ""
}

// optPSNRFloor: lowest acceptable luma PSNR (dB, peak 255) of a successful lossy encode, by quality
// band (optQualityBand) and content group: "hard" = noise and random-palette pictures, "smooth" =
// photo / gradient / flat / cheap threshold content.  Pictures with fewer than optPSNRMinPixels
// visible pixels are not judged (2x1, 1x17 … : a PSNR over a handful of pixels says nothing).
//
// Measured on the unchanged tree (quick seeds 1, 2, 3 and thorough seed 1; minimum over the whole
// option grid of the suite, dB):          smooth   hard        floor smooth / hard
//
//	q85-100                               26.45    26.08        20 / 18
//	q60-84                                33.66    25.47        26 / 18
//	q25-59                                24.78    17.12        18 / 11
//	q0-24, target-size, target-psnr       22.25    15.96        15 / 10
//
// (the 19x17 photo with gradient alpha caps at 26..30 dB whatever the quality: its decoded RGB goes
// through chroma upsampling and clipping before the luma is recomputed; the large q90 pictures of the
// layout-only block reach 42 dB (noise) and 39..44 dB (photo)).  A picture decoded from a token
// stream that does not belong to its mode partition lands at 5..12 dB.
const optPSNRMinPixels = 64

func optPSNRFloor(band, cls string) float64 {
	hard := cls == "noise" || strings.HasPrefix(cls, "pal")
	var smooth, hrd float64
	switch band {
	case "q85-100":
		smooth, hrd = 20, 18
	case "q60-84":
		smooth, hrd = 26, 18
	case "q25-59":
		smooth, hrd = 18, 11
	default: // q0-24, target-size, target-psnr
		smooth, hrd = 15, 10
	}
	if hard {
		return hrd
	}
	return smooth
}

// same asserts byte-identical outputs (or identical error classes) for two option values.
func (e *optEncoder) same(im optImg, a, b *webp.EncoderOptions, sig, why string) {
	ra, ok1 := e.encode(im, a)
	rb, ok2 := e.encode(im, b)
	if !ok1 || !ok2 {
		return
	}
	e.rep.Count("pair:" + strings.SplitN(sig, ":", 2)[0])
	e.pairs = append(e.pairs, [3]string{im.name + "|" + encOpts(a), im.name + "|" + encOpts(b), sig})
	e.rep.Eval(ra.cls == "ok", []byte(im.name+"|"+encOpts(a)+"|"+encOpts(b)))
	if ra.cls != rb.cls || !bytes.Equal(ra.data, rb.data) {
		// Rule out an encoder whose output depends on earlier calls before blaming the options:
		// re-encode both alternately; if either value has more than one output, or the output
		// sets meet, the difference is not caused by the options (that is C11/C10, not C20).
		seenA, seenB := map[string]bool{digest(ra.data): true}, map[string]bool{digest(rb.data): true}
		for k := 0; k < 4; k++ {
			xa, xb := realEncode(im.img, a), realEncode(im.img, b)
			e.checkMod(xa, map[string]any{"op": "optpair", "a": encOpts(a), "b": encOpts(a), "img": im.spec})
			e.checkMod(xb, map[string]any{"op": "optpair", "a": encOpts(b), "b": encOpts(b), "img": im.spec})
			seenA[digest(xa.data)] = true
			seenB[digest(xb.data)] = true
		}
		meet := false
		for k := range seenA {
			if seenB[k] {
				meet = true
			}
		}
		prop := "C20"
		if len(seenA) > 1 || len(seenB) > 1 || meet {
			mode := "lossy"
			if a != nil && a.Lossless {
				mode = "lossless"
			}
			prop, sig = "C11", "history-dependent-encode:"+mode
			why = "same image and options encode to different bytes depending on earlier Encode calls (seen while checking: " + why + ")"
			e.rep.Count("history-dependent-encode")
		}
		in := map[string]any{"op": "optpair", "a": encOpts(a), "b": encOpts(b), "img": im.spec}
		if len(e.prelude) > 0 {
			in["prelude"] = append([]any(nil), e.prelude...)
		}
		e.rep.Add(Finding{Kind: "property", Property: prop, Signature: sig,
			Detail: fmt.Sprintf("%s: outputs differ on %s: %s %s vs %s %s (a: %d distinct outputs, b: %d)", why, im.name, ra.cls, digest(ra.data), rb.cls, digest(rb.data), len(seenA), len(seenB)),
			Input:  in})
	}
}

func cloneOpts(o *webp.EncoderOptions) *webp.EncoderOptions { c := *o; return &c }

// explicitBase: a valid value with every sentinel field at its documented default, explicitly.
func explicitBase(r *RNG, lossless bool) *webp.EncoderOptions {
	o := &webp.EncoderOptions{
		Lossless: lossless, Quality: []float32{30, 75, 90}[r.Intn(3)], Method: []int{0, 2, 4, 4, 5}[r.Intn(5)],
		SNSStrength: 50, FilterStrength: 60, FilterSharpness: r.Intn(8), FilterType: 1, Partitions: r.Intn(4),
		Segments: 4, Pass: 1, QMin: 0, QMax: 100, AlphaCompression: 1, AlphaFiltering: 1, AlphaQuality: 100,
		Preprocessing: r.Intn(4), Exact: r.Chance(1, 3), UseSharpYUV: r.Chance(1, 4),
	}
	if r.Chance(1, 3) {
		o.ICC = metaBuf(3)
	}
	return o
}

type sentinelField struct {
	name  string
	deflt int
	zero  bool // 0 is a sentinel too
	set   func(*webp.EncoderOptions, int)
}

var sentinelFields = []sentinelField{
	{"SNSStrength", 50, false, func(o *webp.EncoderOptions, v int) { o.SNSStrength = v }},
	{"FilterStrength", 60, false, func(o *webp.EncoderOptions, v int) { o.FilterStrength = v }},
	{"FilterType", 1, false, func(o *webp.EncoderOptions, v int) { o.FilterType = v }},
	{"Segments", 4, true, func(o *webp.EncoderOptions, v int) { o.Segments = v }},
	{"Pass", 1, true, func(o *webp.EncoderOptions, v int) { o.Pass = v }},
	{"QMax", 100, false, func(o *webp.EncoderOptions, v int) { o.QMax = v }},
	{"AlphaCompression", 1, false, func(o *webp.EncoderOptions, v int) { o.AlphaCompression = v }},
	{"AlphaFiltering", 1, false, func(o *webp.EncoderOptions, v int) { o.AlphaFiltering = v }},
	{"AlphaQuality", 100, false, func(o *webp.EncoderOptions, v int) { o.AlphaQuality = v }},
}

// lossy-only fields with a valid non-default value (the ones whose doc comment says
// "lossy encoding only" are marked doc=true; the rest are VP8 parameters by nature)
var lossyOnly = []struct {
	name string
	doc  bool
	set  func(*webp.EncoderOptions)
}{
	{"TargetSize", false, func(o *webp.EncoderOptions) { o.TargetSize = 1000 }},
	{"TargetPSNR", false, func(o *webp.EncoderOptions) { o.TargetPSNR = 40 }},
	{"Preprocessing", true, func(o *webp.EncoderOptions) { o.Preprocessing = 3 }},
	{"SNSStrength", false, func(o *webp.EncoderOptions) { o.SNSStrength = 0 }},
	{"FilterStrength", false, func(o *webp.EncoderOptions) { o.FilterStrength = 100 }},
	{"FilterSharpness", false, func(o *webp.EncoderOptions) { o.FilterSharpness = 7 }},
	{"FilterType", false, func(o *webp.EncoderOptions) { o.FilterType = 0 }},
	{"Partitions", false, func(o *webp.EncoderOptions) { o.Partitions = 3 }},
	{"Segments", false, func(o *webp.EncoderOptions) { o.Segments = 1 }},
	{"Pass", false, func(o *webp.EncoderOptions) { o.Pass = 10 }},
	{"QMin", false, func(o *webp.EncoderOptions) { o.QMin = 50 }},
	{"QMax", false, func(o *webp.EncoderOptions) { o.QMax = 0 }},
	{"AlphaCompression", true, func(o *webp.EncoderOptions) { o.AlphaCompression = 0 }},
	{"AlphaFiltering", true, func(o *webp.EncoderOptions) { o.AlphaFiltering = 2 }},
	{"AlphaQuality", true, func(o *webp.EncoderOptions) { o.AlphaQuality = 0 }},
	{"UseSharpYUV", false, func(o *webp.EncoderOptions) { o.UseSharpYUV = true }},
	{"EmulateJpegSize", false, func(o *webp.EncoderOptions) { o.EmulateJpegSize = true }},
	{"Preset", false, func(o *webp.EncoderOptions) { o.Preset = webp.PresetText }},
}

func suiteOpts(rep *Report) error {
	rich := rep.Tier == "thorough"
	rep.Rule = "records: EncoderOptions values = fixed (nil, zero value, DefaultOptions, every preset) + single-field boundaries on a valid base + all pairs of fields × all pairs of boundary values {min-1,min,min+1,default,max-1,max,max+1,-1,-2,0,MinInt,MaxInt} (floats: ±0, subnormals, 99.99999, 100, 100.00001, -0.0001, NaN×3, ±Inf, ±MaxFloat32; metadata nil/empty/1/5/100MB/100MB+1) on valid bases (sampled in quick, complete ×60 bases in thorough) + full product of the small fields + fully random boundary records; each record goes through validateConfig (hook) and, with a writer/image situation (nil writer, nil image, dims 1x1 … 16384, ≤0, alpha), through Encode's front end, and through the Lean model (dimension pairs include Min>Max on BOTH axes: -3x-4, -1x-1, -16x-16, -16383x-16383, MinInt32xMinInt32); empty rectangles of every sign pattern on NRGBA/RGBA/Gray/NRGBA64/Paletted/generic images through the real Encode under a recover guard (must return the dimension error, write nothing); encodes: real webp.Encode on images ≤ 24x24 (lossy/lossless, with/without alpha) for sentinel/default pairs, nil vs DefaultOptions, lossy-only options under Lossless, EmulateJpegSize, Preset, boundary values, boundary dimensions, records the model resolves identically; every real Encode call: the caller's option struct is unchanged afterwards, a successful lossless output decodes to exactly the source (alpha-0 RGB free unless Exact), a successful lossy output has luma PSNR over the visible pixels >= floor (dB, smooth/hard content: q85-100 20/18, q60-84 26/18, q25-59 18/11, q0-24 and TargetSize/TargetPSNR 15/10; observed minima on the unchanged tree over quick seeds 1-3 + thorough seed 1: 26.45/26.08, 33.66/25.47, 24.78/17.12, 22.25/15.96; pictures with < 64 visible pixels not judged); layout-only options (Partitions 1..3, AlphaCompression 0, AlphaFiltering 0/2, metadata, EmulateJpegSize, Preset) on two large textured pictures (208x176 noise+alpha and 320x320 photo at Quality 90: 28..42 KB of token partitions = 320k..500k tokens counted with an instrumented build for seeds 1-3, i.e. 10..16 token pages of 32768) must decode to exactly the pixels of the Partitions=0 encode; 3 noise pictures per run (thorough 6) of thresholds.go TokenCases() (48x48 .. 80x64, 33x120 at Quality 90, Methods 3..6: token count around ONE token page of 32768) under the same Partitions 1..3 == Partitions 0 pixel oracle; 5 pictures per run (thorough 40) on threshold-crossing sizes (thresholds.go, cheap content) and 3 (thorough all) colour-count pictures (GenColorCountImage, exactly n colours around 2 / 4 / 16 / 192 / 256) under nil == DefaultOptions() == OptionsForPreset(PresetDefault,75), decodable output and exact lossless; few-colour pictures wider than a transform tile (width 20..140, height 3..60): one lossless encode per cell of Method 0..6 x Quality {0,50,75,90,100} on a picture with n colours (n in 2,3,4,5,15,16,17 or a pal2/pal4/pal16/pal256 generator picture, with and without binary alpha) and one lossy encode per cell of Method 0..6 x AlphaQuality {100,90,50} whose ALPH plane has n alpha levels - no panic, decodable, lossless exact (buckets few-colours:*); the nil/default/preset equivalence, DefaultOptions() vs model and the check that two DefaultOptions() results are distinct objects without shared state are re-run at the END of the suite and after each step of an animation prelude (animation.Encoder Lossless / Quality 10, two frames and one frame); non-trivial = record accepted by validateConfig or rejected by a check after the first one, and every encode pair whose base encode succeeded; distinct = FNV of the encoded record + situation"

	var lines, goOut, what []string
	emit := func(line, g, w string) { lines = append(lines, line); goOut = append(goOut, g); what = append(what, w) }

	// --- exact ties of the small pieces ---
	doc, err := goOptDoc()
	if err != nil {
		return err
	}
	emit("optdoc", doc, "doc")
	emit("optdefault", "ok "+canonOpts(webp.DefaultOptions()), "DefaultOptions")
	emit("optenum", fmt.Sprintf("ok none=%d fast=%d best=%d", verifapi.AlphaFilterModeNone, verifapi.AlphaFilterModeFast, verifapi.AlphaFilterModeBest), "enum")
	for p := -2; p <= 7; p++ {
		for _, qb := range qualityBits {
			emit(fmt.Sprintf("optpreset %d %d", p, qb), "ok "+canonOpts(webp.OptionsForPreset(webp.Preset(p), math.Float32frombits(qb))), "OptionsForPreset")
		}
	}
	for _, q := range []int{math.MinInt, -1, 0, 1, 50, 99, 100, 101, math.MaxInt} {
		emit(fmt.Sprintf("optdefcfg %d", q), goOptDefCfg(q), "DefaultConfig")
	}
	for _, f := range sentinelFields {
		for _, v := range []int{math.MinInt, -2, -1, 0, 1, f.deflt, f.deflt + 1, 100, 101, math.MaxInt} {
			g, _ := webp.VerifResolve(f.name, v)
			emit(fmt.Sprintf("optresolve %s %d", f.name, v), fmt.Sprintf("ok %d", g), "resolve")
		}
	}
	nF32 := 20000
	if rich {
		nF32 = 400000
	}
	for i := 0; i < nF32; i++ {
		r := NewRNG(rep.Seed, uint64(7_000_000+i))
		var b uint32
		switch r.Intn(4) {
		case 0:
			b = uint32(r.Next())
		case 1: // around 100.0
			b = 0x42C80000 + uint32(r.Intn(64)) - 32
		case 2: // small magnitudes, both signs
			b = uint32(r.Intn(1<<12)) | uint32(r.Intn(2))<<31
		default: // 0..128 region with random mantissa
			b = uint32(0x3F000000+r.Intn(0x04000000)) | uint32(r.Intn(8)/7)<<31
		}
		emit(fmt.Sprintf("optf32 %d", b), goOptF32(b), "f32")
	}
	for _, b := range append(append([]uint32{}, qualityBits...), psnrBits...) {
		emit(fmt.Sprintf("optf32 %d", b), goOptF32(b), "f32")
	}
	nSmall := len(lines)
	rep.CountN("exact-ties", nSmall)

	// --- comparison of Go lines with the model's lines ---
	compare := func(ls, gs, ws, leanOut []string) {
		for i := range ls {
			l, g := leanOut[i], gs[i]
			agree := l == g
			if strings.HasPrefix(ls[i], "optfront ") {
				// the model prints the resolved configuration after "ok"; Go can only observe ok / err class
				agree = l == g || (g == "ok" && strings.HasPrefix(l, "ok "))
			}
			if !agree {
				op := strings.Fields(ls[i])[0]
				sig := "opts-model:" + op
				if op == "optdoc" {
					sig = "opts-doc-constants"
				}
				rep.Add(Finding{Kind: "correspondence", Property: "C20", Signature: sig,
					Detail: fmt.Sprintf("%s (%s): go=%q lean=%q", short(ls[i], 300), ws[i], short(g, 300), short(l, 300)),
					Input:  map[string]any{"op": "optline", "line": ls[i]}})
			}
			if l == "panic" || l == "hang" || l == "bad-op" {
				rep.Add(Finding{Kind: "correspondence", Property: "C20", Signature: "opts-model-" + l,
					Detail: "Lean driver answered " + l + " on " + short(ls[i], 300), Input: map[string]any{"op": "optline", "line": ls[i]}})
			}
		}
	}
	lo, err := RunDriver(lines)
	if err != nil {
		return err
	}
	compare(lines, goOut, what, lo)
	lines, goOut, what = nil, nil, nil

	// --- records through validateConfig and the front end (streamed in batches) ---
	groups := map[string][]string{} // resolved configuration (model) -> distinct option encodings
	nRecords := 0
	var sampleCases []optCase
	flush := func() error {
		if len(lines) == 0 {
			return nil
		}
		lo, err := RunDriver(lines)
		if err != nil {
			return err
		}
		compare(lines, goOut, what, lo)
		for i := range lines {
			if len(groups) < 200000 && strings.HasPrefix(lines[i], "optfront ") && strings.HasPrefix(lo[i], "ok ") && goOut[i] == "ok" {
				enc := strings.Fields(lines[i])[1]
				g := groups[lo[i]]
				if len(g) < 2 && (len(g) == 0 || g[0] != enc) {
					groups[lo[i]] = append(g, enc)
				}
			}
		}
		lines, goOut, what = lines[:0], goOut[:0], what[:0]
		return nil
	}
	var ferr error
	genOptCases(rep.Seed, rep.Tier, func(c optCase) {
		if ferr != nil {
			return
		}
		nRecords++
		if nRecords%4999 == 1 && len(sampleCases) < 6 {
			sampleCases = append(sampleCases, c)
		}
		enc := encOpts(c.o)
		vcls := "nil"
		if c.o != nil {
			g, pm := guard(func() string { return goOptValidate(c.o) })
			if g == "panic" {
				rep.Add(Finding{Kind: "property", Property: "C20", Signature: "panic:validateConfig:" + panicClass(pm),
					Detail: "validateConfig panicked: " + pm, Input: map[string]any{"op": "optline", "line": "optvalidate " + enc}})
			}
			emit("optvalidate "+enc, g, c.kind)
			vcls = g
		}
		fl := fmt.Sprintf("optfront %s %d %d %s", enc, c.w, c.h, c.flags)
		var real bool
		g, pm := guard(func() string { s, r := goOptFront(c); real = r; return s })
		if strings.HasPrefix(g, "panic:") { // from the watched real Encode
			pm, g = g[len("panic:"):], "panic"
		}
		if g == "panic" {
			rep.Add(Finding{Kind: "property", Property: "C20", Signature: "panic:Encode-front:" + panicClass(pm),
				Detail: "webp.Encode panicked: " + pm, Input: map[string]any{"op": "optline", "line": fl}})
		}
		if g == "hang" {
			rep.Add(Finding{Kind: "property", Property: "C20", Signature: "hang:Encode-front",
				Detail: fmt.Sprintf("webp.Encode did not return within %v on arguments it must reject before touching pixels (image %dx%d, flags %s)", optWatchdog, c.w, c.h, c.flags),
				Input:  map[string]any{"op": "optline", "line": fl}})
		}
		emit(fl, g, c.kind)
		rep.Count("kind:" + c.kind)
		rep.Count("validate:" + vcls)
		rep.Count("front:" + g)
		if real {
			rep.Count("front-by-real-Encode")
		}
		rep.Eval(vcls == "ok" || (vcls != "err Quality" && vcls != "nil") || c.o == nil, []byte(fl))
		if len(lines) >= 200000 {
			ferr = flush()
		}
	})
	if ferr != nil {
		return ferr
	}
	if err := flush(); err != nil {
		return err
	}

	// --- real encodes ---
	imgs := optImages(rep.Seed, rich)
	budget := 400
	if rich {
		budget = 6000
	}
	E := &optEncoder{rep: rep, budget: budget, cache: map[string]encResult{}, psnrMin: map[string]float64{}, decoded: map[string]image.Image{}}
	lossyImgs, losslessImgs := []optImg{imgs[0], imgs[1]}, []optImg{imgs[2], imgs[0]}
	if rich {
		lossyImgs = append(lossyImgs, imgs[4], imgs[5], imgs[3])
		losslessImgs = append(losslessImgs, imgs[4], imgs[6], imgs[3])
	}
	nBases := 1
	if rich {
		nBases = 8
	}
	rb := func(k int) *RNG { return NewRNG(rep.Seed, uint64(9_000_000+k)) }

	// nil vs DefaultOptions(), and the zero value must at least be accepted (the block is repeated
	// at the end of the suite and after every step of the animation prelude, see below)
	E.defaultsFresh("start")
	for _, im := range imgs {
		E.same(im, nil, webp.DefaultOptions(), "nil-vs-default", "nil options vs DefaultOptions()")
		E.same(im, webp.DefaultOptions(), webp.OptionsForPreset(webp.PresetDefault, 75), "preset-default-vs-default", "OptionsForPreset(PresetDefault,75) vs DefaultOptions()")
		E.encode(im, &webp.EncoderOptions{})
	}
	// sentinels
	for bi := 0; bi < nBases; bi++ {
		for ii, im := range lossyImgs {
			r := rb(bi*16 + ii)
			base := explicitBase(r, false)
			all := cloneOpts(base)
			for _, f := range sentinelFields {
				vals := []int{-1, []int{-2, math.MinInt, -100}[r.Intn(3)]}
				if f.zero {
					vals = append(vals, 0)
				}
				for _, v := range vals {
					o := cloneOpts(base)
					f.set(o, v)
					cls := "neg"
					if v == 0 {
						cls = "zero"
					}
					E.same(im, o, base, "sentinel:"+f.name+":"+cls, fmt.Sprintf("%s=%d vs documented default %d", f.name, v, f.deflt))
				}
				f.set(all, -1)
			}
			E.same(im, all, base, "sentinel:all", "all sentinel fields -1 vs all explicit defaults")
		}
		// sentinels must also be harmless under Lossless
		r := rb(bi*16 + 9)
		base := explicitBase(r, true)
		all := cloneOpts(base)
		for _, f := range sentinelFields {
			f.set(all, -1)
		}
		all.Segments, all.Pass = 0, 0
		E.same(losslessImgs[bi%len(losslessImgs)], all, base, "sentinel:all-lossless", "all sentinels vs explicit defaults, lossless")
	}
	// lossy-only options under Lossless; EmulateJpegSize; Preset
	for bi := 0; bi < nBases; bi++ {
		for ii, im := range losslessImgs {
			r := rb(1000 + bi*16 + ii)
			base := explicitBase(r, true)
			base.UseSharpYUV = false
			all := cloneOpts(base)
			for _, f := range lossyOnly {
				o := cloneOpts(base)
				f.set(o)
				f.set(all)
				E.same(im, o, base, "lossless-lossy-only:"+f.name, f.name+" changed under Lossless")
			}
			all.QMin, all.QMax = 20, 30
			E.same(im, all, base, "lossless-lossy-only:all", "all lossy-only fields changed under Lossless")
		}
		for ii, im := range lossyImgs {
			r := rb(2000 + bi*16 + ii)
			base := explicitBase(r, false)
			o := cloneOpts(base)
			o.EmulateJpegSize = true
			E.same(im, o, base, "no-effect:EmulateJpegSize", "EmulateJpegSize=true vs false")
			for p := 1; p <= 5; p++ {
				o := cloneOpts(base)
				o.Preset = webp.Preset(p)
				E.same(im, o, base, "preset-field", fmt.Sprintf("Preset=%d vs PresetDefault, other fields equal (model: Preset is not read after validation)", p))
			}
		}
	}
	// directed probes at the values where a `>=` / `>` slip in the propagation block would show:
	// explicit 0 (and 1) against the explicit default, field by field; the model decides equality
	{
		im := lossyImgs[0]
		base := &webp.EncoderOptions{Quality: 60, Method: 4, TargetPSNR: 42, SNSStrength: 50, FilterStrength: 60, FilterType: 1,
			Segments: 4, Pass: 1, QMax: 100, AlphaCompression: 1, AlphaFiltering: 1, AlphaQuality: 100}
		for _, f := range sentinelFields {
			for _, v := range []int{0, 1, 2} {
				if v == f.deflt {
					continue
				}
				o := cloneOpts(base)
				f.set(o, v)
				if webp.VerifValidate(o) != nil {
					continue
				}
				E.probe(im, o, base, fmt.Sprintf("%s=%d vs %d", f.name, v, f.deflt))
			}
		}
	}
	// targeted sensitivity for the fields that only act in special modes
	{
		im := lossyImgs[0]
		sens := func(name string, a, b *webp.EncoderOptions) {
			ra, ok1 := E.encode(im, a)
			rb, ok2 := E.encode(im, b)
			if ok1 && ok2 && ra.cls == "ok" && rb.cls == "ok" && !bytes.Equal(ra.data, rb.data) {
				rep.Count("sensitive:" + name)
			}
		}
		search := &webp.EncoderOptions{Quality: 50, Method: 4, TargetPSNR: 45, SNSStrength: 50, FilterStrength: 60, FilterType: 1, Segments: 4, Pass: 6, QMax: 100, AlphaCompression: 1, AlphaFiltering: 1, AlphaQuality: 100}
		qmax := cloneOpts(search)
		qmax.QMax = 20
		sens("QMax", search, qmax)
		qmin := cloneOpts(search)
		qmin.TargetPSNR, qmin.QMin = 20, 90
		lo := cloneOpts(search)
		lo.TargetPSNR = 20
		sens("QMin", lo, qmin)
		m1 := cloneOpts(search)
		m1.TargetPSNR, m1.TargetSize, m1.Pass = 0, 400, 1
		m1p := cloneOpts(m1)
		m1p.Pass = 10
		{
			ra, ok1 := E.encode(lossyImgs[1], m1)
			rb, ok2 := E.encode(lossyImgs[1], m1p)
			if ok1 && ok2 && ra.cls == "ok" && rb.cls == "ok" && !bytes.Equal(ra.data, rb.data) {
				rep.Count("sensitive:Pass")
			}
		}
		ll := &webp.EncoderOptions{Lossless: true, Quality: 40, Method: 2, QMax: -1}
		for name, f := range map[string]func(*webp.EncoderOptions){
			"lossless.Quality": func(o *webp.EncoderOptions) { o.Quality = 80 },
			"lossless.Method":  func(o *webp.EncoderOptions) { o.Method = 6 },
			"lossless.Exact":   func(o *webp.EncoderOptions) { o.Exact = true },
			"lossless.ICC":     func(o *webp.EncoderOptions) { o.ICC = metaBuf(4) },
		} {
			o := cloneOpts(ll)
			f(o)
			ra, ok1 := E.encode(imgs[0], ll)
			rb, ok2 := E.encode(imgs[0], o)
			if ok1 && ok2 && !bytes.Equal(ra.data, rb.data) {
				rep.Count("sensitive:" + name)
			}
		}
	}
	// boundary dimensions (cheap: one row / one column)
	for _, d := range [][2]int{{1, 1}, {16383, 1}, {1, 16383}, {2, 1}, {1, 2}, {17, 1}, {1, 17}} {
		for _, acls := range []int{AlphaNone, AlphaGradient} {
			im := mkOptImg(rep.Seed, 555, d[0], d[1], ClsGradient, acls)
			E.encode(im, nil)
			E.encode(im, &webp.EncoderOptions{Lossless: true, Quality: 20, Method: 1})
			rep.Count(fmt.Sprintf("dims:%dx%d", d[0], d[1]))
		}
	}

	// empty rectangles on the concrete image types (every sign pattern of Dx/Dy ≤ 0, incl. Min > Max
	// on BOTH axes, where Dx()*Dy() > 0): the real Encode, under a recover guard, must return the
	// dimension error and write nothing — with nil, default, lossy and lossless options.
	for ri, rc := range optEmptyRects {
		for ti := range optEmptyTypes {
			for oi := range optEmptyOpts {
				if bad, detail := emptyBoundsCheck(ri, ti, oi); bad != "" {
					rep.Add(Finding{Kind: "property", Property: "C20", Signature: "empty-bounds:" + bad,
						Detail: detail, Input: map[string]any{"op": "optempty", "rect": ri, "type": ti, "opts": oi}})
				}
				rep.Eval(true, []byte(fmt.Sprintf("optempty %d %d %d", ri, ti, oi)))
			}
		}
		sx, sy := "neg", "neg"
		if rc.Dx() == 0 {
			sx = "zero"
		}
		if rc.Dy() == 0 {
			sy = "zero"
		} else if rc.Dy() > 0 {
			sy = "pos"
		}
		if rc.Dx() > 0 {
			sx = "pos"
		}
		rep.Count("empty-bounds:dx-" + sx + ":dy-" + sy)
	}

	// boundary values: must not panic, must decode; sensitivity of each resolved field
	type bv struct {
		field string
		set   func(*webp.EncoderOptions)
	}
	var bvs []bv
	for _, f := range optIntFields {
		if f.get == nil {
			continue
		}
		f := f
		for _, v := range []int{f.lo, f.lo + 1, f.hi - 1, f.hi} {
			v := v
			if f.name == "TargetSize" && (v == 0 || v == math.MaxInt-1) {
				continue
			}
			bvs = append(bvs, bv{fmt.Sprintf("%s=%d", f.name, v), func(o *webp.EncoderOptions) {
				*f.get(o) = v
				if f.name == "QMin" {
					o.QMax = 100
				}
				if f.name == "QMax" {
					o.QMin = 0
				}
			}})
		}
	}
	bvs = append(bvs, bv{"TargetSize=100", func(o *webp.EncoderOptions) { o.TargetSize = 100 }},
		bv{"QMin=QMax=37", func(o *webp.EncoderOptions) { o.QMin, o.QMax = 37, 37 }},
		bv{"QMin=QMax=0", func(o *webp.EncoderOptions) { o.QMin, o.QMax = 0, 0 }},
		bv{"Exact", func(o *webp.EncoderOptions) { o.Exact = !o.Exact }},
		bv{"UseSharpYUV", func(o *webp.EncoderOptions) { o.UseSharpYUV = !o.UseSharpYUV }},
		bv{"ICC=empty", func(o *webp.EncoderOptions) { o.ICC = []byte{} }},
		bv{"EXIF=1", func(o *webp.EncoderOptions) { o.EXIF = metaBuf(1) }},
		bv{"XMP=5", func(o *webp.EncoderOptions) { o.XMP = metaBuf(5) }})
	for _, qb := range []uint32{0x00000000, 0x80000000, 0x00000001, 0x3F000000, 0x42C7FFFF, 0x42C80000} {
		qb := qb
		bvs = append(bvs, bv{"Quality=" + f32str(qb), func(o *webp.EncoderOptions) { o.Quality = math.Float32frombits(qb) }})
	}
	for _, pb := range []uint32{0x00000001, 0x41F00000, 0x42C80000, 0x7F7FFFFF, 0x80000000} {
		pb := pb
		bvs = append(bvs, bv{"TargetPSNR=" + f32str(pb), func(o *webp.EncoderOptions) { o.TargetPSNR = math.Float32frombits(pb) }})
	}
	for bi := 0; bi < nBases; bi++ {
		for _, lossless := range []bool{false, true} {
			ims := lossyImgs
			if lossless {
				ims = losslessImgs
			}
			im := ims[bi%len(ims)]
			if !lossless {
				im = lossyImgs[0] // the alpha image exercises the alpha options
				if bi > 0 {
					im = ims[bi%len(ims)]
				}
			}
			r := rb(3000 + bi*2)
			base := explicitBase(r, lossless)
			base.Preprocessing = 0
			rbase, ok := E.encode(im, base)
			if !ok {
				break
			}
			for _, b := range bvs {
				o := cloneOpts(base)
				b.set(o)
				res, ok := E.encode(im, o)
				if !ok {
					break
				}
				rep.Eval(true, []byte("bv|"+im.name+"|"+encOpts(o)))
				if res.cls != "ok" {
					rep.Count("boundary-rejected:" + b.field)
				} else if !lossless && !bytes.Equal(res.data, rbase.data) {
					rep.Count("sensitive:" + strings.SplitN(b.field, "=", 2)[0])
				}
			}
			// pairs of boundary values
			np := 30
			if rich {
				np = 150
			}
			for k := 0; k < np; k++ {
				o := cloneOpts(base)
				b1, b2 := bvs[r.Intn(len(bvs))], bvs[r.Intn(len(bvs))]
				b1.set(o)
				b2.set(o)
				if webp.VerifValidate(o) != nil {
					continue
				}
				if _, ok := E.encode(im, o); !ok {
					break
				}
				rep.Eval(true, []byte("bv2|"+im.name+"|"+encOpts(o)))
			}
		}
	}
	// --- outside the model: typed-nil pointers inside the interfaces (img == nil / w == nil are false) ---
	{
		_, pm := guard(func() string { var p *image.NRGBA; return optErrClass(webp.Encode(&bytes.Buffer{}, p, nil)) })
		if pm != "" {
			rep.Count("typed-nil-image:panic")
			rep.Notes = append(rep.Notes, "Encode(w, (*image.NRGBA)(nil), nil) panics ("+short(pm, 80)+"): the `img == nil` check only sees an untyped nil; the model's imgNil means the interface value is nil")
		}
		_, pm = guard(func() string { var w *bytes.Buffer; return optErrClass(webp.Encode(w, imgs[3].img, nil)) })
		if pm != "" {
			rep.Count("typed-nil-writer:panic")
			rep.Notes = append(rep.Notes, "Encode((*bytes.Buffer)(nil), img, nil) panics inside the writer ("+short(pm, 80)+"): same remark for `w == nil`")
		}
	}

	// --- records the model resolves identically must encode identically ---
	var keys []string
	for k, v := range groups {
		if len(v) >= 2 {
			keys = append(keys, k)
		}
	}
	sort.Strings(keys)
	nGroups := 0
	for _, k := range keys {
		if E.used+2 > E.budget {
			break
		}
		v := groups[k]
		oa, _ := decOpts(v[0])
		ob, _ := decOpts(v[1])
		if (oa != nil && len(oa.ICC)+len(oa.EXIF)+len(oa.XMP) > 64) || (ob != nil && len(ob.ICC)+len(ob.EXIF)+len(ob.XMP) > 64) {
			continue
		}
		lossless := oa != nil && oa.Lossless
		im := lossyImgs[nGroups%len(lossyImgs)]
		if lossless {
			im = losslessImgs[nGroups%len(losslessImgs)]
		}
		E.same(im, oa, ob, "model-equal-records", "two records the model resolves to the same configuration")
		nGroups++
	}
	rep.CountN("model-equal-groups", nGroups)

	// The blocks below are fixed lists, not samples: they get their own budget.
	E.budget = E.used + 600
	tBlock := time.Now()
	lap := func(name string) {
		rep.Extra["block_s:"+name] = math.Round(time.Since(tBlock).Seconds()*1000) / 1000
		tBlock = time.Now()
	}

	// --- layout-only options on large textured pictures ---
	// Pictures with more than 32768 coefficient tokens (internal/lossy tokenPageSize: the token
	// buffer gets a second page, macroblocks straddle the page boundary).  Options that only choose
	// HOW the same coded picture is laid out in the file — Partitions 0..3 (number of token
	// partitions), AlphaCompression / AlphaFiltering at AlphaQuality 100 (raw, filtered or VP8L-coded
	// alpha plane: all exact), metadata chunks, EmulateJpegSize and the Preset field ("no effect" /
	// not read after validation) — must give files that decode to exactly the pixels of the base
	// encode (Partitions=0, defaults).
	{
		type layoutOpt struct {
			name string
			set  func(*webp.EncoderOptions)
		}
		parts := []layoutOpt{
			{"Partitions", func(o *webp.EncoderOptions) { o.Partitions = 1 }},
			{"Partitions", func(o *webp.EncoderOptions) { o.Partitions = 2 }},
			{"Partitions", func(o *webp.EncoderOptions) { o.Partitions = 3 }},
		}
		others := []layoutOpt{
			{"AlphaCompression", func(o *webp.EncoderOptions) { o.AlphaCompression = 0 }},
			{"AlphaFiltering", func(o *webp.EncoderOptions) { o.AlphaFiltering = 0 }},
			{"AlphaFiltering", func(o *webp.EncoderOptions) { o.AlphaFiltering = 2 }},
			{"Metadata", func(o *webp.EncoderOptions) { o.ICC, o.EXIF, o.XMP = metaBuf(5), metaBuf(3), metaBuf(4) }},
			{"EmulateJpegSize", func(o *webp.EncoderOptions) { o.EmulateJpegSize = true }},
			{"Preset", func(o *webp.EncoderOptions) { o.Preset = webp.PresetPhoto }},
		}
		type bigCase struct {
			im   optImg
			base *webp.EncoderOptions
			vars []layoutOpt
			tok  *TokenCase // a picture of thresholds.go TokenCases(): token count AROUND one page, not far beyond it
		}
		bigs := []bigCase{
			{mkOptImg(rep.Seed, 931, 208, 176, ClsNoise, AlphaGradient), &webp.EncoderOptions{Quality: 90, Method: 4, SNSStrength: 50, FilterStrength: 60, FilterType: 1,
				Segments: 4, Pass: 1, QMax: 100, AlphaCompression: 1, AlphaFiltering: 1, AlphaQuality: 100}, append(append([]layoutOpt{}, parts...), others...), nil},
			{mkOptImg(rep.Seed, 932, 320, 320, ClsPhoto, AlphaNone), func() *webp.EncoderOptions {
				o := webp.DefaultOptions()
				o.Quality, o.Method = 90, []int{4, 2, 5, 3}[rep.Seed%4]
				return o
			}(), parts, nil},
		}
		// token-count threshold (thresholds.go TokenCases): noise pictures at Quality 90 whose token count
		// brackets ONE token page of 32768 (48x48 ~22 k ... 80x64 ~49 k, 33x120): 3 per run (thorough: all),
		// Partitions 1..3 against Partitions 0, methods 3..6 (row-pipelined where >= 4 macroblock rows)
		{
			tcs := TokenCases()
			nTok := 3
			if rich {
				nTok = len(tcs)
			}
			for j := 0; j < nTok && j < len(tcs); j++ {
				tc := tcs[(int(rep.Seed%uint64(len(tcs)))+2*j)%len(tcs)]
				if rich {
					tc = tcs[j]
				}
				o := webp.DefaultOptions()
				o.Quality, o.Method = float32(tc.Quality), []int{4, 3, 6, 5}[(int(rep.Seed)+j)%4]
				tcc := tc
				bigs = append(bigs, bigCase{mkOptImg(rep.Seed, uint64(940+j), tc.W, tc.H, ClsNoise, AlphaNone), o, parts, &tcc})
			}
		}
		E.keep = true
		for _, bg := range bigs {
			rbase, ok := E.encode(bg.im, bg.base)
			if !ok || rbase.cls != "ok" {
				rep.Notes = append(rep.Notes, "layout-only block: base encode of "+bg.im.name+" failed: "+rbase.cls)
				continue
			}
			dbase := E.decoded["@"+bg.im.name+"|"+encOpts(bg.base)]
			tb := vp8TokenBytes(rbase.data)
			rep.Extra["big:"+bg.im.name+":file-bytes"] = len(rbase.data)
			rep.Extra["big:"+bg.im.name+":token-partition-bytes"] = tb
			if bg.tok != nil {
				rep.Count(bg.tok.T.Tag())
				rep.Count(fmt.Sprintf("token-case:%dx%d:est-%dk-tokens", bg.tok.W, bg.tok.H, bg.tok.Est/1000))
			} else if tb*8 > 2*32768 {
				// no hook exposes the token count of a real Encode; counted once with an instrumented
				// build (seeds 1-3): 208x176 noise q90 = 351.5k..352.2k tokens for 29.7 KB of token
				// partitions, 320x320 photo q90 = 320k..500k tokens for 28..42 KB (about 12 tokens per
				// byte), so 8 KiB of token partitions is far beyond two pages of 32768 tokens.
				rep.Count("threshold:32768tokens")
				rep.Count("big-picture:token-partition>8KiB")
			} else {
				rep.Notes = append(rep.Notes, fmt.Sprintf("layout-only block: %s has only %d token-partition bytes; the second token page may not be reached", bg.im.name, tb))
			}
			for _, v := range bg.vars {
				o := cloneOpts(bg.base)
				v.set(o)
				res, ok := E.encode(bg.im, o)
				if !ok {
					break
				}
				rep.Eval(true, []byte("layout|"+bg.im.name+"|"+encOpts(o)))
				rep.Count("layout-only:" + v.name)
				d := E.decoded["@"+bg.im.name+"|"+encOpts(o)]
				if res.cls != "ok" || d == nil || dbase == nil {
					if res.cls != "ok" {
						rep.Add(Finding{Kind: "property", Property: "C20", Signature: "opts:layout-option-rejected:" + v.name,
							Detail: fmt.Sprintf("%s: the base options encode, the same options with a legal %s value give %s", bg.im.name, v.name, res.cls),
							Input:  map[string]any{"op": "optpair", "a": encOpts(bg.base), "b": encOpts(o), "img": bg.im.spec, "pixels": true}})
					}
					continue // an undecodable output has been reported by encode()
				}
				if same, why := optSamePicture(dbase, d); !same {
					rep.Add(Finding{Kind: "property", Property: "C20", Signature: "opts:layout-option-changes-picture:" + v.name,
						Detail: fmt.Sprintf("%s (%d token-partition bytes): the file written with %s decodes to a different picture than the base encode (%d vs %d bytes): %s; the option only selects the layout of the same coded picture",
							bg.im.name, tb, optDiff(bg.base, o), len(res.data), len(rbase.data), why),
						Input: map[string]any{"op": "optpair", "a": encOpts(bg.base), "b": encOpts(o), "img": bg.im.spec, "pixels": true}})
				}
			}
		}
		E.keep = false
		E.decoded = map[string]image.Image{}
	}
	lap("layout-only")

	// --- threshold-crossing sizes (thresholds.go), cheap content: nil / default / preset equivalence,
	//     decodable output, PSNR floor, exact lossless ---
	{
		tcs := DrawThresholdCases(rep.Seed, 0x0920, 5, ThresholdFilter{Units: []string{"width", "height", "pixels", "mbs", "mbrows"}, MinValue: 200, MaxPixels: 130000})
		if rich {
			tcs = DrawThresholdCases(rep.Seed, 0x0920, 40, ThresholdFilter{Units: []string{"width", "height", "side", "pixels", "mbs", "mbrows"}, MinValue: 200, MaxPixels: 300000})
		}
		for i, tc := range tcs {
			r := NewRNG(rep.Seed, uint64(9_500_000+i))
			kind := r.Intn(NumCheapClasses)
			acls := []int{AlphaNone, AlphaNone, AlphaGradient, AlphaBinary}[r.Intn(4)]
			im := mkOptCheapImg(rep.Seed, uint64(9600+i), tc.W, tc.H, kind, acls)
			E.same(im, nil, webp.DefaultOptions(), "nil-vs-default:threshold", "nil options vs DefaultOptions() on "+tc.String())
			E.same(im, webp.DefaultOptions(), webp.OptionsForPreset(webp.PresetDefault, 75), "preset-default-vs-default:threshold", "OptionsForPreset(PresetDefault,75) vs DefaultOptions() on "+tc.String())
			E.encode(im, &webp.EncoderOptions{Lossless: true, Quality: 20, Method: 1})
			CountThreshold(rep, tc)
			rep.Count("threshold-content:" + im.cls)
		}
	}
	// --- colour-count thresholds (2 / 4 / 16 colours: pixel packing, 192, 256: palette or not): exactly
	//     n colours, nil / default / preset equivalence, exact lossless at two efforts ---
	{
		nCC := 3
		if rich {
			nCC = 100
		}
		for i, cc := range DrawCountCases(rep.Seed, 0x0921, nCC, "colors", 2, 300) {
			r := NewRNG(rep.Seed, uint64(9_510_000+i))
			w, h := 18+r.Intn(30), 15+r.Intn(20) // >= 270 pixels: room for 257 colours
			im := mkOptColorImg(rep.Seed, uint64(9650+i), w, h, cc.N)
			E.same(im, nil, webp.DefaultOptions(), "nil-vs-default:threshold", "nil options vs DefaultOptions() on "+cc.String()+" colours")
			E.same(im, webp.DefaultOptions(), webp.OptionsForPreset(webp.PresetDefault, 75), "preset-default-vs-default:threshold", "OptionsForPreset(PresetDefault,75) vs DefaultOptions() on "+cc.String()+" colours")
			E.encode(im, &webp.EncoderOptions{Lossless: true, Quality: 20, Method: 1})
			E.encode(im, &webp.EncoderOptions{Lossless: true, Quality: []float32{75, 90, 100}[r.Intn(3)], Method: 4 + r.Intn(3)})
			CountCount(rep, cc)
		}
	}
	lap("thresholds")

	// --- few-colour pictures wider than a transform tile, over the whole Method x Quality grid ---
	// The lossless encoder switches transform stacks by (Method, Quality, palette size): palette with
	// pixel packing (<= 16 colours: 2 / 4 / 8 pixels per packed pixel, the packed width is what the later
	// transforms see), palette + predictor at high effort, no palette above 256.  Every cell of Method
	// 0..6 x Quality {0, 50, 75, 90, 100} gets one lossless encode of a picture with n colours (n from
	// 2, 3, 4, 5, 15, 16, 17 by GenColorCountImage, or a generator palette class with binary alpha) of
	// width 20..140 (wider than a tile of 2^bits pixels also after packing) and height 3..60; Method
	// 0..6 x AlphaQuality {100, 90, 50} gets one lossy encode whose ALPH plane has n alpha levels.
	// Oracle of every encode of the suite: no panic, the file decodes, lossless output exact.
	{
		counts := []int{2, 3, 4, 5, 15, 16, 17}
		palCls := []int{ClsPal2, ClsPal4, ClsPal16, ClsPal256}
		idx := 0
		for m := 0; m <= 6; m++ {
			for _, q := range []float32{0, 50, 75, 90, 100} {
				r := NewRNG(rep.Seed, uint64(9_520_000+idx))
				w, h := 20+r.Intn(121), 3+r.Intn(58)
				kind := (idx*3 + int(rep.Seed%11)) % (len(counts) + len(palCls))
				var im optImg
				if kind < len(counts) {
					im = mkOptColorImg(rep.Seed, uint64(9700+idx), w, h, counts[kind])
					rep.Count(fmt.Sprintf("few-colours:n=%d", counts[kind]))
				} else {
					im = mkOptImg(rep.Seed, uint64(9700+idx), w, h, palCls[kind-len(counts)], []int{AlphaNone, AlphaBinary}[r.Intn(2)])
					rep.Count("few-colours:" + imgClassNames[palCls[kind-len(counts)]])
				}
				o := &webp.EncoderOptions{Lossless: true, Quality: q, Method: m, Exact: r.Chance(1, 4)}
				if res, ok := E.encode(im, o); ok {
					rep.Eval(true, []byte("few-colours|"+im.name+"|"+encOpts(o)))
					rep.Count(fmt.Sprintf("few-colours:lossless:m%d", m))
					rep.Count("few-colours:result:" + strings.SplitN(res.cls, " ", 2)[0])
				}
				idx++
			}
			for _, aq := range []int{100, 90, 50} {
				r := NewRNG(rep.Seed, uint64(9_520_000+idx))
				w, h := 20+r.Intn(121), 3+r.Intn(58)
				n := counts[(idx+int(rep.Seed%7))%len(counts)]
				im := mkOptAlphaLevelsImg(rep.Seed, uint64(9700+idx), w, h, n)
				o := webp.DefaultOptions()
				o.Quality, o.Method, o.AlphaQuality, o.AlphaFiltering = []float32{50, 75, 90}[r.Intn(3)], m, aq, r.Intn(3)
				if res, ok := E.encode(im, o); ok {
					rep.Eval(true, []byte("few-colours|"+im.name+"|"+encOpts(o)))
					rep.Count(fmt.Sprintf("few-colours:lossy+alpha:levels=%d", n))
					rep.Count("few-colours:result:" + strings.SplitN(res.cls, " ", 2)[0])
				}
				idx++
			}
		}
	}
	lap("few-colours")

	// --- the equivalence block again: at the END of everything above, and after every step of a
	//     scripted animation prelude (the animation package encodes its frames through hooks of the
	//     root package: encodeFrameForAnimation for sub-frames, simpleEncodeForAnimation for a
	//     one-frame animation).  nil options must keep meaning DefaultOptions() whatever ran before. ---
	E.equivBlock("end", imgs)
	for _, st := range []struct {
		lossless bool
		quality  int
		frames   int
	}{{true, 75, 2}, {true, 75, 1}, {false, 10, 2}, {false, 10, 1}} {
		name := fmt.Sprintf("after-animation(lossless=%v,q=%d,frames=%d)", st.lossless, st.quality, st.frames)
		E.prelude = append(E.prelude, map[string]any{"seed": rep.Seed, "lossless": st.lossless, "quality": st.quality, "frames": st.frames})
		if res := optAnimPrelude(rep.Seed, st.lossless, st.quality, st.frames); res != "ok" {
			rep.Notes = append(rep.Notes, "animation prelude "+name+" returned "+res)
			rep.Count("prelude:" + res)
		} else {
			rep.Count("prelude:ok")
		}
		E.equivBlock(name, imgs)
	}
	lap("equivalence-again")

	// --- the model's accept/reject decision for every real encode ---
	lo, err = RunDriver(E.lines)
	if err != nil {
		return err
	}
	compare(E.lines, E.goOut, E.what, lo)
	for _, pb := range E.probes {
		la, lb := "", ""
		for i, w := range E.what {
			if w == pb.ka {
				la = lo[i]
			}
			if w == pb.kb {
				lb = lo[i]
			}
		}
		switch {
		case la == lb && !pb.same:
			rep.Add(Finding{Kind: "correspondence", Property: "C20", Signature: "opts-model:merges-distinct-configs",
				Detail: "probe " + pb.label + ": the model resolves both values to the same configuration but the real outputs differ",
				Input:  map[string]any{"op": "optpair", "a": pb.a, "b": pb.b, "img": pb.img}})
		case la != lb && pb.same:
			rep.Count("probe-inconclusive:" + strings.SplitN(pb.label, "=", 2)[0])
		default:
			rep.Count("probe-agrees")
		}
	}
	// pairs the suite asserted equal must also be equal in the model (driver = theorems)
	leanOf := map[string]string{}
	for i, w := range E.what {
		leanOf[w] = lo[i]
	}
	for _, pc := range E.pairs {
		if la, lb := leanOf[pc[0]], leanOf[pc[1]]; la != lb {
			rep.Add(Finding{Kind: "correspondence", Property: "C20", Signature: "opts-model:pair-not-equal-in-model",
				Detail: fmt.Sprintf("%s: model resolves the two values differently: %q vs %q", pc[2], short(la, 300), short(lb, 300)),
				Input:  map[string]any{"op": "optline", "line": "optfront " + strings.SplitN(pc[0], "|", 2)[1] + " 9 9 A"}})
		}
	}
	rep.CountN("encodes", E.used)
	rep.Extra["encodes"] = E.used
	{
		var ks []string
		for k := range E.psnrMin {
			ks = append(ks, k)
		}
		sort.Strings(ks)
		mins := map[string]any{}
		for _, k := range ks {
			mins[k] = math.Round(E.psnrMin[k]*100) / 100
		}
		rep.Extra["psnr_min_dB"] = mins
	}
	rep.Extra["records"] = nRecords
	for _, c := range sampleCases {
		rep.Sample(map[string]any{"kind": c.kind, "opts": encOpts(c.o), "w": c.w, "h": c.h, "flags": c.flags})
	}
	return nil
}

// equivBlock: "nil == DefaultOptions() == OptionsForPreset(PresetDefault, 75)", DefaultOptions()
// against the model, and the freshness of DefaultOptions(), re-executed (own cache) at a named
// moment of the process.
func (e *optEncoder) equivBlock(phase string, imgs []optImg) {
	e.phase = phase
	defer func() { e.phase = "" }()
	tag := strings.SplitN(phase, "(", 2)[0]
	e.defaultsFresh(phase)
	for _, im := range imgs {
		e.same(im, nil, webp.DefaultOptions(), "nil-vs-default:"+tag, "nil options vs DefaultOptions(), "+phase)
		e.same(im, webp.DefaultOptions(), webp.OptionsForPreset(webp.PresetDefault, 75), "preset-default-vs-default:"+tag, "OptionsForPreset(PresetDefault,75) vs DefaultOptions(), "+phase)
	}
	// the exact ties again (compared with the model together with the encode lines)
	e.lines = append(e.lines, "optdefault", fmt.Sprintf("optpreset 0 %d", f32bits(75)))
	e.goOut = append(e.goOut, "ok "+canonOpts(webp.DefaultOptions()), "ok "+canonOpts(webp.OptionsForPreset(webp.PresetDefault, 75)))
	e.what = append(e.what, "DefaultOptions "+phase, "OptionsForPreset "+phase)
	e.rep.Count("equivalence-block:" + tag)
}

// defaultsFresh: two DefaultOptions() results are distinct objects with equal contents, and writing
// through one of them changes neither the other nor the next DefaultOptions() result.
func (e *optEncoder) defaultsFresh(phase string) {
	a, b := webp.DefaultOptions(), webp.DefaultOptions()
	want := canonOpts(b)
	bad := ""
	switch {
	case a == nil || b == nil:
		bad = "DefaultOptions() returned nil"
	case a == b:
		bad = "two DefaultOptions() calls returned the same pointer"
	case canonOpts(a) != want:
		bad = "two DefaultOptions() calls returned different contents: " + canonOpts(a) + " vs " + want
	}
	if bad == "" {
		a.Lossless, a.Quality, a.Method, a.Partitions, a.ICC = true, 3, 0, 3, metaBuf(2)
		if canonOpts(b) != want {
			bad = "writing through one DefaultOptions() result changed an earlier one"
		} else if c := webp.DefaultOptions(); canonOpts(c) != want {
			bad = "writing through a DefaultOptions() result changed what DefaultOptions() returns next: " + canonOpts(c)
		}
		p, q := webp.OptionsForPreset(webp.PresetDefault, 75), webp.OptionsForPreset(webp.PresetDefault, 75)
		if bad == "" && (p == q || canonOpts(p) != canonOpts(q)) {
			bad = "two OptionsForPreset(PresetDefault, 75) calls returned the same pointer or different contents"
		}
	}
	e.rep.Eval(true, []byte("defaults-fresh|"+phase))
	if bad != "" {
		e.rep.Add(Finding{Kind: "property", Property: "C20", Signature: "opts:default-options-shared",
			Detail: bad + " (" + phase + ")", Input: map[string]any{"op": "optline", "line": "optdefault"}})
	}
}

// optAnimPrelude runs one animation encode (20x18, `frames` frames) through the public API.
func optAnimPrelude(seed uint64, lossless bool, quality, frames int) string {
	s, pm := guard(func() string {
		var buf bytes.Buffer
		e := animation.NewEncoder(&buf, 20, 18, &animation.EncodeOptions{Lossless: lossless, Quality: quality})
		if e == nil {
			return "err-new"
		}
		for i := 0; i < frames; i++ {
			if err := e.AddFrame(GenImage(NewRNG(seed, uint64(9700+i)), 20, 18, ClsPhoto, AlphaNone), 40*time.Millisecond); err != nil {
				return "err-add"
			}
		}
		if err := e.Close(); err != nil {
			return "err-close"
		}
		if buf.Len() == 0 {
			return "err-empty"
		}
		return "ok"
	})
	if s == "panic" {
		return "panic:" + panicClass(pm)
	}
	return s
}

// vp8TokenBytes: bytes of the token partitions of the (last) VP8 chunk of a RIFF file =
// payload - 10-byte key-frame header - first partition (19-bit size in the frame tag); -1 if none.
func vp8TokenBytes(data []byte) int {
	if len(data) < 20 || string(data[0:4]) != "RIFF" {
		return -1
	}
	out := -1
	for pos := 12; pos+8 <= len(data); {
		sz := int(data[pos+4]) | int(data[pos+5])<<8 | int(data[pos+6])<<16 | int(data[pos+7])<<24
		if string(data[pos:pos+4]) == "VP8 " && pos+8+10 <= len(data) && sz >= 10 {
			p := data[pos+8:]
			part0 := (int(p[0]) | int(p[1])<<8 | int(p[2])<<16) >> 5
			out = sz - 10 - part0
		}
		pos += 8 + sz + sz&1
	}
	return out
}

// optDiff names the fields in which b differs from a.
func optDiff(a, b *webp.EncoderOptions) string {
	names := []string{"Lossless", "Quality", "Method", "Preset", "UseSharpYUV", "Exact", "TargetSize", "TargetPSNR", "Preprocessing",
		"SNSStrength", "FilterStrength", "FilterSharpness", "FilterType", "Partitions", "Segments", "Pass", "EmulateJpegSize", "QMin", "QMax",
		"AlphaCompression", "AlphaFiltering", "AlphaQuality", "ICC", "EXIF", "XMP"}
	pa, pb := strings.Split(encOpts(a), ","), strings.Split(encOpts(b), ",")
	var out []string
	for i := range pa {
		if i < len(pb) && i < len(names) && pa[i] != pb[i] {
			out = append(out, fmt.Sprintf("%s=%s (base %s)", names[i], pb[i], pa[i]))
		}
	}
	return join(out, ", ")
}

// ---------- replays ----------

func replayOptLine(in map[string]any) int {
	line, _ := in["line"].(string)
	f := strings.Fields(line)
	if len(f) == 0 {
		return 2
	}
	var g string
	switch f[0] {
	case "optvalidate":
		o, err := decOpts(f[1])
		if err != nil || o == nil {
			return 2
		}
		g, _ = guard(func() string { return goOptValidate(o) })
	case "optfront":
		o, err := decOpts(f[1])
		if err != nil || len(f) != 5 {
			return 2
		}
		w, _ := strconv.Atoi(f[2])
		h, _ := strconv.Atoi(f[3])
		if w >= 1 && h >= 1 && w <= 64 && h <= 64 && !strings.ContainsAny(f[4], "WI") {
			acls := AlphaNone
			if strings.Contains(f[4], "A") {
				acls = AlphaGradient
			}
			g = realEncode(GenImage(NewRNG(1, 1), w, h, ClsPhoto, acls), o).cls
		} else {
			g, _ = guard(func() string { s, _ := goOptFront(optCase{o, "replay", w, h, f[4]}); return s })
		}
	case "optdoc":
		g, _ = goOptDoc()
	case "optf32":
		b, _ := strconv.ParseUint(f[1], 10, 32)
		g = goOptF32(uint32(b))
	default:
		fmt.Println("replay of", f[0], "not supported; rerun the suite")
		return 2
	}
	l, err := RunDriver([]string{line})
	fmt.Printf("go:   %s\n", g)
	if err != nil {
		fmt.Println(err)
		return 2
	}
	fmt.Printf("lean: %s\n", l[0])
	if l[0] == g || (g == "ok" && strings.HasPrefix(l[0], "ok ")) {
		return 0
	}
	return 1
}

func replayOptPair(in map[string]any) int {
	as, _ := in["a"].(string)
	bs, _ := in["b"].(string)
	sp, _ := in["img"].(map[string]any)
	oa, e1 := decOpts(as)
	ob, e2 := decOpts(bs)
	if e1 != nil || e2 != nil || sp == nil {
		return 2
	}
	pixels, _ := in["pixels"].(bool) // layout-only pair: the decoded pictures must agree, not the bytes
	im := optImgFromSpec(sp)
	if pl, ok := in["prelude"].([]any); ok { // animation encodes that preceded the pair in the suite
		for _, st := range pl {
			m, _ := st.(map[string]any)
			num := func(k string) int { v, _ := m[k].(float64); return int(v) }
			ll, _ := m["lossless"].(bool)
			fmt.Printf("prelude: animation encode lossless=%v quality=%d frames=%d: %s\n", ll, num("quality"), num("frames"),
				optAnimPrelude(uint64(num("seed")), ll, num("quality"), num("frames")))
		}
	}
	ra, rb := realEncode(im.img, oa), realEncode(im.img, ob)
	fmt.Printf("a: %s %s %s\nb: %s %s %s\n", ra.cls, digest(ra.data), ra.panic, rb.cls, digest(rb.data), rb.panic)
	if ra.mod != "" || rb.mod != "" {
		fmt.Println("Encode modified the caller's options: " + ra.mod + " " + rb.mod)
		return 1
	}
	if ra.cls == "panic" || rb.cls == "panic" || ra.cls != rb.cls || (!pixels && !bytes.Equal(ra.data, rb.data)) {
		return 1
	}
	if ra.cls != "ok" {
		return 0
	}
	da, bad := decodeCheck(ra.data, im.w, im.h)
	if bad != "" {
		fmt.Println("a: " + bad)
		return 1
	}
	E := &optEncoder{rep: NewReport("opts-replay", "quick", 1), psnrMin: map[string]float64{}}
	if sig, detail := E.pictureCheck(im, oa, da); sig != "" {
		fmt.Println("a: " + sig + ": " + detail)
		return 1
	}
	if pixels {
		db, bad := decodeCheck(rb.data, im.w, im.h)
		if bad != "" {
			fmt.Println("b: " + bad)
			return 1
		}
		if same, why := optSamePicture(da, db); !same {
			fmt.Println("decoded pictures differ: " + why)
			return 1
		}
	}
	return 0
}
