package main

// Suite "opts" — property C20 (option handling is total and matches its documentation).
//
// Tie between the Lean model Webp.Impl.Opts and /repo, by observable:
//   validateConfig            exact: hook webp.VerifValidate, error class by message prefix   (op optvalidate)
//   resolve*                  exact: hook webp.VerifResolve                                   (op optresolve)
//   DefaultOptions            exact: public API                                               (op optdefault)
//   OptionsForPreset          exact: public API                                               (op optpreset)
//   lossy.DefaultConfig       exact: verifapi.LossyDefaultConfig                              (op optdefcfg)
//   alpha filter-mode enums   exact: verifapi constants                                       (op optenum)
//   float32 primitives        exact: Go float32 comparisons / int() on bit patterns           (op optf32)
//   documented defaults       go/ast extraction from encode.go doc comments                   (op optdoc)
//   Encode nil/dimension checks and error-vs-ok:  real webp.Encode                            (op optfront)
//   propagation block / alpha mapping / lossless config: END-TO-END only —
//       model says "same resolved configuration"  ⇒ real Encode outputs must be byte-identical
//       (sentinel pairs, nil vs default, lossy-only under Lossless, EmulateJpegSize, Preset,
//        random records that the model resolves identically), plus a sensitivity count per
//       resolved field (two different resolved values give different bytes at least once).

import (
	"bytes"
	"fmt"
	"go/ast"
	"go/parser"
	"go/token"
	"image"
	"image/color"
	"math"
	"regexp"
	"sort"
	"strconv"
	"strings"
	"sync"
	"time"

	webp "github.com/deepteams/webp"
	"github.com/deepteams/webp/verifapi"
)

func init() {
	suites["opts"] = suiteOpts
	replayers["optpair"] = replayOptPair
	replayers["optline"] = replayOptLine
	replayers["optempty"] = replayOptEmpty
}

const maxMeta = 100 * 1024 * 1024

var bigMeta []byte // 100 MB + 1, allocated lazily (pages stay untouched)

func metaBuf(n int) []byte {
	if n <= 64 {
		b := make([]byte, n)
		for i := range b {
			b[i] = byte(i*37 + 1)
		}
		return b
	}
	if bigMeta == nil {
		bigMeta = make([]byte, maxMeta+1)
	}
	return bigMeta[:n]
}

// ---------- wire form ----------

func f32bits(f float32) uint32 { return math.Float32bits(f) }

func encMeta(b []byte) string {
	if b == nil {
		return "n"
	}
	return strconv.Itoa(len(b))
}

func encOpts(o *webp.EncoderOptions) string {
	if o == nil {
		return "nil"
	}
	return join([]string{
		b2s(o.Lossless), strconv.FormatUint(uint64(f32bits(o.Quality)), 10), strconv.Itoa(o.Method),
		strconv.Itoa(int(o.Preset)), b2s(o.UseSharpYUV), b2s(o.Exact), strconv.Itoa(o.TargetSize),
		strconv.FormatUint(uint64(f32bits(o.TargetPSNR)), 10), strconv.Itoa(o.Preprocessing),
		strconv.Itoa(o.SNSStrength), strconv.Itoa(o.FilterStrength), strconv.Itoa(o.FilterSharpness),
		strconv.Itoa(o.FilterType), strconv.Itoa(o.Partitions), strconv.Itoa(o.Segments), strconv.Itoa(o.Pass),
		b2s(o.EmulateJpegSize), strconv.Itoa(o.QMin), strconv.Itoa(o.QMax), strconv.Itoa(o.AlphaCompression),
		strconv.Itoa(o.AlphaFiltering), strconv.Itoa(o.AlphaQuality), encMeta(o.ICC), encMeta(o.EXIF), encMeta(o.XMP),
	}, ",")
}

func decOpts(s string) (*webp.EncoderOptions, error) {
	if s == "nil" {
		return nil, nil
	}
	p := strings.Split(s, ",")
	if len(p) != 25 {
		return nil, fmt.Errorf("bad options encoding")
	}
	iv := func(k int) int { v, _ := strconv.Atoi(p[k]); return v }
	fv := func(k int) float32 { v, _ := strconv.ParseUint(p[k], 10, 32); return math.Float32frombits(uint32(v)) }
	mv := func(k int) []byte {
		if p[k] == "n" {
			return nil
		}
		n, _ := strconv.Atoi(p[k])
		if n == 0 {
			return []byte{}
		}
		return metaBuf(n)
	}
	return &webp.EncoderOptions{
		Lossless: p[0] == "1", Quality: fv(1), Method: iv(2), Preset: webp.Preset(iv(3)), UseSharpYUV: p[4] == "1",
		Exact: p[5] == "1", TargetSize: iv(6), TargetPSNR: fv(7), Preprocessing: iv(8), SNSStrength: iv(9),
		FilterStrength: iv(10), FilterSharpness: iv(11), FilterType: iv(12), Partitions: iv(13), Segments: iv(14),
		Pass: iv(15), EmulateJpegSize: p[16] == "1", QMin: iv(17), QMax: iv(18), AlphaCompression: iv(19),
		AlphaFiltering: iv(20), AlphaQuality: iv(21), ICC: mv(22), EXIF: mv(23), XMP: mv(24),
	}, nil
}

// f32str mirrors Webp.Impl.Opts.F32.toStr ∘ F32.ofBits.
func f32str(bits uint32) string {
	s, ex, m := bits>>31, (bits>>23)&0xff, uint64(bits&0x7fffff)
	if ex == 255 {
		if m != 0 {
			return "nan"
		}
		if s == 1 {
			return "-inf"
		}
		return "+inf"
	}
	e := -149
	if ex != 0 {
		m |= 1 << 23
		e = int(ex) - 150
	}
	if m == 0 {
		e = 0
	} else {
		for m%2 == 0 {
			m /= 2
			e++
		}
	}
	sign := "+"
	if s == 1 {
		sign = "-"
	}
	return fmt.Sprintf("%s%dp%d", sign, m, e)
}

// canonOpts mirrors Driver.Opts.sOpts.
func canonOpts(o *webp.EncoderOptions) string {
	return join([]string{
		b2s(o.Lossless), f32str(f32bits(o.Quality)), strconv.Itoa(o.Method),
		strconv.Itoa(int(o.Preset)), b2s(o.UseSharpYUV), b2s(o.Exact), strconv.Itoa(o.TargetSize),
		f32str(f32bits(o.TargetPSNR)), strconv.Itoa(o.Preprocessing),
		strconv.Itoa(o.SNSStrength), strconv.Itoa(o.FilterStrength), strconv.Itoa(o.FilterSharpness),
		strconv.Itoa(o.FilterType), strconv.Itoa(o.Partitions), strconv.Itoa(o.Segments), strconv.Itoa(o.Pass),
		b2s(o.EmulateJpegSize), strconv.Itoa(o.QMin), strconv.Itoa(o.QMax), strconv.Itoa(o.AlphaCompression),
		strconv.Itoa(o.AlphaFiltering), strconv.Itoa(o.AlphaQuality), encMeta(o.ICC), encMeta(o.EXIF), encMeta(o.XMP),
	}, ",")
}

// ---------- error classes (never the message, only which check fired) ----------

var optErrPrefixes = []struct{ prefix, cls string }{
	{"webp: nil writer", "nilWriter"}, {"webp: nil image", "nilImage"},
	{"webp: invalid Quality ", "Quality"}, {"webp: invalid Method ", "Method"},
	{"webp: invalid TargetSize ", "TargetSize"}, {"webp: invalid TargetPSNR ", "TargetPSNR"},
	{"webp: invalid Preprocessing ", "Preprocessing"}, {"webp: invalid Preset ", "Preset"},
	{"webp: invalid SNSStrength ", "SNSStrength"}, {"webp: invalid FilterStrength ", "FilterStrength"},
	{"webp: invalid FilterSharpness ", "FilterSharpness"}, {"webp: invalid FilterType ", "FilterType"},
	{"webp: invalid Partitions ", "Partitions"}, {"webp: invalid Segments ", "Segments"},
	{"webp: invalid Pass ", "Pass"}, {"webp: invalid QMin/QMax ", "QMinQMax"},
	{"webp: invalid AlphaCompression ", "AlphaCompression"}, {"webp: invalid AlphaFiltering ", "AlphaFiltering"},
	{"webp: invalid AlphaQuality ", "AlphaQuality"}, {"webp: ICC profile too large", "ICC"},
	{"webp: EXIF data too large", "EXIF"}, {"webp: XMP data too large", "XMP"},
	{"webp: invalid image dimensions ", "dimsEmpty"}, {"webp: image dimension ", "dimsTooLarge"},
}

func optErrClass(err error) string {
	if err == nil {
		return "ok"
	}
	m := err.Error()
	for _, p := range optErrPrefixes {
		if strings.HasPrefix(m, p.prefix) {
			return "err " + p.cls
		}
	}
	return "err other"
}

// ---------- a cheap image with arbitrary bounds (nothing allocated) ----------

type boundsImg struct {
	r     image.Rectangle
	alpha bool
}

func (b boundsImg) ColorModel() color.Model { return color.NRGBAModel }
func (b boundsImg) Bounds() image.Rectangle { return b.r }
func (b boundsImg) At(x, y int) color.Color {
	if b.alpha && (x+y)%3 == 0 {
		return color.NRGBA{uint8(x), uint8(y), 7, 128}
	}
	return color.NRGBA{uint8(x), uint8(y), 7, 255}
}

// ---------- empty rectangles on concrete image types ----------

// Every rectangle here has Empty() == true; the literal Min/Max are kept (image.Rect would swap them).
var optEmptyRects = []image.Rectangle{
	{Min: image.Pt(1, 1), Max: image.Pt(0, 0)},         // -1 x -1
	{Min: image.Pt(4, 4), Max: image.Pt(0, 0)},         // -4 x -4
	{Min: image.Pt(3, 4), Max: image.Pt(0, 0)},         // -3 x -4
	{Min: image.Pt(16, 16), Max: image.Pt(0, 0)},       // -16 x -16
	{Min: image.Pt(20, 20), Max: image.Pt(0, 0)},       // -20 x -20
	{Min: image.Pt(16, 1), Max: image.Pt(0, 0)},        // -16 x -1
	{Min: image.Pt(16383, 16383), Max: image.Pt(0, 0)}, // -16383 x -16383
	{Min: image.Pt(0, 0), Max: image.Pt(math.MinInt32, math.MinInt32)},
	{Min: image.Pt(3, 0), Max: image.Pt(0, 0)}, // Dx<0, Dy==0
	{Min: image.Pt(3, 0), Max: image.Pt(0, 5)}, // Dx<0, Dy>0
	{Min: image.Pt(0, 3), Max: image.Pt(5, 0)}, // Dx>0, Dy<0
	{Min: image.Pt(0, 0), Max: image.Pt(0, 0)}, // 0x0
	{Min: image.Pt(5, 7), Max: image.Pt(5, 7)}, // 0x0 away from the origin
	{Min: image.Pt(0, 0), Max: image.Pt(0, 9)}, // 0xN
	{Min: image.Pt(0, 0), Max: image.Pt(9, 0)}, // Nx0
}

var optEmptyTypes = []string{"NRGBA", "RGBA", "Gray", "NRGBA64", "Paletted", "generic", "generic+alpha"}

var optEmptyOpts = []func() *webp.EncoderOptions{
	func() *webp.EncoderOptions { return nil },
	func() *webp.EncoderOptions { return webp.DefaultOptions() },
	func() *webp.EncoderOptions { return &webp.EncoderOptions{Quality: 50, Method: 0, Preprocessing: 2} },
	func() *webp.EncoderOptions { return &webp.EncoderOptions{Lossless: true, Quality: 75} },
}

func optEmptyImage(ri, ti int) image.Image {
	r := optEmptyRects[ri]
	switch optEmptyTypes[ti] {
	case "NRGBA":
		return &image.NRGBA{Pix: make([]byte, 4096), Stride: 64, Rect: r}
	case "RGBA":
		return &image.RGBA{Pix: make([]byte, 4096), Stride: 64, Rect: r}
	case "Gray":
		return &image.Gray{Pix: make([]byte, 4096), Stride: 64, Rect: r}
	case "NRGBA64":
		return &image.NRGBA64{Pix: make([]byte, 4096), Stride: 128, Rect: r}
	case "Paletted":
		return &image.Paletted{Pix: make([]byte, 4096), Stride: 64, Rect: r, Palette: color.Palette{color.NRGBA{1, 2, 3, 255}, color.NRGBA{9, 8, 7, 255}}}
	case "generic":
		return boundsImg{r, false}
	}
	return boundsImg{r, true}
}

// emptyBoundsCheck runs the real Encode on an empty image; "" when it returned the dimension
// error without writing, otherwise the finding class and a description.
func emptyBoundsCheck(ri, ti, oi int) (bad, detail string) {
	img := optEmptyImage(ri, ti)
	var buf bytes.Buffer
	cls := watchedEncode(fmt.Sprintf("empty %d %d", ri, oi), func() string { return optErrClass(webp.Encode(&buf, img, optEmptyOpts[oi]())) })
	where := fmt.Sprintf("Encode(%s with Bounds %v, options #%d)", optEmptyTypes[ti], optEmptyRects[ri], oi)
	switch {
	case strings.HasPrefix(cls, "panic:"):
		return cls, where + " panicked: " + cls[len("panic:"):]
	case cls == "hang":
		return "hang", fmt.Sprintf("%s did not return within %v (an empty image must be rejected before touching pixels)", where, optWatchdog)
	case cls == "ok":
		return "accepted", fmt.Sprintf("%s returned nil for an empty image and wrote %d bytes", where, buf.Len())
	case cls != "err dimsEmpty":
		return "wrong-error", where + " returned " + cls + ", want the invalid-dimensions error"
	case buf.Len() != 0:
		return "wrote-on-error", fmt.Sprintf("%s failed but wrote %d bytes", where, buf.Len())
	}
	return "", ""
}

func replayOptEmpty(in map[string]any) int {
	num := func(k string) int { v, _ := in[k].(float64); return int(v) }
	ri, ti, oi := num("rect"), num("type"), num("opts")
	if ri < 0 || ri >= len(optEmptyRects) || ti < 0 || ti >= len(optEmptyTypes) || oi < 0 || oi >= len(optEmptyOpts) {
		return 2
	}
	bad, detail := emptyBoundsCheck(ri, ti, oi)
	if bad != "" {
		fmt.Println("go:   " + bad + ": " + detail)
		return 1
	}
	fmt.Println("go:   err dimsEmpty, nothing written")
	return 0
}

// ---------- boundary values ----------

type intField struct {
	name          string
	lo, hi, deflt int
	get           func(*webp.EncoderOptions) *int
}

var optIntFields = []intField{
	{"Method", 0, 6, 4, func(o *webp.EncoderOptions) *int { return &o.Method }},
	{"TargetSize", 0, math.MaxInt, 0, func(o *webp.EncoderOptions) *int { return &o.TargetSize }},
	{"Preprocessing", 0, 3, 0, func(o *webp.EncoderOptions) *int { return &o.Preprocessing }},
	{"SNSStrength", 0, 100, 50, func(o *webp.EncoderOptions) *int { return &o.SNSStrength }},
	{"FilterStrength", 0, 100, 60, func(o *webp.EncoderOptions) *int { return &o.FilterStrength }},
	{"FilterSharpness", 0, 7, 0, func(o *webp.EncoderOptions) *int { return &o.FilterSharpness }},
	{"FilterType", 0, 1, 1, func(o *webp.EncoderOptions) *int { return &o.FilterType }},
	{"Partitions", 0, 3, 0, func(o *webp.EncoderOptions) *int { return &o.Partitions }},
	{"Segments", 1, 4, 4, func(o *webp.EncoderOptions) *int { return &o.Segments }},
	{"Pass", 1, 10, 1, func(o *webp.EncoderOptions) *int { return &o.Pass }},
	{"QMin", 0, 100, 0, func(o *webp.EncoderOptions) *int { return &o.QMin }},
	{"QMax", 0, 100, 100, func(o *webp.EncoderOptions) *int { return &o.QMax }},
	{"AlphaCompression", 0, 1, 1, func(o *webp.EncoderOptions) *int { return &o.AlphaCompression }},
	{"AlphaFiltering", 0, 2, 1, func(o *webp.EncoderOptions) *int { return &o.AlphaFiltering }},
	{"AlphaQuality", 0, 100, 100, func(o *webp.EncoderOptions) *int { return &o.AlphaQuality }},
	{"Preset", 0, 5, 0, nil},
}

func boundaryInts(f intField) []int {
	raw := []int{f.lo - 1, f.lo, f.lo + 1, f.deflt, f.hi - 1, f.hi, -1, -2, 0, math.MinInt, math.MaxInt}
	if f.hi != math.MaxInt {
		raw = append(raw, f.hi+1)
	}
	seen := map[int]bool{}
	var out []int
	for _, v := range raw {
		if !seen[v] {
			seen[v] = true
			out = append(out, v)
		}
	}
	return out
}

var qualityBits = []uint32{
	0x00000000, 0x80000000, 0x00000001, 0x80000001, 0x3F000000, 0x3F800000, 0x42960000, 0x424A0000,
	0x42C7FFFF, 0x42C80000, 0x42C80001, 0xB8D1B717, 0x42CA0000, 0x7FC00000, 0xFFC00001, 0x7F800001,
	0x7F800000, 0xFF800000, 0x7F7FFFFF, 0xFF7FFFFF, 0x3F7FFFFF, 0x007FFFFF, 0x00800000,
}

var psnrBits = []uint32{
	0x00000000, 0x80000000, 0x00000001, 0x80000001, 0x41F00000, 0x422A0000, 0x42C80000, 0x7149F2CA,
	0x7F7FFFFF, 0x7FC00000, 0xFFC00000, 0x7F800000, 0xFF800000, 0xB8D1B717, 0xFF7FFFFF, 0x00800000,
}

// a field setter over a uniform value index space
type optAxis struct {
	name string
	n    int
	set  func(o *webp.EncoderOptions, k int)
	desc func(k int) string
}

func optAxes() []optAxis {
	var ax []optAxis
	bl := func(name string, get func(*webp.EncoderOptions) *bool) {
		ax = append(ax, optAxis{name, 2, func(o *webp.EncoderOptions, k int) { *get(o) = k == 1 }, func(k int) string { return strconv.Itoa(k) }})
	}
	bl("Lossless", func(o *webp.EncoderOptions) *bool { return &o.Lossless })
	bl("UseSharpYUV", func(o *webp.EncoderOptions) *bool { return &o.UseSharpYUV })
	bl("Exact", func(o *webp.EncoderOptions) *bool { return &o.Exact })
	bl("EmulateJpegSize", func(o *webp.EncoderOptions) *bool { return &o.EmulateJpegSize })
	ax = append(ax, optAxis{"Quality", len(qualityBits),
		func(o *webp.EncoderOptions, k int) { o.Quality = math.Float32frombits(qualityBits[k]) },
		func(k int) string { return f32str(qualityBits[k]) }})
	ax = append(ax, optAxis{"TargetPSNR", len(psnrBits),
		func(o *webp.EncoderOptions, k int) { o.TargetPSNR = math.Float32frombits(psnrBits[k]) },
		func(k int) string { return f32str(psnrBits[k]) }})
	for _, f := range optIntFields {
		f := f
		vals := boundaryInts(f)
		set := func(o *webp.EncoderOptions, k int) { *f.get(o) = vals[k] }
		if f.name == "Preset" {
			set = func(o *webp.EncoderOptions, k int) { o.Preset = webp.Preset(vals[k]) }
		}
		ax = append(ax, optAxis{f.name, len(vals), set, func(k int) string { return strconv.Itoa(vals[k]) }})
	}
	metaLens := []int{-1, 0, 1, 5, maxMeta, maxMeta + 1}
	mt := func(name string, get func(*webp.EncoderOptions) *[]byte) {
		ax = append(ax, optAxis{name, len(metaLens), func(o *webp.EncoderOptions, k int) {
			switch n := metaLens[k]; {
			case n < 0:
				*get(o) = nil
			case n == 0:
				*get(o) = []byte{}
			default:
				*get(o) = metaBuf(n)
			}
		}, func(k int) string { return strconv.Itoa(metaLens[k]) }})
	}
	mt("ICC", func(o *webp.EncoderOptions) *[]byte { return &o.ICC })
	mt("EXIF", func(o *webp.EncoderOptions) *[]byte { return &o.EXIF })
	mt("XMP", func(o *webp.EncoderOptions) *[]byte { return &o.XMP })
	return ax
}

// validBase draws an options value that passes validateConfig (explicit values and sentinels mixed).
func validBase(r *RNG) *webp.EncoderOptions {
	o := webp.DefaultOptions()
	o.Lossless = r.Chance(1, 3)
	o.Quality = []float32{0, 10.5, 50, 75, 90, 99.5, 100}[r.Intn(7)]
	o.Method = r.Intn(7)
	o.Preset = webp.Preset(r.Intn(6))
	o.UseSharpYUV = r.Chance(1, 4)
	o.Exact = r.Chance(1, 3)
	if r.Chance(1, 5) {
		o.TargetSize = 1 + r.Intn(5000)
	}
	if r.Chance(1, 5) {
		o.TargetPSNR = float32(20 + r.Intn(30))
	}
	o.Preprocessing = r.Intn(4)
	pick := func(sentinel int, lo, hi int) int {
		if r.Chance(1, 3) {
			return sentinel
		}
		return lo + r.Intn(hi-lo+1)
	}
	o.SNSStrength = pick(-1, 0, 100)
	o.FilterStrength = pick(-1, 0, 100)
	o.FilterSharpness = r.Intn(8)
	o.FilterType = pick(-1, 0, 1)
	o.Partitions = r.Intn(4)
	o.Segments = pick(-1, 0, 4)
	o.Pass = pick(-1, 0, 10)
	o.QMax = pick(-1, 0, 100)
	qm := o.QMax
	if qm < 0 {
		qm = 100
	}
	o.QMin = r.Intn(qm + 1)
	o.AlphaCompression = pick(-1, 0, 1)
	o.AlphaFiltering = pick(-1, 0, 2)
	o.AlphaQuality = pick(-1, 0, 100)
	o.EmulateJpegSize = r.Chance(1, 4)
	if r.Chance(1, 4) {
		o.ICC = metaBuf(1 + r.Intn(8))
	}
	if r.Chance(1, 5) {
		o.EXIF = metaBuf(1 + r.Intn(8))
	}
	if r.Chance(1, 6) {
		o.XMP = []byte{}
	}
	return o
}

type optCase struct {
	o     *webp.EncoderOptions
	kind  string
	w, h  int
	flags string // subset of W I A, or "-"
}

var optDims = [][2]int{{1, 1}, {16383, 1}, {1, 16383}, {16383, 16383}, {16384, 1}, {1, 16384}, {0, 5}, {5, 0}, {-3, 4},
	{7, 5}, {24, 24}, {math.MaxInt32, 2}, {2, math.MinInt32}, {16384, 16384},
	// both axes inverted (Min > Max on x AND y): the rectangle is empty although Dx()*Dy() > 0
	{-3, -4}, {-1, -1}, {-16, -16}, {-16383, -16383}, {math.MinInt32, math.MinInt32}}

var optFlags = []string{"-", "-", "-", "-", "-", "-", "-", "-", "-", "-", "A", "A", "A", "A", "A", "A", "A", "A", "W", "I", "WI", "WA", "IA", "WIA"}

func genOptCases(seed uint64, tier string, emit func(optCase)) {
	ax := optAxes()
	axByName := map[string]int{}
	for i, a := range ax {
		axByName[a.name] = i
	}
	add := func(o *webp.EncoderOptions, kind string, r *RNG) {
		d := optDims[r.Intn(len(optDims))]
		if r.Chance(1, 2) {
			d = optDims[r.Intn(3)] // mostly valid dims so that the options decide
		}
		emit(optCase{o, kind, d[0], d[1], optFlags[r.Intn(len(optFlags))]})
	}
	idx := uint64(0)
	next := func() *RNG { idx++; return NewRNG(seed, 20_000_000+idx) }

	// fixed records
	fixed := []*webp.EncoderOptions{nil, webp.DefaultOptions(), {}, {Lossless: true}}
	for p := -1; p <= 6; p++ {
		fixed = append(fixed, webp.OptionsForPreset(webp.Preset(p), 75), webp.OptionsForPreset(webp.Preset(p), float32(math.NaN())))
	}
	for _, o := range fixed {
		for _, d := range optDims {
			for _, fl := range []string{"-", "A", "W", "I"} {
				emit(optCase{o, "fixed", d[0], d[1], fl})
			}
		}
	}
	// single: valid base, one field at each boundary value (complete)
	for rep := 0; rep < 3; rep++ {
		for _, a := range ax {
			for k := 0; k < a.n; k++ {
				r := next()
				o := validBase(r)
				a.set(o, k)
				add(o, "single", r)
			}
		}
	}
	nPairsBases, nProduct, nRaw := 0, 7000, 5000
	pairSample := 15000
	if tier == "thorough" {
		nPairsBases, nProduct, nRaw = 60, 0, 340000
		pairSample = 0
	}
	// pairs: all pairs of fields × all pairs of boundary values on a valid base
	type pr struct{ a, b, ka, kb int }
	var allPairs []pr
	for i := 0; i < len(ax); i++ {
		for j := i + 1; j < len(ax); j++ {
			for ka := 0; ka < ax[i].n; ka++ {
				for kb := 0; kb < ax[j].n; kb++ {
					allPairs = append(allPairs, pr{i, j, ka, kb})
				}
			}
		}
	}
	if pairSample > 0 {
		r0 := NewRNG(seed, 31337)
		for i := 0; i < pairSample; i++ {
			p := allPairs[r0.Intn(len(allPairs))]
			r := next()
			o := validBase(r)
			ax[p.a].set(o, p.ka)
			ax[p.b].set(o, p.kb)
			add(o, "pair", r)
		}
	}
	for b := 0; b < nPairsBases; b++ {
		for _, p := range allPairs {
			r := next()
			o := validBase(r)
			ax[p.a].set(o, p.ka)
			ax[p.b].set(o, p.kb)
			add(o, "pair", r)
		}
	}
	// product of the small fields
	small := []struct {
		name string
		vals []int
	}{
		{"Lossless", []int{0, 1}}, {"UseSharpYUV", []int{0, 1}}, {"Exact", []int{0, 1}}, {"EmulateJpegSize", []int{0, 1}},
		{"Preset", []int{-1, 0, 1, 2, 3, 4, 5, 6}}, {"Preprocessing", []int{-1, 0, 1, 2, 3, 4}},
		{"FilterType", []int{-2, -1, 0, 1, 2}}, {"AlphaCompression", []int{-1, 0, 1, 2}},
		{"AlphaFiltering", []int{-1, 0, 1, 2, 3}}, {"Partitions", []int{-1, 0, 1, 2, 3, 4}},
	}
	setSmall := func(o *webp.EncoderOptions, name string, v int) {
		switch name {
		case "Lossless":
			o.Lossless = v == 1
		case "UseSharpYUV":
			o.UseSharpYUV = v == 1
		case "Exact":
			o.Exact = v == 1
		case "EmulateJpegSize":
			o.EmulateJpegSize = v == 1
		case "Preset":
			o.Preset = webp.Preset(v)
		case "Preprocessing":
			o.Preprocessing = v
		case "FilterType":
			o.FilterType = v
		case "AlphaCompression":
			o.AlphaCompression = v
		case "AlphaFiltering":
			o.AlphaFiltering = v
		case "Partitions":
			o.Partitions = v
		}
	}
	total := 1
	for _, s := range small {
		total *= len(s.vals)
	}
	emitProduct := func(code int) {
		r := next()
		o := validBase(r)
		for _, s := range small {
			setSmall(o, s.name, s.vals[code%len(s.vals)])
			code /= len(s.vals)
		}
		add(o, "product", r)
	}
	if nProduct > 0 {
		r0 := NewRNG(seed, 4242)
		for i := 0; i < nProduct; i++ {
			emitProduct(r0.Intn(total))
		}
	} else {
		for c := 0; c < total; c++ {
			emitProduct(c)
		}
	}
	// raw: every field independently at a boundary value (mostly invalid: exercises the order of checks)
	for i := 0; i < nRaw; i++ {
		r := next()
		o := &webp.EncoderOptions{}
		for _, a := range ax {
			k := r.Intn(a.n)
			if (a.name == "ICC" || a.name == "EXIF" || a.name == "XMP") && !r.Chance(1, 6) {
				k = r.Intn(4)
			}
			a.set(o, k)
		}
		add(o, "raw", r)
	}
}

// ---------- Go side of the ops ----------

func goOptValidate(o *webp.EncoderOptions) string { return optErrClass(webp.VerifValidate(o)) }

type nopWriter struct{ n int }

func (w *nopWriter) Write(p []byte) (int, error) { w.n += len(p); return len(p), nil }

// goOptFront: the real Encode when it is cheap (it must reject before touching pixels), otherwise
// the accept decision assembled from VerifValidate and the dimension rule. The real Encode for
// accepted records is run by the encode phase.
func goOptFront(c optCase) (line string, real bool) {
	wNil, iNil, alpha := strings.Contains(c.flags, "W"), strings.Contains(c.flags, "I"), strings.Contains(c.flags, "A")
	var img image.Image
	if !iNil {
		img = boundsImg{image.Rect(-2, 3, -2+c.w, 3+c.h), alpha}
		if c.w < 0 || c.h < 0 { // image.Rect would swap; build the rectangle literally
			img = boundsImg{image.Rectangle{Min: image.Pt(-2, 3), Max: image.Pt(-2+c.w, 3+c.h)}, alpha}
		}
	}
	valid := true
	if c.o != nil {
		valid = webp.VerifValidate(c.o) == nil
	}
	dimsOK := c.w >= 1 && c.h >= 1 && c.w <= 16383 && c.h <= 16383
	if wNil || iNil || !valid || !dimsOK {
		// must reject before touching pixels: watched, so that an implementation that walks an
		// "empty" 16383x16383 image instead is reported as a hang rather than stalling the suite
		key := fmt.Sprintf("front %d %d %v", c.w, c.h, c.o != nil && c.o.Lossless)
		return watchedEncode(key, func() string {
			if wNil {
				return optErrClass(webp.Encode(nil, img, c.o))
			}
			return optErrClass(webp.Encode(&nopWriter{}, img, c.o))
		}), true
	}
	return "ok", false
}

// watchedEncode runs a real Encode call that is expected to return at once (it must reject its
// arguments before touching pixels) under a recover guard and a watchdog.  Result: the canonical
// line, "panic:<class>", or "hang".  A hung call keeps running in its goroutine (it cannot be
// cancelled), so every later call with the same key is answered "hang" without running it.
var (
	optHangMu   sync.Mutex
	optHangKeys = map[string]bool{}
	optWatchdog = 10 * time.Second
)

func watchedEncode(key string, f func() string) string {
	optHangMu.Lock()
	hung := optHangKeys[key]
	optHangMu.Unlock()
	if hung {
		return "hang"
	}
	done := make(chan string, 1)
	go func() {
		s, pm := guard(f)
		if s == "panic" {
			s = "panic:" + panicClass(pm)
		}
		done <- s
	}()
	t := time.NewTimer(optWatchdog)
	defer t.Stop()
	select {
	case s := <-done:
		return s
	case <-t.C:
		optHangMu.Lock()
		optHangKeys[key] = true
		optHangMu.Unlock()
		return "hang"
	}
}

func goOptDoc() (string, error) {
	fset := token.NewFileSet()
	f, err := parser.ParseFile(fset, webp.VerifEncodeSource(), nil, parser.ParseComments)
	if err != nil {
		return "", err
	}
	reSent := regexp.MustCompile(`\(or any value < 0\) is treated as (\d+)`)
	reRange := regexp.MustCompile(`\((\d+)-(\d+), default (\d+)\)`)
	ws := regexp.MustCompile(`\s+`)
	var sent, rng []string
	found := false
	ast.Inspect(f, func(n ast.Node) bool {
		ts, ok := n.(*ast.TypeSpec)
		if !ok || ts.Name.Name != "EncoderOptions" {
			return true
		}
		st, ok := ts.Type.(*ast.StructType)
		if !ok {
			return true
		}
		found = true
		for _, fld := range st.Fields.List {
			if fld.Doc == nil || len(fld.Names) != 1 {
				continue
			}
			name := fld.Names[0].Name
			txt := ws.ReplaceAllString(fld.Doc.Text(), " ")
			if m := reSent.FindStringSubmatch(txt); m != nil {
				sent = append(sent, fmt.Sprintf("%s<0=%s", name, m[1]))
			}
			if m := reRange.FindStringSubmatch(txt); m != nil {
				rng = append(rng, fmt.Sprintf("%s=%s..%s/%s", name, m[1], m[2], m[3]))
			}
		}
		return false
	})
	if !found {
		return "", fmt.Errorf("EncoderOptions not found in %s", webp.VerifEncodeSource())
	}
	return "ok " + join(sent, ",") + " | " + join(rng, ","), nil
}

func goOptF32(bits uint32) string {
	x := math.Float32frombits(bits)
	is := "-"
	nan, inf := math.IsNaN(float64(x)), math.IsInf(float64(x), 0)
	if !nan && !inf && math.Abs(float64(x)) < (1<<62) {
		is = strconv.Itoa(int(x))
	}
	return fmt.Sprintf("ok nan=%s inf=%s lt0=%s gt0=%s gt100=%s int=%s str=%s", b2s(nan), b2s(inf), b2s(x < 0), b2s(x > 0), b2s(x > 100), is, f32str(bits))
}

func goOptDefCfg(q int) string {
	c := verifapi.LossyDefaultConfig(q)
	d := "0"
	if c.Dithering != 0 {
		d = "nonzero"
	}
	return fmt.Sprintf("ok q=%d ts=%d psnr=%s m=%d sns=%d fs=%d fsh=%d ft=%d part=%d seg=%d pass=%d pre=%d dith=%s qmin=%d qmax=%d ha=%d",
		c.Quality, c.TargetSize, f32str(f32bits(c.TargetPSNR)), c.Method, c.SNSStrength, c.FilterStrength, c.FilterSharpness,
		c.FilterType, c.Partitions, c.Segments, c.Pass, c.Preprocessing, d, c.QMin, c.QMax, c.HasAlpha)
}

// ---------- real encodes ----------

type encResult struct {
	data  []byte
	cls   string // "ok" | "err <class>" | "panic"
	panic string
}

func realEncode(img image.Image, o *webp.EncoderOptions) encResult {
	var buf bytes.Buffer
	var res encResult
	s, pm := guard(func() string { return optErrClass(webp.Encode(&buf, img, o)) })
	res.cls, res.panic = s, pm
	if s == "ok" {
		res.data = buf.Bytes()
	}
	return res
}

func decodesTo(data []byte, w, h int) string {
	s, pm := guard(func() string {
		im, err := webp.Decode(bytes.NewReader(data))
		if err != nil {
			return "decode-error"
		}
		if im.Bounds().Dx() != w || im.Bounds().Dy() != h {
			return "decode-dims"
		}
		return ""
	})
	if s == "panic" {
		return "decode-panic:" + panicClass(pm)
	}
	return s
}

type optImg struct {
	name string
	img  image.Image
	w, h int
	a    bool // has alpha
	spec map[string]any
}

// mkOptImg builds (and, for a replay, rebuilds) a generator image from its literal parameters.
func mkOptImg(seed, k uint64, w, h, cls, acls int) optImg {
	im := GenImage(NewRNG(seed, k), w, h, cls, acls)
	return optImg{imgDesc(w, h, cls, acls) + fmt.Sprintf("#%d", k), im, w, h, acls != AlphaNone,
		map[string]any{"seed": seed, "k": k, "w": w, "h": h, "cls": cls, "acls": acls}}
}

func optImages(seed uint64, rich bool) []optImg {
	mk := func(k uint64, w, h, cls, acls int) optImg { return mkOptImg(seed, 900+k, w, h, cls, acls) }
	imgs := []optImg{
		mk(1, 19, 17, ClsPhoto, AlphaGradient),
		mk(2, 24, 24, ClsPhoto, AlphaNone),
		mk(3, 16, 16, ClsPal16, AlphaBinary),
		mk(4, 1, 1, ClsNoise, AlphaSemiFlat),
	}
	if rich {
		imgs = append(imgs, mk(5, 23, 9, ClsNoise, AlphaNoise), mk(6, 8, 24, ClsGradient, AlphaFewLevels), mk(7, 17, 17, ClsPal4, AlphaNone))
	}
	return imgs
}

type optEncoder struct {
	rep    *Report
	budget int
	used   int
	cache  map[string]encResult
	// pending model checks: one optfront line per real encode
	lines  []string
	goOut  []string
	what   []string
	pairs  [][3]string // (key a, key b, why) of every pair asserted byte-identical
	probes []optProbe  // pairs on which the model decides: model-equal must imply byte-identical
}

type optProbe struct {
	ka, kb, label string
	same          bool
	a, b          string
	img           map[string]any
}

// probe encodes two values that differ in one field at a critical value (0 vs the default, …);
// whether they must be identical is decided by the model afterwards.
func (e *optEncoder) probe(im optImg, a, b *webp.EncoderOptions, label string) {
	ra, ok1 := e.encode(im, a)
	rb, ok2 := e.encode(im, b)
	if !ok1 || !ok2 {
		return
	}
	e.probes = append(e.probes, optProbe{im.name + "|" + encOpts(a), im.name + "|" + encOpts(b), label,
		ra.cls == rb.cls && bytes.Equal(ra.data, rb.data), encOpts(a), encOpts(b), im.spec})
}

func (e *optEncoder) encode(im optImg, o *webp.EncoderOptions) (encResult, bool) {
	key := im.name + "|" + encOpts(o)
	if r, ok := e.cache[key]; ok {
		return r, true
	}
	if e.used >= e.budget {
		return encResult{}, false
	}
	e.used++
	r := realEncode(im.img, o)
	e.cache[key] = r
	fl := "-"
	if im.a {
		fl = "A"
	}
	e.lines = append(e.lines, fmt.Sprintf("optfront %s %d %d %s", encOpts(o), im.w, im.h, fl))
	e.goOut = append(e.goOut, r.cls)
	e.what = append(e.what, key)
	e.rep.Count("encode:" + strings.SplitN(r.cls, " ", 2)[0])
	if o != nil && o.Lossless {
		e.rep.Count("encode:lossless")
	} else {
		e.rep.Count("encode:lossy")
	}
	if r.cls == "panic" {
		e.rep.Add(Finding{Kind: "property", Property: "C20", Signature: "panic:Encode:" + panicClass(r.panic),
			Detail: "webp.Encode panicked: " + r.panic, Input: map[string]any{"op": "optpair", "a": encOpts(o), "b": encOpts(o), "img": im.spec}})
	}
	if r.cls == "ok" {
		if bad := decodesTo(r.data, im.w, im.h); bad != "" {
			e.rep.Add(Finding{Kind: "property", Property: "C20", Signature: "invalid-output:" + bad,
				Detail: "Encode succeeded but the Go decoder does not accept the file (" + bad + ")",
				Input:  map[string]any{"op": "optpair", "a": encOpts(o), "b": encOpts(o), "img": im.spec}})
		}
	}
	return r, true
}

// same asserts byte-identical outputs (or identical error classes) for two option values.
func (e *optEncoder) same(im optImg, a, b *webp.EncoderOptions, sig, why string) {
	ra, ok1 := e.encode(im, a)
	rb, ok2 := e.encode(im, b)
	if !ok1 || !ok2 {
		return
	}
	e.rep.Count("pair:" + strings.SplitN(sig, ":", 2)[0])
	e.pairs = append(e.pairs, [3]string{im.name + "|" + encOpts(a), im.name + "|" + encOpts(b), sig})
	e.rep.Eval(ra.cls == "ok", []byte(im.name+"|"+encOpts(a)+"|"+encOpts(b)))
	if ra.cls != rb.cls || !bytes.Equal(ra.data, rb.data) {
		// Rule out an encoder whose output depends on earlier calls before blaming the options:
		// re-encode both alternately; if either value has more than one output, or the output
		// sets meet, the difference is not caused by the options (that is C11/C10, not C20).
		seenA, seenB := map[string]bool{digest(ra.data): true}, map[string]bool{digest(rb.data): true}
		for k := 0; k < 4; k++ {
			seenA[digest(realEncode(im.img, a).data)] = true
			seenB[digest(realEncode(im.img, b).data)] = true
		}
		meet := false
		for k := range seenA {
			if seenB[k] {
				meet = true
			}
		}
		prop := "C20"
		if len(seenA) > 1 || len(seenB) > 1 || meet {
			mode := "lossy"
			if a != nil && a.Lossless {
				mode = "lossless"
			}
			prop, sig = "C11", "history-dependent-encode:"+mode
			why = "same image and options encode to different bytes depending on earlier Encode calls (seen while checking: " + why + ")"
			e.rep.Count("history-dependent-encode")
		}
		e.rep.Add(Finding{Kind: "property", Property: prop, Signature: sig,
			Detail: fmt.Sprintf("%s: outputs differ on %s: %s %s vs %s %s (a: %d distinct outputs, b: %d)", why, im.name, ra.cls, digest(ra.data), rb.cls, digest(rb.data), len(seenA), len(seenB)),
			Input:  map[string]any{"op": "optpair", "a": encOpts(a), "b": encOpts(b), "img": im.spec}})
	}
}

func cloneOpts(o *webp.EncoderOptions) *webp.EncoderOptions { c := *o; return &c }

// explicitBase: a valid value with every sentinel field at its documented default, explicitly.
func explicitBase(r *RNG, lossless bool) *webp.EncoderOptions {
	o := &webp.EncoderOptions{
		Lossless: lossless, Quality: []float32{30, 75, 90}[r.Intn(3)], Method: []int{0, 2, 4, 4, 5}[r.Intn(5)],
		SNSStrength: 50, FilterStrength: 60, FilterSharpness: r.Intn(8), FilterType: 1, Partitions: r.Intn(4),
		Segments: 4, Pass: 1, QMin: 0, QMax: 100, AlphaCompression: 1, AlphaFiltering: 1, AlphaQuality: 100,
		Preprocessing: r.Intn(4), Exact: r.Chance(1, 3), UseSharpYUV: r.Chance(1, 4),
	}
	if r.Chance(1, 3) {
		o.ICC = metaBuf(3)
	}
	return o
}

type sentinelField struct {
	name  string
	deflt int
	zero  bool // 0 is a sentinel too
	set   func(*webp.EncoderOptions, int)
}

var sentinelFields = []sentinelField{
	{"SNSStrength", 50, false, func(o *webp.EncoderOptions, v int) { o.SNSStrength = v }},
	{"FilterStrength", 60, false, func(o *webp.EncoderOptions, v int) { o.FilterStrength = v }},
	{"FilterType", 1, false, func(o *webp.EncoderOptions, v int) { o.FilterType = v }},
	{"Segments", 4, true, func(o *webp.EncoderOptions, v int) { o.Segments = v }},
	{"Pass", 1, true, func(o *webp.EncoderOptions, v int) { o.Pass = v }},
	{"QMax", 100, false, func(o *webp.EncoderOptions, v int) { o.QMax = v }},
	{"AlphaCompression", 1, false, func(o *webp.EncoderOptions, v int) { o.AlphaCompression = v }},
	{"AlphaFiltering", 1, false, func(o *webp.EncoderOptions, v int) { o.AlphaFiltering = v }},
	{"AlphaQuality", 100, false, func(o *webp.EncoderOptions, v int) { o.AlphaQuality = v }},
}

// lossy-only fields with a valid non-default value (the ones whose doc comment says
// "lossy encoding only" are marked doc=true; the rest are VP8 parameters by nature)
var lossyOnly = []struct {
	name string
	doc  bool
	set  func(*webp.EncoderOptions)
}{
	{"TargetSize", false, func(o *webp.EncoderOptions) { o.TargetSize = 1000 }},
	{"TargetPSNR", false, func(o *webp.EncoderOptions) { o.TargetPSNR = 40 }},
	{"Preprocessing", true, func(o *webp.EncoderOptions) { o.Preprocessing = 3 }},
	{"SNSStrength", false, func(o *webp.EncoderOptions) { o.SNSStrength = 0 }},
	{"FilterStrength", false, func(o *webp.EncoderOptions) { o.FilterStrength = 100 }},
	{"FilterSharpness", false, func(o *webp.EncoderOptions) { o.FilterSharpness = 7 }},
	{"FilterType", false, func(o *webp.EncoderOptions) { o.FilterType = 0 }},
	{"Partitions", false, func(o *webp.EncoderOptions) { o.Partitions = 3 }},
	{"Segments", false, func(o *webp.EncoderOptions) { o.Segments = 1 }},
	{"Pass", false, func(o *webp.EncoderOptions) { o.Pass = 10 }},
	{"QMin", false, func(o *webp.EncoderOptions) { o.QMin = 50 }},
	{"QMax", false, func(o *webp.EncoderOptions) { o.QMax = 0 }},
	{"AlphaCompression", true, func(o *webp.EncoderOptions) { o.AlphaCompression = 0 }},
	{"AlphaFiltering", true, func(o *webp.EncoderOptions) { o.AlphaFiltering = 2 }},
	{"AlphaQuality", true, func(o *webp.EncoderOptions) { o.AlphaQuality = 0 }},
	{"UseSharpYUV", false, func(o *webp.EncoderOptions) { o.UseSharpYUV = true }},
	{"EmulateJpegSize", false, func(o *webp.EncoderOptions) { o.EmulateJpegSize = true }},
	{"Preset", false, func(o *webp.EncoderOptions) { o.Preset = webp.PresetText }},
}

func suiteOpts(rep *Report) error {
	rich := rep.Tier == "thorough"
	rep.Rule = "records: EncoderOptions values = fixed (nil, zero value, DefaultOptions, every preset) + single-field boundaries on a valid base + all pairs of fields × all pairs of boundary values {min-1,min,min+1,default,max-1,max,max+1,-1,-2,0,MinInt,MaxInt} (floats: ±0, subnormals, 99.99999, 100, 100.00001, -0.0001, NaN×3, ±Inf, ±MaxFloat32; metadata nil/empty/1/5/100MB/100MB+1) on valid bases (sampled in quick, complete ×60 bases in thorough) + full product of the small fields + fully random boundary records; each record goes through validateConfig (hook) and, with a writer/image situation (nil writer, nil image, dims 1x1 … 16384, ≤0, alpha), through Encode's front end, and through the Lean model (dimension pairs include Min>Max on BOTH axes: -3x-4, -1x-1, -16x-16, -16383x-16383, MinInt32xMinInt32); empty rectangles of every sign pattern on NRGBA/RGBA/Gray/NRGBA64/Paletted/generic images through the real Encode under a recover guard (must return the dimension error, write nothing); encodes: real webp.Encode on images ≤ 24x24 (lossy/lossless, with/without alpha) for sentinel/default pairs, nil vs DefaultOptions, lossy-only options under Lossless, EmulateJpegSize, Preset, boundary values, boundary dimensions, records the model resolves identically; non-trivial = record accepted by validateConfig or rejected by a check after the first one, and every encode pair whose base encode succeeded; distinct = FNV of the encoded record + situation"

	var lines, goOut, what []string
	emit := func(line, g, w string) { lines = append(lines, line); goOut = append(goOut, g); what = append(what, w) }

	// --- exact ties of the small pieces ---
	doc, err := goOptDoc()
	if err != nil {
		return err
	}
	emit("optdoc", doc, "doc")
	emit("optdefault", "ok "+canonOpts(webp.DefaultOptions()), "DefaultOptions")
	emit("optenum", fmt.Sprintf("ok none=%d fast=%d best=%d", verifapi.AlphaFilterModeNone, verifapi.AlphaFilterModeFast, verifapi.AlphaFilterModeBest), "enum")
	for p := -2; p <= 7; p++ {
		for _, qb := range qualityBits {
			emit(fmt.Sprintf("optpreset %d %d", p, qb), "ok "+canonOpts(webp.OptionsForPreset(webp.Preset(p), math.Float32frombits(qb))), "OptionsForPreset")
		}
	}
	for _, q := range []int{math.MinInt, -1, 0, 1, 50, 99, 100, 101, math.MaxInt} {
		emit(fmt.Sprintf("optdefcfg %d", q), goOptDefCfg(q), "DefaultConfig")
	}
	for _, f := range sentinelFields {
		for _, v := range []int{math.MinInt, -2, -1, 0, 1, f.deflt, f.deflt + 1, 100, 101, math.MaxInt} {
			g, _ := webp.VerifResolve(f.name, v)
			emit(fmt.Sprintf("optresolve %s %d", f.name, v), fmt.Sprintf("ok %d", g), "resolve")
		}
	}
	nF32 := 20000
	if rich {
		nF32 = 400000
	}
	for i := 0; i < nF32; i++ {
		r := NewRNG(rep.Seed, uint64(7_000_000+i))
		var b uint32
		switch r.Intn(4) {
		case 0:
			b = uint32(r.Next())
		case 1: // around 100.0
			b = 0x42C80000 + uint32(r.Intn(64)) - 32
		case 2: // small magnitudes, both signs
			b = uint32(r.Intn(1<<12)) | uint32(r.Intn(2))<<31
		default: // 0..128 region with random mantissa
			b = uint32(0x3F000000+r.Intn(0x04000000)) | uint32(r.Intn(8)/7)<<31
		}
		emit(fmt.Sprintf("optf32 %d", b), goOptF32(b), "f32")
	}
	for _, b := range append(append([]uint32{}, qualityBits...), psnrBits...) {
		emit(fmt.Sprintf("optf32 %d", b), goOptF32(b), "f32")
	}
	nSmall := len(lines)
	rep.CountN("exact-ties", nSmall)

	// --- comparison of Go lines with the model's lines ---
	compare := func(ls, gs, ws, leanOut []string) {
		for i := range ls {
			l, g := leanOut[i], gs[i]
			agree := l == g
			if strings.HasPrefix(ls[i], "optfront ") {
				// the model prints the resolved configuration after "ok"; Go can only observe ok / err class
				agree = l == g || (g == "ok" && strings.HasPrefix(l, "ok "))
			}
			if !agree {
				op := strings.Fields(ls[i])[0]
				sig := "opts-model:" + op
				if op == "optdoc" {
					sig = "opts-doc-constants"
				}
				rep.Add(Finding{Kind: "correspondence", Property: "C20", Signature: sig,
					Detail: fmt.Sprintf("%s (%s): go=%q lean=%q", short(ls[i], 300), ws[i], short(g, 300), short(l, 300)),
					Input:  map[string]any{"op": "optline", "line": ls[i]}})
			}
			if l == "panic" || l == "hang" || l == "bad-op" {
				rep.Add(Finding{Kind: "correspondence", Property: "C20", Signature: "opts-model-" + l,
					Detail: "Lean driver answered " + l + " on " + short(ls[i], 300), Input: map[string]any{"op": "optline", "line": ls[i]}})
			}
		}
	}
	lo, err := RunDriver(lines)
	if err != nil {
		return err
	}
	compare(lines, goOut, what, lo)
	lines, goOut, what = nil, nil, nil

	// --- records through validateConfig and the front end (streamed in batches) ---
	groups := map[string][]string{} // resolved configuration (model) -> distinct option encodings
	nRecords := 0
	var sampleCases []optCase
	flush := func() error {
		if len(lines) == 0 {
			return nil
		}
		lo, err := RunDriver(lines)
		if err != nil {
			return err
		}
		compare(lines, goOut, what, lo)
		for i := range lines {
			if len(groups) < 200000 && strings.HasPrefix(lines[i], "optfront ") && strings.HasPrefix(lo[i], "ok ") && goOut[i] == "ok" {
				enc := strings.Fields(lines[i])[1]
				g := groups[lo[i]]
				if len(g) < 2 && (len(g) == 0 || g[0] != enc) {
					groups[lo[i]] = append(g, enc)
				}
			}
		}
		lines, goOut, what = lines[:0], goOut[:0], what[:0]
		return nil
	}
	var ferr error
	genOptCases(rep.Seed, rep.Tier, func(c optCase) {
		if ferr != nil {
			return
		}
		nRecords++
		if nRecords%4999 == 1 && len(sampleCases) < 6 {
			sampleCases = append(sampleCases, c)
		}
		enc := encOpts(c.o)
		vcls := "nil"
		if c.o != nil {
			g, pm := guard(func() string { return goOptValidate(c.o) })
			if g == "panic" {
				rep.Add(Finding{Kind: "property", Property: "C20", Signature: "panic:validateConfig:" + panicClass(pm),
					Detail: "validateConfig panicked: " + pm, Input: map[string]any{"op": "optline", "line": "optvalidate " + enc}})
			}
			emit("optvalidate "+enc, g, c.kind)
			vcls = g
		}
		fl := fmt.Sprintf("optfront %s %d %d %s", enc, c.w, c.h, c.flags)
		var real bool
		g, pm := guard(func() string { s, r := goOptFront(c); real = r; return s })
		if strings.HasPrefix(g, "panic:") { // from the watched real Encode
			pm, g = g[len("panic:"):], "panic"
		}
		if g == "panic" {
			rep.Add(Finding{Kind: "property", Property: "C20", Signature: "panic:Encode-front:" + panicClass(pm),
				Detail: "webp.Encode panicked: " + pm, Input: map[string]any{"op": "optline", "line": fl}})
		}
		if g == "hang" {
			rep.Add(Finding{Kind: "property", Property: "C20", Signature: "hang:Encode-front",
				Detail: fmt.Sprintf("webp.Encode did not return within %v on arguments it must reject before touching pixels (image %dx%d, flags %s)", optWatchdog, c.w, c.h, c.flags),
				Input:  map[string]any{"op": "optline", "line": fl}})
		}
		emit(fl, g, c.kind)
		rep.Count("kind:" + c.kind)
		rep.Count("validate:" + vcls)
		rep.Count("front:" + g)
		if real {
			rep.Count("front-by-real-Encode")
		}
		rep.Eval(vcls == "ok" || (vcls != "err Quality" && vcls != "nil") || c.o == nil, []byte(fl))
		if len(lines) >= 200000 {
			ferr = flush()
		}
	})
	if ferr != nil {
		return ferr
	}
	if err := flush(); err != nil {
		return err
	}

	// --- real encodes ---
	imgs := optImages(rep.Seed, rich)
	budget := 400
	if rich {
		budget = 6000
	}
	E := &optEncoder{rep: rep, budget: budget, cache: map[string]encResult{}}
	lossyImgs, losslessImgs := []optImg{imgs[0], imgs[1]}, []optImg{imgs[2], imgs[0]}
	if rich {
		lossyImgs = append(lossyImgs, imgs[4], imgs[5], imgs[3])
		losslessImgs = append(losslessImgs, imgs[4], imgs[6], imgs[3])
	}
	nBases := 1
	if rich {
		nBases = 8
	}
	rb := func(k int) *RNG { return NewRNG(rep.Seed, uint64(9_000_000+k)) }

	// nil vs DefaultOptions(), and the zero value must at least be accepted
	for _, im := range imgs {
		E.same(im, nil, webp.DefaultOptions(), "nil-vs-default", "nil options vs DefaultOptions()")
		E.same(im, webp.DefaultOptions(), webp.OptionsForPreset(webp.PresetDefault, 75), "preset-default-vs-default", "OptionsForPreset(PresetDefault,75) vs DefaultOptions()")
		E.encode(im, &webp.EncoderOptions{})
	}
	// sentinels
	for bi := 0; bi < nBases; bi++ {
		for ii, im := range lossyImgs {
			r := rb(bi*16 + ii)
			base := explicitBase(r, false)
			all := cloneOpts(base)
			for _, f := range sentinelFields {
				vals := []int{-1, []int{-2, math.MinInt, -100}[r.Intn(3)]}
				if f.zero {
					vals = append(vals, 0)
				}
				for _, v := range vals {
					o := cloneOpts(base)
					f.set(o, v)
					cls := "neg"
					if v == 0 {
						cls = "zero"
					}
					E.same(im, o, base, "sentinel:"+f.name+":"+cls, fmt.Sprintf("%s=%d vs documented default %d", f.name, v, f.deflt))
				}
				f.set(all, -1)
			}
			E.same(im, all, base, "sentinel:all", "all sentinel fields -1 vs all explicit defaults")
		}
		// sentinels must also be harmless under Lossless
		r := rb(bi*16 + 9)
		base := explicitBase(r, true)
		all := cloneOpts(base)
		for _, f := range sentinelFields {
			f.set(all, -1)
		}
		all.Segments, all.Pass = 0, 0
		E.same(losslessImgs[bi%len(losslessImgs)], all, base, "sentinel:all-lossless", "all sentinels vs explicit defaults, lossless")
	}
	// lossy-only options under Lossless; EmulateJpegSize; Preset
	for bi := 0; bi < nBases; bi++ {
		for ii, im := range losslessImgs {
			r := rb(1000 + bi*16 + ii)
			base := explicitBase(r, true)
			base.UseSharpYUV = false
			all := cloneOpts(base)
			for _, f := range lossyOnly {
				o := cloneOpts(base)
				f.set(o)
				f.set(all)
				E.same(im, o, base, "lossless-lossy-only:"+f.name, f.name+" changed under Lossless")
			}
			all.QMin, all.QMax = 20, 30
			E.same(im, all, base, "lossless-lossy-only:all", "all lossy-only fields changed under Lossless")
		}
		for ii, im := range lossyImgs {
			r := rb(2000 + bi*16 + ii)
			base := explicitBase(r, false)
			o := cloneOpts(base)
			o.EmulateJpegSize = true
			E.same(im, o, base, "no-effect:EmulateJpegSize", "EmulateJpegSize=true vs false")
			for p := 1; p <= 5; p++ {
				o := cloneOpts(base)
				o.Preset = webp.Preset(p)
				E.same(im, o, base, "preset-field", fmt.Sprintf("Preset=%d vs PresetDefault, other fields equal (model: Preset is not read after validation)", p))
			}
		}
	}
	// directed probes at the values where a `>=` / `>` slip in the propagation block would show:
	// explicit 0 (and 1) against the explicit default, field by field; the model decides equality
	{
		im := lossyImgs[0]
		base := &webp.EncoderOptions{Quality: 60, Method: 4, TargetPSNR: 42, SNSStrength: 50, FilterStrength: 60, FilterType: 1,
			Segments: 4, Pass: 1, QMax: 100, AlphaCompression: 1, AlphaFiltering: 1, AlphaQuality: 100}
		for _, f := range sentinelFields {
			for _, v := range []int{0, 1, 2} {
				if v == f.deflt {
					continue
				}
				o := cloneOpts(base)
				f.set(o, v)
				if webp.VerifValidate(o) != nil {
					continue
				}
				E.probe(im, o, base, fmt.Sprintf("%s=%d vs %d", f.name, v, f.deflt))
			}
		}
	}
	// targeted sensitivity for the fields that only act in special modes
	{
		im := lossyImgs[0]
		sens := func(name string, a, b *webp.EncoderOptions) {
			ra, ok1 := E.encode(im, a)
			rb, ok2 := E.encode(im, b)
			if ok1 && ok2 && ra.cls == "ok" && rb.cls == "ok" && !bytes.Equal(ra.data, rb.data) {
				rep.Count("sensitive:" + name)
			}
		}
		search := &webp.EncoderOptions{Quality: 50, Method: 4, TargetPSNR: 45, SNSStrength: 50, FilterStrength: 60, FilterType: 1, Segments: 4, Pass: 6, QMax: 100, AlphaCompression: 1, AlphaFiltering: 1, AlphaQuality: 100}
		qmax := cloneOpts(search)
		qmax.QMax = 20
		sens("QMax", search, qmax)
		qmin := cloneOpts(search)
		qmin.TargetPSNR, qmin.QMin = 20, 90
		lo := cloneOpts(search)
		lo.TargetPSNR = 20
		sens("QMin", lo, qmin)
		m1 := cloneOpts(search)
		m1.TargetPSNR, m1.TargetSize, m1.Pass = 0, 400, 1
		m1p := cloneOpts(m1)
		m1p.Pass = 10
		{
			ra, ok1 := E.encode(lossyImgs[1], m1)
			rb, ok2 := E.encode(lossyImgs[1], m1p)
			if ok1 && ok2 && ra.cls == "ok" && rb.cls == "ok" && !bytes.Equal(ra.data, rb.data) {
				rep.Count("sensitive:Pass")
			}
		}
		ll := &webp.EncoderOptions{Lossless: true, Quality: 40, Method: 2, QMax: -1}
		for name, f := range map[string]func(*webp.EncoderOptions){
			"lossless.Quality": func(o *webp.EncoderOptions) { o.Quality = 80 },
			"lossless.Method":  func(o *webp.EncoderOptions) { o.Method = 6 },
			"lossless.Exact":   func(o *webp.EncoderOptions) { o.Exact = true },
			"lossless.ICC":     func(o *webp.EncoderOptions) { o.ICC = metaBuf(4) },
		} {
			o := cloneOpts(ll)
			f(o)
			ra, ok1 := E.encode(imgs[0], ll)
			rb, ok2 := E.encode(imgs[0], o)
			if ok1 && ok2 && !bytes.Equal(ra.data, rb.data) {
				rep.Count("sensitive:" + name)
			}
		}
	}
	// boundary dimensions (cheap: one row / one column)
	for _, d := range [][2]int{{1, 1}, {16383, 1}, {1, 16383}, {2, 1}, {1, 2}, {17, 1}, {1, 17}} {
		for _, acls := range []int{AlphaNone, AlphaGradient} {
			im := mkOptImg(rep.Seed, 555, d[0], d[1], ClsGradient, acls)
			E.encode(im, nil)
			E.encode(im, &webp.EncoderOptions{Lossless: true, Quality: 20, Method: 1})
			rep.Count(fmt.Sprintf("dims:%dx%d", d[0], d[1]))
		}
	}

	// empty rectangles on the concrete image types (every sign pattern of Dx/Dy ≤ 0, incl. Min > Max
	// on BOTH axes, where Dx()*Dy() > 0): the real Encode, under a recover guard, must return the
	// dimension error and write nothing — with nil, default, lossy and lossless options.
	for ri, rc := range optEmptyRects {
		for ti := range optEmptyTypes {
			for oi := range optEmptyOpts {
				if bad, detail := emptyBoundsCheck(ri, ti, oi); bad != "" {
					rep.Add(Finding{Kind: "property", Property: "C20", Signature: "empty-bounds:" + bad,
						Detail: detail, Input: map[string]any{"op": "optempty", "rect": ri, "type": ti, "opts": oi}})
				}
				rep.Eval(true, []byte(fmt.Sprintf("optempty %d %d %d", ri, ti, oi)))
			}
		}
		sx, sy := "neg", "neg"
		if rc.Dx() == 0 {
			sx = "zero"
		}
		if rc.Dy() == 0 {
			sy = "zero"
		} else if rc.Dy() > 0 {
			sy = "pos"
		}
		if rc.Dx() > 0 {
			sx = "pos"
		}
		rep.Count("empty-bounds:dx-" + sx + ":dy-" + sy)
	}

	// boundary values: must not panic, must decode; sensitivity of each resolved field
	type bv struct {
		field string
		set   func(*webp.EncoderOptions)
	}
	var bvs []bv
	for _, f := range optIntFields {
		if f.get == nil {
			continue
		}
		f := f
		for _, v := range []int{f.lo, f.lo + 1, f.hi - 1, f.hi} {
			v := v
			if f.name == "TargetSize" && (v == 0 || v == math.MaxInt-1) {
				continue
			}
			bvs = append(bvs, bv{fmt.Sprintf("%s=%d", f.name, v), func(o *webp.EncoderOptions) {
				*f.get(o) = v
				if f.name == "QMin" {
					o.QMax = 100
				}
				if f.name == "QMax" {
					o.QMin = 0
				}
			}})
		}
	}
	bvs = append(bvs, bv{"TargetSize=100", func(o *webp.EncoderOptions) { o.TargetSize = 100 }},
		bv{"QMin=QMax=37", func(o *webp.EncoderOptions) { o.QMin, o.QMax = 37, 37 }},
		bv{"QMin=QMax=0", func(o *webp.EncoderOptions) { o.QMin, o.QMax = 0, 0 }},
		bv{"Exact", func(o *webp.EncoderOptions) { o.Exact = !o.Exact }},
		bv{"UseSharpYUV", func(o *webp.EncoderOptions) { o.UseSharpYUV = !o.UseSharpYUV }},
		bv{"ICC=empty", func(o *webp.EncoderOptions) { o.ICC = []byte{} }},
		bv{"EXIF=1", func(o *webp.EncoderOptions) { o.EXIF = metaBuf(1) }},
		bv{"XMP=5", func(o *webp.EncoderOptions) { o.XMP = metaBuf(5) }})
	for _, qb := range []uint32{0x00000000, 0x80000000, 0x00000001, 0x3F000000, 0x42C7FFFF, 0x42C80000} {
		qb := qb
		bvs = append(bvs, bv{"Quality=" + f32str(qb), func(o *webp.EncoderOptions) { o.Quality = math.Float32frombits(qb) }})
	}
	for _, pb := range []uint32{0x00000001, 0x41F00000, 0x42C80000, 0x7F7FFFFF, 0x80000000} {
		pb := pb
		bvs = append(bvs, bv{"TargetPSNR=" + f32str(pb), func(o *webp.EncoderOptions) { o.TargetPSNR = math.Float32frombits(pb) }})
	}
	for bi := 0; bi < nBases; bi++ {
		for _, lossless := range []bool{false, true} {
			ims := lossyImgs
			if lossless {
				ims = losslessImgs
			}
			im := ims[bi%len(ims)]
			if !lossless {
				im = lossyImgs[0] // the alpha image exercises the alpha options
				if bi > 0 {
					im = ims[bi%len(ims)]
				}
			}
			r := rb(3000 + bi*2)
			base := explicitBase(r, lossless)
			base.Preprocessing = 0
			rbase, ok := E.encode(im, base)
			if !ok {
				break
			}
			for _, b := range bvs {
				o := cloneOpts(base)
				b.set(o)
				res, ok := E.encode(im, o)
				if !ok {
					break
				}
				rep.Eval(true, []byte("bv|"+im.name+"|"+encOpts(o)))
				if res.cls != "ok" {
					rep.Count("boundary-rejected:" + b.field)
				} else if !lossless && !bytes.Equal(res.data, rbase.data) {
					rep.Count("sensitive:" + strings.SplitN(b.field, "=", 2)[0])
				}
			}
			// pairs of boundary values
			np := 30
			if rich {
				np = 150
			}
			for k := 0; k < np; k++ {
				o := cloneOpts(base)
				b1, b2 := bvs[r.Intn(len(bvs))], bvs[r.Intn(len(bvs))]
				b1.set(o)
				b2.set(o)
				if webp.VerifValidate(o) != nil {
					continue
				}
				if _, ok := E.encode(im, o); !ok {
					break
				}
				rep.Eval(true, []byte("bv2|"+im.name+"|"+encOpts(o)))
			}
		}
	}
	// --- outside the model: typed-nil pointers inside the interfaces (img == nil / w == nil are false) ---
	{
		_, pm := guard(func() string { var p *image.NRGBA; return optErrClass(webp.Encode(&bytes.Buffer{}, p, nil)) })
		if pm != "" {
			rep.Count("typed-nil-image:panic")
			rep.Notes = append(rep.Notes, "Encode(w, (*image.NRGBA)(nil), nil) panics ("+short(pm, 80)+"): the `img == nil` check only sees an untyped nil; the model's imgNil means the interface value is nil")
		}
		_, pm = guard(func() string { var w *bytes.Buffer; return optErrClass(webp.Encode(w, imgs[3].img, nil)) })
		if pm != "" {
			rep.Count("typed-nil-writer:panic")
			rep.Notes = append(rep.Notes, "Encode((*bytes.Buffer)(nil), img, nil) panics inside the writer ("+short(pm, 80)+"): same remark for `w == nil`")
		}
	}

	// --- records the model resolves identically must encode identically ---
	var keys []string
	for k, v := range groups {
		if len(v) >= 2 {
			keys = append(keys, k)
		}
	}
	sort.Strings(keys)
	nGroups := 0
	for _, k := range keys {
		if E.used+2 > E.budget {
			break
		}
		v := groups[k]
		oa, _ := decOpts(v[0])
		ob, _ := decOpts(v[1])
		if (oa != nil && len(oa.ICC)+len(oa.EXIF)+len(oa.XMP) > 64) || (ob != nil && len(ob.ICC)+len(ob.EXIF)+len(ob.XMP) > 64) {
			continue
		}
		lossless := oa != nil && oa.Lossless
		im := lossyImgs[nGroups%len(lossyImgs)]
		if lossless {
			im = losslessImgs[nGroups%len(losslessImgs)]
		}
		E.same(im, oa, ob, "model-equal-records", "two records the model resolves to the same configuration")
		nGroups++
	}
	rep.CountN("model-equal-groups", nGroups)

	// --- the model's accept/reject decision for every real encode ---
	lo, err = RunDriver(E.lines)
	if err != nil {
		return err
	}
	compare(E.lines, E.goOut, E.what, lo)
	for _, pb := range E.probes {
		la, lb := "", ""
		for i, w := range E.what {
			if w == pb.ka {
				la = lo[i]
			}
			if w == pb.kb {
				lb = lo[i]
			}
		}
		switch {
		case la == lb && !pb.same:
			rep.Add(Finding{Kind: "correspondence", Property: "C20", Signature: "opts-model:merges-distinct-configs",
				Detail: "probe " + pb.label + ": the model resolves both values to the same configuration but the real outputs differ",
				Input:  map[string]any{"op": "optpair", "a": pb.a, "b": pb.b, "img": pb.img}})
		case la != lb && pb.same:
			rep.Count("probe-inconclusive:" + strings.SplitN(pb.label, "=", 2)[0])
		default:
			rep.Count("probe-agrees")
		}
	}
	// pairs the suite asserted equal must also be equal in the model (driver = theorems)
	leanOf := map[string]string{}
	for i, w := range E.what {
		leanOf[w] = lo[i]
	}
	for _, pc := range E.pairs {
		if la, lb := leanOf[pc[0]], leanOf[pc[1]]; la != lb {
			rep.Add(Finding{Kind: "correspondence", Property: "C20", Signature: "opts-model:pair-not-equal-in-model",
				Detail: fmt.Sprintf("%s: model resolves the two values differently: %q vs %q", pc[2], short(la, 300), short(lb, 300)),
				Input:  map[string]any{"op": "optline", "line": "optfront " + strings.SplitN(pc[0], "|", 2)[1] + " 9 9 A"}})
		}
	}
	rep.CountN("encodes", E.used)
	rep.Extra["encodes"] = E.used
	rep.Extra["records"] = nRecords
	for _, c := range sampleCases {
		rep.Sample(map[string]any{"kind": c.kind, "opts": encOpts(c.o), "w": c.w, "h": c.h, "flags": c.flags})
	}
	return nil
}

// ---------- replays ----------

func replayOptLine(in map[string]any) int {
	line, _ := in["line"].(string)
	f := strings.Fields(line)
	if len(f) == 0 {
		return 2
	}
	var g string
	switch f[0] {
	case "optvalidate":
		o, err := decOpts(f[1])
		if err != nil || o == nil {
			return 2
		}
		g, _ = guard(func() string { return goOptValidate(o) })
	case "optfront":
		o, err := decOpts(f[1])
		if err != nil || len(f) != 5 {
			return 2
		}
		w, _ := strconv.Atoi(f[2])
		h, _ := strconv.Atoi(f[3])
		if w >= 1 && h >= 1 && w <= 64 && h <= 64 && !strings.ContainsAny(f[4], "WI") {
			acls := AlphaNone
			if strings.Contains(f[4], "A") {
				acls = AlphaGradient
			}
			g = realEncode(GenImage(NewRNG(1, 1), w, h, ClsPhoto, acls), o).cls
		} else {
			g, _ = guard(func() string { s, _ := goOptFront(optCase{o, "replay", w, h, f[4]}); return s })
		}
	case "optdoc":
		g, _ = goOptDoc()
	case "optf32":
		b, _ := strconv.ParseUint(f[1], 10, 32)
		g = goOptF32(uint32(b))
	default:
		fmt.Println("replay of", f[0], "not supported; rerun the suite")
		return 2
	}
	l, err := RunDriver([]string{line})
	fmt.Printf("go:   %s\n", g)
	if err != nil {
		fmt.Println(err)
		return 2
	}
	fmt.Printf("lean: %s\n", l[0])
	if l[0] == g || (g == "ok" && strings.HasPrefix(l[0], "ok ")) {
		return 0
	}
	return 1
}

func replayOptPair(in map[string]any) int {
	as, _ := in["a"].(string)
	bs, _ := in["b"].(string)
	sp, _ := in["img"].(map[string]any)
	oa, e1 := decOpts(as)
	ob, e2 := decOpts(bs)
	if e1 != nil || e2 != nil || sp == nil {
		return 2
	}
	num := func(k string) int { v, _ := sp[k].(float64); return int(v) }
	w, h := num("w"), num("h")
	img := mkOptImg(uint64(num("seed")), uint64(num("k")), w, h, num("cls"), num("acls")).img
	ra, rb := realEncode(img, oa), realEncode(img, ob)
	fmt.Printf("a: %s %s %s\nb: %s %s %s\n", ra.cls, digest(ra.data), ra.panic, rb.cls, digest(rb.data), rb.panic)
	if ra.cls == "panic" || rb.cls == "panic" || ra.cls != rb.cls || !bytes.Equal(ra.data, rb.data) {
		return 1
	}
	if ra.cls == "ok" && decodesTo(ra.data, w, h) != "" {
		return 1
	}
	return 0
}
