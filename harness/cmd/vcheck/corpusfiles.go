package main

import (
	"encoding/hex"
	"os"
	"path/filepath"
	"strings"
)

// CorpusDir holds minimised past failures and hand-built edge files (*.hex, one hex string per line, # comments).
var CorpusDir = "/verif/corpus"

func corpusInputs() []cInput {
	var out []cInput
	files, _ := filepath.Glob(filepath.Join(CorpusDir, "container", "*.hex"))
	for _, f := range files {
		b, err := os.ReadFile(f)
		if err != nil {
			continue
		}
		for _, ln := range strings.Split(string(b), "\n") {
			ln = strings.TrimSpace(ln)
			if ln == "" || strings.HasPrefix(ln, "#") {
				continue
			}
			if d, err := hex.DecodeString(ln); err == nil {
				out = append(out, cInput{d, "corpus:" + filepath.Base(f)})
			}
		}
	}
	return out
}
