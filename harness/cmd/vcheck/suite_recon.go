package main

import (
	"bytes"
	"fmt"
	"image"
	"image/color"
	"os"
	"runtime"
	"strings"
	"sync"

	webp "github.com/deepteams/webp"
	"github.com/deepteams/webp/verifapi"
)

func init() { suites["recon"] = suiteRecon }

// suiteRecon: C06 — the decoder's picture equals the encoder's own reconstruction.
//
//	(a) FilterStrength 0: decoded Y/Cb/Cr == reconstruction planes on the visible area (Go decoder);
//	(b) any filter strength: the Lean RFC-6386 decoder's PRE-FILTER planes (op vp8raw) == reconstruction,
//	    when the driver provides that op (otherwise counted as skipped).
func suiteRecon(rep *Report) error {
	rep.Rule = "lossy Encode over image class (incl. every 19th case: >= 510 macroblocks of a periodic texture with one or two flat macroblocks, Segments 2..4, SNS > 0 - the segment map is then dropped) x size (incl. non-multiples of 16, 1x1, 320x320, 368x368, 512x512, 1024x144) x Quality x Method 0..6 x Segments 1..4 x Partitions 0..3 x Pass x SNS/filter settings x presets x QMin/QMax x TargetSize/TargetPSNR x sharp YUV, plus a rate-control sweep (40 cases: pictures with content of 17x33..64x64, TargetSize 200..4000 or TargetPSNR 25..45, Pass 1..10, Method 0..6, Segments 1..4, three of five with FilterStrength 0), on 1 CPU and 4 CPUs; the encoder's reconstruction planes (hook) are compared with (a) webp.Decode's YCbCr planes when FilterStrength=0 and (b) the Lean spec decoder's pre-loop-filter planes for any strength; decoded size must equal the source size; non-trivial = image not flat"
	defer runtime.GOMAXPROCS(runtime.GOMAXPROCS(0))
	n := 260
	if rep.Tier == "thorough" {
		n = 6000
	}
	sizes := [][2]int{{1, 1}, {3, 2}, {15, 15}, {16, 16}, {17, 33}, {31, 64}, {48, 48}, {64, 65}, {80, 64}, {100, 70}}
	var mu sync.Mutex
	var last *verifapi.LossyRecon
	verifapi.SetAfterEncodeHook(func(r verifapi.LossyRecon) {
		mu.Lock()
		rr := r
		last = &rr
		mu.Unlock()
	})
	defer verifapi.SetAfterEncodeHook(nil)
	var lines []string
	type pend struct {
		desc string
		rec  verifapi.LossyRecon
		hex  string
	}
	var pends []pend
	var infoLines, infoDesc []string
	// rate-control sweep: nSweep extra cases that all run the TargetSize / TargetPSNR search (several passes with
	// a new quantiser each; the frame header must announce the quantisers of the pass whose coefficients are kept)
	nSweep := 40
	if rep.Tier == "thorough" {
		nSweep = 1200
	}
	for i := 0; i < n+nSweep; i++ {
		r := NewRNG(rep.Seed, uint64(i))
		sz := sizes[r.Intn(len(sizes))]
		if i%41 == 0 {
			sz = [2]int{320, 320}
		}
		cls := r.Intn(NumImgClasses)
		acls := []int{AlphaNone, AlphaNone, AlphaGradient, AlphaBinary}[r.Intn(4)]
		img := GenImage(r, sz[0], sz[1], cls, acls)
		o := webp.DefaultOptions()
		if r.Chance(1, 4) {
			o = webp.OptionsForPreset(webp.Preset(r.Intn(6)), 75)
		}
		o.Quality = float32([]int{0, 5, 30, 50, 75, 90, 100}[r.Intn(7)])
		o.Method = r.Intn(7)
		o.Segments = 1 + r.Intn(4)
		o.Partitions = r.Intn(4)
		o.Pass = []int{1, 1, 3, 10}[r.Intn(4)]
		o.SNSStrength = []int{0, 50, 100, -1}[r.Intn(4)]
		o.FilterSharpness = r.Intn(8)
		o.FilterType = r.Intn(2)
		filter0 := r.Bool()
		if filter0 {
			o.FilterStrength = 0
		} else {
			o.FilterStrength = []int{1, 20, 60, 100}[r.Intn(4)]
		}
		if r.Chance(1, 6) {
			o.QMin, o.QMax = 10+r.Intn(30), 50+r.Intn(50)
		}
		if r.Chance(1, 10) {
			o.TargetSize = 200 + r.Intn(3000)
		} else if r.Chance(1, 12) {
			o.TargetPSNR = float32(30 + r.Intn(15))
		}
		o.UseSharpYUV = r.Chance(1, 6)
		if r.Chance(1, 8) {
			o.Preprocessing = r.Intn(4)
		}
		procs := []int{1, 4}[r.Intn(2)]
		idesc := imgDesc(sz[0], sz[1], cls, acls)
		if i%19 == 5 {
			// >= 510 macroblocks of one periodic texture plus one (or two) flat macroblocks, several
			// segments, SNS on: the segment analysis puts all but < 1/510 of the macroblocks into one
			// segment, the rounded segment-tree probabilities are all 255 and the encoder drops the
			// segment map - every macroblock must then be coded with the quantiser the decoder will use
			r2 := NewRNG(rep.Seed, 0x0600000+uint64(i))
			sz = [][2]int{{512, 512}, {368, 368}, {512, 512}, {1024, 144}, {368, 384}}[(i/19)%5]
			var what string
			img, what = genTextureOutlier(r2, sz[0], sz[1])
			idesc = fmt.Sprintf("%dx%d/%s", sz[0], sz[1], what)
			o = webp.DefaultOptions()
			o.Quality = float32([]int{75, 50, 90, 75, 30}[r2.Intn(5)])
			o.Method = []int{4, 4, 2, 3, 5, 6, 1, 0}[r2.Intn(8)]
			o.Segments = []int{2, 2, 3, 4}[r2.Intn(4)]
			o.SNSStrength = []int{50, 100, 30, 80}[r2.Intn(4)]
			o.Partitions = r2.Intn(4)
			o.FilterStrength = []int{0, 0, 40, 0, 20}[(i/19)%5]
			o.FilterSharpness = r2.Intn(8)
			procs = []int{1, 4}[r2.Intn(2)]
			rep.Count("class:texture-with-odd-macroblock")
		}
		if i >= n {
			// small pictures with content (no flat ones), TargetSize 200..4000 or TargetPSNR 25..45, Pass 1..6 / 8 / 10
			r2 := NewRNG(rep.Seed, 0x0610000+uint64(i))
			sz = [][2]int{{17, 33}, {31, 64}, {48, 48}, {64, 64}, {33, 17}, {40, 56}, {64, 40}, {24, 24}}[r2.Intn(8)]
			cls = []int{ClsPhoto, ClsNoise, ClsPhoto, ClsGradient, ClsPal256, ClsPhoto}[r2.Intn(6)]
			acls = AlphaNone
			img = GenImage(r2, sz[0], sz[1], cls, acls)
			idesc = imgDesc(sz[0], sz[1], cls, acls)
			o = webp.DefaultOptions()
			o.Quality = float32([]int{30, 50, 60, 75, 90}[r2.Intn(5)])
			o.Method = r2.Intn(7)
			o.Segments = 1 + r2.Intn(4)
			o.Partitions = r2.Intn(2)
			o.SNSStrength = []int{0, 50, 100}[r2.Intn(3)]
			o.Pass = []int{1, 2, 3, 4, 5, 6, 6, 8, 10, 10}[r2.Intn(10)]
			o.FilterStrength = []int{0, 0, 0, 20, 60}[r2.Intn(5)]
			o.FilterSharpness = r2.Intn(8)
			if (i-n)%5 < 3 {
				// 200..4000, mostly within reach of the picture (about 0.3 .. 1.6 bytes per pixel)
				o.TargetSize = 200 + r2.Intn(3801)
				if r2.Chance(2, 3) {
					px := sz[0] * sz[1]
					o.TargetSize = mini(4000, maxi(200, px*3/10+r2.Intn(px*13/10+1)))
				}
				rep.Count("sweep:target-size")
			} else {
				o.TargetPSNR = float32(25 + r2.Intn(21))
				rep.Count("sweep:target-psnr")
			}
			procs = []int{1, 1, 4}[r2.Intn(3)]
			rep.Count(fmt.Sprintf("sweep:pass=%d", o.Pass))
		}
		runtime.GOMAXPROCS(procs)
		desc := fmt.Sprintf("%s q=%v m=%d seg=%d part=%d pass=%d sns=%d fs=%d sharp=%d ft=%d qmin=%d qmax=%d ts=%d psnr=%v syuv=%v pre=%d procs=%d",
			idesc, o.Quality, o.Method, o.Segments, o.Partitions, o.Pass, o.SNSStrength, o.FilterStrength, o.FilterSharpness, o.FilterType, o.QMin, o.QMax, o.TargetSize, o.TargetPSNR, o.UseSharpYUV, o.Preprocessing, procs)
		mu.Lock()
		last = nil
		mu.Unlock()
		file, err := encodeBytes(img, o)
		if err != nil {
			rep.Add(Finding{Kind: "property", Property: "C02", Signature: "encode-error:lossy", Detail: desc + ": " + err.Error(),
				Input: map[string]any{"op": "recon", "case": i, "seed": rep.Seed, "desc": desc}})
			continue
		}
		mu.Lock()
		rec := last
		mu.Unlock()
		add := func(sig, detail string) {
			rep.Add(Finding{Kind: "property", Property: "C06", Signature: sig, Detail: desc + ": " + detail,
				Input: map[string]any{"op": "recon", "case": i, "seed": rep.Seed, "desc": desc, "hex": short(hx(file), 6000)}})
		}
		if rec == nil {
			rep.Add(Finding{Kind: "correspondence", Property: "C06", Signature: "recon:no-hook-call", Detail: desc,
				Input: map[string]any{"op": "recon", "case": i, "seed": rep.Seed}})
			continue
		}
		// the VP8 payload of the file
		d, perr := verifapi.NewContainerParser(file)
		if perr != nil || len(d.Frames()) != 1 {
			add("recon:container", fmt.Sprint("own output not parseable: ", perr))
			continue
		}
		fr := d.Frames()[0]
		if fr.Width != sz[0] || fr.Height != sz[1] {
			add("recon:size", fmt.Sprintf("stream declares %dx%d", fr.Width, fr.Height))
		}
		dy, du, dv, dys, duvs, w, h, derr := decodeYUV(fr.Payload)
		if derr != nil {
			add("recon:decode-error", derr.Error())
			continue
		}
		if w != sz[0] || h != sz[1] {
			add("recon:decoded-size", fmt.Sprintf("decoded %dx%d", w, h))
			continue
		}
		if o.FilterStrength == 0 {
			if where := planesDiffer(dy, dys, rec.Y, rec.YStride, w, h); where != "" {
				add("recon:luma-drift:"+methodClass(o.Method, procs), "decoded Y differs from the encoder's reconstruction at "+where)
			} else if where := planesDiffer(du, duvs, rec.U, rec.UVStride, (w+1)/2, (h+1)/2); where != "" {
				add("recon:chroma-drift:"+methodClass(o.Method, procs), "decoded Cb differs at "+where)
			} else if where := planesDiffer(dv, duvs, rec.V, rec.UVStride, (w+1)/2, (h+1)/2); where != "" {
				add("recon:chroma-drift:"+methodClass(o.Method, procs), "decoded Cr differs at "+where)
			}
			rep.Count("compared:go-decode-filter0")
		}
		if driverHas("vp8raw") {
			lines = append(lines, "vp8raw "+hx(fr.Payload))
			pends = append(pends, pend{desc, *rec, short(hx(file), 6000)})
		}
		if i%19 == 5 && driverHas("vp8info") {
			infoLines = append(infoLines, "vp8info "+hx(fr.Payload))
			infoDesc = append(infoDesc, desc)
		}
		rep.Eval(!isFlat(img), append([]byte(desc), img.Pix...))
		rep.Count(fmt.Sprintf("method:%d", o.Method))
		rep.Count(fmt.Sprintf("procs:%d", procs))
		if i < 3 {
			rep.Sample(map[string]any{"case": desc, "bytes": len(file)})
		}
	}
	if len(infoLines) > 0 {
		// distribution only: did the texture cases reach "segmentation on, segment map not sent"?
		out, err := RunDriver(infoLines)
		if err != nil {
			return err
		}
		for k, l := range out {
			rep.Count(fmt.Sprintf("texture-with-odd-macroblock:seg=%s,segmap=%s", vp8InfoField(l, "seg"), vp8InfoField(l, "segmap")))
			if os.Getenv("VERIF_DEBUG") != "" {
				fmt.Println(infoDesc[k], "->", short(l, 260))
			}
		}
	}
	if len(lines) > 0 {
		out, err := RunDriver(lines)
		if err != nil {
			return err
		}
		for i, l := range out {
			p := pends[i]
			w, h := p.rec.Width, p.rec.Height
			want := fmt.Sprintf("ok w=%d h=%d y=%s u=%s v=%s", w, h, digest(cropPlaneWH(p.rec.Y, p.rec.YStride, w, h)), digest(cropPlaneWH(p.rec.U, p.rec.UVStride, (w+1)/2, (h+1)/2)), digest(cropPlaneWH(p.rec.V, p.rec.UVStride, (w+1)/2, (h+1)/2)))
			if l != want {
				rep.Add(Finding{Kind: "property", Property: "C06", Signature: "recon:spec-prefilter-differs",
					Detail: fmt.Sprintf("%s: Lean spec decoder's pre-filter planes %q differ from the encoder's reconstruction %q", p.desc, short(l, 160), short(want, 160)),
					Input:  map[string]any{"op": "recon", "desc": p.desc, "hex": p.hex}})
			}
			rep.Count("compared:lean-prefilter")
		}
	} else {
		rep.Notes = append(rep.Notes, "driver has no vp8raw op yet: pre-filter comparison skipped; only FilterStrength=0 cases compared")
	}
	return nil
}

// genTextureOutlier: one 16x16-periodic texture over the whole picture, except k (1, or 2 when that is
// still below 1/510 of the macroblocks) macroblocks that are flat.
func genTextureOutlier(r *RNG, w, h int) (*image.NRGBA, string) {
	img := image.NewNRGBA(image.Rect(0, 0, w, h))
	mbw, mbh := (w+15)/16, (h+15)/16
	k := 1
	if mbw*mbh >= 1024 && r.Chance(1, 3) {
		k = 2
	}
	odd := map[[2]int]bool{}
	for len(odd) < k {
		odd[[2]int{r.Intn(mbw), r.Intn(mbh)}] = true
	}
	// (experiment on the tree of 2026-09-23: the map is dropped for about 2/3 of these parameter sets
	// with 2 segments, 1/3 with 3 or 4, provided the amplitude m is >= 60 and the flat value is near
	// the texture's mean, so that the flat macroblock is the "easy" one)
	a, b, m, base := 3+r.Intn(9), 2+r.Intn(8), 60+r.Intn(30), 60+r.Intn(80)
	tint := [3]int{r.Intn(30), r.Intn(30), r.Intn(30)}
	if r.Chance(1, 2) {
		tint = [3]int{}
	}
	flat := byte(base + (m-1)/2 + r.Intn(9) - 4)
	for y := 0; y < h; y++ {
		for x := 0; x < w; x++ {
			v := base + ((x%16)*a+(y%16)*b)%m
			c := color.NRGBA{byte(v + tint[0]), byte(v + tint[1]), byte(v + tint[2]), 255}
			if odd[[2]int{x / 16, y / 16}] {
				c = color.NRGBA{flat, flat, flat, 255}
			}
			img.SetNRGBA(x, y, c)
		}
	}
	return img, fmt.Sprintf("texture16(a=%d,b=%d,m=%d)+%dflatMB", a, b, m, k)
}

func methodClass(m, procs int) string {
	return fmt.Sprintf("m%d-p%d", m, procs)
}

// decodeYUV decodes a bare VP8 payload through the public API (wrapped in RIFF) and returns the YCbCr planes.
func decodeYUV(vp8 []byte) (y, u, v []byte, ys, uvs, w, h int, err error) {
	file := riff(chunk("VP8 ", vp8))
	img, err := webp.Decode(bytes.NewReader(file))
	if err != nil {
		return nil, nil, nil, 0, 0, 0, 0, err
	}
	yc, ok := img.(*image.YCbCr)
	if !ok {
		return nil, nil, nil, 0, 0, 0, 0, fmt.Errorf("decoded type %T", img)
	}
	return yc.Y, yc.Cb, yc.Cr, yc.YStride, yc.CStride, yc.Rect.Dx(), yc.Rect.Dy(), nil
}

func planesDiffer(a []byte, as int, b []byte, bs int, w, h int) string {
	for y := 0; y < h; y++ {
		for x := 0; x < w; x++ {
			if a[y*as+x] != b[y*bs+x] {
				return fmt.Sprintf("(%d,%d): %d vs %d (macroblock %d,%d)", x, y, a[y*as+x], b[y*bs+x], x/16, y/16)
			}
		}
	}
	return ""
}

func cropPlaneWH(p []byte, stride, w, h int) []byte {
	out := make([]byte, 0, w*h)
	for y := 0; y < h; y++ {
		out = append(out, p[y*stride:y*stride+w]...)
	}
	return out
}

var driverOps sync.Map

// driverHas asks the driver once whether it knows an op (a known op answers something other than bad-op to a junk arg).
func driverHas(op string) bool {
	if v, ok := driverOps.Load(op); ok {
		return v.(bool)
	}
	out, err := RunDriver([]string{op + " 00"})
	has := err == nil && len(out) == 1 && !strings.HasPrefix(out[0], "bad-op")
	driverOps.Store(op, has)
	return has
}
