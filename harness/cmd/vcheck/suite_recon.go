package main

import (
	"bytes"
	"fmt"
	"image"
	"runtime"
	"strings"
	"sync"

	webp "github.com/deepteams/webp"
	"github.com/deepteams/webp/verifapi"
)

func init() { suites["recon"] = suiteRecon }

// suiteRecon: C06 — the decoder's picture equals the encoder's own reconstruction.
//   (a) FilterStrength 0: decoded Y/Cb/Cr == reconstruction planes on the visible area (Go decoder);
//   (b) any filter strength: the Lean RFC-6386 decoder's PRE-FILTER planes (op vp8raw) == reconstruction,
//       when the driver provides that op (otherwise counted as skipped).
func suiteRecon(rep *Report) error {
	rep.Rule = "lossy Encode over image class x size (incl. non-multiples of 16, 1x1, 320x320) x Quality x Method 0..6 x Segments 1..4 x Partitions 0..3 x Pass x SNS/filter settings x presets x QMin/QMax x TargetSize/TargetPSNR x sharp YUV, on 1 CPU and 4 CPUs; the encoder's reconstruction planes (hook) are compared with (a) webp.Decode's YCbCr planes when FilterStrength=0 and (b) the Lean spec decoder's pre-loop-filter planes for any strength; decoded size must equal the source size; non-trivial = image not flat"
	defer runtime.GOMAXPROCS(runtime.GOMAXPROCS(0))
	n := 260
	if rep.Tier == "thorough" {
		n = 6000
	}
	sizes := [][2]int{{1, 1}, {3, 2}, {15, 15}, {16, 16}, {17, 33}, {31, 64}, {48, 48}, {64, 65}, {80, 64}, {100, 70}}
	var mu sync.Mutex
	var last *verifapi.LossyRecon
	verifapi.SetAfterEncodeHook(func(r verifapi.LossyRecon) {
		mu.Lock()
		rr := r
		last = &rr
		mu.Unlock()
	})
	defer verifapi.SetAfterEncodeHook(nil)
	var lines []string
	type pend struct {
		desc string
		rec  verifapi.LossyRecon
		hex  string
	}
	var pends []pend
	for i := 0; i < n; i++ {
		r := NewRNG(rep.Seed, uint64(i))
		sz := sizes[r.Intn(len(sizes))]
		if i%41 == 0 {
			sz = [2]int{320, 320}
		}
		cls := r.Intn(NumImgClasses)
		acls := []int{AlphaNone, AlphaNone, AlphaGradient, AlphaBinary}[r.Intn(4)]
		img := GenImage(r, sz[0], sz[1], cls, acls)
		o := webp.DefaultOptions()
		if r.Chance(1, 4) {
			o = webp.OptionsForPreset(webp.Preset(r.Intn(6)), 75)
		}
		o.Quality = float32([]int{0, 5, 30, 50, 75, 90, 100}[r.Intn(7)])
		o.Method = r.Intn(7)
		o.Segments = 1 + r.Intn(4)
		o.Partitions = r.Intn(4)
		o.Pass = []int{1, 1, 3, 10}[r.Intn(4)]
		o.SNSStrength = []int{0, 50, 100, -1}[r.Intn(4)]
		o.FilterSharpness = r.Intn(8)
		o.FilterType = r.Intn(2)
		filter0 := r.Bool()
		if filter0 {
			o.FilterStrength = 0
		} else {
			o.FilterStrength = []int{1, 20, 60, 100}[r.Intn(4)]
		}
		if r.Chance(1, 6) {
			o.QMin, o.QMax = 10+r.Intn(30), 50+r.Intn(50)
		}
		if r.Chance(1, 10) {
			o.TargetSize = 200 + r.Intn(3000)
		} else if r.Chance(1, 12) {
			o.TargetPSNR = float32(30 + r.Intn(15))
		}
		o.UseSharpYUV = r.Chance(1, 6)
		if r.Chance(1, 8) {
			o.Preprocessing = r.Intn(4)
		}
		procs := []int{1, 4}[r.Intn(2)]
		runtime.GOMAXPROCS(procs)
		desc := fmt.Sprintf("%s q=%v m=%d seg=%d part=%d pass=%d sns=%d fs=%d sharp=%d ft=%d qmin=%d qmax=%d ts=%d psnr=%v syuv=%v pre=%d procs=%d",
			imgDesc(sz[0], sz[1], cls, acls), o.Quality, o.Method, o.Segments, o.Partitions, o.Pass, o.SNSStrength, o.FilterStrength, o.FilterSharpness, o.FilterType, o.QMin, o.QMax, o.TargetSize, o.TargetPSNR, o.UseSharpYUV, o.Preprocessing, procs)
		mu.Lock()
		last = nil
		mu.Unlock()
		file, err := encodeBytes(img, o)
		if err != nil {
			rep.Add(Finding{Kind: "property", Property: "C02", Signature: "encode-error:lossy", Detail: desc + ": " + err.Error(),
				Input: map[string]any{"op": "recon", "case": i, "seed": rep.Seed, "desc": desc}})
			continue
		}
		mu.Lock()
		rec := last
		mu.Unlock()
		add := func(sig, detail string) {
			rep.Add(Finding{Kind: "property", Property: "C06", Signature: sig, Detail: desc + ": " + detail,
				Input: map[string]any{"op": "recon", "case": i, "seed": rep.Seed, "desc": desc, "hex": short(hx(file), 6000)}})
		}
		if rec == nil {
			rep.Add(Finding{Kind: "correspondence", Property: "C06", Signature: "recon:no-hook-call", Detail: desc,
				Input: map[string]any{"op": "recon", "case": i, "seed": rep.Seed}})
			continue
		}
		// the VP8 payload of the file
		d, perr := verifapi.NewContainerParser(file)
		if perr != nil || len(d.Frames()) != 1 {
			add("recon:container", fmt.Sprint("own output not parseable: ", perr))
			continue
		}
		fr := d.Frames()[0]
		if fr.Width != sz[0] || fr.Height != sz[1] {
			add("recon:size", fmt.Sprintf("stream declares %dx%d", fr.Width, fr.Height))
		}
		dy, du, dv, dys, duvs, w, h, derr := decodeYUV(fr.Payload)
		if derr != nil {
			add("recon:decode-error", derr.Error())
			continue
		}
		if w != sz[0] || h != sz[1] {
			add("recon:decoded-size", fmt.Sprintf("decoded %dx%d", w, h))
			continue
		}
		if o.FilterStrength == 0 {
			if where := planesDiffer(dy, dys, rec.Y, rec.YStride, w, h); where != "" {
				add("recon:luma-drift:"+methodClass(o.Method, procs), "decoded Y differs from the encoder's reconstruction at "+where)
			} else if where := planesDiffer(du, duvs, rec.U, rec.UVStride, (w+1)/2, (h+1)/2); where != "" {
				add("recon:chroma-drift:"+methodClass(o.Method, procs), "decoded Cb differs at "+where)
			} else if where := planesDiffer(dv, duvs, rec.V, rec.UVStride, (w+1)/2, (h+1)/2); where != "" {
				add("recon:chroma-drift:"+methodClass(o.Method, procs), "decoded Cr differs at "+where)
			}
			rep.Count("compared:go-decode-filter0")
		}
		if driverHas("vp8raw") {
			lines = append(lines, "vp8raw "+hx(fr.Payload))
			pends = append(pends, pend{desc, *rec, short(hx(file), 6000)})
		}
		rep.Eval(!isFlat(img), append([]byte(desc), img.Pix...))
		rep.Count(fmt.Sprintf("method:%d", o.Method))
		rep.Count(fmt.Sprintf("procs:%d", procs))
		if i < 3 {
			rep.Sample(map[string]any{"case": desc, "bytes": len(file)})
		}
	}
	if len(lines) > 0 {
		out, err := RunDriver(lines)
		if err != nil {
			return err
		}
		for i, l := range out {
			p := pends[i]
			w, h := p.rec.Width, p.rec.Height
			want := fmt.Sprintf("ok w=%d h=%d y=%s u=%s v=%s", w, h, digest(cropPlaneWH(p.rec.Y, p.rec.YStride, w, h)), digest(cropPlaneWH(p.rec.U, p.rec.UVStride, (w+1)/2, (h+1)/2)), digest(cropPlaneWH(p.rec.V, p.rec.UVStride, (w+1)/2, (h+1)/2)))
			if l != want {
				rep.Add(Finding{Kind: "property", Property: "C06", Signature: "recon:spec-prefilter-differs",
					Detail: fmt.Sprintf("%s: Lean spec decoder's pre-filter planes %q differ from the encoder's reconstruction %q", p.desc, short(l, 160), short(want, 160)),
					Input:  map[string]any{"op": "recon", "desc": p.desc, "hex": p.hex}})
			}
			rep.Count("compared:lean-prefilter")
		}
	} else {
		rep.Notes = append(rep.Notes, "driver has no vp8raw op yet: pre-filter comparison skipped; only FilterStrength=0 cases compared")
	}
	return nil
}

func methodClass(m, procs int) string {
	return fmt.Sprintf("m%d-p%d", m, procs)
}

// decodeYUV decodes a bare VP8 payload through the public API (wrapped in RIFF) and returns the YCbCr planes.
func decodeYUV(vp8 []byte) (y, u, v []byte, ys, uvs, w, h int, err error) {
	file := riff(chunk("VP8 ", vp8))
	img, err := webp.Decode(bytes.NewReader(file))
	if err != nil {
		return nil, nil, nil, 0, 0, 0, 0, err
	}
	yc, ok := img.(*image.YCbCr)
	if !ok {
		return nil, nil, nil, 0, 0, 0, 0, fmt.Errorf("decoded type %T", img)
	}
	return yc.Y, yc.Cb, yc.Cr, yc.YStride, yc.CStride, yc.Rect.Dx(), yc.Rect.Dy(), nil
}

func planesDiffer(a []byte, as int, b []byte, bs int, w, h int) string {
	for y := 0; y < h; y++ {
		for x := 0; x < w; x++ {
			if a[y*as+x] != b[y*bs+x] {
				return fmt.Sprintf("(%d,%d): %d vs %d (macroblock %d,%d)", x, y, a[y*as+x], b[y*bs+x], x/16, y/16)
			}
		}
	}
	return ""
}

func cropPlaneWH(p []byte, stride, w, h int) []byte {
	out := make([]byte, 0, w*h)
	for y := 0; y < h; y++ {
		out = append(out, p[y*stride:y*stride+w]...)
	}
	return out
}

var driverOps sync.Map

// driverHas asks the driver once whether it knows an op (a known op answers something other than bad-op to a junk arg).
func driverHas(op string) bool {
	if v, ok := driverOps.Load(op); ok {
		return v.(bool)
	}
	out, err := RunDriver([]string{op + " 00"})
	has := err == nil && len(out) == 1 && !strings.HasPrefix(out[0], "bad-op")
	driverOps.Store(op, has)
	return has
}
