package main

// Suite "kernels" — property C13 (and the kernel half of C04).
//
// Kernel level: every dispatch-table slot of internal/dsp and every *_direct_* wrapper (plus the
// quantiser of internal/lossy) is driven with the same vectors through every code path that can be
// selected in this process (AVX2 = default table on an AVX2 CPU, SSE2 = hasAVX2 forced off, portable Go
// twin) and through the Lean reference (webpdrv, Driver/Kernels.lean).  The WHOLE buffers (with garbage
// around the block) are compared between Go code paths; the defined outputs are compared with Lean.
// Two further code paths run in child processes built from the same sources: "purego" (amd64 build with
// every *_amd64.{go,s} file removed through a -overlay: the true all-portable build) and "go386" (GOARCH=386,
// pure Go with a 32-bit int).  See suite_kernels_pipe.go for the pipeline level, the children and the
// compile matrix.
//
//   two Go code paths differ      Kind "property",       Property C13, signature kernel:<name>:<A>-vs-<B>
//   Go (portable) vs Lean differ  Kind "correspondence", Property C13, signature kernel-model:<name>
//
// Vectors of the "wide" domain (inputs no conformant encoder / the codec's own callers produce: full
// int16 coefficients, thresholds above 255, quantiser parameters outside ExpandMatrix's range) carry the
// suffix "/wide" after the kernel name so that they can be triaged apart from the in-domain ones.

import (
	"encoding/binary"
	"fmt"
	"os"
	"runtime"
	"sort"
	"strconv"
	"strings"
	"sync"
	"time"

	"github.com/deepteams/webp/verifapi"
)

func init() {
	suites["kernels"] = suiteKernels
	suites["kernels-child"] = suiteKernelsChild
}

const kBPS = verifapi.DspBPS

// ---------------------------------------------------------------------------
// vectors

type kvec struct {
	Dom   string // "std" | "wide"
	Class string
	B     [10][]byte // byte buffers, with garbage margins
	Off   [10]int    // offset of the block inside B[i]
	Len   [10]int    // length passed (0 = to the end)
	Nil   [10]bool
	S     [3][]int16
	U     []uint32
	I     [8]int
	Two   bool
}

type kout struct {
	B [10][]byte
	S [3][]int16
	U []uint32
	R int
}

func (v *kvec) fresh() *kout {
	o := &kout{}
	for i := range v.B {
		if v.B[i] != nil {
			o.B[i] = append([]byte(nil), v.B[i]...)
		}
	}
	for i := range v.S {
		if v.S[i] != nil {
			o.S[i] = append([]int16(nil), v.S[i]...)
		}
	}
	if v.U != nil {
		o.U = append([]uint32(nil), v.U...)
	}
	return o
}

// sl returns the slice handed to the kernel for buffer i.
func (o *kout) sl(v *kvec, i int) []byte {
	if v.Nil[i] || o.B[i] == nil {
		return nil
	}
	if v.Len[i] > 0 {
		return o.B[i][v.Off[i] : v.Off[i]+v.Len[i]]
	}
	return o.B[i][v.Off[i]:]
}

func (o *kout) bytes() []byte {
	var b []byte
	for i := range o.B {
		b = append(b, o.B[i]...)
		b = append(b, 0xfe)
	}
	for i := range o.S {
		for _, x := range o.S[i] {
			b = append(b, byte(x), byte(uint16(x)>>8))
		}
		b = append(b, 0xfd)
	}
	for _, x := range o.U {
		b = binary.LittleEndian.AppendUint32(b, x)
	}
	b = binary.LittleEndian.AppendUint64(b, uint64(int64(o.R)))
	return b
}

func (v *kvec) key() []byte {
	o := v.fresh()
	b := o.bytes()
	for _, x := range v.I {
		b = binary.LittleEndian.AppendUint64(b, uint64(int64(x)))
	}
	if v.Two {
		b = append(b, 1)
	}
	return b
}

func (v *kvec) input() map[string]any {
	m := map[string]any{"dom": v.Dom, "class": v.Class, "ints": v.I, "two": v.Two}
	for i := range v.B {
		if v.B[i] != nil {
			m[fmt.Sprintf("b%d", i)] = hx(v.B[i])
			m[fmt.Sprintf("b%d_off", i)] = v.Off[i]
			if v.Nil[i] {
				m[fmt.Sprintf("b%d_nil", i)] = true
			}
		}
	}
	for i := range v.S {
		if v.S[i] != nil {
			m[fmt.Sprintf("s%d", i)] = i16s(v.S[i])
		}
	}
	if v.U != nil {
		m["u"] = v.U
	}
	return m
}

func i16s(s []int16) string {
	xs := make([]string, len(s))
	for i, x := range s {
		xs[i] = strconv.Itoa(int(x))
	}
	return strings.Join(xs, ",")
}

func ints(s []int) string {
	xs := make([]string, len(s))
	for i, x := range s {
		xs[i] = strconv.Itoa(x)
	}
	return strings.Join(xs, ",")
}

// blk extracts an n×m block (n columns, m rows) at off from a strided buffer.
func blk(b []byte, off, stride, n, m int) []byte {
	out := make([]byte, 0, n*m)
	for y := 0; y < m; y++ {
		out = append(out, b[off+y*stride:off+y*stride+n]...)
	}
	return out
}

// strided buffer with garbage: room for `rows` rows below and 5 rows above the block.
func kbuf(r *RNG, rows int) ([]byte, int) {
	b := r.Bytes(kBPS*(rows+10) + 64)
	return b, 5*kBPS + 8 + r.Intn(9)
}

// in-range classes keep |coeff| <= 2047 (inRangeCoeff); the wide-* classes leave it
var coefClasses = []string{"zero", "dc", "dc-tie", "ac3", "sparse", "full-small", "full-2047", "extreme", "sat", "hi-dc", "sep-2047",
	"wide-rand", "wide-extreme", "wide-pair", "wide-2048"}

func isWideCoef(c string) bool { return strings.HasPrefix(c, "wide") }

func rnd(r *RNG, lo, hi int) int { return lo + r.Intn(hi-lo+1) }

func genCoef(r *RNG, class string, c []int16) {
	for i := range c {
		c[i] = 0
	}
	switch class {
	case "dc":
		c[0] = int16(rnd(r, -2047, 2047))
	case "dc-tie":
		c[0] = int16(8*rnd(r, -40, 40) + []int{-5, -4, -3, 3, 4, 5}[r.Intn(6)])
	case "ac3":
		c[0], c[1], c[4] = int16(rnd(r, -2047, 2047)), int16(rnd(r, -2047, 2047)), int16(rnd(r, -2047, 2047))
	case "sparse":
		for k := 1 + r.Intn(4); k > 0; k-- {
			c[r.Intn(16)] = int16(rnd(r, -500, 500))
		}
	case "full-small":
		for i := range c {
			c[i] = int16(rnd(r, -64, 64))
		}
	case "full-2047":
		for i := range c {
			c[i] = int16(rnd(r, -2047, 2047))
		}
	case "extreme":
		for i := range c {
			c[i] = []int16{-2047, 2047, 2046, -2046, 0, 1, -1}[r.Intn(7)]
		}
	case "sep-2047", "wide-2048":
		// separable sign pattern at full magnitude: maximises the intermediates of the separable transforms
		m := int16(2047)
		if class == "wide-2048" {
			m = 2048
		}
		rp, cp := r.Intn(16), r.Intn(16)
		for y := 0; y < 4; y++ {
			for x := 0; x < 4; x++ {
				c[4*y+x] = m
				if (rp>>y&1)^(cp>>x&1) != 0 {
					c[4*y+x] = -m
				}
			}
		}
	case "sat":
		c[0] = []int16{-2047, 2047, 2040, -2040}[r.Intn(4)]
		for i := 1; i < 16; i++ {
			c[i] = int16(rnd(r, -8, 8))
		}
	case "hi-dc":
		c[0] = int16(rnd(r, 1500, 2047) * (1 - 2*r.Intn(2)))
		c[1+r.Intn(15)] = int16(rnd(r, -2047, 2047))
	case "wide-rand":
		for i := range c {
			c[i] = int16(r.Next())
		}
	case "wide-extreme":
		for i := range c {
			c[i] = []int16{-32768, 32767, 0, 16384, -16384, 32767, -32768}[r.Intn(7)]
		}
	case "wide-pair":
		// smallest witnesses of 16-bit lane overflow: two large same-sign coefficients
		c[0] = int16(rnd(r, 16000, 32767))
		c[[]int{8, 2, 4, 12}[r.Intn(4)]] = int16(rnd(r, 16000, 32767))
	}
}

var pixClasses = []string{"rand", "zero", "max", "near0", "near255", "mid"}

func fillPix(r *RNG, class string, b []byte, off, stride, n, m int) {
	for y := 0; y < m; y++ {
		for x := 0; x < n; x++ {
			var v byte
			switch class {
			case "rand":
				v = byte(r.Next())
			case "zero":
				v = 0
			case "max":
				v = 255
			case "near0":
				v = byte(r.Intn(4))
			case "near255":
				v = byte(252 + r.Intn(4))
			case "mid":
				v = byte(120 + r.Intn(16))
			}
			b[off+y*stride+x] = v
		}
	}
}

// ---------------------------------------------------------------------------
// signature classes

type ksig struct {
	gen   func(name string, r *RNG, i int) *kvec
	run   func(fn any, v *kvec) *kout
	model func(name string, v *kvec, o *kout) (ops, want []string)
}

func okHex(b []byte) string { return "ok " + hx(b) }

func genIDCT(nblk int, withRef bool) func(string, *RNG, int) *kvec {
	return func(name string, r *RNG, i int) *kvec {
		v := &kvec{}
		cc := coefClasses[i%len(coefClasses)]
		pc := pixClasses[(i/len(coefClasses))%len(pixClasses)]
		v.Class = cc + "/" + pc
		v.Dom = "std"
		if isWideCoef(cc) {
			v.Dom = "wide"
		}
		v.S[0] = make([]int16, 16*nblk)
		for b := 0; b < nblk; b++ {
			genCoef(r, cc, v.S[0][16*b:16*b+16])
		}
		v.B[0], v.Off[0] = kbuf(r, 8)
		fillPix(r, pc, v.B[0], v.Off[0], kBPS, 8, 8)
		if withRef {
			v.B[1], v.Off[1] = kbuf(r, 8)
		}
		v.Two = nblk == 2 && r.Intn(4) != 0
		return v
	}
}

var ksigs = map[string]*ksig{}

func init() {
	// encoder inverse DCT: B0 = ref, B1 = dst, S0 = in
	ksigs["itransform"] = &ksig{
		gen: genIDCT(2, true),
		run: func(fn any, v *kvec) *kout {
			o := v.fresh()
			fn.(verifapi.DspITransform)(o.sl(v, 0), o.S[0], o.sl(v, 1), v.Two)
			return o
		},
		model: func(name string, v *kvec, o *kout) (ops, want []string) {
			nb := 1
			if v.Two {
				nb = 2
			}
			for b := 0; b < nb; b++ {
				ops = append(ops, fmt.Sprintf("k_idct full %s %s", hx(blk(v.B[0], v.Off[0]+4*b, kBPS, 4, 4)), i16s(v.S[0][16*b:16*b+16])))
				want = append(want, okHex(blk(o.B[1], v.Off[1]+4*b, kBPS, 4, 4)))
			}
			return
		},
	}
	// decoder inverse DCT (in place): B0 = dst, S0 = coeffs
	ksigs["dec2"] = &ksig{
		gen: genIDCT(2, false),
		run: func(fn any, v *kvec) *kout {
			o := v.fresh()
			fn.(verifapi.DspDec2)(o.S[0], o.sl(v, 0), v.Two)
			return o
		},
		model: func(name string, v *kvec, o *kout) (ops, want []string) {
			nb := 1
			if v.Two {
				nb = 2
			}
			for b := 0; b < nb; b++ {
				ops = append(ops, fmt.Sprintf("k_idct full %s %s", hx(blk(v.B[0], v.Off[0]+4*b, kBPS, 4, 4)), i16s(v.S[0][16*b:16*b+16])))
				want = append(want, okHex(blk(o.B[0], v.Off[0]+4*b, kBPS, 4, 4)))
			}
			return
		},
	}
	ksigs["dec1"] = &ksig{
		gen: genIDCT(1, false),
		run: func(fn any, v *kvec) *kout {
			o := v.fresh()
			fn.(verifapi.DspDec1)(o.S[0], o.sl(v, 0))
			return o
		},
		model: func(name string, v *kvec, o *kout) (ops, want []string) {
			variant := "dc"
			if name == "TransformAC3" {
				variant = "ac3"
			}
			ops = append(ops, fmt.Sprintf("k_idct %s %s %s", variant, hx(blk(v.B[0], v.Off[0], kBPS, 4, 4)), i16s(v.S[0][:16])))
			want = append(want, okHex(blk(o.B[0], v.Off[0], kBPS, 4, 4)))
			return
		},
	}
	uvOffs := []int{0, 4, 4 * kBPS, 4*kBPS + 4}
	uvPix := func(b []byte, off int) []byte {
		var p []byte
		for _, d := range uvOffs {
			p = append(p, blk(b, off+d, kBPS, 4, 4)...)
		}
		return p
	}
	ksigs["decuv"] = &ksig{
		gen: func(name string, r *RNG, i int) *kvec {
			v := genIDCT(4, false)(name, r, i)
			if name == "TransformDCUV" && i%3 == 0 {
				// DC-only blocks, some with a zero DC
				for b := 0; b < 4; b++ {
					for k := 1; k < 16; k++ {
						v.S[0][16*b+k] = 0
					}
					if r.Intn(3) == 0 {
						v.S[0][16*b] = 0
					}
				}
			}
			return v
		},
		run: func(fn any, v *kvec) *kout {
			o := v.fresh()
			fn.(verifapi.DspDec1)(o.S[0], o.sl(v, 0))
			return o
		},
		model: func(name string, v *kvec, o *kout) (ops, want []string) {
			if name == "TransformDCUV" {
				ops = append(ops, fmt.Sprintf("k_dcuv %s %s", hx(uvPix(v.B[0], v.Off[0])), i16s(v.S[0][:64])))
				want = append(want, okHex(uvPix(o.B[0], v.Off[0])))
				return
			}
			for b, d := range uvOffs {
				ops = append(ops, fmt.Sprintf("k_idct full %s %s", hx(blk(v.B[0], v.Off[0]+d, kBPS, 4, 4)), i16s(v.S[0][16*b:16*b+16])))
				want = append(want, okHex(blk(o.B[0], v.Off[0]+d, kBPS, 4, 4)))
			}
			return
		},
	}
	// WHT: S0 = in[16], S1 = out
	genWHT := func(outLen int) func(string, *RNG, int) *kvec {
		return func(name string, r *RNG, i int) *kvec {
			v := &kvec{Dom: "std"}
			cc := coefClasses[i%len(coefClasses)]
			v.Class = cc
			if isWideCoef(cc) {
				v.Dom = "wide"
			}
			v.S[0] = make([]int16, 16)
			genCoef(r, cc, v.S[0])
			v.S[1] = make([]int16, outLen)
			for k := range v.S[1] {
				v.S[1][k] = int16(r.Next())
			}
			return v
		}
	}
	runWHT := func(fn any, v *kvec) *kout {
		o := v.fresh()
		fn.(verifapi.DspWHT)(o.S[0], o.S[1])
		return o
	}
	ksigs["iwht"] = &ksig{gen: genWHT(256 + 16), run: runWHT,
		model: func(name string, v *kvec, o *kout) (ops, want []string) {
			res := make([]int16, 16)
			for k := range res {
				res[k] = o.S[1][16*k]
			}
			ops = append(ops, "k_iwht "+i16s(v.S[0]))
			want = append(want, "ok "+i16s(res))
			dcOnly := true
			for k := 1; k < 16; k++ {
				dcOnly = dcOnly && v.S[0][k] == 0
			}
			if dcOnly { // the decoder's shortcut for nz <= 1 (parseResiduals) must equal the full WHT
				ops = append(ops, "k_whtdc "+i16s(v.S[0]))
				want = append(want, "ok "+i16s(res))
			}
			return
		}}
	ksigs["fwht"] = &ksig{gen: genWHT(16 + 8), run: runWHT,
		model: func(name string, v *kvec, o *kout) (ops, want []string) {
			return []string{"k_fwht " + i16s(v.S[0])}, []string{"ok " + i16s(o.S[1][:16])}
		}}
	// forward DCT: B0 = src, B1 = ref, S0 = out
	genF := func(nblk int) func(string, *RNG, int) *kvec {
		classes := []string{"rand", "equal", "maxdiff", "mindiff", "alt", "small", "row-tie"}
		return func(name string, r *RNG, i int) *kvec {
			v := &kvec{Dom: "std", Class: classes[i%len(classes)]}
			v.B[0], v.Off[0] = kbuf(r, 8)
			v.B[1], v.Off[1] = kbuf(r, 8)
			for y := 0; y < 4; y++ {
				for x := 0; x < 4*nblk; x++ {
					s, f := &v.B[0][v.Off[0]+y*kBPS+x], &v.B[1][v.Off[1]+y*kBPS+x]
					switch v.Class {
					case "equal":
						*f = *s
					case "maxdiff":
						*s, *f = 255, 0
					case "mindiff":
						*s, *f = 0, 255
					case "alt":
						if (x+y)%2 == 0 {
							*s, *f = 255, 0
						} else {
							*s, *f = 0, 255
						}
					case "small":
						*f = byte(int(*s)/2 + 60 + r.Intn(5))
						*s = byte(int(*f) + r.Intn(5) - 2)
					case "row-tie":
						*s, *f = byte(128+r.Intn(2)), 128
					}
				}
			}
			v.S[0] = make([]int16, 16*nblk+8)
			for k := range v.S[0] {
				v.S[0][k] = int16(r.Next())
			}
			return v
		}
	}
	runF := func(fn any, v *kvec) *kout {
		o := v.fresh()
		fn.(verifapi.DspFTransform)(o.sl(v, 0), o.sl(v, 1), o.S[0])
		return o
	}
	modelF := func(nblk int) func(string, *kvec, *kout) ([]string, []string) {
		return func(name string, v *kvec, o *kout) (ops, want []string) {
			for b := 0; b < nblk; b++ {
				ops = append(ops, fmt.Sprintf("k_fdct %s %s", hx(blk(v.B[0], v.Off[0]+4*b, kBPS, 4, 4)), hx(blk(v.B[1], v.Off[1]+4*b, kBPS, 4, 4))))
				want = append(want, "ok "+i16s(o.S[0][16*b:16*b+16]))
			}
			return
		}
	}
	ksigs["ftransform"] = &ksig{gen: genF(1), run: runF, model: modelF(1)}
	ksigs["ftransform2"] = &ksig{gen: genF(2), run: runF, model: modelF(2)}

	// predictors: B0 = buf; I0 = mode (predmode*)
	genPred := func(n, nmodes int) func(string, *RNG, int) *kvec {
		classes := []string{"rand", "zero", "max", "tm-sat-hi", "tm-sat-lo", "ramp", "dc-tie"}
		return func(name string, r *RNG, i int) *kvec {
			v := &kvec{Dom: "std", Class: classes[i%len(classes)]}
			v.B[0], v.Off[0] = kbuf(r, n+2)
			b, off := v.B[0], v.Off[0]
			set := func(top, left func(k int) byte, tl byte) {
				for k := 0; k < n+8; k++ {
					b[off-kBPS+k] = top(k)
				}
				for k := 0; k < n; k++ {
					b[off-1+k*kBPS] = left(k)
				}
				b[off-1-kBPS] = tl
			}
			c := func(x byte) func(int) byte { return func(int) byte { return x } }
			switch v.Class {
			case "zero":
				set(c(0), c(0), 0)
			case "max":
				set(c(255), c(255), 255)
			case "tm-sat-hi":
				set(c(byte(200+r.Intn(56))), c(byte(200+r.Intn(56))), byte(r.Intn(30)))
			case "tm-sat-lo":
				set(c(byte(r.Intn(40))), c(byte(r.Intn(40))), byte(220+r.Intn(36)))
			case "ramp":
				set(func(k int) byte { return byte(k * 9) }, func(k int) byte { return byte(255 - k*11) }, 77)
			case "dc-tie":
				// sums that land on the rounding boundary of the DC average
				x := byte(r.Intn(255))
				set(func(k int) byte { return x + byte(k&1) }, c(x), x)
			}
			v.I[0] = (i / len(classes)) % nmodes
			return v
		}
	}
	runPred := func(fn any, v *kvec) *kout {
		o := v.fresh()
		fn.(verifapi.DspPred)(o.B[0], v.Off[0])
		return o
	}
	runPredMode := func(fn any, v *kvec) *kout {
		o := v.fresh()
		fn.(verifapi.DspPredMode)(v.I[0], o.B[0], v.Off[0])
		return o
	}
	modelPred := func(n int, modeOf func(name string, v *kvec) int) func(string, *kvec, *kout) ([]string, []string) {
		return func(name string, v *kvec, o *kout) (ops, want []string) {
			b, off := v.B[0], v.Off[0]
			ntop := n
			if n == 4 {
				ntop = 8
			}
			left := make([]byte, n)
			for k := range left {
				left[k] = b[off-1+k*kBPS]
			}
			ops = append(ops, fmt.Sprintf("k_pred %d %d %s %s %d", n, modeOf(name, v), hx(b[off-kBPS:off-kBPS+ntop]), hx(left), b[off-1-kBPS]))
			want = append(want, okHex(blk(o.B[0], off, kBPS, n, n)))
			return
		}
	}
	idxOf := func(name string, v *kvec) int {
		k, _ := strconv.Atoi(strings.TrimSuffix(name[strings.Index(name, "[")+1:], "]"))
		return k
	}
	modeOf := func(name string, v *kvec) int { return v.I[0] }
	ksigs["pred16"] = &ksig{gen: genPred(16, 1), run: runPred, model: modelPred(16, idxOf)}
	ksigs["pred8"] = &ksig{gen: genPred(8, 1), run: runPred, model: modelPred(8, idxOf)}
	ksigs["pred4"] = &ksig{gen: genPred(4, 1), run: runPred, model: modelPred(4, idxOf)}
	ksigs["predmode16"] = &ksig{gen: genPred(16, 7), run: runPredMode, model: modelPred(16, modeOf)}
	ksigs["predmode8"] = &ksig{gen: genPred(8, 7), run: runPredMode, model: modelPred(8, modeOf)}
	ksigs["predmode4"] = &ksig{gen: genPred(4, 10), run: runPredMode, model: modelPred(4, modeOf)}

	// metrics: B0 = a, B1 = b
	genMetric := func(n int) func(string, *RNG, int) *kvec {
		classes := []string{"rand", "equal", "maxdiff", "mindiff", "off-by-one", "smooth"}
		return func(name string, r *RNG, i int) *kvec {
			v := &kvec{Dom: "std", Class: classes[i%len(classes)]}
			v.B[0], v.Off[0] = kbuf(r, n+2)
			v.B[1], v.Off[1] = kbuf(r, n+2)
			for y := 0; y < n; y++ {
				for x := 0; x < n; x++ {
					a, b := &v.B[0][v.Off[0]+y*kBPS+x], &v.B[1][v.Off[1]+y*kBPS+x]
					switch v.Class {
					case "equal":
						*b = *a
					case "maxdiff":
						*a, *b = 255, 0
					case "mindiff":
						*a, *b = 0, 255
					case "off-by-one":
						*b = *a ^ 1
					case "smooth":
						*a = byte(100 + x*3 + y*2)
						*b = byte(int(*a) + r.Intn(7) - 3)
					}
				}
			}
			return v
		}
	}
	runMetric := func(fn any, v *kvec) *kout {
		o := v.fresh()
		o.R = fn.(verifapi.DspMetric)(o.sl(v, 0), o.sl(v, 1))
		return o
	}
	modelMetric := func(n int) func(string, *kvec, *kout) ([]string, []string) {
		return func(name string, v *kvec, o *kout) (ops, want []string) {
			a, b := hx(blk(v.B[0], v.Off[0], kBPS, n, n)), hx(blk(v.B[1], v.Off[1], kBPS, n, n))
			op := "k_sse"
			if strings.HasPrefix(name, "TDisto") {
				op = "k_tdisto"
				if n == 16 {
					op = "k_tdisto16"
				}
			}
			return []string{op + " " + a + " " + b}, []string{"ok " + strconv.Itoa(o.R)}
		}
	}
	ksigs["metric4"] = &ksig{gen: genMetric(4), run: runMetric, model: modelMetric(4)}
	ksigs["metric16"] = &ksig{gen: genMetric(16), run: runMetric, model: modelMetric(16)}

	// lossless green transforms: U = pixels (+8 guard words), I0 = numPixels
	ksigs["green"] = &ksig{
		gen: func(name string, r *RNG, i int) *kvec {
			ns := []int{0, 1, 2, 3, 4, 5, 7, 8, 9, 15, 16, 17, 31, 32, 33, 63, 64, 65, 100, 257}
			n := ns[i%len(ns)]
			v := &kvec{Dom: "std", Class: fmt.Sprintf("n=%d", n)}
			v.U = make([]uint32, n+8)
			for k := range v.U {
				switch (i / len(ns)) % 3 {
				case 0:
					v.U[k] = uint32(r.Next())
				case 1:
					v.U[k] = []uint32{0xff00ff00, 0x00ff00ff, 0xffffffff, 0x0000ff00, 0xff01ff01, 0x80808080}[r.Intn(6)]
				default:
					v.U[k] = uint32(r.Next()) | 0x0000ff00
				}
			}
			v.I[0] = n
			return v
		},
		run: func(fn any, v *kvec) *kout {
			o := v.fresh()
			fn.(verifapi.DspGreen)(o.U[:v.I[0]:v.I[0]], v.I[0])
			return o
		},
		model: func(name string, v *kvec, o *kout) (ops, want []string) {
			le := func(u []uint32) []byte {
				var b []byte
				for _, x := range u {
					b = binary.LittleEndian.AppendUint32(b, x)
				}
				return b
			}
			kind := "add"
			if strings.HasPrefix(name, "Subtract") {
				kind = "sub"
			}
			return []string{"k_green " + kind + " " + hx(le(v.U[:v.I[0]]))}, []string{okHex(le(o.U[:v.I[0]]))}
		},
	}

	// simple vertical filter: B0 = p, I0 = base, I1 = stride, I2 = thresh
	genSF := func(inner bool) func(string, *RNG, int) *kvec {
		classes := []string{"rand", "flat", "step-small", "step-at-limit", "step-big", "extreme"}
		return func(name string, r *RNG, i int) *kvec {
			v := &kvec{Dom: "std", Class: classes[i%len(classes)]}
			stride := []int{32, 16, 17, 40, 64, 100}[(i/len(classes))%6]
			rows := 8
			if inner {
				rows = 18
			}
			v.B[0] = r.Bytes(stride*(rows+6) + 40)
			base := 3*stride + r.Intn(5)
			threshes := []int{0, 1, 2, 3, 7, 8, 15, 16, 31, 32, 62, 63, 64, 67, 100, 127, 128, 189, 193}
			t := threshes[r.Intn(len(threshes))]
			if i%11 == 10 {
				t = []int{254, 255, 256, 300, 1000, 32767, -1}[r.Intn(7)]
				v.Dom = "wide"
			}
			edges := []int{0}
			if inner {
				edges = []int{4, 8, 12}
			}
			for _, e := range edges {
				for x := 0; x < 16; x++ {
					o := base + e*stride + x
					p := &v.B[0]
					switch v.Class {
					case "flat":
						c := byte(r.Next())
						(*p)[o-2*stride], (*p)[o-stride], (*p)[o], (*p)[o+stride] = c, c, c, c
					case "step-small":
						c := byte(10 + r.Intn(200))
						d := byte(r.Intn(6))
						(*p)[o-2*stride], (*p)[o-stride], (*p)[o], (*p)[o+stride] = c, c, c+d, c+d
					case "step-at-limit":
						// 4*|p0-q0| + |p1-q1| lands within ±2 of 2*t+1
						tt := t
						if tt < 0 || tt > 300 {
							tt = 40
						}
						lim := 2*tt + 1
						d0 := lim / 4
						if d0 > 255 {
							d0 = 255
						}
						rest := lim - 4*d0 + r.Intn(5) - 2
						if rest < 0 {
							rest = 0
						}
						if rest > 255 {
							rest = 255
						}
						p0 := r.Intn(256 - d0)
						p1 := r.Intn(256 - rest)
						(*p)[o-stride], (*p)[o] = byte(p0), byte(p0+d0)
						(*p)[o-2*stride], (*p)[o+stride] = byte(p1), byte(p1+rest)
						if r.Bool() {
							(*p)[o-stride], (*p)[o] = (*p)[o], (*p)[o-stride]
						}
					case "step-big":
						(*p)[o-2*stride], (*p)[o-stride], (*p)[o], (*p)[o+stride] = byte(r.Intn(20)), byte(r.Intn(20)), byte(235+r.Intn(20)), byte(235+r.Intn(20))
					case "extreme":
						e := []byte{0, 255, 1, 254, 128, 127}
						(*p)[o-2*stride], (*p)[o-stride], (*p)[o], (*p)[o+stride] = e[r.Intn(6)], e[r.Intn(6)], e[r.Intn(6)], e[r.Intn(6)]
					}
				}
			}
			v.I[0], v.I[1], v.I[2] = base, stride, t
			return v
		}
	}
	runSF := func(fn any, v *kvec) *kout {
		o := v.fresh()
		fn.(verifapi.DspSFilter)(o.B[0], v.I[0], v.I[1], v.I[2])
		return o
	}
	modelSF := func(edges []int) func(string, *kvec, *kout) ([]string, []string) {
		return func(name string, v *kvec, o *kout) (ops, want []string) {
			base, stride := v.I[0], v.I[1]
			for _, e := range edges {
				var in, out []byte
				for x := 0; x < 16; x++ {
					at := base + e*stride + x
					for k := -2; k <= 1; k++ {
						in = append(in, v.B[0][at+k*stride])
						out = append(out, o.B[0][at+k*stride])
					}
				}
				ops = append(ops, fmt.Sprintf("k_sfilter %d %s", v.I[2], hx(in)))
				want = append(want, "ok "+hx(out)+" "+hx(out))
			}
			return
		}
	}
	ksigs["sfilter"] = &ksig{gen: genSF(false), run: runSF, model: modelSF([]int{0})}
	ksigs["sfilteri"] = &ksig{gen: genSF(true), run: runSF, model: modelSF([]int{4, 8, 12})}

	// fancy upsampler: B0 topY, B1 botY, B2 topU, B3 topV, B4 botU, B5 botV, B6 topDst, B7 botDst, B8 aTop, B9 aBot; I0 = width
	ksigs["upsample"] = &ksig{
		gen: func(name string, r *RNG, i int) *kvec {
			ws := []int{1, 2, 3, 4, 5, 6, 7, 8, 9, 11, 12, 15, 16, 17, 23, 24, 25, 31, 32, 33, 40, 63, 64, 65, 100, 129}
			w := ws[i%len(ws)]
			if i%97 == 96 {
				w = []int{2047, 2048, 2049, 4100}[r.Intn(4)] // around the wrapper's stack-buffer limit
			}
			mode := (i / len(ws)) % 6
			hasBot, hasATop, hasABot := mode != 1, mode == 2 || mode == 3, mode == 2 || mode == 4
			pc := []string{"rand", "rand", "zero", "max", "near0", "near255", "mid"}[r.Intn(7)]
			return upsampleVec(r, w, hasBot, hasATop, hasABot, pc)
		},
		run: func(fn any, v *kvec) *kout {
			o := v.fresh()
			fn.(verifapi.DspUpsample)(o.sl(v, 0), o.sl(v, 1), o.sl(v, 2), o.sl(v, 3), o.sl(v, 4), o.sl(v, 5),
				o.sl(v, 6), o.sl(v, 7), o.sl(v, 8), o.sl(v, 9), v.I[0])
			return o
		},
		model: func(name string, v *kvec, o *kout) (ops, want []string) {
			in := v.fresh()
			h := func(k int) string {
				if v.Nil[k] {
					return "-"
				}
				return hx(in.sl(v, k))
			}
			if v.I[0] > upsampleModelMaxW {
				return
			}
			ops = append(ops, fmt.Sprintf("k_upsample %d %s %s %s %s %s %s %s %s", v.I[0], h(0), h(1), h(2), h(3), h(4), h(5), h(8), h(9)))
			bot := "-"
			if !v.Nil[1] {
				bot = hx(o.sl(v, 7))
			}
			want = append(want, "ok "+hx(o.sl(v, 6))+" "+bot)
			return
		},
	}

	// quantiser (package lossy): S0 = in, S1 = out (+8 guard), S2 = sharpen; I0 first, I1 iq, I2 bias, I3 dciq, I4 dcbias, I5 alias(in==out)
	type quantFn = func(in, out []int16, sq *verifapi.DspSegmentQuant, first int) int
	ksigs["quant"] = &ksig{
		gen: func(name string, r *RNG, i int) *kvec {
			v := &kvec{Dom: "std"}
			classes := []string{"fdct-range", "small", "zero", "level-edge", "max-level", "wide-in", "wide-params"}
			v.Class = classes[i%len(classes)]
			// in-domain parameters: ExpandMatrix on the real dc/ac tables' value range (4..157, y2: 8..314 / 8..243)
			dcq, acq := 4+r.Intn(154), 4+r.Intn(154)
			typ := r.Intn(3)
			if typ == 1 {
				dcq, acq = 8+r.Intn(307), 8+r.Intn(236)
			}
			sq := verifapi.DspInitSegmentQuant(dcq, acq, typ, typ == 0)
			v.S[0] = make([]int16, 16)
			v.S[2] = append([]int16(nil), sq.Sharpen[:]...)
			v.I[1], v.I[2], v.I[3], v.I[4] = sq.IQuant, sq.Bias, sq.DCIQuant, sq.DCBias
			for k := range v.S[0] {
				switch v.Class {
				case "fdct-range":
					v.S[0][k] = int16(rnd(r, -2047, 2047))
				case "small":
					v.S[0][k] = int16(rnd(r, -acq, acq))
				case "level-edge":
					// around k*q ± q/2 where the level changes
					v.S[0][k] = int16((rnd(r, 0, 8)*acq + acq/2 + rnd(r, -2, 2)) * (1 - 2*r.Intn(2)))
				case "max-level":
					v.S[0][k] = int16(rnd(r, 2040, 2047) * (1 - 2*r.Intn(2)))
				case "wide-in":
					v.S[0][k] = []int16{int16(r.Next()), -32768, 32767, -32767}[r.Intn(4)]
				case "wide-params":
					v.S[0][k] = int16(rnd(r, -2047, 2047))
				}
			}
			if v.Class == "wide-in" {
				v.Dom = "wide"
			}
			if v.Class == "wide-params" {
				v.Dom = "wide"
				v.I[1], v.I[3] = 1+r.Intn(1<<17), 1+r.Intn(1<<17)
				v.I[2], v.I[4] = r.Intn(1<<17), r.Intn(1<<17)
				for k := range v.S[2] {
					v.S[2][k] = int16(rnd(r, -300, 300))
				}
			}
			v.S[1] = make([]int16, 16+8)
			for k := range v.S[1] {
				v.S[1][k] = int16(r.Next())
			}
			v.I[0] = r.Intn(2)
			v.I[5] = b2iK(i%5 == 4)
			return v
		},
		run: func(fn any, v *kvec) *kout {
			o := v.fresh()
			var sq verifapi.DspSegmentQuant
			sq.IQuant, sq.Bias, sq.DCIQuant, sq.DCBias = v.I[1], v.I[2], v.I[3], v.I[4]
			copy(sq.Sharpen[:], v.S[2])
			if v.I[5] == 1 {
				copy(o.S[1], o.S[0])
				o.R = fn.(quantFn)(o.S[1][:16], o.S[1][:16], &sq, v.I[0])
			} else {
				o.R = fn.(quantFn)(o.S[0], o.S[1][:16], &sq, v.I[0])
			}
			return o
		},
		model: func(name string, v *kvec, o *kout) (ops, want []string) {
			ops = append(ops, fmt.Sprintf("k_quant %d %s %s %d %d %d %d", v.I[0], i16s(v.S[0]), i16s(v.S[2]), v.I[1], v.I[2], v.I[3], v.I[4]))
			want = append(want, fmt.Sprintf("ok %d %s", o.R, i16s(o.S[1][:16])))
			return
		},
	}
	type dequantFn = func(in, out []int16, sq *verifapi.DspSegmentQuant)
	ksigs["dequant"] = &ksig{
		gen: func(name string, r *RNG, i int) *kvec {
			v := &kvec{Dom: "std", Class: "levels"}
			v.S[0] = make([]int16, 16)
			v.I[0], v.I[1] = 4+r.Intn(311), 4+r.Intn(240)
			for k := range v.S[0] {
				v.S[0][k] = int16(rnd(r, -2047, 2047))
				if i%3 == 0 {
					q := v.I[1]
					if k == 0 {
						q = v.I[0]
					}
					v.S[0][k] = int16(rnd(r, -32767/q, 32767/q)) // product stays inside int16
				}
			}
			if i%3 != 0 {
				v.Dom, v.Class = "wide", "levels-overflowing-int16"
			}
			if i%7 == 6 {
				v.Dom, v.Class = "wide", "wide-q"
				v.I[0], v.I[1] = rnd(r, -70000, 70000), rnd(r, -70000, 70000)
			}
			v.S[1] = make([]int16, 16+8)
			for k := range v.S[1] {
				v.S[1][k] = int16(r.Next())
			}
			return v
		},
		run: func(fn any, v *kvec) *kout {
			o := v.fresh()
			var sq verifapi.DspSegmentQuant
			sq.DCQuant, sq.Quant = v.I[0], v.I[1]
			fn.(dequantFn)(o.S[0], o.S[1][:16], &sq)
			return o
		},
		model: func(name string, v *kvec, o *kout) (ops, want []string) {
			return []string{fmt.Sprintf("k_dequant %s %d %d", i16s(v.S[0]), v.I[0], v.I[1])}, []string{"ok " + i16s(o.S[1][:16])}
		},
	}
}

// upsampleModelMaxW: widest row handed to the Lean reference (k_upsample has no limit of its own; the line
// of a 4100-pixel pair is about 100 kB).
const upsampleModelMaxW = 5000

// upsampleVec builds one vector of the fancy upsampler: B0 topY, B1 botY, B2 topU, B3 topV, B4 botU, B5 botV,
// B6 topDst, B7 botDst, B8 aTop, B9 aBot; I0 = width.  Content class "uvramp": luma in the middle of the range
// and chroma that changes with x in both planes and both rows (period prime to every power of two, so that
// neighbouring packed-UV entries differ and so do entries 1024, 2048 or 4096 columns apart).
func upsampleVec(r *RNG, w int, hasBot, hasATop, hasABot bool, pc string) *kvec {
	cw := (w + 1) / 2
	v := &kvec{Dom: "std"}
	v.Class = fmt.Sprintf("w=%d/bot=%v/a=%v%v/%s", w, hasBot, hasATop, hasABot, pc)
	mk := func(k, n int, fill bool) {
		v.B[k] = r.Bytes(n + 24)
		v.Off[k], v.Len[k] = 8+r.Intn(8), n
		if fill {
			fillPix(r, pc, v.B[k], v.Off[k], n, n, 1)
		}
	}
	fill := pc != "rand" && pc != "uvramp"
	mk(0, w, fill)
	mk(1, w, fill)
	for k := 2; k <= 5; k++ {
		mk(k, cw, fill)
	}
	if pc == "uvramp" {
		for k := 0; k <= 1; k++ {
			for x := 0; x < w; x++ {
				v.B[k][v.Off[k]+x] = byte(96 + (x*3+k*17)%64)
			}
		}
		u0, v0, du, dv := r.Intn(251), r.Intn(241), 1+r.Intn(9), 1+r.Intn(9)
		for x := 0; x < cw; x++ {
			v.B[2][v.Off[2]+x] = byte((u0 + 7*x) % 251)
			v.B[3][v.Off[3]+x] = byte(250 - (v0+5*x)%241)
			v.B[4][v.Off[4]+x] = byte((u0 + du + 7*x) % 251)
			v.B[5][v.Off[5]+x] = byte(250 - (v0+dv+5*x)%241)
		}
	}
	mk(6, 4*w, false)
	mk(7, 4*w, false)
	mk(8, w, false)
	mk(9, w, false)
	v.Nil[1], v.Nil[7] = !hasBot, !hasBot
	v.Nil[8], v.Nil[9] = !hasATop, !hasABot
	v.I[0] = w
	return v
}

// The deterministic wide vectors of the fancy upsampler (threshold cases of thresholds.go: 2048 = stack vs heap
// packed-UV scratch when a line PAIR is converted, 4096 = the same for a single line): every width around the two
// limits x {line pair, single line} x alpha modes x {random bytes, chroma ramp along the row}.  They follow the
// random vectors of the kernel (indices >= kernelCasesBase) and are compared exactly like them: AVX2 / SSE2 /
// portable Go in process, the purego and 386 children, and the Lean reference.
var upsampleWideWidths = []int{2047, 2048, 2049, 2050, 4095, 4096, 4097, 4100}

// {hasBot, hasATop, hasABot}
var upsampleWideModes = [][3]bool{{true, false, false}, {false, false, false}, {true, true, true}, {true, true, false}, {true, false, true}, {false, true, false}}

var upsampleWideContent = []string{"rand", "uvramp"}

func upsampleWideCount() int {
	return len(upsampleWideWidths) * len(upsampleWideModes) * len(upsampleWideContent)
}

func upsampleWideVec(r *RNG, j int) *kvec {
	w := upsampleWideWidths[j%len(upsampleWideWidths)]
	j /= len(upsampleWideWidths)
	m := upsampleWideModes[j%len(upsampleWideModes)]
	j /= len(upsampleWideModes)
	v := upsampleVec(r, w, m[0], m[1], m[2], upsampleWideContent[j%len(upsampleWideContent)])
	v.Class += "/threshold"
	return v
}

// upsampleWideTag names the threshold a wide width belongs to.
func upsampleWideTag(w int) string {
	if w <= 3000 {
		return "threshold:2048width"
	}
	return "threshold:4096width"
}

func b2iK(b bool) int {
	if b {
		return 1
	}
	return 0
}

// ---------------------------------------------------------------------------
// kernel list and code paths

type kentry struct {
	Name   string
	Sig    string
	Direct bool
	Cur    any
	Go     any
}

func kernelList() []kentry {
	var ks []kentry
	for _, k := range verifapi.DspKernels() {
		ks = append(ks, kentry{k.Name, k.Sig, k.Direct, k.Cur, k.Go})
	}
	type quantFn = func(in, out []int16, sq *verifapi.DspSegmentQuant, first int) int
	type dequantFn = func(in, out []int16, sq *verifapi.DspSegmentQuant)
	ks = append(ks,
		kentry{"lossy.QuantizeCoeffs", "quant", true, quantFn(verifapi.DspQuantizeCoeffs), quantFn(verifapi.DspQuantizeCoeffsGo)},
		kentry{"lossy.DequantCoeffs", "dequant", true, dequantFn(verifapi.DspDequantCoeffs), dequantFn(verifapi.DspDequantCoeffsGo)})
	sort.Slice(ks, func(i, j int) bool { return ks[i].Name < ks[j].Name })
	return ks
}

type kpath struct {
	Label string // avx2 | sse2 | asm | go | <child label>
	Cfg   string // dispatch configuration to select, "" for the portable twin
}

// selfLabel names the code path a plain (default-config) run of this binary takes.
func selfLabel() string {
	if l := os.Getenv("VERIF_KERNELS_LABEL"); l != "" {
		return l
	}
	arch, asm := verifapi.DspArch()
	switch {
	case !asm:
		return "go-" + arch
	case arch == "amd64" && verifapi.DspCPUHasAVX2():
		return "avx2"
	case arch == "amd64":
		return "sse2"
	default:
		return "asm-" + arch
	}
}

func kernelPaths() []kpath {
	arch, asm := verifapi.DspArch()
	ps := []kpath{{selfLabel(), "default"}}
	if asm && arch == "amd64" && verifapi.DspCPUHasAVX2() {
		ps = append(ps, kpath{"sse2", "noavx2"})
	}
	if asm {
		ps = append(ps, kpath{"go", ""})
	}
	return ps
}

// kernelCasesBase is set by the suite entry points before any vector is generated.
var kernelCasesBase = 420

func kernelCases(tier string) int {
	if tier == "thorough" {
		return 4000
	}
	return 420
}

// casesFor: the random/corner cases of every kernel plus, for the quantiser, the sweep over all 128 matrices and,
// for the fancy upsampler, the deterministic wide vectors.
func casesFor(k kentry, tier string) int {
	switch k.Sig {
	case "quant":
		return kernelCases(tier) + quantSweepCount()
	case "upsample":
		return kernelCases(tier) + upsampleWideCount()
	}
	return kernelCases(tier)
}

func kvecFor(seed uint64, k kentry, i int) *kvec {
	if k.Sig == "quant" && i >= kernelCasesBase {
		return quantSweepVec(i - kernelCasesBase)
	}
	h := fnv1a([]byte(k.Name))
	r := NewRNG(seed^h, uint64(i))
	if k.Sig == "upsample" && i >= kernelCasesBase {
		return upsampleWideVec(r, i-kernelCasesBase)
	}
	v := ksigs[k.Sig].gen(k.Name, r, i)
	return v
}

// kdiffSignature: in-range inputs (|coeff| <= 2047, the decoder's filter thresholds, the encoder's own quantiser
// parameters) are the C13 obligation; a difference that needs an input outside that range is listed apart.
func kdiffSignature(k kentry, v *kvec, la, lb string) string {
	if v.Dom == "wide" {
		return "kernel-range:" + k.Name
	}
	return "kernel:" + k.Name + ":" + la + "-vs-" + lb
}

func kname(k kentry, v *kvec) string {
	if v.Dom == "wide" {
		return k.Name + "/wide"
	}
	return k.Name
}

// runKernelPaths returns, per kernel and per path, the digest of the whole output state of every case.
func runKernelPaths(seed uint64, tier string, paths []kpath) (ks []kentry, dig map[string]map[string][]uint64, panics map[string]string) {
	kernelCasesBase = kernelCases(tier)
	dig = map[string]map[string][]uint64{}
	panics = map[string]string{}
	var mu sync.Mutex
	for _, p := range paths {
		if p.Cfg != "" {
			if err := verifapi.DspSetConfig(p.Cfg); err != nil {
				panic(err)
			}
		}
		ks = kernelList()
		var wg sync.WaitGroup
		sem := make(chan struct{}, runtime.NumCPU())
		for _, k := range ks {
			wg.Add(1)
			sem <- struct{}{}
			go func(k kentry) {
				defer wg.Done()
				defer func() { <-sem }()
				fn := k.Cur
				if p.Cfg == "" {
					fn = k.Go
				}
				n := casesFor(k, tier)
				ds := make([]uint64, n)
				for i := 0; i < n; i++ {
					v := kvecFor(seed, k, i)
					func() {
						defer func() {
							if e := recover(); e != nil {
								ds[i] = 0xdead
								mu.Lock()
								if _, ok := panics[k.Name+"|"+p.Label]; !ok {
									panics[k.Name+"|"+p.Label] = fmt.Sprintf("case %d (%s): %v", i, v.Class, e)
								}
								mu.Unlock()
							}
						}()
						ds[i] = fnv1a(ksigs[k.Sig].run(fn, v).bytes())
					}()
				}
				mu.Lock()
				if dig[k.Name] == nil {
					dig[k.Name] = map[string][]uint64{}
				}
				dig[k.Name][p.Label] = ds
				mu.Unlock()
			}(k)
		}
		wg.Wait()
	}
	verifapi.DspSetConfig("default")
	return
}

// firstDiff describes where two output states differ.
func koutFirstDiff(a, b *kout) string {
	for i := range a.B {
		for j := range a.B[i] {
			if j < len(b.B[i]) && a.B[i][j] != b.B[i][j] {
				return fmt.Sprintf("byte buffer %d index %d: %d vs %d", i, j, a.B[i][j], b.B[i][j])
			}
		}
	}
	for i := range a.S {
		for j := range a.S[i] {
			if j < len(b.S[i]) && a.S[i][j] != b.S[i][j] {
				return fmt.Sprintf("int16 buffer %d index %d: %d vs %d", i, j, a.S[i][j], b.S[i][j])
			}
		}
	}
	for j := range a.U {
		if a.U[j] != b.U[j] {
			return fmt.Sprintf("uint32 index %d: %#x vs %#x", j, a.U[j], b.U[j])
		}
	}
	if a.R != b.R {
		return fmt.Sprintf("return value %d vs %d", a.R, b.R)
	}
	return "equal"
}

// ---------------------------------------------------------------------------
// the kernel level of the parent suite

func kernelLevel(rep *Report) error {
	arch, asm := verifapi.DspArch()
	rep.Extra["goarch"] = arch
	rep.Extra["asm_build"] = asm
	rep.Extra["cpu_avx2"] = verifapi.DspCPUHasAVX2()
	if bad := verifapi.DspSelfCheck(); len(bad) > 0 {
		for _, b := range bad {
			rep.Add(Finding{Kind: "correspondence", Property: "C13", Signature: "hook:dispatch-copy-out-of-date", Detail: b, Input: map[string]any{}})
		}
	}
	if arch == "amd64" && asm && !verifapi.DspCPUHasAVX2() {
		rep.Notes = append(rep.Notes, "this CPU has no AVX2 (or the OS does not save YMM state): the AVX2 leg is skipped; default = SSE2")
	}
	paths := kernelPaths()
	slots := map[string]map[string]string{}
	for _, p := range paths {
		if p.Cfg != "" {
			verifapi.DspSetConfig(p.Cfg)
			slots[p.Label] = verifapi.DspSlots()
		}
	}
	verifapi.DspSetConfig("portable")
	slots["portable-table"] = verifapi.DspSlots()
	verifapi.DspSetConfig("default")
	rep.Extra["dispatch_slots"] = slots
	for name, impl := range slots["portable-table"] {
		if strings.Contains(impl, "SSE2") || strings.Contains(impl, "AVX2") || strings.Contains(impl, "NEON") {
			rep.Add(Finding{Kind: "correspondence", Property: "C13", Signature: "hook:portable-table-not-portable", Detail: name + " = " + impl, Input: map[string]any{}})
		}
	}

	tk := time.Now()
	// the AVX2 switch must be what package lossy sees through dsp.HasAVX2() (its quantiser picks AVX2/SSE2 by it)
	seen := map[string]bool{}
	for _, p := range paths {
		if p.Cfg != "" {
			verifapi.DspSetConfig(p.Cfg)
			seen[p.Label] = verifapi.DspHasAVX2Now()
		}
	}
	verifapi.DspSetConfig("default")
	rep.Extra["has_avx2_seen_by_lossy"] = seen
	if arch == "amd64" && asm {
		if v, ok := seen["sse2"]; ok && (v || verifapi.DspCPUHasAVX2() && !seen[paths[0].Label]) {
			rep.Add(Finding{Kind: "correspondence", Property: "C13", Signature: "hook:avx2-switch-ineffective", Detail: fmt.Sprintf("dsp.HasAVX2() per configuration: %v", seen), Input: map[string]any{}})
		}
	}
	asmAudit(rep)
	ks, dig, panics := runKernelPaths(rep.Seed, rep.Tier, paths)
	rep.Extra["t_kernel_paths_s"] = time.Since(tk).Seconds()
	rep.Extra["kernel_paths"] = func() []string {
		var l []string
		for _, p := range paths {
			l = append(l, p.Label)
		}
		return l
	}()
	rep.Extra["kernels"] = len(ks)
	for key, msg := range panics {
		parts := strings.SplitN(key, "|", 2)
		rep.Add(Finding{Kind: "property", Property: "C13", Signature: "kernel:" + parts[0] + ":panic-" + parts[1], Detail: msg, Input: map[string]any{"kernel": parts[0], "path": parts[1]}})
	}

	// the range scan first: its one summary finding per kernel must not be crowded out by the per-vector ones
	trs := time.Now()
	rangeScan(rep, paths)
	rep.Extra["t_range_scan_s"] = time.Since(trs).Seconds()

	modelCap := 420
	type kdiff struct {
		k    kentry
		i    int
		a, b int
	}
	type kres struct {
		ops, want, names []string
		vecs             []*kvec
		diffs            []kdiff
	}
	results := make([]kres, len(ks))
	parallelFor(len(ks), func(ki int) {
		k := ks[ki]
		sig := ksigs[k.Sig]
		res := &results[ki]
		n := casesFor(k, rep.Tier)
		for i := 0; i < n; i++ {
			v := kvecFor(rep.Seed, k, i)
			rep.Eval(true, append([]byte(k.Name+"|"), v.key()...))
			rep.Count("kernel/" + k.Sig + "/" + v.Dom)
			if i == 7 {
				rep.Sample(map[string]any{"kernel": k.Name, "case": i, "class": v.Class, "dom": v.Dom, "ints": v.I})
			}
			for a := 0; a < len(paths); a++ {
				for b := a + 1; b < len(paths); b++ {
					if dig[k.Name][paths[a].Label][i] != dig[k.Name][paths[b].Label][i] {
						res.diffs = append(res.diffs, kdiff{k, i, a, b})
					}
				}
			}
			wideUp := k.Sig == "upsample" && i >= kernelCasesBase
			if wideUp {
				rep.Count(upsampleWideTag(v.I[0]))
			}
			if i < modelCap || i >= kernelCasesBase && i%8 == 0 || wideUp || rep.Tier == "thorough" && i%4 == 0 {
				var o *kout
				func() {
					defer func() { recover() }()
					o = sig.run(k.Go, v) // the portable twin: independent of the table configuration
				}()
				if o == nil {
					continue
				}
				po, pw := sig.model(k.Name, v, o)
				for j := range po {
					res.ops = append(res.ops, po[j])
					res.want = append(res.want, pw[j])
					res.names = append(res.names, kname(k, v))
					res.vecs = append(res.vecs, v)
				}
			}
		}
	})
	var ops, want []string
	var opKernel []string
	var opVec []*kvec
	detailed := map[string]int{}
	for ki := range results {
		res := &results[ki]
		ops = append(ops, res.ops...)
		want = append(want, res.want...)
		opKernel = append(opKernel, res.names...)
		opVec = append(opVec, res.vecs...)
		// Go code paths against each other (sequential: re-running a path switches the global table)
		for _, d := range res.diffs {
			v := kvecFor(rep.Seed, d.k, d.i)
			la, lb := paths[d.a].Label, paths[d.b].Label
			sigName := kdiffSignature(d.k, v, la, lb)
			rep.Count("kernel-diff/" + kname(d.k, v) + ":" + la + "-vs-" + lb)
			detailed[sigName]++
			if detailed[sigName] > 5 {
				continue
			}
			oa, ob := rerun(d.k, paths[d.a], v), rerun(d.k, paths[d.b], v)
			in := v.input()
			in["kernel"], in["case"], in["seed"] = d.k.Name, d.i, rep.Seed
			rep.Add(Finding{Kind: "property", Property: "C13", Signature: sigName,
				Detail: fmt.Sprintf("%s vs %s, class %s: %s", la, lb, v.Class, koutFirstDiff(oa, ob)), Input: in})
		}
	}
	verifapi.DspSetConfig("default")

	// single-path kernels (pure Go on every platform): Go vs Lean only
	so, sw, sk := singlePathLines(rep)
	for j := range so {
		ops = append(ops, so[j])
		want = append(want, sw[j])
		opKernel = append(opKernel, sk[j])
		opVec = append(opVec, nil)
	}

	rep.Extra["t_kernel_compare_s"] = time.Since(tk).Seconds()
	td := time.Now()
	lean, err := RunDriver(ops)
	if err != nil {
		return err
	}
	rep.Extra["t_driver_s"] = time.Since(td).Seconds()
	rep.Extra["model_lines"] = len(ops)
	for j := range ops {
		rep.Count("model/" + strings.SplitN(ops[j], " ", 2)[0])
		if lean[j] == want[j] {
			continue
		}
		in := map[string]any{"op": ops[j], "go": want[j], "lean": lean[j]}
		if opVec[j] != nil {
			in["class"] = opVec[j].Class
		}
		rep.Add(Finding{Kind: "correspondence", Property: "C13", Signature: "kernel-model:" + opKernel[j],
			Detail: fmt.Sprintf("go %s / lean %s", short(want[j], 120), short(lean[j], 120)), Input: in})
	}
	return nil
}

func rerun(k kentry, p kpath, v *kvec) (o *kout) {
	defer func() {
		if e := recover(); e != nil {
			o = &kout{R: -0xdead}
		}
	}()
	fn := k.Go
	if p.Cfg != "" {
		verifapi.DspSetConfig(p.Cfg)
		for _, kk := range kernelList() {
			if kk.Name == k.Name {
				fn = kk.Cur
			}
		}
	}
	return ksigs[k.Sig].run(fn, v)
}

// ---------------------------------------------------------------------------
// single-path kernels: the decoder's own loop filters, dsp/filter.go, YUV→RGB, tables, dispatch

func singlePathLines(rep *Report) (ops, want, names []string) {
	add := func(name, op, w string) {
		ops = append(ops, op)
		want = append(want, w)
		names = append(names, name)
		rep.Eval(true, []byte(op))
	}
	seed := rep.Seed ^ 0x51a9
	scale := 1
	if rep.Tier == "thorough" {
		scale = 10
	}

	// clip tables: the tables the process really uses vs the Lean model of initClipTables / initYUVTables
	{
		s1, s2, c1, a0, _ := verifapi.DspClipTables()
		i8 := func(t []int8) []byte {
			b := make([]byte, len(t))
			for i, x := range t {
				b[i] = byte(x)
			}
			return b
		}
		add("cliptables", "k_cliptab", fmt.Sprintf("ok sclip1=%s sclip2=%s clip1=%s abs0=%s yuv=%s",
			digest(i8(s1)), digest(i8(s2)), digest(c1), digest(a0), digest(verifapi.DspYUVClipTable())))
	}

	// loop filters.  Segment generator shared by all variants.
	segClasses := []string{"rand", "flat", "smooth", "hev-edge", "ilimit-edge", "limit-edge", "extreme"}
	genSeg := func(r *RNG, class string, t, it, hv int) [8]byte {
		var s [8]byte
		cl := func(x int) byte {
			if x < 0 {
				return 0
			}
			if x > 255 {
				return 255
			}
			return byte(x)
		}
		switch class {
		case "rand":
			for k := range s {
				s[k] = byte(r.Next())
			}
		case "flat":
			c := byte(r.Next())
			for k := range s {
				s[k] = c
			}
		case "smooth":
			c := 20 + r.Intn(200)
			for k := range s {
				s[k] = cl(c + k*(r.Intn(5)-2) + r.Intn(3))
			}
		case "hev-edge":
			// |p1-p0| and |q1-q0| within ±1 of the hev threshold, everything else inside the limits
			c := 40 + r.Intn(170)
			d := hv + r.Intn(3) - 1
			if d < 0 {
				d = 0
			}
			s = [8]byte{cl(c), cl(c), cl(c), cl(c + d), cl(c + d + r.Intn(3)), cl(c + d), cl(c + d), cl(c + d)}
			if r.Bool() {
				s[5] = cl(int(s[4]) + hv + r.Intn(3) - 1)
			}
		case "ilimit-edge":
			c := 40 + r.Intn(170)
			for k := range s {
				s[k] = cl(c)
			}
			k := r.Intn(7)
			d := it + r.Intn(3) - 1
			for j := k + 1; j < 8; j++ {
				s[j] = cl(c + d)
			}
		case "limit-edge":
			lim := 2*t + 1
			d0 := lim / 4
			if d0 > 200 {
				d0 = 200
			}
			rest := lim - 4*d0 + r.Intn(5) - 2
			if rest < 0 {
				rest = 0
			}
			p0 := r.Intn(256 - d0)
			s[3], s[4] = byte(p0), byte(p0+d0)
			p1 := int(s[3]) + r.Intn(3) - 1
			s[2], s[5] = cl(p1), cl(p1+rest)
			s[1], s[0] = s[2], s[2]
			s[6], s[7] = s[5], s[5]
		case "extreme":
			e := []byte{0, 255, 1, 254, 128, 127}
			for k := range s {
				s[k] = e[r.Intn(6)]
			}
		}
		return s
	}
	threshes := []int{0, 1, 2, 3, 4, 8, 15, 16, 31, 32, 62, 63, 64, 67, 126, 127, 130, 189, 193}
	// (a) the decoder's primitives (decode_frame.go) and dsp/filter.go's exported twins on whole edges
	type fcase struct {
		kind   string // model kind: s | mb | in
		name   string
		n      int
		horiz  bool
		edges  []int // edge offsets in samples (inner variants: 4, 8, 12)
		call   func(p []byte, base, stride, t, it, hv int)
		simple bool
	}
	dec := func(kind string, n int) func(p []byte, base, stride, t, it, hv int) {
		return func(p []byte, base, stride, t, it, hv int) {
			verifapi.DspDecFilter(kind, p, base, stride, n, t, it, hv)
		}
	}
	uvWrap := func(f func(u, v []byte, ub, vb, stride, t, it, hv int)) func(p []byte, base, stride, t, it, hv int) {
		// the chroma variants filter two planes; both get the same buffer contents, the first is returned
		return func(p []byte, base, stride, t, it, hv int) {
			q := append([]byte(nil), p...)
			f(p, q, base, base, stride, t, it, hv)
		}
	}
	cases := []fcase{
		{"s", "lossy.simpleHFilter16At", 16, true, []int{0}, dec("s", 16), true},
		{"s", "lossy.simpleHFilter16iAt", 16, true, []int{4, 8, 12}, dec("si", 16), true},
		{"mb", "lossy.filterLoop26VAt", 16, false, []int{0}, dec("26v", 16), false},
		{"mb", "lossy.filterLoop26At", 16, true, []int{0}, dec("26h", 16), false},
		{"mb", "lossy.filterLoop26VAt/8", 8, false, []int{0}, dec("26v", 8), false},
		{"in", "lossy.filterLoop24VAt", 16, false, []int{0}, dec("24v", 16), false},
		{"in", "lossy.filterLoop24HAt", 16, true, []int{0}, dec("24h", 16), false},
		{"in", "lossy.filterLoop24HAt/8", 8, true, []int{0}, dec("24h", 8), false},
		{"s", "SimpleHFilter16", 16, true, []int{0}, func(p []byte, b, s, t, it, hv int) { verifapi.DspSimpleHFilter16(p, b, s, t) }, true},
		{"mb", "VFilter16", 16, false, []int{0}, verifapi.DspVFilter16, false},
		{"mb", "HFilter16", 16, true, []int{0}, verifapi.DspHFilter16, false},
		{"in", "VFilter16i", 16, false, []int{4, 8, 12}, verifapi.DspVFilter16i, false},
		{"in", "HFilter16i", 16, true, []int{4, 8, 12}, verifapi.DspHFilter16i, false},
		{"mb", "VFilter8", 8, false, []int{0}, uvWrap(verifapi.DspVFilter8), false},
		{"mb", "HFilter8", 8, true, []int{0}, uvWrap(verifapi.DspHFilter8), false},
		{"in", "VFilter8i", 8, false, []int{4}, uvWrap(verifapi.DspVFilter8i), false},
		{"in", "HFilter8i", 8, true, []int{4}, uvWrap(verifapi.DspHFilter8i), false},
	}
	for ci, fc := range cases {
		for i := 0; i < 14*scale; i++ {
			r := NewRNG(seed+uint64(ci), uint64(i))
			stride := []int{32, 24, 40, 67}[i%4]
			p := r.Bytes(stride*28 + 64)
			base := 6*stride + 8
			t, it, hv := threshes[r.Intn(len(threshes))], []int{0, 1, 2, 5, 9, 20, 63}[r.Intn(7)], r.Intn(3)
			class := segClasses[i%len(segClasses)]
			hs, vs := stride, 1 // step across the edge, step along the edge
			if fc.horiz {
				hs, vs = 1, stride
			}
			for _, e := range fc.edges {
				for k := 0; k < fc.n; k++ {
					s := genSeg(r, class, t, it, hv)
					at := base + e*hs + k*vs
					for j := 0; j < 8; j++ {
						if len(fc.edges) > 1 && e > fc.edges[0] && j < 4 {
							continue // keep the previous edge's q side
						}
						p[at+(j-4)*hs] = s[j]
					}
				}
			}
			orig := append([]byte(nil), p...)
			line, pm := guard(func() string {
				fc.call(p, base, stride, t, it, hv)
				return "ok"
			})
			rep.Count("filter/" + fc.name + "/" + class)
			if line == "panic" {
				add(fc.name, "k_fpred 0 0 0 0000000000000000", "panic:"+pm)
				continue
			}
			// edges are filtered in order; edge e+4 sees the samples edge e already wrote
			for ei, e := range fc.edges {
				var in, out []byte
				for k := 0; k < fc.n; k++ {
					at := base + e*hs + k*vs
					lo, hi := -4, 3
					if fc.simple {
						lo, hi = -2, 1
					}
					for j := lo; j <= hi; j++ {
						src := orig[at+j*hs]
						if ei > 0 && j < -2 && !fc.simple {
							src = p[at+j*hs] // p3, p2 = q0, q1 of the previous edge, already final
						}
						dst := p[at+j*hs]
						if ei < len(fc.edges)-1 && j >= 2 && !fc.simple {
							dst = orig[at+j*hs] // q2, q3 are rewritten later, as p1, p0 of the next edge
						}
						in = append(in, src)
						out = append(out, dst)
					}
				}
				if fc.simple {
					add(fc.name, fmt.Sprintf("k_sfilter %d %s", t, hx(in)), "ok "+hx(out)+" "+hx(out))
				} else {
					add(fc.name, fmt.Sprintf("k_nfilter %s %d %d %d %s", fc.kind, t, it, hv, hx(in)), "ok "+hx(out)+" "+hx(out))
				}
			}
			// nothing outside the filtered samples may change
			touched := map[int]bool{}
			for _, e := range fc.edges {
				for k := 0; k < fc.n; k++ {
					for j := -3; j <= 2; j++ {
						touched[base+e*hs+k*vs+j*hs] = true
					}
				}
			}
			for idx := range p {
				if p[idx] != orig[idx] && !touched[idx] {
					rep.Add(Finding{Kind: "property", Property: "C04", Signature: "kernel:" + fc.name + ":out-of-edge-write",
						Detail: fmt.Sprintf("index %d changed (base %d stride %d)", idx, base, stride), Input: map[string]any{"buf": hx(orig), "base": base, "stride": stride, "t": t, "it": it, "hv": hv}})
					break
				}
			}
		}
	}
	// (b) the predicates at their boundaries
	for i := 0; i < 300*scale; i++ {
		r := NewRNG(seed+99, uint64(i))
		t, it, hv := threshes[r.Intn(len(threshes))], []int{0, 1, 2, 5, 9, 20, 63}[r.Intn(7)], r.Intn(4)
		s := genSeg(r, segClasses[i%len(segClasses)], t, it, hv)
		t2 := 2*t + 1
		g := func(k int) int { return int(s[k]) }
		add("filter-predicates", fmt.Sprintf("k_fpred %d %d %d %s", t2, it, hv, hx(s[:])),
			fmt.Sprintf("ok %s %s %s", b2s(verifapi.DspNeedsFilter(g(2), g(3), g(4), g(5), t2)),
				b2s(verifapi.DspNeedsFilter2(g(0), g(1), g(2), g(3), g(4), g(5), g(6), g(7), t2, it)),
				b2s(verifapi.DspHev(g(2), g(3), g(4), g(5), hv))))
	}

	// YUV → RGB: all (y, v) and (y, u) pairs at u/v = 128 plus the corners of the cube, plus random triples
	{
		var tri []byte
		flush := func() {
			if len(tri) == 0 {
				return
			}
			out := make([]byte, len(tri))
			for k := 0; k < len(tri); k += 3 {
				verifapi.DspYUVToRGB(int(tri[k]), int(tri[k+1]), int(tri[k+2]), out[k:k+3])
			}
			add("YUVToRGB", "k_yuvrgb "+hx(tri), okHex(out))
			tri = nil
		}
		push := func(y, u, v int) {
			tri = append(tri, byte(y), byte(u), byte(v))
			if len(tri) >= 3*2048 {
				flush()
			}
		}
		step := 5
		if rep.Tier == "thorough" {
			step = 1
		}
		for y := 0; y < 256; y += step {
			for c := 0; c < 256; c += step {
				push(y, 128, c)
				push(y, c, 128)
				push(y, c, 255-c)
			}
		}
		for _, y := range []int{0, 1, 15, 16, 17, 128, 234, 235, 236, 254, 255} {
			for _, u := range []int{0, 1, 16, 127, 128, 129, 240, 254, 255} {
				for _, v := range []int{0, 1, 16, 127, 128, 129, 240, 254, 255} {
					push(y, u, v)
				}
			}
		}
		r := NewRNG(seed+7, 0)
		for i := 0; i < 6000*scale; i++ {
			push(int(byte(r.Next())), int(byte(r.Next())), int(byte(r.Next())))
		}
		flush()
	}

	// the decoder's transform dispatch: nzCodeBits / doTransform / doUVTransform.  doTransform calls through the
	// dispatch table; the portable table is selected so that these lines tie the *Go* functions to the model
	// (the table slots themselves are compared across code paths at the kernel level above).
	verifapi.DspSetConfig("portable")
	defer verifapi.DspSetConfig("default")
	for nz := 0; nz <= 16; nz++ {
		for dc := 0; dc <= 1; dc++ {
			for _, w := range []uint32{0, 1, 0x3fffffff, 0xffffffff, 0x12345678} {
				add("nzCodeBits", fmt.Sprintf("k_nzbits %d %d %d", w, nz, dc), fmt.Sprintf("ok %d", verifapi.DspNzCodeBits(w, nz, dc)))
			}
		}
	}
	for i := 0; i < 400*scale; i++ {
		r := NewRNG(seed+11, uint64(i))
		code := i % 4
		c := make([]int16, 16)
		genCoef(r, coefClasses[r.Intn(len(coefClasses))], c)
		buf, off := kbuf(r, 8)
		fillPix(r, pixClasses[r.Intn(len(pixClasses))], buf, off, kBPS, 4, 4)
		pix := blk(buf, off, kBPS, 4, 4)
		line, _ := guard(func() string {
			verifapi.DspDoTransform(uint32(code)<<30|uint32(r.Next())&0x3fffffff, c, buf[off:])
			return okHex(blk(buf, off, kBPS, 4, 4))
		})
		add("lossy.doTransform", fmt.Sprintf("k_dotrans %d %s %s", code, hx(pix), i16s(c)), line)
	}
	uvOffs := []int{0, 4, 4 * kBPS, 4*kBPS + 4}
	for i := 0; i < 300*scale; i++ {
		r := NewRNG(seed+13, uint64(i))
		codes := []int{r.Intn(4), r.Intn(4), r.Intn(4), r.Intn(4)}
		if i%3 == 0 {
			codes = []int{r.Intn(2), r.Intn(2), r.Intn(2), r.Intn(2)}
		}
		if i%17 == 0 {
			codes = []int{0, 0, 0, 0}
		}
		c := make([]int16, 64)
		for b := 0; b < 4; b++ {
			genCoef(r, coefClasses[r.Intn(len(coefClasses))], c[16*b:16*b+16])
			if codes[b] <= 1 && r.Intn(4) != 0 { // what the parser guarantees: code<=1 ⇒ only DC may be set
				for k := 1; k < 16; k++ {
					c[16*b+k] = 0
				}
				if codes[b] == 0 {
					c[16*b] = 0
				}
			}
		}
		buf, off := kbuf(r, 10)
		var pix []byte
		for _, d := range uvOffs {
			pix = append(pix, blk(buf, off+d, kBPS, 4, 4)...)
		}
		bits := uint32(0)
		for b := 0; b < 4; b++ { // block 0 is in the top bits of the byte: nzCodeBits shifts left as it goes
			bits = bits<<2 | uint32(codes[b])
		}
		line, _ := guard(func() string {
			verifapi.DspDoUVTransform(bits|uint32(r.Next())<<8, c, buf[off:])
			var out []byte
			for _, d := range uvOffs {
				out = append(out, blk(buf, off+d, kBPS, 4, 4)...)
			}
			return okHex(out)
		})
		add("lossy.doUVTransform", fmt.Sprintf("k_douv %s %s %s", ints(codes), hx(pix), i16s(c)), line)
	}
	return
}

// ---------------------------------------------------------------------------
// child: the same vectors through this binary's own default code path

func suiteKernelsChild(rep *Report) error {
	ks, dig, panics := runKernelPaths(rep.Seed, rep.Tier, []kpath{{selfLabel(), "default"}})
	out := map[string][]string{}
	for _, k := range ks {
		ds := dig[k.Name][selfLabel()]
		xs := make([]string, len(ds))
		for i, d := range ds {
			xs[i] = strconv.FormatUint(d, 16)
		}
		out[k.Name] = xs
		rep.Evaluations += len(ds)
	}
	arch, asm := verifapi.DspArch()
	rep.Extra["label"] = selfLabel()
	rep.Extra["goarch"] = arch
	rep.Extra["asm_build"] = asm
	rep.Extra["intbits"] = strconv.IntSize
	rep.Extra["kdig"] = out
	rep.Extra["kpanics"] = panics
	rep.Extra["slots"] = verifapi.DspSlots()
	pipelineChild(rep)
	rep.Rule = "child process of suite kernels: digests only"
	return nil
}
