package main

// The whitelist of functions translated into Generated/Funcs.lean (see funcs.go).
//
//	pkg   directory of the package relative to the repo root ("." for the root package)
//	recv  receiver type name for methods
//	lean  Lean name (default: fn, or Recv_fn for methods); must be unique
//	fuel  iteration bound for `for cond {…}` loops (the tie theorem shows it suffices)
//	note  input range on which no `int` intermediate overflows 64 bits (printed in the header)
//	site  expression site inside fn: the name of the assigned variable/field (occ-th assignment),
//	      or "if:N" / "return:N" (N-th if condition / first returned expression, in source order)
//	vars  the free variables of the site and their Go types ("x int, buf []byte")
//	tables  for a package-initialisation function: the run-time filled package arrays it writes
type fxSpec struct {
	pkg, recv, fn string
	lean          string
	fuel          int
	note          string
	site          string
	occ           int
	vars          string
	tables        string
}

var funcWhitelist = []fxSpec{
	// ---- internal/lossless (C01, C03, C05) ----
	{pkg: "internal/lossless", fn: "PlaneCodeToDistance", note: "0 ≤ xsize < 2^59 (|yoffset*xsize + xoffset| < 2^63 since yoffset ≤ 7; the guard bounds xsize by 2^30 anyway)"},
	{pkg: "internal/lossless", fn: "VP8LSubSampleSize", note: "0 ≤ samplingBits ≤ 61 and 0 ≤ size < 2^62"},
	{pkg: "internal/lossless", fn: "bitsLog2Floor", fuel: 64},
	{pkg: "internal/lossless", fn: "PrefixEncodeBitsNoLUT", note: "distance > -2^63"},
	{pkg: "internal/lossless", fn: "PrefixEncodeNoLUT", note: "distance > -2^63"},
	{pkg: "internal/lossless", recv: "ColorCache", fn: "HashPix"},
	{pkg: "internal/lossless", recv: "ColorCache", fn: "Lookup"},
	{pkg: "internal/lossless", fn: "addPixels"},
	{pkg: "internal/lossless", fn: "average2"},
	{pkg: "internal/lossless", fn: "selectPredictor"},
	{pkg: "internal/lossless", fn: "clampedAddSubtractFull"},
	{pkg: "internal/lossless", fn: "clampedAddSubtractHalf"},
	{pkg: "internal/lossless", fn: "getARGBIndex"},
	{pkg: "internal/lossless", fn: "AlphabetSize", note: "0 ≤ colorCacheBits ≤ 62"},
	// encoder twins (C01)
	{pkg: "internal/lossless", fn: "subPixels"},
	{pkg: "internal/lossless", fn: "avg2"},
	{pkg: "internal/lossless", fn: "selectPred"},
	{pkg: "internal/lossless", fn: "clampByte"},
	{pkg: "internal/lossless", fn: "clampAddSubFull"},
	{pkg: "internal/lossless", fn: "clampAddSubHalf"},
	{pkg: "internal/lossless", fn: "predictPixel"},
	{pkg: "internal/lossless", fn: "encColorTransformDelta"},
	{pkg: "internal/lossless", fn: "packMultipliers"},
	{pkg: "internal/lossless", fn: "applyColorTransformPixel"},
	// ---- internal/dsp (C03, C04, C13) ----
	{pkg: "internal/dsp", fn: "colorTransformDelta"},
	{pkg: "internal/dsp", fn: "mul1", note: "|a| < 2^47 (a * 20091)"},
	{pkg: "internal/dsp", fn: "mul2", note: "|a| < 2^47 (a * 35468)"},
	{pkg: "internal/dsp", fn: "b2i"},
	{pkg: "internal/dsp", fn: "Clip8b"},
	{pkg: "internal/dsp", fn: "multHi", note: "|v * coeff| < 2^63"},
	{pkg: "internal/dsp", fn: "clip", lean: "dsp_clip"},
	{pkg: "internal/dsp", fn: "initClipTables", tables: "sclip1,sclip2,clip1,abs0"},
	{pkg: "internal/dsp", fn: "Ksclip1"},
	{pkg: "internal/dsp", fn: "Ksclip2"},
	{pkg: "internal/dsp", fn: "Kclip1"},
	{pkg: "internal/dsp", fn: "Kabs0"},
	{pkg: "internal/dsp", fn: "needsFilter"},
	{pkg: "internal/dsp", fn: "needsFilter2"},
	{pkg: "internal/dsp", fn: "hev"},
	{pkg: "internal/dsp", fn: "doFilter2"},
	{pkg: "internal/dsp", fn: "doFilter4"},
	{pkg: "internal/dsp", fn: "doFilter6"},
	{pkg: "internal/dsp", fn: "simpleVFilter16Go"},
	{pkg: "internal/dsp", fn: "SimpleHFilter16"},
	{pkg: "internal/dsp", fn: "filterLoop26"},
	{pkg: "internal/dsp", fn: "filterLoop24"},
	{pkg: "internal/dsp", fn: "VFilter16"},
	{pkg: "internal/dsp", fn: "HFilter16"},
	{pkg: "internal/dsp", fn: "VFilter8"},
	{pkg: "internal/dsp", fn: "HFilter8"},
	{pkg: "internal/dsp", fn: "VFilter16i"},
	{pkg: "internal/dsp", fn: "HFilter16i"},
	{pkg: "internal/dsp", fn: "VFilter8i"},
	{pkg: "internal/dsp", fn: "HFilter8i"},
	{pkg: "internal/dsp", fn: "SimpleHFilter16i"},
	{pkg: "internal/dsp", fn: "HasAlpha8b"},
	{pkg: "internal/dsp", fn: "HasAlpha32b"},
	{pkg: "internal/dsp", fn: "iTransformOne"},
	{pkg: "internal/dsp", fn: "iTransform"},
	{pkg: "internal/dsp", fn: "fTransform"},
	{pkg: "internal/dsp", fn: "fTransformWHT"},
	{pkg: "internal/dsp", fn: "store"},
	{pkg: "internal/dsp", fn: "transformOne", note: "12-bit coefficients"},
	{pkg: "internal/dsp", fn: "transformDC"},
	{pkg: "internal/dsp", fn: "transformAC3"},
	{pkg: "internal/dsp", fn: "transformTwo"},
	{pkg: "internal/dsp", fn: "transformUV"},
	{pkg: "internal/dsp", fn: "transformDCUV"},
	{pkg: "internal/dsp", fn: "transformWHT"},
	// ---- internal/lossy (C04, C06) ----
	{pkg: "internal/lossy", fn: "clip", lean: "lossy_clip"},
	{pkg: "internal/lossy", fn: "clampInt"},
	// ---- internal/container, mux, animation (C05, C14, C09) ----
	{pkg: "internal/container", fn: "PaddedSize"},
	{pkg: "internal/container", fn: "FourCC"},
	{pkg: "internal/container", fn: "readLE24"},
	{pkg: "internal/container", fn: "ReadLE16"},
	{pkg: "internal/container", fn: "ReadLE32"},
	{pkg: "internal/container", fn: "PutLE16"},
	{pkg: "internal/container", fn: "PutLE32"},
	{pkg: "mux", fn: "putLE24", lean: "mux_putLE24"},
	{pkg: ".", fn: "putLE24", lean: "webp_putLE24"},
	{pkg: "internal/lossless", fn: "argbHasAlpha"},
	{pkg: "internal/lossless", fn: "clampBits", fuel: 64, note: "as VP8LSubSampleSize"},
	// expression sites: LZ77 prefix value arithmetic, ANMF / ANIM fields, dimension and area guards
	{pkg: "internal/lossless", fn: "getCopyDistance", site: "extraBits", vars: "distanceSymbol int"},
	{pkg: "internal/lossless", fn: "getCopyDistance", site: "offset", vars: "distanceSymbol int, extraBits int"},
	{pkg: "internal/lossless", fn: "getCopyDistance", site: "return:0", vars: "distanceSymbol int"},
	{pkg: "internal/container", fn: "parseANMF", site: "XOffset", vars: "payload []byte"},
	{pkg: "internal/container", fn: "parseANMF", site: "YOffset", vars: "payload []byte"},
	{pkg: "internal/container", fn: "parseANMF", site: "Width", vars: "payload []byte"},
	{pkg: "internal/container", fn: "parseANMF", site: "Height", vars: "payload []byte"},
	{pkg: "internal/container", fn: "parseANMF", site: "Duration", vars: "payload []byte"},
	{pkg: "internal/container", recv: "Parser", fn: "parseVP8X", site: "CanvasWidth", vars: "payload []byte"},
	{pkg: "internal/container", recv: "Parser", fn: "parseVP8X", site: "CanvasHeight", vars: "payload []byte"},
	{pkg: "mux", recv: "Demuxer", fn: "parseANMF", site: "offsetX", vars: "data []byte"},
	{pkg: "mux", recv: "Demuxer", fn: "parseANMF", site: "offsetY", vars: "data []byte"},
	{pkg: "mux", recv: "Demuxer", fn: "parseANMF", site: "width", vars: "data []byte"},
	{pkg: "mux", recv: "Demuxer", fn: "parseANMF", site: "height", vars: "data []byte"},
	{pkg: "mux", recv: "Demuxer", fn: "parseANMF", site: "duration", vars: "data []byte"},
	{pkg: "mux", recv: "Demuxer", fn: "parseANMF", site: "if~MaxImageArea", lean: "Demuxer_parseANMF_areaGuard", vars: "width int, height int"},
	{pkg: "mux", recv: "Muxer", fn: "validate", site: "if~MaxCanvasSize", lean: "Muxer_validate_canvasGuard", vars: "canvasW int, canvasH int"},
	{pkg: "mux", recv: "Muxer", fn: "validate", site: "if~MaxImageArea", lean: "Muxer_validate_areaGuard", vars: "canvasW int, canvasH int"},
	{pkg: ".", fn: "Encode", site: "if~MaxDimension", lean: "Encode_dimGuard", vars: "imgW int, imgH int"},
	{pkg: ".", fn: "Encode", site: "if~imgW <= 0", lean: "Encode_posGuard", vars: "imgW int, imgH int"},
	{pkg: "internal/lossless", fn: "Encode", site: "if~16383", lean: "lossless_Encode_dimGuard", vars: "width int, height int"},
	{pkg: "internal/lossy", recv: "VP8Encoder", fn: "assembleFrame", site: "tag", occ: 3, lean: "assembleFrame_tag", vars: "tag uint32, part0 []byte"},
	// expression sites of the VP8 frame header (C02 C04 C05)
	{pkg: "internal/lossy", recv: "Decoder", fn: "parsePartitions", site: "psize", vars: "sz []byte"},
	{pkg: "internal/lossy", recv: "Decoder", fn: "parseHeaders", site: "bits", vars: "data []byte"},
	{pkg: "internal/lossy", recv: "Decoder", fn: "parseHeaders", site: "KeyFrame", vars: "bits uint32"},
	{pkg: "internal/lossy", recv: "Decoder", fn: "parseHeaders", site: "Profile", vars: "bits uint32"},
	{pkg: "internal/lossy", recv: "Decoder", fn: "parseHeaders", site: "Show", vars: "bits uint32"},
	{pkg: "internal/lossy", recv: "Decoder", fn: "parseHeaders", site: "PartitionLength", vars: "bits uint32"},
	{pkg: "internal/lossy", recv: "Decoder", fn: "parseHeaders", site: "Width", vars: "buf []byte"},
	{pkg: "internal/lossy", recv: "Decoder", fn: "parseHeaders", site: "Height", vars: "buf []byte"},
	{pkg: "internal/lossy", recv: "Decoder", fn: "parseHeaders", site: "XScale", vars: "buf []byte"},
	{pkg: "internal/lossy", recv: "Decoder", fn: "parseHeaders", site: "YScale", vars: "buf []byte"},
	{pkg: "mux", fn: "clampDuration"},
	{pkg: "animation", fn: "clampLoopCount"},
	{pkg: "animation", fn: "alphaBlendNRGBA", note: "all inputs (uint32 arithmetic)"},
	// ---- root package: option sentinels (C20) ----
	{pkg: ".", fn: "resolveSNSStrength"},
	{pkg: ".", fn: "resolveFilterStrength"},
	{pkg: ".", fn: "resolveFilterType"},
	{pkg: ".", fn: "resolveSegments"},
	{pkg: ".", fn: "resolvePass"},
	{pkg: ".", fn: "resolveQMax"},
	{pkg: ".", fn: "resolveAlphaCompression"},
	{pkg: ".", fn: "resolveAlphaFiltering"},
	{pkg: ".", fn: "resolveAlphaQuality"},
}
