package main

// The whitelist of functions translated into Generated/Funcs.lean (see funcs.go).
//
//	pkg   directory of the package relative to the repo root ("." for the root package)
//	recv  receiver type name for methods
//	lean  Lean name (default: fn, or Recv_fn for methods); must be unique
//	fuel  iteration bound for `for cond {…}` loops (the tie theorem shows it suffices)
//	note  input range on which no `int` intermediate overflows 64 bits (printed in the header)
type fxSpec struct {
	pkg, recv, fn string
	lean          string
	fuel          int
	note          string
}

var funcWhitelist = []fxSpec{
	// ---- internal/lossless (C01, C03, C05) ----
	{pkg: "internal/lossless", fn: "PlaneCodeToDistance", note: "0 ≤ xsize < 2^59 (|yoffset*xsize + xoffset| < 2^63 since yoffset ≤ 7; the guard bounds xsize by 2^30 anyway)"},
	{pkg: "internal/lossless", fn: "VP8LSubSampleSize", note: "0 ≤ samplingBits ≤ 61 and 0 ≤ size < 2^62"},
	{pkg: "internal/lossless", fn: "bitsLog2Floor", fuel: 64},
	{pkg: "internal/lossless", fn: "PrefixEncodeBitsNoLUT", note: "distance > -2^63"},
	{pkg: "internal/lossless", fn: "PrefixEncodeNoLUT", note: "distance > -2^63"},
	{pkg: "internal/lossless", recv: "ColorCache", fn: "HashPix"},
	{pkg: "internal/lossless", fn: "addPixels"},
	{pkg: "internal/lossless", fn: "average2"},
	{pkg: "internal/lossless", fn: "selectPredictor"},
	{pkg: "internal/lossless", fn: "clampedAddSubtractFull"},
	{pkg: "internal/lossless", fn: "clampedAddSubtractHalf"},
	{pkg: "internal/lossless", fn: "getARGBIndex"},
	{pkg: "internal/lossless", fn: "AlphabetSize", note: "0 ≤ colorCacheBits ≤ 62"},
	// encoder twins (C01)
	{pkg: "internal/lossless", fn: "subPixels"},
	{pkg: "internal/lossless", fn: "avg2"},
	{pkg: "internal/lossless", fn: "selectPred"},
	{pkg: "internal/lossless", fn: "clampByte"},
	{pkg: "internal/lossless", fn: "clampAddSubFull"},
	{pkg: "internal/lossless", fn: "clampAddSubHalf"},
	{pkg: "internal/lossless", fn: "predictPixel"},
	{pkg: "internal/lossless", fn: "encColorTransformDelta"},
	{pkg: "internal/lossless", fn: "packMultipliers"},
	{pkg: "internal/lossless", fn: "applyColorTransformPixel"},
	// ---- internal/dsp (C03, C04, C13) ----
	{pkg: "internal/dsp", fn: "colorTransformDelta"},
	{pkg: "internal/dsp", fn: "mul1", note: "|a| < 2^47 (a * 20091)"},
	{pkg: "internal/dsp", fn: "mul2", note: "|a| < 2^47 (a * 35468)"},
	{pkg: "internal/dsp", fn: "b2i"},
	{pkg: "internal/dsp", fn: "Clip8b"},
	{pkg: "internal/dsp", fn: "multHi", note: "|v * coeff| < 2^63"},
	{pkg: "internal/dsp", fn: "clip", lean: "dsp_clip"},
	// ---- internal/lossy (C04, C06) ----
	{pkg: "internal/lossy", fn: "clip", lean: "lossy_clip"},
	{pkg: "internal/lossy", fn: "clampInt"},
	// ---- internal/container, mux, animation (C05, C14, C09) ----
	{pkg: "internal/container", fn: "PaddedSize"},
	{pkg: "internal/container", fn: "FourCC"},
	{pkg: "internal/container", fn: "readLE24"},
	{pkg: "mux", fn: "clampDuration"},
	{pkg: "animation", fn: "clampLoopCount"},
	// ---- root package: option sentinels (C20) ----
	{pkg: ".", fn: "resolveSNSStrength"},
	{pkg: ".", fn: "resolveFilterStrength"},
	{pkg: ".", fn: "resolveFilterType"},
	{pkg: ".", fn: "resolveSegments"},
	{pkg: ".", fn: "resolvePass"},
	{pkg: ".", fn: "resolveQMax"},
	{pkg: ".", fn: "resolveAlphaCompression"},
	{pkg: ".", fn: "resolveAlphaFiltering"},
	{pkg: ".", fn: "resolveAlphaQuality"},
}
