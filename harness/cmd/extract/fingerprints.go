package main

// Fingerprints.lean: "model-currency" facts.  For every function / method in the curated list
// (fingerprints_list.go) the generator emits
//
//	("<pkgdir>.<Recv>.<Name>", "<hex16>")
//
// where <hex16> is the first 16 hex digits of SHA-256 over a NORMALISED rendering of the whole
// function declaration (signature + body):
//
//   - comments are dropped (the files are parsed without comments; Doc is cleared),
//   - every identifier that go/parser resolves to an object DECLARED INSIDE the function
//     (receiver name, parameters, named results, := / var / const / type declarations, range and
//     type-switch bindings, closure parameters, labels) is renamed v1, v2, … in order of the
//     position of its declaration; package-level identifiers, struct fields, methods, imported
//     names and selectors are never renamed (an unrenamed identifier that itself looks like vN is
//     printed as $vN so that it cannot collide with a renamed one),
//   - the declaration is printed with go/printer and the output is re-tokenised with go/scanner;
//     the tokens are joined by single blanks, automatic and explicit semicolons are the same
//     token, and a `,` or `;` directly before a closing bracket is dropped (these depend only on
//     line breaks).
//
// So reformatting, comment edits and a consistent renaming of locals leave the fingerprint
// unchanged, while any change of statements, operators, literals, called functions, types in the
// signature or order changes it.  It detects CHANGE, not meaning.
//
// A listed function that is not found gets the hash "missing".  When several files of the package
// declare the same pkg.Recv.Name (build-tagged twins such as *_amd64.go / *_generic.go) the
// normalised renderings are concatenated in file-name order (each prefixed by its file name), so a
// change in any twin changes the fingerprint.
//
// In addition every assembly file under asmDirs is hashed ("asm:<path>": lines with comments
// removed, blanks collapsed, empty lines dropped) together with the list of assembly file names
// per directory ("asmfiles:<dir>"), so that a new or edited kernel is noticed.
//
// Consumed by Webp/Impl/Transcribed.lean (hand-maintained expectations, one list per property) and
// the theorems model_current_Cxx in Webp/Props/CxxCurrent.lean.

import (
	"bytes"
	"crypto/sha256"
	"encoding/hex"
	"fmt"
	"go/ast"
	"go/parser"
	"go/printer"
	"go/scanner"
	"go/token"
	"os"
	"path/filepath"
	"regexp"
	"sort"
	"strings"
)

func init() {
	generators = append(generators, generator{file: "Fingerprints.lean", run: genFingerprints})
}

// fpSpec names one function or method of /repo.
//
//	pkg   directory of the package relative to the repo root ("." for the root package webp)
//	recv  receiver type name for methods ("" for plain functions); pointer-ness is ignored
//	fn    function name
type fpSpec struct{ pkg, recv, fn string }

func (s fpSpec) key() string {
	p := s.pkg
	if p == "." || p == "" {
		p = "webp"
	}
	if s.recv != "" {
		return p + "." + s.recv + "." + s.fn
	}
	return p + "." + s.fn
}

// directories whose assembly files are fingerprinted
var asmDirs = []string{"internal/dsp", "internal/lossy", "internal/lossless"}

type fpFile struct {
	name string
	file *ast.File
}

type fpPkg struct {
	fset  *token.FileSet
	files []fpFile
}

func fpLoadPkg(repo, dir string) (*fpPkg, error) {
	ents, err := os.ReadDir(filepath.Join(repo, dir))
	if err != nil {
		return nil, err
	}
	p := &fpPkg{fset: token.NewFileSet()}
	for _, e := range ents {
		n := e.Name()
		if e.IsDir() || !strings.HasSuffix(n, ".go") || strings.HasSuffix(n, "_test.go") || strings.HasPrefix(n, "verif_") {
			continue
		}
		// comments are not parsed; identifiers are resolved (ast.Object) within the file
		f, err := parser.ParseFile(p.fset, filepath.Join(repo, dir, n), nil, 0)
		if err != nil {
			return nil, err
		}
		p.files = append(p.files, fpFile{n, f})
	}
	sort.Slice(p.files, func(i, j int) bool { return p.files[i].name < p.files[j].name })
	return p, nil
}

func fpRecvName(fd *ast.FuncDecl) string {
	if fd.Recv == nil || len(fd.Recv.List) != 1 {
		return ""
	}
	t := fd.Recv.List[0].Type
	for {
		switch x := t.(type) {
		case *ast.StarExpr:
			t = x.X
			continue
		case *ast.ParenExpr:
			t = x.X
			continue
		case *ast.IndexExpr: // generic receiver T[P]
			t = x.X
			continue
		case *ast.IndexListExpr:
			t = x.X
			continue
		}
		break
	}
	if id, ok := t.(*ast.Ident); ok {
		return id.Name
	}
	return "?"
}

var fpLooksRenamed = regexp.MustCompile(`^v[0-9]+$`)

// fpNormalise renders one function declaration in the normal form described at the top of this
// file.  It mutates the identifiers of fd (each declaration is normalised at most once).
func fpNormalise(fset *token.FileSet, fd *ast.FuncDecl) (string, error) {
	fd.Doc = nil
	lo, hi := fd.Pos(), fd.End()

	// struct / interface fields are never renamed, even when the type is declared locally
	fieldIdent := map[*ast.Ident]bool{}
	ast.Inspect(fd, func(n ast.Node) bool {
		var fl *ast.FieldList
		switch t := n.(type) {
		case *ast.StructType:
			fl = t.Fields
		case *ast.InterfaceType:
			fl = t.Methods
		}
		if fl != nil {
			for _, f := range fl.List {
				for _, id := range f.Names {
					fieldIdent[id] = true
				}
			}
		}
		return true
	})
	// keys of composite literals of a (possibly elided) named type are field names (or constants),
	// although go/parser may resolve them to a local variable of the same name
	keyIdent := map[*ast.Ident]bool{}
	ast.Inspect(fd, func(n ast.Node) bool {
		cl, ok := n.(*ast.CompositeLit)
		if !ok {
			return true
		}
		switch cl.Type.(type) {
		case *ast.MapType, *ast.ArrayType:
			return true
		}
		for _, e := range cl.Elts {
			if kv, ok := e.(*ast.KeyValueExpr); ok {
				if id, ok := kv.Key.(*ast.Ident); ok {
					keyIdent[id] = true
				}
			}
		}
		return true
	})

	// collect the local objects and the position of their declaration
	type objInfo struct {
		obj *ast.Object
		pos token.Pos
	}
	seen := map[*ast.Object]bool{}
	var objs []objInfo
	var idents []*ast.Ident
	ast.Inspect(fd, func(n ast.Node) bool {
		id, ok := n.(*ast.Ident)
		if !ok {
			return true
		}
		idents = append(idents, id)
		if id == fd.Name || fieldIdent[id] || keyIdent[id] || id.Obj == nil {
			return true
		}
		p := id.Obj.Pos()
		if p < lo || p >= hi {
			return true // package-level object declared in the same file
		}
		if !seen[id.Obj] {
			seen[id.Obj] = true
			objs = append(objs, objInfo{id.Obj, p})
		}
		return true
	})
	// a local object that is a struct field (declared through a fieldIdent) is not renamed
	isFieldObj := map[*ast.Object]bool{}
	for id := range fieldIdent {
		if id.Obj != nil {
			isFieldObj[id.Obj] = true
		}
	}
	sort.SliceStable(objs, func(i, j int) bool { return objs[i].pos < objs[j].pos })
	names := map[*ast.Object]string{}
	k := 0
	for _, o := range objs {
		if isFieldObj[o.obj] {
			continue
		}
		k++
		names[o.obj] = fmt.Sprintf("v%d", k)
	}
	for _, id := range idents {
		if id == fd.Name {
			continue
		}
		if !fieldIdent[id] && !keyIdent[id] && id.Obj != nil {
			if nn, ok := names[id.Obj]; ok {
				id.Name = nn
				continue
			}
		}
		if fpLooksRenamed.MatchString(id.Name) {
			id.Name = "$" + id.Name
		}
	}

	var buf bytes.Buffer
	if err := (&printer.Config{Mode: printer.RawFormat}).Fprint(&buf, fset, fd); err != nil {
		return "", err
	}
	return fpTokens(buf.Bytes()), nil
}

// fpTokens re-tokenises printed Go source; see the header for the normal form.
func fpTokens(src []byte) string {
	fs := token.NewFileSet()
	file := fs.AddFile("", fs.Base(), len(src))
	var s scanner.Scanner
	s.Init(file, src, nil /* errors ignored: `$vN` is reported as illegal and kept */, 0)
	var toks []string
	for {
		_, tok, lit := s.Scan()
		if tok == token.EOF {
			break
		}
		t := ""
		switch {
		case tok == token.SEMICOLON:
			t = ";"
		case tok == token.ILLEGAL:
			t = lit
		case tok.IsLiteral():
			t = lit
		default:
			t = tok.String()
		}
		if t == ")" || t == "}" || t == "]" {
			for len(toks) > 0 && (toks[len(toks)-1] == "," || toks[len(toks)-1] == ";") {
				toks = toks[:len(toks)-1]
			}
		}
		toks = append(toks, t)
	}
	for len(toks) > 0 && toks[len(toks)-1] == ";" {
		toks = toks[:len(toks)-1]
	}
	return strings.Join(toks, " ")
}

func fpHash(s string) string {
	h := sha256.Sum256([]byte(s))
	return hex.EncodeToString(h[:])[:16]
}

var fpBlockComment = regexp.MustCompile(`(?s)/\*.*?\*/`)

// fpAsm: the text of an assembly file with comments and blank lines removed
func fpAsm(src []byte) string {
	text := fpBlockComment.ReplaceAllString(string(src), " ")
	var out []string
	for _, l := range strings.Split(text, "\n") {
		if i := strings.Index(l, "//"); i >= 0 {
			l = l[:i]
		}
		l = strings.Join(strings.Fields(l), " ")
		if l != "" {
			out = append(out, l)
		}
	}
	return strings.Join(out, "\n")
}

type fpEntry struct{ key, hash string }

func fingerprintEntries(repo string) ([]fpEntry, error) {
	pkgs := map[string]*fpPkg{}
	done := map[string]bool{}
	var entries []fpEntry
	for _, sp := range fingerprintList {
		key := sp.key()
		if done[key] {
			return nil, fmt.Errorf("fingerprints_list.go: duplicate entry %s", key)
		}
		done[key] = true
		dir := sp.pkg
		if dir == "" {
			dir = "."
		}
		p, ok := pkgs[dir]
		if !ok {
			var err error
			p, err = fpLoadPkg(repo, dir)
			if err != nil {
				// the package directory vanished: all its functions are missing
				p = &fpPkg{fset: token.NewFileSet()}
			}
			pkgs[dir] = p
		}
		var parts []string
		for _, f := range p.files {
			for _, d := range f.file.Decls {
				fd, ok := d.(*ast.FuncDecl)
				if !ok || fd.Name.Name != sp.fn || fpRecvName(fd) != sp.recv {
					continue
				}
				txt, err := fpNormalise(p.fset, fd)
				if err != nil {
					return nil, fmt.Errorf("%s: %v", key, err)
				}
				parts = append(parts, f.name+": "+txt)
			}
		}
		switch len(parts) {
		case 0:
			entries = append(entries, fpEntry{key, "missing"})
		case 1:
			// a single declaration: the file name is not part of the fingerprint (moving a function
			// to another file of the package is not a change)
			entries = append(entries, fpEntry{key, fpHash(parts[0][strings.Index(parts[0], ": ")+2:])})
		default:
			entries = append(entries, fpEntry{key, fpHash(strings.Join(parts, "\n"))})
		}
	}
	for _, dir := range asmDirs {
		matches, _ := filepath.Glob(filepath.Join(repo, dir, "*.s"))
		sort.Strings(matches)
		var names []string
		for _, m := range matches {
			src, err := os.ReadFile(m)
			if err != nil {
				return nil, err
			}
			names = append(names, filepath.Base(m))
			entries = append(entries, fpEntry{"asm:" + dir + "/" + filepath.Base(m), fpHash(fpAsm(src))})
		}
		entries = append(entries, fpEntry{"asmfiles:" + dir, fpHash(strings.Join(names, "\n"))})
	}
	sort.Slice(entries, func(i, j int) bool { return entries[i].key < entries[j].key })
	return entries, nil
}

func genFingerprints(repo string) ([]byte, error) {
	entries, err := fingerprintEntries(repo)
	if err != nil {
		return nil, err
	}
	if dump := os.Getenv("EXTRACT_FP_DUMP"); dump != "" {
		// debugging aid: EXTRACT_FP_DUMP=<key> prints the normalised rendering of one function
		fpDump(repo, dump)
	}
	var b bytes.Buffer
	b.WriteString("/- GENERATED by /verif/harness/cmd/extract (fingerprints.go) from the Go sources — do not edit.\n")
	b.WriteString("   (key, first 16 hex digits of SHA-256 of the normalised function text | \"missing\");\n")
	b.WriteString("   normal form: comments and layout removed, locals renamed v1, v2, … by declaration order. -/\n")
	b.WriteString("namespace Generated.Fingerprints\n\n")
	b.WriteString("def table : List (String × String) := [\n")
	for i, e := range entries {
		sep := ","
		if i == len(entries)-1 {
			sep = ""
		}
		fmt.Fprintf(&b, "  (%q, %q)%s\n", e.key, e.hash, sep)
	}
	b.WriteString("]\n\n")
	b.WriteString("/-- the fingerprint recorded for key `k` on this run -/\n")
	b.WriteString("def lookup (k : String) : Option String := (table.find? (fun e => e.1 == k)).map (·.2)\n\n")
	// String equality is expensive in the Lean kernel (a literal is re-encoded for every comparison),
	// so the obligations do not go through `lookup`: every entry is also a numeric constant whose NAME
	// is the key, resolved by the elaborator, and whose value is the same hash (0 for "missing").
	b.WriteString("/-! The same fingerprints as numbers, one constant per key (`fn.«key»`; 0 = \"missing\"): the\n")
	b.WriteString("    theorems `model_current_Cxx` compare these (numeric comparison is cheap in the kernel). -/\n")
	b.WriteString("namespace fn\n")
	for _, e := range entries {
		v := "0"
		if e.hash != "missing" {
			v = "0x" + e.hash
		}
		fmt.Fprintf(&b, "def «%s» : Nat := %s\n", e.key, v)
	}
	b.WriteString("end fn\n\n")
	b.WriteString("end Generated.Fingerprints\n")
	return b.Bytes(), nil
}

func fpDump(repo, key string) {
	for _, sp := range fingerprintList {
		if sp.key() != key {
			continue
		}
		dir := sp.pkg
		if dir == "" {
			dir = "."
		}
		p, err := fpLoadPkg(repo, dir)
		if err != nil {
			return
		}
		for _, f := range p.files {
			for _, d := range f.file.Decls {
				if fd, ok := d.(*ast.FuncDecl); ok && fd.Name.Name == sp.fn && fpRecvName(fd) == sp.recv {
					txt, _ := fpNormalise(p.fset, fd)
					fmt.Fprintf(os.Stderr, "%s [%s]\n%s\n", key, f.name, txt)
				}
			}
		}
	}
}
