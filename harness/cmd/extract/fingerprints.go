package main

// Fingerprints.lean: "model-currency" facts.  For every function / method in the curated list
// (fingerprints_list.go) — and, unless the entry says `noClosure: true`, for everything it REACHES
// inside its own package — the generator emits
//
//	("<pkgdir>.<Recv>.<Name>", "<hex16>")        a function or method
//	("<pkgdir>.const:<Name>", "<hex16>")         a package-level constant
//	("<pkgdir>.var:<Name>", "<hex16>")           a package-level variable
//
// where <hex16> is the first 16 hex digits of SHA-256 over a NORMALISED rendering of the declaration
// (function: signature + body; const / var: name, declared type, initialiser expression — for a
// constant that repeats the previous expression of its group the inherited expression and, when it
// mentions iota, its index in the group; a table literal is hashed like any other expression):
//
//   - comments are dropped (the files are parsed without comments; Doc is cleared),
//   - every identifier that go/parser resolves to an object DECLARED INSIDE the declaration
//     (receiver name, parameters, named results, := / var / const / type declarations, range and
//     type-switch bindings, closure parameters, labels) is renamed v1, v2, … in order of the
//     position of its declaration; package-level identifiers, struct fields, methods, imported
//     names and selectors are never renamed (an unrenamed identifier that itself looks like vN is
//     printed as $vN so that it cannot collide with a renamed one),
//   - the declaration is printed with go/printer and the output is re-tokenised with go/scanner;
//     the tokens are joined by single blanks, automatic and explicit semicolons are the same
//     token, and a `,` or `;` directly before a closing bracket is dropped (these depend only on
//     line breaks).
//
// So reformatting, comment edits and a consistent renaming of locals leave the fingerprint
// unchanged, while any change of statements, operators, literals, called functions, types in the
// signature or order changes it.  It detects CHANGE, not meaning.
//
// Closure (what "reaches" means).  A function's text names its callees and the package-level
// constants and variables it uses only BY NAME, so an edit of `windowSize` or of an unlisted helper
// would leave the fingerprint of every listed function untouched.  Therefore the generator builds,
// per package, a symbol table (functions, methods by name, constants, variables; verif_*.go and
// _test.go files excluded) and the direct references of every declaration (func (*fpPkg) refs): plain
// identifiers that are not locals, and `x.m(…)` calls resolved to the package's methods named m (to
// T.m alone when the declaration of x shows its type).  The listed functions are closed under these
// references, breadth first, without depth limit (fpMaxDepth = 0; the closure of the current list is
// about 1 270 keys).  Not followed: other packages (a function of package B called from package A
// is pinned only if B's function is listed or reached from a listed function of B), calls through
// interfaces and function-typed variables (the variable is pinned, and what its initialiser
// mentions, but not what init() assigns to it later), and type declarations.
// `deps` in the generated file holds the direct edges; tools/update_fingerprints.py uses them to
// write the `…_deps` lists of Webp/Impl/Transcribed.lean.
//
// A listed function that is not found gets the hash "missing".  When several files of the package
// declare the same name (build-tagged twins such as *_amd64.go / *_generic.go) the normalised
// renderings are concatenated in file-name order (each prefixed by its file name), so a change in
// any twin changes the fingerprint.
//
// In addition every assembly file under asmDirs is hashed ("asm:<path>": lines with comments
// removed, blanks collapsed, empty lines dropped) together with the list of assembly file names
// per directory ("asmfiles:<dir>"), so that a new or edited kernel is noticed.
//
// Consumed by Webp/Impl/Transcribed.lean (hand-maintained expectations, one list per property) and
// the theorems model_current_Cxx in Webp/Props/CxxCurrent.lean.

import (
	"bytes"
	"crypto/sha256"
	"encoding/hex"
	"fmt"
	"go/ast"
	"go/parser"
	"go/printer"
	"go/scanner"
	"go/token"
	"os"
	"path/filepath"
	"regexp"
	"sort"
	"strings"
)

func init() {
	generators = append(generators, generator{file: "Fingerprints.lean", run: genFingerprints})
}

// fpSpec names one function or method of /repo.
//
//	pkg        directory of the package relative to the repo root ("." for the root package webp)
//	recv       receiver type name for methods ("" for plain functions); pointer-ness is ignored
//	fn         function name
//	noClosure  true: fingerprint this function only, not what it reaches (default: closure on)
type fpSpec struct {
	pkg, recv, fn string
	noClosure     bool
}

func (s fpSpec) key() string {
	p := s.pkg
	if p == "." || p == "" {
		p = "webp"
	}
	if s.recv != "" {
		return p + "." + s.recv + "." + s.fn
	}
	return p + "." + s.fn
}

// directories whose assembly files are fingerprinted
var asmDirs = []string{"internal/dsp", "internal/lossy", "internal/lossless"}

func fpRecvName(fd *ast.FuncDecl) string {
	if fd.Recv == nil || len(fd.Recv.List) != 1 {
		return ""
	}
	t := fd.Recv.List[0].Type
	for {
		switch x := t.(type) {
		case *ast.StarExpr:
			t = x.X
			continue
		case *ast.ParenExpr:
			t = x.X
			continue
		case *ast.IndexExpr: // generic receiver T[P]
			t = x.X
			continue
		case *ast.IndexListExpr:
			t = x.X
			continue
		}
		break
	}
	if id, ok := t.(*ast.Ident); ok {
		return id.Name
	}
	return "?"
}

var fpLooksRenamed = regexp.MustCompile(`^v[0-9]+$`)

// fpNormalise renders one function declaration in the normal form described at the top of this
// file.  It mutates the identifiers of fd (each declaration is normalised at most once).
func fpNormalise(fset *token.FileSet, fd *ast.FuncDecl) (string, error) {
	fd.Doc = nil
	return fpNormaliseNode(fset, fd, fd.Name)
}

// fpNormaliseNode is fpNormalise for any node (a function declaration, or the type / initialiser
// expression of a package-level const or var): objects declared inside the node are renamed, `keep`
// (the function's own name) is left alone.
func fpNormaliseNode(fset *token.FileSet, fd ast.Node, keep *ast.Ident) (string, error) {
	lo, hi := fd.Pos(), fd.End()

	// struct / interface fields are never renamed, even when the type is declared locally
	fieldIdent := map[*ast.Ident]bool{}
	ast.Inspect(fd, func(n ast.Node) bool {
		var fl *ast.FieldList
		switch t := n.(type) {
		case *ast.StructType:
			fl = t.Fields
		case *ast.InterfaceType:
			fl = t.Methods
		}
		if fl != nil {
			for _, f := range fl.List {
				for _, id := range f.Names {
					fieldIdent[id] = true
				}
			}
		}
		return true
	})
	// keys of composite literals of a (possibly elided) named type are field names (or constants),
	// although go/parser may resolve them to a local variable of the same name
	keyIdent := map[*ast.Ident]bool{}
	ast.Inspect(fd, func(n ast.Node) bool {
		cl, ok := n.(*ast.CompositeLit)
		if !ok {
			return true
		}
		switch cl.Type.(type) {
		case *ast.MapType, *ast.ArrayType:
			return true
		}
		for _, e := range cl.Elts {
			if kv, ok := e.(*ast.KeyValueExpr); ok {
				if id, ok := kv.Key.(*ast.Ident); ok {
					keyIdent[id] = true
				}
			}
		}
		return true
	})

	// collect the local objects and the position of their declaration
	type objInfo struct {
		obj *ast.Object
		pos token.Pos
	}
	seen := map[*ast.Object]bool{}
	var objs []objInfo
	var idents []*ast.Ident
	ast.Inspect(fd, func(n ast.Node) bool {
		id, ok := n.(*ast.Ident)
		if !ok {
			return true
		}
		idents = append(idents, id)
		if id == keep || fieldIdent[id] || keyIdent[id] || id.Obj == nil {
			return true
		}
		p := id.Obj.Pos()
		if p < lo || p >= hi {
			return true // package-level object declared in the same file
		}
		if !seen[id.Obj] {
			seen[id.Obj] = true
			objs = append(objs, objInfo{id.Obj, p})
		}
		return true
	})
	// a local object that is a struct field (declared through a fieldIdent) is not renamed
	isFieldObj := map[*ast.Object]bool{}
	for id := range fieldIdent {
		if id.Obj != nil {
			isFieldObj[id.Obj] = true
		}
	}
	sort.SliceStable(objs, func(i, j int) bool { return objs[i].pos < objs[j].pos })
	names := map[*ast.Object]string{}
	k := 0
	for _, o := range objs {
		if isFieldObj[o.obj] {
			continue
		}
		k++
		names[o.obj] = fmt.Sprintf("v%d", k)
	}
	for _, id := range idents {
		if id == keep {
			continue
		}
		if !fieldIdent[id] && !keyIdent[id] && id.Obj != nil {
			if nn, ok := names[id.Obj]; ok {
				id.Name = nn
				continue
			}
		}
		if fpLooksRenamed.MatchString(id.Name) {
			id.Name = "$" + id.Name
		}
	}

	var buf bytes.Buffer
	if err := (&printer.Config{Mode: printer.RawFormat}).Fprint(&buf, fset, fd); err != nil {
		return "", err
	}
	return fpTokens(buf.Bytes()), nil
}

// fpTokens re-tokenises printed Go source; see the header for the normal form.
func fpTokens(src []byte) string {
	fs := token.NewFileSet()
	file := fs.AddFile("", fs.Base(), len(src))
	var s scanner.Scanner
	s.Init(file, src, nil /* errors ignored: `$vN` is reported as illegal and kept */, 0)
	var toks []string
	for {
		_, tok, lit := s.Scan()
		if tok == token.EOF {
			break
		}
		t := ""
		switch {
		case tok == token.SEMICOLON:
			t = ";"
		case tok == token.ILLEGAL:
			t = lit
		case tok.IsLiteral():
			t = lit
		default:
			t = tok.String()
		}
		if t == ")" || t == "}" || t == "]" {
			for len(toks) > 0 && (toks[len(toks)-1] == "," || toks[len(toks)-1] == ";") {
				toks = toks[:len(toks)-1]
			}
		}
		toks = append(toks, t)
	}
	for len(toks) > 0 && toks[len(toks)-1] == ";" {
		toks = toks[:len(toks)-1]
	}
	return strings.Join(toks, " ")
}

func fpHash(s string) string {
	h := sha256.Sum256([]byte(s))
	return hex.EncodeToString(h[:])[:16]
}

var fpBlockComment = regexp.MustCompile(`(?s)/\*.*?\*/`)

// fpAsm: the text of an assembly file with comments and blank lines removed
func fpAsm(src []byte) string {
	text := fpBlockComment.ReplaceAllString(string(src), " ")
	var out []string
	for _, l := range strings.Split(text, "\n") {
		if i := strings.Index(l, "//"); i >= 0 {
			l = l[:i]
		}
		l = strings.Join(strings.Fields(l), " ")
		if l != "" {
			out = append(out, l)
		}
	}
	return strings.Join(out, "\n")
}

type fpEntry struct{ key, hash string }

// ---------------------------------------------------------------------------------------------
// packages: symbol table, direct references, closure

type fpFile struct {
	name    string
	file    *ast.File
	imports map[string]bool // local names of the imported packages
}

type fpFunc struct {
	file *fpFile
	decl *ast.FuncDecl
}

// one name of a package-level const / var specification
type fpValue struct {
	file     *fpFile
	kind     string // "const" | "var"
	name     string
	typ      ast.Expr // declared (or, for a const without values, inherited) type; may be nil
	val      ast.Expr // initialiser of this name (for a const without values: the inherited one); nil if none
	tuple    bool     // var a, b = f(): val is the shared call
	index    int      // position of the name in a tuple assignment
	iota     int      // index of the specification inside its const group
	usesIota bool
}

type fpDecl struct {
	key  string
	hash string
	refs []string // keys of the same-package declarations it references directly (sorted)
}

type fpPkg struct {
	prefix  string // key prefix: "webp" for the root package, else the directory
	fset    *token.FileSet
	files   []*fpFile
	funcs   map[string][]fpFunc   // "Name" / "Recv.Name" → declarations (build-tagged twins: several)
	methods map[string][]string   // method name → "Recv.Name" (sorted, unique)
	values  map[string][]*fpValue // const / var name → declarations
	decls   map[string]*fpDecl    // memo: local id ("f:…", "c:…", "v:…") → fingerprint + references
}

func fpLoadPkg(repo, dir string) (*fpPkg, error) {
	ents, err := os.ReadDir(filepath.Join(repo, dir))
	if err != nil {
		return nil, err
	}
	p := &fpPkg{prefix: dir, fset: token.NewFileSet(), funcs: map[string][]fpFunc{}, methods: map[string][]string{},
		values: map[string][]*fpValue{}, decls: map[string]*fpDecl{}}
	if dir == "." || dir == "" {
		p.prefix = "webp"
	}
	for _, e := range ents {
		n := e.Name()
		if e.IsDir() || !strings.HasSuffix(n, ".go") || strings.HasSuffix(n, "_test.go") || strings.HasPrefix(n, "verif_") {
			continue
		}
		// comments are not parsed; identifiers are resolved (ast.Object) within the file
		f, err := parser.ParseFile(p.fset, filepath.Join(repo, dir, n), nil, 0)
		if err != nil {
			return nil, err
		}
		ff := &fpFile{name: n, file: f, imports: map[string]bool{}}
		for _, im := range f.Imports {
			path := strings.Trim(im.Path.Value, "\"`")
			name := path[strings.LastIndex(path, "/")+1:]
			if im.Name != nil {
				name = im.Name.Name
			}
			ff.imports[name] = true
		}
		p.files = append(p.files, ff)
	}
	sort.Slice(p.files, func(i, j int) bool { return p.files[i].name < p.files[j].name })
	for _, ff := range p.files {
		for _, d := range ff.file.Decls {
			switch d := d.(type) {
			case *ast.FuncDecl:
				id := d.Name.Name
				if r := fpRecvName(d); r != "" {
					id = r + "." + id
					found := false
					for _, m := range p.methods[d.Name.Name] {
						found = found || m == id
					}
					if !found {
						p.methods[d.Name.Name] = append(p.methods[d.Name.Name], id)
					}
				}
				p.funcs[id] = append(p.funcs[id], fpFunc{ff, d})
			case *ast.GenDecl:
				if d.Tok != token.CONST && d.Tok != token.VAR {
					continue
				}
				kind := "var"
				if d.Tok == token.CONST {
					kind = "const"
				}
				var lastTyp ast.Expr
				var lastVals []ast.Expr
				for i, sp := range d.Specs {
					vs := sp.(*ast.ValueSpec)
					typ, vals := vs.Type, vs.Values
					if kind == "const" {
						if len(vals) == 0 { // implicit repetition of the previous expression list
							typ, vals = lastTyp, lastVals
						} else {
							lastTyp, lastVals = typ, vals
						}
					}
					for k, nm := range vs.Names {
						if nm.Name == "_" {
							continue
						}
						v := &fpValue{file: ff, kind: kind, name: nm.Name, typ: typ, iota: i}
						switch {
						case len(vals) == len(vs.Names):
							v.val = vals[k]
						case len(vals) == 1:
							v.val, v.tuple, v.index = vals[0], true, k
						}
						if v.val != nil && kind == "const" {
							ast.Inspect(v.val, func(n ast.Node) bool {
								if id, ok := n.(*ast.Ident); ok && id.Name == "iota" && id.Obj == nil {
									v.usesIota = true
								}
								return true
							})
						}
						p.values[nm.Name] = append(p.values[nm.Name], v)
					}
				}
			}
		}
	}
	for _, m := range p.methods {
		sort.Strings(m)
	}
	return p, nil
}

func (p *fpPkg) key(id string) string {
	switch id[0] {
	case 'c':
		return p.prefix + ".const:" + id[2:]
	case 'v':
		return p.prefix + ".var:" + id[2:]
	}
	return p.prefix + "." + id[2:]
}

func fpBaseTypeName(t ast.Expr) string {
	for {
		switch x := t.(type) {
		case *ast.StarExpr:
			t = x.X
			continue
		case *ast.ParenExpr:
			t = x.X
			continue
		case *ast.Ident:
			return x.Name
		case *ast.SelectorExpr: // a type of another package, e.g. sync.WaitGroup: "sync.WaitGroup"
			if id, ok := x.X.(*ast.Ident); ok {
				return id.Name + "." + x.Sel.Name
			}
		}
		return ""
	}
}

// the named type of an initialiser of the forms T{…}, &T{…}, new(T)
func fpValueTypeName(e ast.Expr) string {
	switch x := e.(type) {
	case *ast.UnaryExpr:
		if x.Op == token.AND {
			return fpValueTypeName(x.X)
		}
	case *ast.CompositeLit:
		return fpBaseTypeName(x.Type)
	case *ast.CallExpr:
		if id, ok := x.Fun.(*ast.Ident); ok && id.Name == "new" && len(x.Args) == 1 {
			return fpBaseTypeName(x.Args[0])
		}
	}
	return ""
}

// recvTypeName: the declared type of the variable x in `x.m(…)`, when it can be read off the
// declaration of x ("" = unknown).
func (p *fpPkg) recvTypeName(x ast.Expr) string {
	id, ok := x.(*ast.Ident)
	if !ok {
		return ""
	}
	if id.Obj == nil {
		for _, v := range p.values[id.Name] {
			if v.typ != nil {
				return fpBaseTypeName(v.typ)
			}
			if v.val != nil && !v.tuple {
				return fpValueTypeName(v.val)
			}
		}
		return ""
	}
	switch d := id.Obj.Decl.(type) {
	case *ast.Field:
		return fpBaseTypeName(d.Type)
	case *ast.ValueSpec:
		if d.Type != nil {
			return fpBaseTypeName(d.Type)
		}
		for i, nm := range d.Names {
			if nm.Obj == id.Obj && len(d.Values) == len(d.Names) {
				return fpValueTypeName(d.Values[i])
			}
		}
	case *ast.AssignStmt:
		for i, l := range d.Lhs {
			if li, ok := l.(*ast.Ident); ok && li.Obj == id.Obj && len(d.Rhs) == len(d.Lhs) {
				return fpValueTypeName(d.Rhs[i])
			}
		}
	}
	return ""
}

// refs collects the same-package declarations that node (a function declaration or an initialiser)
// references directly: functions and methods it calls or mentions, package-level constants and
// variables it reads or writes.  Identifiers declared inside the node are locals and are skipped.
//   - a plain identifier is looked up in the package's functions, constants and variables;
//   - `x.m(…)`: if x names an imported package the call is external; otherwise the methods named m of
//     the package are candidates — only T.m when x's declaration shows its type T (receiver, parameter,
//     var with a type, x := T{…} / &T{…} / new(T)) and T.m exists, none when T belongs to another
//     package (wg.Add), else all of them (an over-approximation: never fewer than the real callees,
//     except for calls through interfaces and function values, which the call graph does not follow).
//
// Must run BEFORE the node is normalised (normalisation renames the locals in place).
func (p *fpPkg) refs(ff *fpFile, node ast.Node, into map[string]bool) {
	lo, hi := node.Pos(), node.End()
	skip := map[*ast.Ident]bool{}
	ast.Inspect(node, func(n ast.Node) bool {
		switch x := n.(type) {
		case *ast.SelectorExpr:
			skip[x.Sel] = true
		case *ast.CompositeLit:
			switch x.Type.(type) {
			case *ast.MapType, *ast.ArrayType:
				return true
			}
			for _, e := range x.Elts {
				if kv, ok := e.(*ast.KeyValueExpr); ok {
					if id, ok := kv.Key.(*ast.Ident); ok {
						skip[id] = true // field name
					}
				}
			}
		case *ast.StructType:
			for _, f := range x.Fields.List {
				for _, id := range f.Names {
					skip[id] = true
				}
			}
		case *ast.CallExpr:
			sel, ok := x.Fun.(*ast.SelectorExpr)
			if !ok {
				return true
			}
			if id, ok := sel.X.(*ast.Ident); ok && id.Obj == nil && ff.imports[id.Name] && len(p.values[id.Name]) == 0 {
				return true // pkg.Func(…)
			}
			cands := p.methods[sel.Sel.Name]
			if len(cands) > 0 {
				if t := p.recvTypeName(sel.X); t != "" {
					if _, ok := p.funcs[t+"."+sel.Sel.Name]; ok {
						cands = []string{t + "." + sel.Sel.Name}
					} else if strings.Contains(t, ".") {
						cands = nil // a value of another package's type (wg.Add, mu.Lock, …)
					}
				}
			}
			for _, c := range cands {
				into["f:"+c] = true
			}
		}
		return true
	})
	ast.Inspect(node, func(n ast.Node) bool {
		id, ok := n.(*ast.Ident)
		if !ok || skip[id] || id.Name == "_" {
			return true
		}
		if id.Obj != nil {
			if q := id.Obj.Pos(); q >= lo && q < hi {
				return true // local
			}
			if id.Obj.Kind == ast.Typ {
				return true
			}
		}
		if _, ok := p.funcs[id.Name]; ok {
			into["f:"+id.Name] = true
		}
		for _, v := range p.values[id.Name] {
			into[string(v.kind[0])+":"+id.Name] = true
		}
		return true
	})
}

// decl computes (once) the fingerprint and the direct references of one package-level declaration.
func (p *fpPkg) decl(id string) (*fpDecl, error) {
	if d, ok := p.decls[id]; ok {
		return d, nil
	}
	d := &fpDecl{key: p.key(id), hash: "missing"}
	p.decls[id] = d
	refs := map[string]bool{}
	var parts []string
	switch id[0] {
	case 'f':
		for _, f := range p.funcs[id[2:]] {
			if f.decl.Body != nil {
				p.refs(f.file, f.decl, refs)
			}
			txt, err := fpNormalise(p.fset, f.decl)
			if err != nil {
				return nil, fmt.Errorf("%s: %v", d.key, err)
			}
			parts = append(parts, f.file.name+": "+txt)
		}
	default:
		for _, v := range p.values[id[2:]] {
			if v.kind[0] != id[0] {
				continue
			}
			txt := v.kind + " " + v.name
			if v.typ != nil {
				p.refs(v.file, v.typ, refs)
				t, err := fpNormaliseNode(p.fset, v.typ, nil)
				if err != nil {
					return nil, fmt.Errorf("%s: %v", d.key, err)
				}
				txt += " " + t
			}
			if v.val != nil {
				p.refs(v.file, v.val, refs)
				// an inherited const expression / a shared tuple initialiser is normalised once per name;
				// normalisation is idempotent (the locals of a function literal get the same names again)
				t, err := fpNormaliseNode(p.fset, v.val, nil)
				if err != nil {
					return nil, fmt.Errorf("%s: %v", d.key, err)
				}
				txt += " = " + t
				if v.tuple {
					txt += fmt.Sprintf(" #%d", v.index)
				}
				if v.usesIota {
					txt += fmt.Sprintf(" iota=%d", v.iota)
				}
			}
			parts = append(parts, v.file.name+": "+txt)
		}
	}
	delete(refs, id)
	for r := range refs {
		d.refs = append(d.refs, r)
	}
	sort.Strings(d.refs)
	switch len(parts) {
	case 0:
	case 1:
		// a single declaration: the file name is not part of the fingerprint (moving a declaration to
		// another file of the package is not a change)
		d.hash = fpHash(parts[0][strings.Index(parts[0], ": ")+2:])
	default:
		d.hash = fpHash(strings.Join(parts, "\n"))
	}
	return d, nil
}

// fpMaxDepth bounds the callee closure (0 = unbounded).
const fpMaxDepth = 0

// fingerprintEntries: the listed functions, and for every listed function with closure enabled all
// same-package functions it reaches through the static call graph plus every package-level constant
// and variable referenced on the way (and what their initialisers reference).
// edges: key → keys of its direct references (only for emitted keys).
func fingerprintEntries(repo string) ([]fpEntry, map[string][]string, error) {
	pkgs := map[string]*fpPkg{}
	done := map[string]bool{}
	emitted := map[string]*fpDecl{}
	edges := map[string][]string{}
	for _, sp := range fingerprintList {
		key := sp.key()
		if done[key] {
			return nil, nil, fmt.Errorf("fingerprints_list.go: duplicate entry %s", key)
		}
		done[key] = true
		dir := sp.pkg
		if dir == "" {
			dir = "."
		}
		p, ok := pkgs[dir]
		if !ok {
			var err error
			p, err = fpLoadPkg(repo, dir)
			if err != nil {
				// the package directory vanished (or does not parse): all its functions are missing
				p = &fpPkg{prefix: dir, fset: token.NewFileSet(), funcs: map[string][]fpFunc{}, methods: map[string][]string{},
					values: map[string][]*fpValue{}, decls: map[string]*fpDecl{}}
				if dir == "." {
					p.prefix = "webp"
				}
			}
			pkgs[dir] = p
		}
		root := "f:" + sp.fn
		if sp.recv != "" {
			root = "f:" + sp.recv + "." + sp.fn
		}
		type item struct {
			id    string
			depth int
		}
		queue := []item{{root, 0}}
		seen := map[string]bool{root: true}
		for len(queue) > 0 {
			it := queue[0]
			queue = queue[1:]
			d, err := p.decl(it.id)
			if err != nil {
				return nil, nil, err
			}
			emitted[d.key] = d
			if sp.noClosure {
				break
			}
			if fpMaxDepth > 0 && it.depth >= fpMaxDepth {
				continue
			}
			for _, r := range d.refs {
				if !seen[r] {
					seen[r] = true
					queue = append(queue, item{r, it.depth + 1})
				}
			}
		}
	}
	var entries []fpEntry
	for k, d := range emitted {
		entries = append(entries, fpEntry{k, d.hash})
	}
	for _, p := range pkgs {
		for _, d := range p.decls {
			if emitted[d.key] == nil {
				continue
			}
			for _, r := range d.refs {
				if rk := p.key(r); emitted[rk] != nil {
					edges[d.key] = append(edges[d.key], rk)
				}
			}
			sort.Strings(edges[d.key])
		}
	}
	for _, dir := range asmDirs {
		matches, _ := filepath.Glob(filepath.Join(repo, dir, "*.s"))
		sort.Strings(matches)
		var names []string
		for _, m := range matches {
			src, err := os.ReadFile(m)
			if err != nil {
				return nil, nil, err
			}
			names = append(names, filepath.Base(m))
			entries = append(entries, fpEntry{"asm:" + dir + "/" + filepath.Base(m), fpHash(fpAsm(src))})
		}
		entries = append(entries, fpEntry{"asmfiles:" + dir, fpHash(strings.Join(names, "\n"))})
	}
	sort.Slice(entries, func(i, j int) bool { return entries[i].key < entries[j].key })
	return entries, edges, nil
}

func genFingerprints(repo string) ([]byte, error) {
	entries, edges, err := fingerprintEntries(repo)
	if err != nil {
		return nil, err
	}
	if dump := os.Getenv("EXTRACT_FP_DUMP"); dump != "" {
		// debugging aid: EXTRACT_FP_DUMP=<key> prints the normalised rendering of one function
		fpDump(repo, dump)
	}
	var b bytes.Buffer
	b.WriteString("/- GENERATED by /verif/harness/cmd/extract (fingerprints.go) from the Go sources — do not edit.\n")
	b.WriteString("   (key, first 16 hex digits of SHA-256 of the normalised declaration text | \"missing\");\n")
	b.WriteString("   normal form: comments and layout removed, locals renamed v1, v2, … by declaration order.\n")
	b.WriteString("   Keys: pkg.Name / pkg.Recv.Name (functions: the listed ones and every same-package function they\n")
	b.WriteString("   reach through the static call graph), pkg.const:Name / pkg.var:Name (package-level constants and\n")
	b.WriteString("   variables referenced on the way, with their initialisers), asm:<file>, asmfiles:<dir>. -/\n")
	b.WriteString("namespace Generated.Fingerprints\n\n")
	b.WriteString("def table : List (String × String) := [\n")
	for i, e := range entries {
		sep := ","
		if i == len(entries)-1 {
			sep = ""
		}
		fmt.Fprintf(&b, "  (%q, %q)%s\n", e.key, e.hash, sep)
	}
	b.WriteString("]\n\n")
	b.WriteString("/-- the fingerprint recorded for key `k` on this run -/\n")
	b.WriteString("def lookup (k : String) : Option String := (table.find? (fun e => e.1 == k)).map (·.2)\n\n")
	b.WriteString("/-- direct same-package references of every key that has any (blank-separated): the functions it\n")
	b.WriteString("    calls or mentions, the package-level constants and variables it uses.  tools/update_fingerprints.py\n")
	b.WriteString("    reads this table to write the `…_deps` lists of Webp/Impl/Transcribed.lean. -/\n")
	b.WriteString("def deps : List (String × String) := [\n")
	var dk []string
	for k := range edges {
		if len(edges[k]) > 0 {
			dk = append(dk, k)
		}
	}
	sort.Strings(dk)
	for i, k := range dk {
		sep := ","
		if i == len(dk)-1 {
			sep = ""
		}
		fmt.Fprintf(&b, "  (%q, %q)%s\n", k, strings.Join(edges[k], " "), sep)
	}
	b.WriteString("]\n\n")
	// String equality is expensive in the Lean kernel (a literal is re-encoded for every comparison),
	// so the obligations do not go through `lookup`: every entry is also a numeric constant whose NAME
	// is the key, resolved by the elaborator, and whose value is the same hash (0 for "missing").
	b.WriteString("/-! The same fingerprints as numbers, one constant per key (`fn.«key»`; 0 = \"missing\"): the\n")
	b.WriteString("    theorems `model_current_Cxx` compare these (numeric comparison is cheap in the kernel). -/\n")
	b.WriteString("namespace fn\n")
	for _, e := range entries {
		v := "0"
		if e.hash != "missing" {
			v = "0x" + e.hash
		}
		fmt.Fprintf(&b, "def «%s» : Nat := %s\n", e.key, v)
	}
	b.WriteString("end fn\n\n")
	b.WriteString("end Generated.Fingerprints\n")
	return b.Bytes(), nil
}

// fpDump prints the normalised rendering(s) and the direct references of one key (debugging aid).
func fpDump(repo, key string) {
	for _, sp := range fingerprintList {
		dir := sp.pkg
		if dir == "" {
			dir = "."
		}
		p, err := fpLoadPkg(repo, dir)
		if err != nil {
			continue
		}
		if !strings.HasPrefix(key, p.prefix+".") {
			continue
		}
		rest := key[len(p.prefix)+1:]
		id := "f:" + rest
		if strings.HasPrefix(rest, "const:") {
			id = "c:" + rest[6:]
		} else if strings.HasPrefix(rest, "var:") {
			id = "v:" + rest[4:]
		}
		d, err := p.decl(id)
		if err != nil {
			return
		}
		var refs []string
		for _, r := range d.refs {
			refs = append(refs, p.key(r))
		}
		fmt.Fprintf(os.Stderr, "%s %s\n  references: %s\n", key, d.hash, strings.Join(refs, " "))
		if id[0] == 'f' {
			for _, f := range p.funcs[id[2:]] {
				var buf bytes.Buffer
				_ = (&printer.Config{Mode: printer.RawFormat}).Fprint(&buf, p.fset, f.decl)
				fmt.Fprintf(os.Stderr, "  [%s] %s\n", f.file.name, fpTokens(buf.Bytes()))
			}
		}
		return
	}
}
