package main

// Generator of Generated/Fields.lean (property C11).
//
// For every pooled struct type of deepteams/webp (and the scratch structs that live inside a
// pooled object) it lists
//   - `fields`:   all named fields, in declaration order (from the struct's AST);
//   - `assigned`: the fields for which the functions of the type's *reuse path* contain syntactic
//                 evidence of a (re)initialisation:
//                   x.f = e / x.f op= e / x.f++            ("assign", "reslice" when e is x.f[a:b])
//                   *x = T{…}                              (every field, "whole-struct")
//                   for … { x.f[i] = <constant> }          ("fill-loop"; also through a local alias
//                                                            `s := x.f[:n]` / `s = x.f`)
//                   clear(x.f)                             ("clear")
//                   x.f.Reset(…) / .Init / .Clear / .Store ("call M"; in a loop also x.f[i].M(…) and
//                                                            alias[i].M(…))
//                   ResetX(&x.f) / InitX / ClearX          ("call F")
//                 with x any expression whose struct type can be derived from receivers, parameters,
//                 `v.(*T)`, `&T{…}`, `var x *T` and field types (no go/types: package-local
//                 resolution plus module-internal imports);
//   - `how`:      the evidence, as "function: kind" strings;
//   - `reusePath`: the functions inspected (those marked "[pool branch]" only inside
//                 `if v := <pool>.Get(); v != nil { … }`).
// It is a tripwire, not a data-flow analysis: loop bounds and the extent of a reset method are
// not checked — that is what the hand-written annotations in Webp/Impl/PoolFields.lean and the
// `history` suite are for.

import (
	"bytes"
	"fmt"
	"go/ast"
	"go/parser"
	"go/token"
	"os"
	"path/filepath"
	"sort"
	"strings"
)

const modulePath = "github.com/deepteams/webp"

type fnSpec struct {
	dir        string // package directory relative to the repo root ("" = root package)
	recv       string // receiver struct name, "" for a plain function
	name       string
	poolBranch bool // only statements inside `if v := X.Get(); v != nil { … }` count
}

type typeSpec struct {
	key   string // name on the Lean side
	dir   string
	name  string
	pool  string // the sync.Pool variable, or where the object lives
	reuse []fnSpec
}

func fn(dir, recv, name string) fnSpec   { return fnSpec{dir, recv, name, false} }
func fnPB(dir, recv, name string) fnSpec { return fnSpec{dir, recv, name, true} }

const (
	dLossy    = "internal/lossy"
	dLossless = "internal/lossless"
	dBitio    = "internal/bitio"
)

// The pooled types and their reuse paths.  A function named here that no longer exists is
// reported in `missing` (and breaks `Webp.Props.C11.reuse_paths_present`).
var pooledTypes = []typeSpec{
	{"lossy.VP8Encoder", dLossy, "VP8Encoder", "encoderPool", []fnSpec{
		fnPB(dLossy, "", "NewEncoder"), fnPB(dLossy, "", "NewEncoderFromYUV"),
		fn(dLossy, "VP8Encoder", "resetForReuse"), fn(dLossy, "VP8Encoder", "initEncoderParams"),
		fn(dLossy, "VP8Encoder", "initSegments"), fn(dLossy, "VP8Encoder", "importImage"),
		fn(dLossy, "VP8Encoder", "importYCbCr")}},
	{"lossy.TokenBuffer", dLossy, "TokenBuffer", "VP8Encoder.tokens", []fnSpec{
		fn(dLossy, "TokenBuffer", "Reset")}},
	{"lossy.Decoder", dLossy, "Decoder", "lossyDecoderPool", []fnSpec{
		fnPB(dLossy, "", "acquireDecoder"), fn(dLossy, "Decoder", "initFrame")}},
	{"lossy.parallelState", dLossy, "parallelState", "parallelPool", []fnSpec{
		fnPB(dLossy, "", "getParallelState")}},
	{"lossy.rowState", dLossy, "rowState", "parallelState.rs.rows[i]", []fnSpec{
		fnPB(dLossy, "", "getParallelState")}},
	{"lossy.RowWorker", dLossy, "RowWorker", "parallelState.workers[i]", []fnSpec{
		fnPB(dLossy, "", "getParallelState")}},
	{"lossy.importUVWorker", dLossy, "importUVWorker", "importUVWorkerPool", []fnSpec{
		fnPB(dLossy, "", "getImportUVWorker")}},
	{"bitio.BoolWriter", dBitio, "BoolWriter", "boolWriterPool (lossy/encode_syntax.go)", []fnSpec{
		fn(dBitio, "BoolWriter", "Reset")}},
	{"lossless.Encoder", dLossless, "Encoder", "losslessEncoderPool", []fnSpec{
		fn(dLossless, "", "acquireEncoder"), fn(dLossless, "", "Encode"), fn(dLossless, "", "EncodeToWriter")}},
	{"lossless.BackwardRefsScratch", dLossless, "BackwardRefsScratch", "Encoder.brScratch", []fnSpec{
		fn(dLossless, "Encoder", "encodeStream"),
		fn(dLossless, "", "GetBackwardReferencesWithScratch"),
		fn(dLossless, "", "BackwardReferencesLz77"), fn(dLossless, "", "BackwardReferencesRle"),
		fn(dLossless, "", "BackwardReferencesLz77Box"), fn(dLossless, "", "CalculateBestCacheSize"),
		fn(dLossless, "", "BackwardRefsWithLocalCache"),
		fn(dLossless, "", "backwardReferencesHashChainDistanceOnly"),
		fn(dLossless, "", "backwardReferencesHashChainFollowChosenPath")}},
	{"lossless.HistoScratch", dLossless, "HistoScratch", "Encoder.histoScratch", []fnSpec{
		fn(dLossless, "", "GetHistoImageSymbols"), fn(dLossless, "", "allocateHistoSetReuse"),
		fn(dLossless, "", "extractClusterCenters")}},
	{"lossless.HuffmanScratch", dLossless, "HuffmanScratch", "Encoder.huffScratch", []fnSpec{
		fn(dLossless, "Encoder", "encodeStream"), fn(dLossless, "HuffmanScratch", "ResetTreePool"),
		fn(dLossless, "HuffmanScratch", "AllocTree"), fn(dLossless, "", "buildTreeAndExtractLengths")}},
	{"lossless.HashChain", dLossless, "HashChain", "Encoder.hashChain, brScratch.BoxHC", []fnSpec{
		fn(dLossless, "Encoder", "encodeStream"), fn(dLossless, "Encoder", "encodeSubImage"),
		fn(dLossless, "", "BackwardReferencesLz77Box"), fn(dLossless, "HashChain", "Fill")}},
	{"lossless.Decoder", dLossless, "Decoder", "losslessDecoderPool", []fnSpec{
		fnPB(dLossless, "", "acquireDecoder"), fn(dLossless, "", "DecodeVP8L")}},
	{"lossless.HuffmanTableScratch", dLossless, "HuffmanTableScratch", "Decoder.huffScratch", []fnSpec{
		fn(dLossless, "", "DecodeVP8L"), fn(dLossless, "", "BuildHuffmanTableScratch")}},
	{"webp.argbBuf", "", "argbBuf", "argbPool", []fnSpec{
		fn("", "", "encodeLossless"), fn("", "", "encodeLosslessToWriter")}},
}

func init() { generators = append(generators, generator{"Fields.lean", genFields}) }

// ---------------------------------------------------------------------------------------------

type pkgInfo struct {
	dir     string
	fset    *token.FileSet
	files   []*ast.File
	structs map[string]*ast.StructType
	funcs   map[string]*ast.FuncDecl // "Recv.name" or ".name"
	fileOf  map[*ast.FuncDecl]*ast.File
}

type repoInfo struct {
	root string
	pkgs map[string]*pkgInfo
}

func (r *repoInfo) pkg(dir string) (*pkgInfo, error) {
	if p, ok := r.pkgs[dir]; ok {
		return p, nil
	}
	p := &pkgInfo{dir: dir, fset: token.NewFileSet(), structs: map[string]*ast.StructType{},
		funcs: map[string]*ast.FuncDecl{}, fileOf: map[*ast.FuncDecl]*ast.File{}}
	full := filepath.Join(r.root, dir)
	ents, err := os.ReadDir(full)
	if err != nil {
		return nil, err
	}
	var names []string
	for _, e := range ents {
		n := e.Name()
		if e.IsDir() || !strings.HasSuffix(n, ".go") || strings.HasSuffix(n, "_test.go") {
			continue
		}
		names = append(names, n)
	}
	sort.Strings(names)
	for _, n := range names {
		src, err := os.ReadFile(filepath.Join(full, n))
		if err != nil {
			return nil, err
		}
		if isVerifOnly(src) {
			continue // hook files (`//go:build verif`) are not part of the library
		}
		f, err := parser.ParseFile(p.fset, filepath.Join(dir, n), src, parser.SkipObjectResolution)
		if err != nil {
			return nil, err
		}
		p.files = append(p.files, f)
		for _, d := range f.Decls {
			switch d := d.(type) {
			case *ast.GenDecl:
				for _, s := range d.Specs {
					if ts, ok := s.(*ast.TypeSpec); ok {
						if st, ok := ts.Type.(*ast.StructType); ok {
							p.structs[ts.Name.Name] = st
						}
					}
				}
			case *ast.FuncDecl:
				key := "." + d.Name.Name
				if d.Recv != nil && len(d.Recv.List) == 1 {
					key = recvName(d.Recv.List[0].Type) + "." + d.Name.Name
				}
				if _, dup := p.funcs[key]; !dup { // first definition wins (arch variants are identical in name only)
					p.funcs[key] = d
					p.fileOf[d] = f
				}
			}
		}
	}
	r.pkgs[dir] = p
	return p, nil
}

func isVerifOnly(src []byte) bool {
	for _, line := range strings.SplitN(string(src), "\n", 12) {
		line = strings.TrimSpace(line)
		if strings.HasPrefix(line, "package ") {
			return false
		}
		if strings.HasPrefix(line, "//go:build") && strings.Contains(line, "verif") && !strings.Contains(line, "!verif") {
			return true
		}
	}
	return false
}

func recvName(e ast.Expr) string {
	switch e := e.(type) {
	case *ast.StarExpr:
		return recvName(e.X)
	case *ast.Ident:
		return e.Name
	case *ast.IndexExpr:
		return recvName(e.X)
	}
	return "?"
}

// tref: a struct type of the module, wrapped in pointers/slices/arrays.
// shape is a string over {'*','['}: "*" pointer, "[" slice or array; outermost first.
type tref struct {
	dir, name string
	shape     string
}

func (t tref) q() string { return t.dir + ":" + t.name }

// evidence: (owner struct, field) -> kinds of (re)initialisation seen, as "function: kind"
type evset map[[2]string][]string

func (e evset) add(owner, field, how string) {
	k := [2]string{owner, field}
	for _, h := range e[k] {
		if h == how {
			return
		}
	}
	e[k] = append(e[k], how)
}

func (e evset) union(o evset) {
	for k, hs := range o {
		for _, h := range hs {
			e.add(k[0], k[1], h)
		}
	}
}

func (e evset) clone() evset {
	c := evset{}
	c.union(e)
	return c
}

// both branches give evidence
func intersect(a, b evset) evset {
	c := evset{}
	for k, hs := range a {
		if _, ok := b[k]; ok {
			for _, h := range hs {
				c.add(k[0], k[1], h)
			}
			for _, h := range b[k] {
				c.add(k[0], k[1], h)
			}
		}
	}
	return c
}

type walker struct {
	r      *repoInfo
	p      *pkgInfo
	file   *ast.File
	fnName string
	env    map[string]tref
	alias  map[string][2]string // local slice variable -> (owner q, field)
	sized  evset                // weak evidence only: x.f = x.f[:n] (length set, contents kept)
}

func (w *walker) importDir(pkgIdent string) (string, bool) {
	for _, im := range w.file.Imports {
		path := strings.Trim(im.Path.Value, `"`)
		if path != modulePath && !strings.HasPrefix(path, modulePath+"/") {
			continue
		}
		dir := strings.TrimPrefix(strings.TrimPrefix(path, modulePath), "/")
		name := filepath.Base(path)
		if im.Name != nil {
			name = im.Name.Name
		}
		if name == pkgIdent {
			return dir, true
		}
	}
	return "", false
}

// typeFromExpr interprets a type expression.
func (w *walker) typeFromExpr(e ast.Expr, dir string) (tref, bool) {
	switch e := e.(type) {
	case *ast.Ident:
		p, err := w.r.pkg(dir)
		if err != nil {
			return tref{}, false
		}
		if _, ok := p.structs[e.Name]; ok {
			return tref{dir, e.Name, ""}, true
		}
	case *ast.StarExpr:
		if t, ok := w.typeFromExpr(e.X, dir); ok {
			t.shape = "*" + t.shape
			return t, true
		}
	case *ast.ArrayType:
		if t, ok := w.typeFromExpr(e.Elt, dir); ok {
			t.shape = "[" + t.shape
			return t, true
		}
	case *ast.SelectorExpr:
		if id, ok := e.X.(*ast.Ident); ok {
			if d, ok := w.importDir(id.Name); ok {
				return w.typeFromExpr(e.Sel, d)
			}
		}
	case *ast.ParenExpr:
		return w.typeFromExpr(e.X, dir)
	}
	return tref{}, false
}

func (w *walker) fieldType(owner tref, field string) (tref, bool) {
	p, err := w.r.pkg(owner.dir)
	if err != nil {
		return tref{}, false
	}
	st := p.structs[owner.name]
	if st == nil {
		return tref{}, false
	}
	for _, f := range st.Fields.List {
		for _, n := range f.Names {
			if n.Name == field {
				// field types are resolved relative to the declaring package; imports of the
				// declaring file are approximated by the current file's (module-internal) imports
				return w.typeFromExpr(f.Type, owner.dir)
			}
		}
	}
	return tref{}, false
}

func (w *walker) hasField(owner tref, field string) bool {
	p, err := w.r.pkg(owner.dir)
	if err != nil {
		return false
	}
	st := p.structs[owner.name]
	if st == nil {
		return false
	}
	for _, f := range st.Fields.List {
		for _, n := range f.Names {
			if n.Name == field {
				return true
			}
		}
	}
	return false
}

// allocType: the expression builds a new object (`&T{…}`, `T{…}`, `NewX(…)` declared to return
// *T / T in this package, `make([]T, …)`): the struct type whose fields are all fresh
func (w *walker) allocType(e ast.Expr) (tref, bool) {
	switch e := e.(type) {
	case *ast.ParenExpr:
		return w.allocType(e.X)
	case *ast.UnaryExpr:
		if e.Op == token.AND {
			if cl, ok := e.X.(*ast.CompositeLit); ok && cl.Type != nil {
				return w.typeFromExpr(cl.Type, w.p.dir)
			}
		}
	case *ast.CallExpr:
		if id, ok := e.Fun.(*ast.Ident); ok {
			if id.Name == "make" && len(e.Args) > 0 {
				return w.typeFromExpr(e.Args[0], w.p.dir)
			}
			if strings.HasPrefix(id.Name, "New") || strings.HasPrefix(id.Name, "new") {
				if fd := w.p.funcs["."+id.Name]; fd != nil && fd.Type.Results != nil && len(fd.Type.Results.List) > 0 {
					return w.typeFromExpr(fd.Type.Results.List[0].Type, w.p.dir)
				}
			}
		}
	}
	return tref{}, false
}

// isAlloc: fresh memory of any type (contents do not depend on earlier calls)
func isAlloc(e ast.Expr) bool {
	switch e := e.(type) {
	case *ast.ParenExpr:
		return isAlloc(e.X)
	case *ast.UnaryExpr:
		if e.Op == token.AND {
			_, ok := e.X.(*ast.CompositeLit)
			return ok
		}
	case *ast.CallExpr:
		if id, ok := e.Fun.(*ast.Ident); ok {
			return id.Name == "make" || id.Name == "new" || strings.HasPrefix(id.Name, "New") || strings.HasPrefix(id.Name, "new")
		}
		if sel, ok := e.Fun.(*ast.SelectorExpr); ok { // pkg.NewX(…)
			return strings.HasPrefix(sel.Sel.Name, "New")
		}
	}
	return false
}

// typeOf derives the struct type of a value expression, if it can.
func (w *walker) typeOf(e ast.Expr) (tref, bool) {
	switch e := e.(type) {
	case *ast.Ident:
		t, ok := w.env[e.Name]
		return t, ok
	case *ast.ParenExpr:
		return w.typeOf(e.X)
	case *ast.SelectorExpr:
		if o, ok := w.structOf(e.X); ok {
			return w.fieldType(o, e.Sel.Name)
		}
	case *ast.IndexExpr:
		if t, ok := w.typeOf(e.X); ok && strings.HasPrefix(t.shape, "[") {
			t.shape = t.shape[1:]
			return t, true
		}
	case *ast.SliceExpr:
		return w.typeOf(e.X)
	case *ast.StarExpr:
		if t, ok := w.typeOf(e.X); ok && strings.HasPrefix(t.shape, "*") {
			t.shape = t.shape[1:]
			return t, true
		}
	case *ast.UnaryExpr:
		if e.Op == token.AND {
			if t, ok := w.typeOf(e.X); ok {
				t.shape = "*" + t.shape
				return t, true
			}
		}
	case *ast.CompositeLit:
		if e.Type != nil {
			return w.typeFromExpr(e.Type, w.p.dir)
		}
	case *ast.TypeAssertExpr:
		if e.Type != nil {
			return w.typeFromExpr(e.Type, w.p.dir)
		}
	case *ast.CallExpr:
		if id, ok := e.Fun.(*ast.Ident); ok {
			if id.Name == "make" && len(e.Args) > 0 {
				return w.typeFromExpr(e.Args[0], w.p.dir)
			}
			if fd := w.p.funcs["."+id.Name]; fd != nil && fd.Type.Results != nil && len(fd.Type.Results.List) == 1 {
				return w.typeFromExpr(fd.Type.Results.List[0].Type, w.p.dir)
			}
		}
	}
	return tref{}, false
}

// structOf: the expression denotes a struct value or a pointer to one (selector auto-deref)
func (w *walker) structOf(e ast.Expr) (tref, bool) {
	t, ok := w.typeOf(e)
	if !ok {
		return tref{}, false
	}
	if t.shape == "" || t.shape == "*" {
		t.shape = ""
		return t, true
	}
	return tref{}, false
}

// fieldOf: the expression is (a slice of) a field of a known struct, or a local alias of one
func (w *walker) fieldOf(e ast.Expr) (owner, field string, ok bool) {
	switch e := e.(type) {
	case *ast.ParenExpr:
		return w.fieldOf(e.X)
	case *ast.SliceExpr:
		return w.fieldOf(e.X)
	case *ast.SelectorExpr:
		if o, ok := w.structOf(e.X); ok && w.hasField(o, e.Sel.Name) {
			return o.q(), e.Sel.Name, true
		}
	case *ast.Ident:
		if a, ok := w.alias[e.Name]; ok {
			return a[0], a[1], true
		}
	}
	return "", "", false
}

// Methods / functions taken to re-initialise their whole receiver / argument.  Exact names: a
// partial helper such as `resetStats` must NOT count (it is the known-defect pattern).
var resetMethods = map[string]bool{"Reset": true, "Init": true, "Clear": true, "Store": true, "ResetTreePool": true}
var resetFuncs = map[string]bool{"ResetProba": true, "ReuseColorCache": true}

// a right-hand side that does not depend on previous contents: literal, named constant, T{}
func (w *walker) isFillRHS(e ast.Expr) bool {
	switch e := e.(type) {
	case *ast.BasicLit:
		return true
	case *ast.Ident:
		_, isVar := w.env[e.Name]
		_, isAlias := w.alias[e.Name]
		return !isVar && !isAlias
	case *ast.CompositeLit:
		return len(e.Elts) == 0
	case *ast.UnaryExpr:
		return e.Op == token.SUB && w.isFillRHS(e.X)
	case *ast.ParenExpr:
		return w.isFillRHS(e.X)
	case *ast.SelectorExpr: // pkg.Const
		_, ok := e.X.(*ast.Ident)
		if ok {
			_, typed := w.typeOf(e.X)
			return !typed
		}
	}
	return false
}

func exprString(e ast.Expr) string {
	var b bytes.Buffer
	writeExpr(&b, e)
	return b.String()
}

func writeExpr(b *bytes.Buffer, e ast.Expr) {
	switch e := e.(type) {
	case *ast.Ident:
		b.WriteString(e.Name)
	case *ast.SelectorExpr:
		writeExpr(b, e.X)
		b.WriteString("." + e.Sel.Name)
	case *ast.ParenExpr:
		writeExpr(b, e.X)
	default:
		b.WriteString("?")
	}
}

func isPoolGetIf(s ast.Stmt) (*ast.IfStmt, bool) {
	is, ok := s.(*ast.IfStmt)
	if !ok || is.Init == nil {
		return nil, false
	}
	as, ok := is.Init.(*ast.AssignStmt)
	if !ok || len(as.Rhs) != 1 {
		return nil, false
	}
	call, ok := as.Rhs[0].(*ast.CallExpr)
	if !ok {
		return nil, false
	}
	sel, ok := call.Fun.(*ast.SelectorExpr)
	return is, ok && sel.Sel.Name == "Get" && len(call.Args) == 0
}

// ---- pass 1: types of locals and local aliases of slice fields (flow-insensitive) ------------

func (w *walker) bindAll(body *ast.BlockStmt) {
	for round := 0; round < 2; round++ { // second round resolves forward references
		ast.Inspect(body, func(n ast.Node) bool {
			switch s := n.(type) {
			case *ast.FuncLit:
				return false
			case *ast.DeclStmt:
				if gd, ok := s.Decl.(*ast.GenDecl); ok {
					for _, sp := range gd.Specs {
						if vs, ok := sp.(*ast.ValueSpec); ok && vs.Type != nil {
							if t, ok := w.typeFromExpr(vs.Type, w.p.dir); ok {
								for _, n := range vs.Names {
									w.env[n.Name] = t
								}
							}
						}
					}
				}
			case *ast.AssignStmt:
				if len(s.Lhs) != len(s.Rhs) {
					return true
				}
				for i, l := range s.Lhs {
					id, ok := l.(*ast.Ident)
					if !ok || id.Name == "_" {
						continue
					}
					if _, isId := s.Rhs[i].(*ast.Ident); !isId {
						if o, f, ok := w.fieldOf(s.Rhs[i]); ok {
							if _, had := w.alias[id.Name]; !had {
								w.alias[id.Name] = [2]string{o, f}
							}
						}
					}
					if t, ok := w.typeOf(s.Rhs[i]); ok {
						if _, had := w.env[id.Name]; !had {
							w.env[id.Name] = t
						}
					}
				}
			}
			return true
		})
	}
}

// ---- pass 2: evidence, path-sensitive over if/else -------------------------------------------

func (w *walker) how(kind string) string { return w.fnName + ": " + kind }

// all fields of a freshly built object are fresh
func (w *walker) freshObject(ev evset, t tref) {
	p, err := w.r.pkg(t.dir)
	if err != nil {
		return
	}
	for _, f := range fieldNames(p.structs[t.name]) {
		ev.add(t.q(), f, w.how("fresh "+t.name))
	}
}

func (w *walker) evAssign(ev evset, lhs, rhs ast.Expr, loop int) {
	if rhs != nil {
		if t, ok := w.allocType(rhs); ok {
			w.freshObject(ev, t)
		}
	}
	switch l := lhs.(type) {
	case *ast.ParenExpr:
		w.evAssign(ev, l.X, rhs, loop)
	case *ast.Ident:
		// a local alias of a field rebound to fresh memory: the buffer in use is fresh
		if a, ok := w.alias[l.Name]; ok && rhs != nil && isAlloc(rhs) {
			ev.add(a[0], a[1], w.how("alloc"))
		}
	case *ast.SelectorExpr:
		o, ok := w.structOf(l.X)
		if !ok || !w.hasField(o, l.Sel.Name) {
			return
		}
		switch r := rhs.(type) {
		case *ast.SliceExpr:
			if exprString(r.X) == exprString(l) && !strings.Contains(exprString(l), "?") {
				if r.Low == nil && r.High != nil {
					if bl, ok := r.High.(*ast.BasicLit); ok && bl.Value == "0" {
						ev.add(o.q(), l.Sel.Name, w.how("truncate"))
						return
					}
				}
				w.sized.add(o.q(), l.Sel.Name, w.how("reslice"))
				return
			}
		case *ast.Ident:
			if a, ok := w.alias[r.Name]; ok && a == [2]string{o.q(), l.Sel.Name} {
				return // storing the field's own alias back
			}
		}
		if rhs != nil && isAlloc(rhs) {
			ev.add(o.q(), l.Sel.Name, w.how("alloc"))
			return
		}
		ev.add(o.q(), l.Sel.Name, w.how("assign"))
	case *ast.IndexExpr:
		if loop > 0 && rhs != nil && w.isFillRHS(rhs) {
			if o, f, ok := w.fieldOf(l.X); ok {
				ev.add(o, f, w.how("fill-loop"))
			}
		}
	case *ast.StarExpr:
		if o, ok := w.structOf(l.X); ok {
			if _, isLit := rhs.(*ast.CompositeLit); isLit {
				p, _ := w.r.pkg(o.dir)
				for _, f := range fieldNames(p.structs[o.name]) {
					ev.add(o.q(), f, w.how("whole-struct"))
				}
			}
		}
	}
}

// reset-like calls anywhere inside an expression
func (w *walker) evCalls(ev evset, n ast.Node, loop int) {
	ast.Inspect(n, func(x ast.Node) bool {
		switch call := x.(type) {
		case *ast.FuncLit:
			return false
		case *ast.CallExpr:
			switch f := call.Fun.(type) {
			case *ast.Ident:
				if f.Name == "clear" && len(call.Args) == 1 {
					if o, fld, ok := w.fieldOf(call.Args[0]); ok {
						ev.add(o, fld, w.how("clear"))
					}
				} else if resetFuncs[f.Name] {
					for _, a := range call.Args {
						if u, ok := a.(*ast.UnaryExpr); ok && u.Op == token.AND {
							a = u.X
						}
						if o, fld, ok := w.fieldOf(a); ok {
							ev.add(o, fld, w.how("call "+f.Name))
						}
					}
				}
			case *ast.SelectorExpr:
				if !resetMethods[f.Sel.Name] {
					return true
				}
				recv := f.X
				if p, ok := recv.(*ast.ParenExpr); ok {
					recv = p.X
				}
				if ix, ok := recv.(*ast.IndexExpr); ok {
					if loop > 0 {
						if o, fld, ok := w.fieldOf(ix.X); ok {
							ev.add(o, fld, w.how("loop call "+f.Sel.Name))
						}
					}
				} else if o, fld, ok := w.fieldOf(recv); ok {
					ev.add(o, fld, w.how("call "+f.Sel.Name))
				}
			}
		}
		return true
	})
}

// evBlock: evidence accumulated when control falls off the end of the list, the evidence at each
// `return` reached inside it, and whether the list always returns.
func (w *walker) evBlock(list []ast.Stmt, loop int) (acc evset, rets []evset, term bool) {
	acc = evset{}
	for _, s := range list {
		switch s := s.(type) {
		case *ast.ReturnStmt:
			w.evCalls(acc, s, loop)
			rets = append(rets, acc.clone())
			return acc, rets, true
		case *ast.BlockStmt:
			a, r, t := w.evBlock(s.List, loop)
			for _, x := range r {
				x.union(acc)
				rets = append(rets, x)
			}
			acc.union(a)
			if t {
				return acc, rets, true
			}
		case *ast.IfStmt:
			if s.Init != nil {
				a, _, _ := w.evBlock([]ast.Stmt{s.Init}, loop)
				acc.union(a)
			}
			evA, retsA, termA := w.evBlock(s.Body.List, loop)
			var evB evset
			var retsB []evset
			termB := false
			hasElse := s.Else != nil
			if hasElse {
				evB, retsB, termB = w.evBlock([]ast.Stmt{s.Else}, loop)
			}
			for _, x := range append(retsA, retsB...) {
				x.union(acc)
				rets = append(rets, x)
			}
			switch {
			case hasElse && termA && termB:
				return acc, rets, true
			case hasElse && termA:
				acc.union(evB)
			case hasElse && termB:
				acc.union(evA)
			case hasElse:
				acc.union(intersect(evA, evB))
			}
			// no else: conditional code gives no evidence for the fall-through path
		case *ast.ForStmt:
			a, _, _ := w.evBlock(s.Body.List, loop+1)
			acc.union(a)
		case *ast.RangeStmt:
			a, _, _ := w.evBlock(s.Body.List, loop+1)
			acc.union(a)
		case *ast.LabeledStmt:
			a, r, t := w.evBlock([]ast.Stmt{s.Stmt}, loop)
			rets = append(rets, r...)
			acc.union(a)
			if t {
				return acc, rets, true
			}
		case *ast.SwitchStmt, *ast.TypeSwitchStmt, *ast.SelectStmt:
			// clauses are alternatives: no evidence for the fall-through path
		case *ast.AssignStmt:
			if s.Tok == token.ASSIGN || s.Tok == token.DEFINE {
				for i, l := range s.Lhs {
					var rhs ast.Expr
					if len(s.Lhs) == len(s.Rhs) {
						rhs = s.Rhs[i]
					}
					w.evAssign(acc, l, rhs, loop)
				}
			}
			for _, r := range s.Rhs {
				w.evCalls(acc, r, loop)
			}
		case *ast.ExprStmt:
			w.evCalls(acc, s.X, loop)
		}
	}
	return acc, rets, false
}

func findPoolGetIf(list []ast.Stmt) *ast.IfStmt {
	for _, s := range list {
		if is, ok := isPoolGetIf(s); ok {
			return is
		}
	}
	return nil
}

func fieldNames(st *ast.StructType) []string {
	var out []string
	if st == nil {
		return out
	}
	for _, f := range st.Fields.List {
		if len(f.Names) == 0 { // embedded
			out = append(out, recvName(f.Type))
			continue
		}
		for _, n := range f.Names {
			if n.Name != "_" {
				out = append(out, n.Name)
			}
		}
	}
	return out
}

type fnResult struct {
	ev    evset // evidence on the path that reaches the end (pool branch: the `return <object>` inside it)
	sized evset
}

func (r *repoInfo) walkFunc(spec fnSpec) (fnResult, bool) {
	p, err := r.pkg(spec.dir)
	if err != nil {
		return fnResult{}, false
	}
	fd := p.funcs[spec.recv+"."+spec.name]
	if fd == nil || fd.Body == nil {
		return fnResult{}, false
	}
	w := &walker{r: r, p: p, file: p.fileOf[fd], fnName: spec.name,
		env: map[string]tref{}, alias: map[string][2]string{}, sized: evset{}}
	bind := func(fl *ast.FieldList) {
		if fl == nil {
			return
		}
		for _, f := range fl.List {
			if t, ok := w.typeFromExpr(f.Type, p.dir); ok {
				for _, n := range f.Names {
					w.env[n.Name] = t
				}
			}
		}
	}
	bind(fd.Recv)
	bind(fd.Type.Params)
	bind(fd.Type.Results)
	w.bindAll(fd.Body)
	if spec.poolBranch {
		is := findPoolGetIf(fd.Body.List)
		if is == nil {
			return fnResult{}, false
		}
		acc, rets, _ := w.evBlock(is.Body.List, 0)
		if len(rets) > 0 {
			acc = rets[0] // the path that returns the reused object
		}
		return fnResult{acc, w.sized}, true
	}
	acc, _, _ := w.evBlock(fd.Body.List, 0)
	return fnResult{acc, w.sized}, true
}

func leanStr(s string) string {
	return `"` + strings.ReplaceAll(strings.ReplaceAll(s, `\`, `\\`), `"`, `\"`) + `"`
}

func leanList(l []string) string {
	q := make([]string, len(l))
	for i, s := range l {
		q[i] = leanStr(s)
	}
	return "[" + strings.Join(q, ", ") + "]"
}

// wrapped list, 100 columns
func leanListWrapped(l []string, indent string) string {
	var b strings.Builder
	b.WriteString("[")
	col := len(indent) + 1
	for i, s := range l {
		item := leanStr(s)
		if i > 0 {
			b.WriteString(",")
			col++
			if col+1+len(item) > 100 {
				b.WriteString("\n" + indent + " ")
				col = len(indent) + 1
			} else {
				b.WriteString(" ")
				col++
			}
		}
		b.WriteString(item)
		col += len(item)
	}
	b.WriteString("]")
	return b.String()
}

func dedupSorted(l []string) []string {
	sort.Strings(l)
	var out []string
	for i, s := range l {
		if i == 0 || s != l[i-1] {
			out = append(out, s)
		}
	}
	return out
}

func leanIdent(key string) string {
	return strings.NewReplacer(".", "_", "-", "_").Replace(key)
}

func genFields(repo string) ([]byte, error) {
	r := &repoInfo{root: repo, pkgs: map[string]*pkgInfo{}}
	var b bytes.Buffer
	b.WriteString("/-\n  GENERATED by /verif/harness/cmd/extract (fields.go) from the Go sources of deepteams/webp.\n" +
		"  Do not edit: `extract -repo /repo -out lean/Generated` rewrites this file whenever the\n" +
		"  struct declarations or the reuse-path functions change.  Consumed by Webp.Props.C11.\n-/\n")
	b.WriteString("namespace Generated.Fields\n\n")
	b.WriteString("/-- one pooled (or pooled-object-resident) struct type of /repo -/\n")
	b.WriteString("structure PooledType where\n  name : String\n  decl : String\n  pool : String\n" +
		"  reusePath : List String\n  fields : List String\n" +
		"  /-- fields (re)initialised on every path through the reuse-path functions -/\n  assigned : List String\n" +
		"  /-- fields only re-sliced there (`x.f = x.f[:n]`): length set, contents kept -/\n  sized : List String\n" +
		"  how : List (String × List String)\n\n")

	var missing []string
	var idents []string
	cache := map[fnSpec]fnResult{}
	for _, ts := range pooledTypes {
		p, err := r.pkg(ts.dir)
		if err != nil {
			return nil, err
		}
		st := p.structs[ts.name]
		decl := "?"
		if st == nil {
			missing = append(missing, ts.key+" (struct)")
		} else {
			decl = filepath.ToSlash(p.fset.Position(st.Pos()).Filename)
		}
		fields := fieldNames(st)
		owner := ts.dir + ":" + ts.name
		hows := map[string][]string{}
		weak := map[string][]string{}
		var path []string
		for _, f := range ts.reuse {
			res, seen := cache[f]
			if !seen {
				var ok bool
				res, ok = r.walkFunc(f)
				if !ok {
					res = fnResult{}
				}
				cache[f] = res
			}
			label := f.name
			if f.recv != "" {
				label = f.recv + "." + f.name
			}
			if f.dir != ts.dir {
				label = filepath.Base(f.dir) + "." + label
			}
			if f.poolBranch {
				label += " [pool branch]"
			}
			if res.ev == nil {
				missing = append(missing, ts.key+": "+label)
				continue
			}
			path = append(path, label)
			for k, hs := range res.ev {
				if k[0] == owner {
					hows[k[1]] = append(hows[k[1]], hs...)
				}
			}
			for k, hs := range res.sized {
				if k[0] == owner {
					weak[k[1]] = append(weak[k[1]], hs...)
				}
			}
		}
		var assigned, sized []string
		for _, f := range fields {
			if len(hows[f]) > 0 {
				assigned = append(assigned, f)
			} else if len(weak[f]) > 0 {
				sized = append(sized, f)
			}
		}
		id := leanIdent(ts.key)
		idents = append(idents, id)
		fmt.Fprintf(&b, "def %s : PooledType where\n", id)
		fmt.Fprintf(&b, "  name := %s\n  decl := %s\n  pool := %s\n", leanStr(ts.key), leanStr(decl), leanStr(ts.pool))
		fmt.Fprintf(&b, "  reusePath := %s\n", leanListWrapped(path, "    "))
		fmt.Fprintf(&b, "  fields := %s\n", leanListWrapped(fields, "    "))
		fmt.Fprintf(&b, "  assigned := %s\n", leanListWrapped(assigned, "    "))
		fmt.Fprintf(&b, "  sized := %s\n", leanListWrapped(sized, "    "))
		b.WriteString("  how := [")
		for i, f := range assigned {
			if i > 0 {
				b.WriteString(",")
			}
			hs := dedupSorted(hows[f])
			fmt.Fprintf(&b, "\n    (%s, %s)", leanStr(f), leanList(hs))
		}
		b.WriteString("]\n\n")
	}

	// internal/pool: bucketed byte pools whose Get does not clear — record who imports it
	importers, err := poolImporters(repo)
	if err != nil {
		return nil, err
	}
	b.WriteString("/-- all pooled types, in the order of the extractor's table -/\n")
	fmt.Fprintf(&b, "def types : List PooledType :=\n  [%s]\n\n", strings.Join(idents, ", "))
	b.WriteString("/-- reuse-path functions (or structs) named in the extractor's table that no longer exist -/\n")
	fmt.Fprintf(&b, "def missing : List String := %s\n\n", leanList(missing))
	b.WriteString("/-- non-test files of the module importing internal/pool (bucketed `[]byte` pools; `Get` does\n" +
		"    not clear the returned bytes, so every importer needs its own rewritten-before-read argument) -/\n")
	fmt.Fprintf(&b, "def poolPkgImporters : List String := %s\n\n", leanList(importers))
	b.WriteString("def find (t : String) : Option PooledType := types.find? (·.name == t)\n")
	b.WriteString("def fields (t : String) : List String := ((find t).map (·.fields)).getD []\n")
	b.WriteString("def assigned (t : String) : List String := ((find t).map (·.assigned)).getD []\n")
	b.WriteString("def typeNames : List String := types.map (·.name)\n\n")
	b.WriteString("end Generated.Fields\n")
	return b.Bytes(), nil
}

func poolImporters(repo string) ([]string, error) {
	var out []string
	want := `"` + modulePath + `/internal/pool"`
	err := filepath.WalkDir(repo, func(path string, d os.DirEntry, err error) error {
		if err != nil {
			return err
		}
		if d.IsDir() {
			n := d.Name()
			if path != repo && (strings.HasPrefix(n, ".") || n == "testdata" || n == "vendor") {
				return filepath.SkipDir
			}
			return nil
		}
		if !strings.HasSuffix(path, ".go") || strings.HasSuffix(path, "_test.go") {
			return nil
		}
		src, err := os.ReadFile(path)
		if err != nil {
			return err
		}
		if isVerifOnly(src) {
			return nil
		}
		f, err := parser.ParseFile(token.NewFileSet(), path, src, parser.ImportsOnly)
		if err != nil {
			return nil // not our business here; the build reports syntax errors
		}
		for _, im := range f.Imports {
			if im.Path.Value == want {
				rel, _ := filepath.Rel(repo, path)
				out = append(out, filepath.ToSlash(rel))
			}
		}
		return nil
	})
	sort.Strings(out)
	return out, err
}
