package main

// The curated list of functions fingerprinted into Generated/Fingerprints.lean (see fingerprints.go):
// every function or method that a hand-written Lean model transcribes, that a proved theorem speaks
// about, or that is the Go side of a differential oracle.  HAND-MAINTAINED: when a model starts to
// cover a further Go function, add it here AND (with its current hash) to the group of that model in
// /verif/lean/Webp/Impl/Transcribed.lean (tools/update_fingerprints.py fills in the hash).
//
//	pkg        directory of the package relative to the repo root ("." = root package webp)
//	recv       receiver type name for methods
//	fn         function name
//	noClosure  (default false) true = do not also fingerprint what the function reaches
//
// Closure is ON for every entry: the generator additionally fingerprints every function of the same
// package the entry calls (transitively) and every package-level constant / variable used on the way,
// so helpers, worker bodies and thresholds need not be listed here (see fingerprints.go).
//
// The trailing comment names the lists of Transcribed.lean that use the entry.
var fingerprintList = []fpSpec{
	// ---- . (package webp) ----
	// encode.go
	{pkg: ".", fn: "DefaultOptions"},                  // opts
	{pkg: ".", fn: "Encode"},                          // opts, writer, extra_C07
	{pkg: ".", fn: "OptionsForPreset"},                // opts
	{pkg: ".", fn: "cleanupTransparentAreaLossless"},  // importPix, lTransformFwd
	{pkg: ".", fn: "cleanupTransparentAreaLossy"},     // importPix
	{pkg: ".", fn: "cleanupTransparentAreaLossyWith"}, // importPix
	{pkg: ".", fn: "encodeLossless"},                  // importPix, opts, pool, extra_C01, extra_C02, extra_C15
	{pkg: ".", fn: "encodeLosslessToWriter"},          // importPix, opts, pool, writer, extra_C01
	{pkg: ".", fn: "encodeLossy"},                     // opts, extra_C02, extra_C07, extra_C15, extra_C18
	{pkg: ".", fn: "encodeLossyWithAlpha"},            // opts, alphaGlue, extra_C02, extra_C15, extra_C18
	{pkg: ".", fn: "extractAlpha"},                    // alphaGlue
	{pkg: ".", fn: "extractAlphaWith"},                // importPix, alphaGlue
	{pkg: ".", fn: "flattenBlockNRGBA"},               // importPix
	{pkg: ".", fn: "imageHasAlpha"},                   // importPix, opts, alphaGlue
	{pkg: ".", fn: "putLE24"},                         // writer
	{pkg: ".", fn: "resolveAlphaCompression"},         // opts, extra_C07
	{pkg: ".", fn: "resolveAlphaFiltering"},           // opts, extra_C07
	{pkg: ".", fn: "resolveAlphaQuality"},             // opts, extra_C07
	{pkg: ".", fn: "resolveFilterStrength"},           // opts
	{pkg: ".", fn: "resolveFilterType"},               // opts
	{pkg: ".", fn: "resolvePass"},                     // opts
	{pkg: ".", fn: "resolveQMax"},                     // opts
	{pkg: ".", fn: "resolveSNSStrength"},              // opts
	{pkg: ".", fn: "resolveSegments"},                 // opts
	{pkg: ".", fn: "rgbaIsOpaque"},                    // importPix
	{pkg: ".", fn: "rgbaToNRGBA"},                     // importPix
	{pkg: ".", fn: "sharpYUVConvert"},                 // importPix
	{pkg: ".", fn: "smoothenBlockNRGBA"},              // importPix
	{pkg: ".", fn: "validNRGBA"},                      // importPix
	{pkg: ".", fn: "validRGBA"},                       // importPix
	{pkg: ".", fn: "validateConfig"},                  // opts
	{pkg: ".", fn: "writeRIFF"},                       // writer, alphaGlue
	{pkg: ".", fn: "writeRIFFExtended"},               // writer
	{pkg: ".", fn: "writeRIFFSimple"},                 // writer
	// webp.go
	{pkg: ".", fn: "Decode"},                   // config
	{pkg: ".", fn: "DecodeConfig"},             // config
	{pkg: ".", fn: "GetFeatures"},              // config
	{pkg: ".", fn: "buildNRGBA"},               // codecFront, extra_C07, extra_C18
	{pkg: ".", fn: "buildYCbCr"},               // codecFront, pool
	{pkg: ".", fn: "decodeBytes"},              // config
	{pkg: ".", fn: "decodeFrame"},              // config, extra_C01, extra_C03, extra_C04
	{pkg: ".", fn: "decodeFrameForAnimation"},  // animEnc
	{pkg: ".", fn: "decodeLossless"},           // config, extra_C01, extra_C03
	{pkg: ".", fn: "decodeLossy"},              // codecFront, pool, alphaGlue, extra_C16, extra_C17, extra_C18
	{pkg: ".", fn: "encodeFrameForAnimation"},  // animEnc
	{pkg: ".", fn: "init"},                     // config, extra_C18
	{pkg: ".", fn: "readAll"},                  // config
	{pkg: ".", fn: "simpleEncodeForAnimation"}, // animEnc
	{pkg: ".", fn: "ycbcrToNRGBA"},             // vp8DecodeGo
	// ---- animation ----
	// animation/animation.go
	{pkg: "animation", recv: "AnimDecoder", fn: "HasNext"},                  // animDec
	{pkg: "animation", recv: "AnimDecoder", fn: "NextFrame"},                // animDec
	{pkg: "animation", recv: "AnimDecoder", fn: "Reset"},                    // animDec
	{pkg: "animation", recv: "AnimDecoder", fn: "compositeFrame"},           // animDec
	{pkg: "animation", recv: "AnimDecoder", fn: "isKeyFrame"},               // animDec
	{pkg: "animation", recv: "AnimEncoder", fn: "AddFrame"},                 // animEnc
	{pkg: "animation", recv: "AnimEncoder", fn: "Close"},                    // animEnc, extra_C15
	{pkg: "animation", recv: "AnimEncoder", fn: "SetEXIF"},                  // extra_C15
	{pkg: "animation", recv: "AnimEncoder", fn: "SetICCProfile"},            // extra_C15
	{pkg: "animation", recv: "AnimEncoder", fn: "SetXMP"},                   // extra_C15
	{pkg: "animation", recv: "AnimEncoder", fn: "addOptimizedFrame"},        // animEnc
	{pkg: "animation", recv: "AnimEncoder", fn: "encodeFrame"},              // animEnc
	{pkg: "animation", recv: "AnimEncoder", fn: "encodeKeyframe"},           // animEnc
	{pkg: "animation", recv: "AnimEncoder", fn: "encodeSubFrame"},           // animEnc
	{pkg: "animation", recv: "AnimEncoder", fn: "increasePreviousDuration"}, // animEnc
	{pkg: "animation", recv: "Animation", fn: "DecodeFrames"},               // animEnc, extra_C05
	{pkg: "animation", recv: "Animation", fn: "DecodeFramesParallel"},       // partition, extra_C05
	{pkg: "animation", fn: "Decode"},                                        // extra_C05
	{pkg: "animation", fn: "DecodeBytes"},                                   // animEnc, extra_C05, extra_C15, extra_C16
	{pkg: "animation", fn: "NewAnimDecoder"},                                // animDec
	{pkg: "animation", fn: "NewEncoder"},                                    // animEnc, opts
	{pkg: "animation", fn: "alphaBlendNRGBA"},                               // animDec
	{pkg: "animation", fn: "applyDispose"},                                  // animDec
	{pkg: "animation", fn: "clampLoopCount"},                                // animEnc
	{pkg: "animation", fn: "clearBlendedTranslucent"},                       // animEnc
	{pkg: "animation", fn: "clearCanvas"},                                   // animDec
	{pkg: "animation", fn: "cloneNRGBA"},                                    // animEnc
	{pkg: "animation", fn: "copyImageRect"},                                 // animEnc
	{pkg: "animation", fn: "extractSubImage"},                               // animEnc
	{pkg: "animation", fn: "fillRect"},                                      // animDec
	{pkg: "animation", fn: "findChangedRect"},                               // animEnc
	{pkg: "animation", fn: "frameHeight"},                                   // animDec
	{pkg: "animation", fn: "frameWidth"},                                    // animDec
	{pkg: "animation", fn: "isCanvasIdentical"},                             // animEnc
	{pkg: "animation", fn: "isLosslessBlendingPossible"},                    // animEnc
	{pkg: "animation", fn: "isLossyBlendingPossible"},                       // animEnc
	{pkg: "animation", fn: "pixelsAreSimilar"},                              // animEnc
	{pkg: "animation", fn: "qualityToMaxDiff"},                              // animEnc
	{pkg: "animation", fn: "sanitizeKeyframeOptions"},                       // animEnc
	{pkg: "animation", fn: "snapToEven"},                                    // animEnc
	// animation/frame.go
	{pkg: "animation", recv: "Frame", fn: "Bounds"}, // animDec
	{pkg: "animation", fn: "toNRGBA"},               // animDec
	// ---- mux ----
	// mux/chunk.go
	{pkg: "mux", fn: "ReadChunk"},        // demux
	{pkg: "mux", fn: "ReadChunkHeader"},  // demux
	{pkg: "mux", fn: "writeChunkHeader"}, // muxer
	// mux/demux.go
	{pkg: "mux", recv: "Demuxer", fn: "BackgroundColor"},          // demux
	{pkg: "mux", recv: "Demuxer", fn: "Frame"},                    // demux
	{pkg: "mux", recv: "Demuxer", fn: "GetChunk"},                 // demux
	{pkg: "mux", recv: "Demuxer", fn: "GetFeatures"},              // demux
	{pkg: "mux", recv: "Demuxer", fn: "LoopCount"},                // demux
	{pkg: "mux", recv: "Demuxer", fn: "NumFrames"},                // demux
	{pkg: "mux", recv: "Demuxer", fn: "parse"},                    // demux
	{pkg: "mux", recv: "Demuxer", fn: "parseANIM"},                // demux
	{pkg: "mux", recv: "Demuxer", fn: "parseANMF"},                // demux, extra_C18
	{pkg: "mux", recv: "Demuxer", fn: "parseExtended"},            // demux
	{pkg: "mux", recv: "Demuxer", fn: "parseSimpleVP8"},           // demux
	{pkg: "mux", recv: "Demuxer", fn: "parseSimpleVP8L"},          // demux
	{pkg: "mux", recv: "Demuxer", fn: "parseSingleExtendedFrame"}, // demux
	{pkg: "mux", fn: "NewDemuxer"},                                // demux
	{pkg: "mux", fn: "frameDataHasAlpha"},                         // demux
	{pkg: "mux", fn: "parseVP8Dimensions"},                        // demux
	{pkg: "mux", fn: "parseVP8LDimensions"},                       // demux
	// mux/mux.go
	{pkg: "mux", recv: "Muxer", fn: "AddChunk"},            // muxer
	{pkg: "mux", recv: "Muxer", fn: "AddFrame"},            // animEnc, muxer
	{pkg: "mux", recv: "Muxer", fn: "Assemble"},            // muxer
	{pkg: "mux", recv: "Muxer", fn: "FrameBlendMode"},      // muxer
	{pkg: "mux", recv: "Muxer", fn: "FrameDuration"},       // animEnc, muxer
	{pkg: "mux", recv: "Muxer", fn: "NumFrames"},           // animEnc, muxer
	{pkg: "mux", recv: "Muxer", fn: "SetBackgroundColor"},  // muxer
	{pkg: "mux", recv: "Muxer", fn: "SetCanvasSize"},       // muxer
	{pkg: "mux", recv: "Muxer", fn: "SetEXIF"},             // muxer
	{pkg: "mux", recv: "Muxer", fn: "SetFrameDisposeMode"}, // animEnc, muxer
	{pkg: "mux", recv: "Muxer", fn: "SetFrameDuration"},    // animEnc, muxer
	{pkg: "mux", recv: "Muxer", fn: "SetICCProfile"},       // muxer
	{pkg: "mux", recv: "Muxer", fn: "SetLoopCount"},        // muxer
	{pkg: "mux", recv: "Muxer", fn: "SetXMP"},              // muxer
	{pkg: "mux", recv: "Muxer", fn: "assembleExtended"},    // muxer
	{pkg: "mux", recv: "Muxer", fn: "assembleSimple"},      // muxer
	{pkg: "mux", recv: "Muxer", fn: "canvasSize"},          // muxer
	{pkg: "mux", recv: "Muxer", fn: "hasAlpha"},            // muxer, extra_C18
	{pkg: "mux", recv: "Muxer", fn: "hasAlphaChunk"},       // muxer
	{pkg: "mux", recv: "Muxer", fn: "hasDistinctCanvas"},   // muxer
	{pkg: "mux", recv: "Muxer", fn: "isAnimated"},          // muxer
	{pkg: "mux", recv: "Muxer", fn: "needsVP8X"},           // muxer
	{pkg: "mux", recv: "Muxer", fn: "validate"},            // muxer
	{pkg: "mux", recv: "Muxer", fn: "writeANMFChunk"},      // muxer, extra_C18
	{pkg: "mux", fn: "NewMuxer"},                           // muxer
	{pkg: "mux", fn: "chunkTotalSize"},                     // muxer
	{pkg: "mux", fn: "clampDuration"},                      // animEnc, muxer
	{pkg: "mux", fn: "detectBitstreamType"},                // muxer
	{pkg: "mux", fn: "frameDimensions"},                    // demux, muxer
	{pkg: "mux", fn: "frameSubChunksSize"},                 // muxer
	{pkg: "mux", fn: "putLE24"},                            // muxer
	{pkg: "mux", fn: "splitAlphaAndBitstream"},             // animEnc, demux, muxer
	{pkg: "mux", fn: "subChunkSize"},                       // muxer
	{pkg: "mux", fn: "writeDataChunk"},                     // muxer
	// ---- internal/container ----
	// internal/container/constants.go
	{pkg: "internal/container", fn: "FourCC"},   // parser, extra_C02
	{pkg: "internal/container", fn: "PutLE16"},  // writer
	{pkg: "internal/container", fn: "PutLE32"},  // writer
	{pkg: "internal/container", fn: "ReadLE16"}, // parser
	{pkg: "internal/container", fn: "ReadLE32"}, // parser
	// internal/container/parser.go
	{pkg: "internal/container", fn: "NewParser"},                           // parser
	{pkg: "internal/container", recv: "Parser", fn: "parse"},               // parser
	{pkg: "internal/container", recv: "Parser", fn: "parseExtSingleImage"}, // parser
	{pkg: "internal/container", recv: "Parser", fn: "parseSingleImage"},    // parser
	{pkg: "internal/container", recv: "Parser", fn: "parseVP8X"},           // parser
	{pkg: "internal/container", recv: "Parser", fn: "parseVP8XChunks"},     // parser
	{pkg: "internal/container", fn: "copyBytes"},                           // parser
	{pkg: "internal/container", fn: "parseANMF"},                           // parser
	{pkg: "internal/container", fn: "parseFrameSubChunks"},                 // parser
	{pkg: "internal/container", fn: "parseVP8Header"},                      // parser
	{pkg: "internal/container", fn: "parseVP8LHeader"},                     // parser
	{pkg: "internal/container", fn: "readLE24"},                            // parser
	// internal/container/riff.go
	{pkg: "internal/container", fn: "PaddedSize"},      // parser
	{pkg: "internal/container", fn: "ParseRIFFHeader"}, // parser
	{pkg: "internal/container", fn: "ReadChunkHeader"}, // parser
	// ---- internal/bitio ----
	// internal/bitio/reader_bool.go
	{pkg: "internal/bitio", recv: "BoolReader", fn: "EOF"},            // boolReader, extra_C17
	{pkg: "internal/bitio", recv: "BoolReader", fn: "GetBit"},         // boolReader
	{pkg: "internal/bitio", recv: "BoolReader", fn: "GetBitAlt"},      // boolReader
	{pkg: "internal/bitio", recv: "BoolReader", fn: "GetSigned"},      // boolReader
	{pkg: "internal/bitio", recv: "BoolReader", fn: "GetSignedValue"}, // boolReader
	{pkg: "internal/bitio", recv: "BoolReader", fn: "GetValue"},       // boolReader
	{pkg: "internal/bitio", recv: "BoolReader", fn: "loadFinalBytes"}, // boolReader
	{pkg: "internal/bitio", recv: "BoolReader", fn: "loadNewBytes"},   // boolReader
	{pkg: "internal/bitio", fn: "NewBoolReader"},                      // boolReader
	// internal/bitio/reader_lossless.go
	{pkg: "internal/bitio", recv: "LosslessReader", fn: "BitPos"},          // vp8lEntropyDec
	{pkg: "internal/bitio", recv: "LosslessReader", fn: "FillBitWindow"},   // vp8lEntropyDec
	{pkg: "internal/bitio", recv: "LosslessReader", fn: "IsEndOfStream"},   // codecFrontL, vp8lEntropyDec, extra_C17
	{pkg: "internal/bitio", recv: "LosslessReader", fn: "PrefetchBits"},    // vp8lEntropyDec
	{pkg: "internal/bitio", recv: "LosslessReader", fn: "ReadBits"},        // codecFrontL, vp8lEntropyDec
	{pkg: "internal/bitio", recv: "LosslessReader", fn: "SetBitPos"},       // vp8lEntropyDec
	{pkg: "internal/bitio", recv: "LosslessReader", fn: "doFillBitWindow"}, // vp8lEntropyDec
	{pkg: "internal/bitio", recv: "LosslessReader", fn: "setEndOfStream"},  // vp8lEntropyDec
	{pkg: "internal/bitio", recv: "LosslessReader", fn: "shiftBytes"},      // vp8lEntropyDec
	{pkg: "internal/bitio", fn: "NewLosslessReader"},                       // vp8lEntropyDec
	// internal/bitio/writer_bool.go
	{pkg: "internal/bitio", recv: "BoolWriter", fn: "Finish"},            // boolWriter
	{pkg: "internal/bitio", recv: "BoolWriter", fn: "PutBit"},            // boolWriter
	{pkg: "internal/bitio", recv: "BoolWriter", fn: "PutBitBatchPacked"}, // boolWriter
	{pkg: "internal/bitio", recv: "BoolWriter", fn: "PutBitUniform"},     // boolWriter
	{pkg: "internal/bitio", recv: "BoolWriter", fn: "PutBits"},           // boolWriter
	{pkg: "internal/bitio", recv: "BoolWriter", fn: "PutSignedBits"},     // boolWriter
	{pkg: "internal/bitio", recv: "BoolWriter", fn: "Reset"},             // boolWriter, pool
	{pkg: "internal/bitio", recv: "BoolWriter", fn: "flush"},             // boolWriter
	{pkg: "internal/bitio", fn: "NewBoolWriter"},                         // boolWriter
	// internal/bitio/writer_lossless.go
	{pkg: "internal/bitio", recv: "LosslessWriter", fn: "Finish"},    // vp8lEntropyEnc
	{pkg: "internal/bitio", recv: "LosslessWriter", fn: "WriteBits"}, // vp8lEntropyEnc
	{pkg: "internal/bitio", recv: "LosslessWriter", fn: "flushBits"}, // vp8lEntropyEnc
	{pkg: "internal/bitio", recv: "LosslessWriter", fn: "grow"},      // vp8lEntropyEnc
	{pkg: "internal/bitio", fn: "NewLosslessWriter"},                 // vp8lEntropyEnc
	{pkg: "internal/bitio", fn: "NewLosslessWriterWithBuf"},          // vp8lEntropyEnc
	// ---- internal/pool ----
	// internal/pool/pool.go
	{pkg: "internal/pool", fn: "Get"},         // pool
	{pkg: "internal/pool", fn: "Put"},         // pool
	{pkg: "internal/pool", fn: "bucketIndex"}, // pool
	// ---- internal/dsp ----
	// internal/dsp/cliptables.go
	{pkg: "internal/dsp", fn: "Clip8b"},         // vp8Kernels
	{pkg: "internal/dsp", fn: "initClipTables"}, // vp8Kernels
	// internal/dsp/cpuid_amd64.go, internal/dsp/cpuid_noamd64.go
	{pkg: "internal/dsp", fn: "HasAVX2"}, // extra_C13
	// internal/dsp/cpuid_amd64.go, internal/dsp/dsp.go, internal/dsp/dsp_amd64.go, internal/dsp/dsp_arm64.go
	{pkg: "internal/dsp", fn: "init"}, // extra_C13
	// internal/dsp/dsp.go
	{pkg: "internal/dsp", fn: "Init"}, // vp8Kernels
	// internal/dsp/filter.go
	{pkg: "internal/dsp", fn: "SimpleHFilter16"},   // vp8Kernels
	{pkg: "internal/dsp", fn: "doFilter2"},         // vp8Kernels
	{pkg: "internal/dsp", fn: "doFilter4"},         // vp8Kernels
	{pkg: "internal/dsp", fn: "doFilter6"},         // vp8Kernels
	{pkg: "internal/dsp", fn: "filterLoop24"},      // vp8Kernels
	{pkg: "internal/dsp", fn: "filterLoop26"},      // vp8Kernels
	{pkg: "internal/dsp", fn: "hev"},               // vp8Kernels
	{pkg: "internal/dsp", fn: "needsFilter"},       // vp8Kernels
	{pkg: "internal/dsp", fn: "needsFilter2"},      // vp8Kernels
	{pkg: "internal/dsp", fn: "simpleVFilter16Go"}, // vp8Kernels
	// internal/dsp/filter_direct_amd64.go, internal/dsp/filter_direct_noasm.go
	{pkg: "internal/dsp", fn: "SimpleVFilter16"}, // vp8Kernels
	// internal/dsp/lossless_dsp.go
	{pkg: "internal/dsp", fn: "AddGreenToBlueAndRed"},   // vp8Kernels, lTransformInv
	{pkg: "internal/dsp", fn: "SubtractGreen"},          // vp8Kernels, lTransformFwd
	{pkg: "internal/dsp", fn: "addGreenToBlueAndRedGo"}, // vp8Kernels, lTransformInv
	{pkg: "internal/dsp", fn: "subtractGreenGo"},        // vp8Kernels, lTransformFwd
	// internal/dsp/predict_lossy.go
	{pkg: "internal/dsp", fn: "PredLuma4Direct"}, // vp8Kernels, vp8ReconEnc, vp8ReconDec
	{pkg: "internal/dsp", fn: "avg2"},            // vp8Kernels
	{pkg: "internal/dsp", fn: "avg3"},            // vp8Kernels
	{pkg: "internal/dsp", fn: "dc16"},            // vp8Kernels
	{pkg: "internal/dsp", fn: "dc16NoLeft"},      // vp8Kernels
	{pkg: "internal/dsp", fn: "dc16NoTop"},       // vp8Kernels
	{pkg: "internal/dsp", fn: "dc16NoTopLeft"},   // vp8Kernels
	{pkg: "internal/dsp", fn: "dc4"},             // vp8Kernels
	{pkg: "internal/dsp", fn: "dc8uv"},           // vp8Kernels
	{pkg: "internal/dsp", fn: "dc8uvNoLeft"},     // vp8Kernels
	{pkg: "internal/dsp", fn: "dc8uvNoTop"},      // vp8Kernels
	{pkg: "internal/dsp", fn: "dc8uvNoTopLeft"},  // vp8Kernels
	{pkg: "internal/dsp", fn: "hd4"},             // vp8Kernels
	{pkg: "internal/dsp", fn: "he16"},            // vp8Kernels
	{pkg: "internal/dsp", fn: "he4"},             // vp8Kernels
	{pkg: "internal/dsp", fn: "he8uv"},           // vp8Kernels
	{pkg: "internal/dsp", fn: "hu4"},             // vp8Kernels
	{pkg: "internal/dsp", fn: "initPredictors"},  // vp8Kernels
	{pkg: "internal/dsp", fn: "ld4"},             // vp8Kernels
	{pkg: "internal/dsp", fn: "rd4"},             // vp8Kernels
	{pkg: "internal/dsp", fn: "tm16"},            // vp8Kernels
	{pkg: "internal/dsp", fn: "tm4"},             // vp8Kernels
	{pkg: "internal/dsp", fn: "tm8uv"},           // vp8Kernels
	{pkg: "internal/dsp", fn: "ve16"},            // vp8Kernels
	{pkg: "internal/dsp", fn: "ve4"},             // vp8Kernels
	{pkg: "internal/dsp", fn: "ve8uv"},           // vp8Kernels
	{pkg: "internal/dsp", fn: "vl4"},             // vp8Kernels
	{pkg: "internal/dsp", fn: "vr4"},             // vp8Kernels
	// internal/dsp/predict_lossy_direct_amd64.go, internal/dsp/predict_lossy_direct_arm64.go, internal/dsp/predict_lossy_direct_noasm.go
	{pkg: "internal/dsp", fn: "PredChroma8Direct"}, // vp8Kernels, vp8ReconEnc
	{pkg: "internal/dsp", fn: "PredLuma16Direct"},  // vp8Kernels, vp8ReconEnc
	// internal/dsp/random.go
	{pkg: "internal/dsp", fn: "InitRandom"},  // extra_C13
	{pkg: "internal/dsp", fn: "RandomBits"},  // importPix, extra_C13
	{pkg: "internal/dsp", fn: "RandomBits2"}, // importPix, extra_C13
	// internal/dsp/ssim.go
	{pkg: "internal/dsp", fn: "SSE"},           // vp8Kernels
	{pkg: "internal/dsp", fn: "sse16x16"},      // vp8Kernels
	{pkg: "internal/dsp", fn: "sse4x4"},        // vp8Kernels
	{pkg: "internal/dsp", fn: "tDisto16x16Go"}, // extra_C13
	{pkg: "internal/dsp", fn: "tDisto4x4Go"},   // vp8Kernels
	{pkg: "internal/dsp", fn: "tTransform"},    // vp8Kernels
	// internal/dsp/ssim_direct_amd64.go, internal/dsp/ssim_direct_arm64.go, internal/dsp/ssim_direct_noasm.go
	{pkg: "internal/dsp", fn: "SSE16x16Direct"}, // vp8Kernels
	{pkg: "internal/dsp", fn: "SSE4x4Direct"},   // vp8Kernels
	{pkg: "internal/dsp", fn: "TDisto16x16"},    // extra_C13
	{pkg: "internal/dsp", fn: "TDisto4x4"},      // vp8Kernels
	// internal/dsp/transforms.go
	{pkg: "internal/dsp", fn: "fTransform"},    // vp8Kernels
	{pkg: "internal/dsp", fn: "fTransform2"},   // vp8Kernels
	{pkg: "internal/dsp", fn: "fTransformWHT"}, // vp8Kernels
	{pkg: "internal/dsp", fn: "iTransform"},    // vp8Kernels
	{pkg: "internal/dsp", fn: "iTransformOne"}, // vp8Kernels, vp8ReconEnc
	{pkg: "internal/dsp", fn: "mul1"},          // vp8Kernels, vp8ReconEnc, vp8ReconDec
	{pkg: "internal/dsp", fn: "mul2"},          // vp8Kernels, vp8ReconEnc, vp8ReconDec
	{pkg: "internal/dsp", fn: "store"},         // vp8Kernels, vp8ReconEnc, vp8ReconDec
	{pkg: "internal/dsp", fn: "transformAC3"},  // vp8Kernels, vp8ReconDec
	{pkg: "internal/dsp", fn: "transformDC"},   // vp8Kernels, vp8ReconDec
	{pkg: "internal/dsp", fn: "transformDCUV"}, // vp8Kernels, vp8ReconDec
	{pkg: "internal/dsp", fn: "transformOne"},  // vp8Kernels, vp8ReconDec
	{pkg: "internal/dsp", fn: "transformTwo"},  // vp8Kernels, vp8ReconDec
	{pkg: "internal/dsp", fn: "transformUV"},   // vp8Kernels, vp8ReconDec
	{pkg: "internal/dsp", fn: "transformWHT"},  // vp8Kernels, vp8ReconDec
	// internal/dsp/transforms_direct_amd64.go, internal/dsp/transforms_direct_arm64.go, internal/dsp/transforms_direct_noasm.go
	{pkg: "internal/dsp", fn: "FTransformDirect"}, // vp8Kernels
	{pkg: "internal/dsp", fn: "ITransformDirect"}, // vp8Kernels, vp8ReconEnc
	// internal/dsp/upsample.go
	{pkg: "internal/dsp", fn: "PointSampleRow"},          // vp8DecodeGo
	{pkg: "internal/dsp", fn: "UpsampleLinePair"},        // vp8Kernels
	{pkg: "internal/dsp", fn: "loadUV"},                  // vp8Kernels
	{pkg: "internal/dsp", fn: "upsampleLinePairNRGBAGo"}, // vp8Kernels
	// internal/dsp/upsample_direct_amd64.go, internal/dsp/upsample_direct_noasm.go
	{pkg: "internal/dsp", fn: "UpsampleLinePairNRGBA"}, // codecFront, vp8Kernels
	// internal/dsp/yuv.go
	{pkg: "internal/dsp", fn: "VP8ClipUV"},     // vp8DecodeGo
	{pkg: "internal/dsp", fn: "YUVToB"},        // vp8Kernels
	{pkg: "internal/dsp", fn: "YUVToG"},        // vp8Kernels
	{pkg: "internal/dsp", fn: "YUVToR"},        // vp8Kernels
	{pkg: "internal/dsp", fn: "YUVToRGB"},      // vp8DecodeGo
	{pkg: "internal/dsp", fn: "clip"},          // vp8Kernels
	{pkg: "internal/dsp", fn: "initYUVTables"}, // vp8Kernels
	{pkg: "internal/dsp", fn: "multHi"},        // vp8Kernels
	// ---- internal/lossless ----
	// internal/lossless/colorcache.go
	{pkg: "internal/lossless", recv: "ColorCache", fn: "Contains"}, // vp8lEntropyEnc
	{pkg: "internal/lossless", recv: "ColorCache", fn: "HashPix"},  // vp8lEntropyEnc, vp8lEntropyDec
	{pkg: "internal/lossless", recv: "ColorCache", fn: "Insert"},   // vp8lEntropyEnc, vp8lEntropyDec
	{pkg: "internal/lossless", recv: "ColorCache", fn: "Lookup"},   // vp8lEntropyEnc, vp8lEntropyDec
	{pkg: "internal/lossless", fn: "NewColorCache"},                // vp8lEntropyEnc, vp8lEntropyDec
	// internal/lossless/constants.go
	{pkg: "internal/lossless", fn: "AlphabetSize"},          // vp8lEntropyEnc, vp8lEntropyDec
	{pkg: "internal/lossless", fn: "PlaneCodeToDistance"},   // codecFrontL, lTransformInv, vp8lEntropyDec
	{pkg: "internal/lossless", fn: "PrefixEncodeBitsNoLUT"}, // lTransformFwd
	{pkg: "internal/lossless", fn: "PrefixEncodeNoLUT"},     // lTransformFwd
	{pkg: "internal/lossless", fn: "VP8LSubSampleSize"},     // codecFrontL
	{pkg: "internal/lossless", fn: "bitsLog2Floor"},         // lTransformFwd
	// internal/lossless/decode.go
	{pkg: "internal/lossless", fn: "DecodeVP8L"},                         // codecFrontL, pool, extra_C17
	{pkg: "internal/lossless", recv: "Decoder", fn: "decodeHeader"},      // codecFrontL, extra_C16
	{pkg: "internal/lossless", recv: "Decoder", fn: "decodeImageStream"}, // codecFrontL
	{pkg: "internal/lossless", recv: "Decoder", fn: "decodeSubImage"},    // codecFrontL
	{pkg: "internal/lossless", recv: "Decoder", fn: "updateDecoder"},     // codecFrontL, vp8lEntropyDec
	{pkg: "internal/lossless", fn: "acquireDecoder"},                     // pool
	{pkg: "internal/lossless", fn: "argbToNRGBA"},                        // codecFrontL, partition
	{pkg: "internal/lossless", fn: "argbToNRGBARows"},                    // codecFrontL, partition
	{pkg: "internal/lossless", fn: "releaseDecoder"},                     // pool
	// internal/lossless/decode_image.go
	{pkg: "internal/lossless", recv: "Decoder", fn: "decodeImageData"},        // codecFrontL, vp8lFastPaths, vp8lEntropyDec, extra_C17
	{pkg: "internal/lossless", recv: "Decoder", fn: "getHTreeGroup"},          // vp8lEntropyDec
	{pkg: "internal/lossless", recv: "Decoder", fn: "getMetaIndex"},           // vp8lEntropyDec
	{pkg: "internal/lossless", recv: "Decoder", fn: "readHuffmanCode"},        // codecFrontL, vp8lEntropyDec, extra_C17
	{pkg: "internal/lossless", recv: "Decoder", fn: "readHuffmanCodeLengths"}, // codecFrontL, vp8lEntropyDec
	{pkg: "internal/lossless", recv: "Decoder", fn: "readHuffmanCodes"},       // codecFrontL, vp8lFastPaths, extra_C17
	{pkg: "internal/lossless", fn: "accumulateHCode"},                         // vp8lFastPaths
	{pkg: "internal/lossless", fn: "buildPackedTable"},                        // vp8lFastPaths
	{pkg: "internal/lossless", fn: "copyBlock32"},                             // codecFrontL, vp8lEntropyDec
	{pkg: "internal/lossless", fn: "getCopyDistance"},                         // codecFrontL, lTransformInv
	{pkg: "internal/lossless", fn: "getCopyLength"},                           // codecFrontL, lTransformInv
	{pkg: "internal/lossless", fn: "readPackedSymbols"},                       // vp8lFastPaths
	{pkg: "internal/lossless", fn: "readSymbolFromTree"},                      // vp8lEntropyDec
	// internal/lossless/decode_transform.go
	{pkg: "internal/lossless", recv: "Decoder", fn: "applyInverseTransforms"}, // codecFrontL, lTransformInv
	{pkg: "internal/lossless", recv: "Decoder", fn: "readTransform"},          // codecFrontL
	{pkg: "internal/lossless", fn: "addGreenToBlueAndRed"},                    // lTransformInv
	{pkg: "internal/lossless", fn: "addPixels"},                               // lTransformInv
	{pkg: "internal/lossless", fn: "argbSliceToBytes"},                        // codecFrontL
	{pkg: "internal/lossless", fn: "average2"},                                // lTransformInv
	{pkg: "internal/lossless", fn: "bytesToARGBSlice"},                        // codecFrontL
	{pkg: "internal/lossless", fn: "clampedAddSubtractFull"},                  // lTransformInv
	{pkg: "internal/lossless", fn: "clampedAddSubtractHalf"},                  // lTransformInv
	{pkg: "internal/lossless", fn: "colorIndexInverseTransform"},              // lTransformInv
	{pkg: "internal/lossless", fn: "colorSpaceInverseTransform"},              // partition, lTransformInv
	{pkg: "internal/lossless", fn: "colorSpaceInverseTransformParallel"},      // partition, lTransformInv
	{pkg: "internal/lossless", fn: "expandColorMap"},                          // codecFrontL, lTransformInv
	{pkg: "internal/lossless", fn: "getARGBIndex"},                            // lTransformInv
	{pkg: "internal/lossless", fn: "inverseTransform"},                        // partition, lTransformInv
	{pkg: "internal/lossless", fn: "predictorInverseTransform"},               // lTransformInv
	{pkg: "internal/lossless", fn: "selectPredictor"},                         // lTransformInv
	// internal/lossless/encode.go
	{pkg: "internal/lossless", fn: "DefaultEncoderConfig"},                   // opts
	{pkg: "internal/lossless", fn: "Encode"},                                 // opts, pool, writer, extra_C01
	{pkg: "internal/lossless", fn: "EncodeToWriter"},                         // opts, pool, writer, extra_C01
	{pkg: "internal/lossless", recv: "Encoder", fn: "applyPaletteTransform"}, // lTransformFwd
	{pkg: "internal/lossless", recv: "Encoder", fn: "applyTransforms"},       // lTransformFwd
	{pkg: "internal/lossless", recv: "Encoder", fn: "encodeHistogramImage"},  // vp8lEntropyEnc
	{pkg: "internal/lossless", recv: "Encoder", fn: "encodePalette"},         // vp8lEntropyEnc
	{pkg: "internal/lossless", recv: "Encoder", fn: "encodeStream"},          // vp8lEntropyEnc
	{pkg: "internal/lossless", recv: "Encoder", fn: "encodeSubImage"},        // vp8lEntropyEnc
	{pkg: "internal/lossless", recv: "Encoder", fn: "storeImageData"},        // vp8lEntropyEnc
	{pkg: "internal/lossless", recv: "Encoder", fn: "storeSubImageData"},     // vp8lEntropyEnc
	{pkg: "internal/lossless", recv: "Encoder", fn: "writeTransformData"},    // vp8lEntropyEnc
	{pkg: "internal/lossless", fn: "acquireEncoder"},                         // pool
	{pkg: "internal/lossless", fn: "argbHasAlpha"},                           // extra_C01, extra_C02, extra_C16
	{pkg: "internal/lossless", fn: "optimizeSampling"},                       // vp8lEntropyEnc
	{pkg: "internal/lossless", fn: "releaseEncoder"},                         // pool
	{pkg: "internal/lossless", fn: "writeHuffmanCode"},                       // vp8lEntropyEnc
	// internal/lossless/encode_backward.go
	{pkg: "internal/lossless", fn: "BackwardReferences2DLocality"}, // vp8lEntropyEnc
	{pkg: "internal/lossless", fn: "BackwardRefsWithLocalCache"},   // vp8lEntropyEnc
	// internal/lossless/encode_histogram.go
	{pkg: "internal/lossless", fn: "histogramRemap"},               // partition
	{pkg: "internal/lossless", fn: "parallelComputeHistogramCost"}, // partition
	// internal/lossless/encode_huffman.go
	{pkg: "internal/lossless", fn: "BuildCodeLengthTokens"},                  // vp8lEntropyEnc
	{pkg: "internal/lossless", fn: "BuildCodeLengthTokensScratch"},           // vp8lEntropyEnc
	{pkg: "internal/lossless", fn: "StoreHuffmanCode"},                       // vp8lEntropyEnc
	{pkg: "internal/lossless", fn: "StoreHuffmanCodeScratch"},                // vp8lEntropyEnc
	{pkg: "internal/lossless", fn: "StoreHuffmanTreeOfHuffmanTreeToBitMask"}, // vp8lEntropyEnc
	{pkg: "internal/lossless", fn: "StoreHuffmanTreeToBitMask"},              // vp8lEntropyEnc
	{pkg: "internal/lossless", fn: "clearHuffmanTreeIfOnlyOneSymbol"},        // vp8lEntropyEnc
	{pkg: "internal/lossless", fn: "codeRepeatedValues"},                     // vp8lEntropyEnc
	{pkg: "internal/lossless", fn: "codeRepeatedZeros"},                      // vp8lEntropyEnc
	{pkg: "internal/lossless", fn: "generateCanonicalCodes"},                 // vp8lEntropyEnc
	{pkg: "internal/lossless", fn: "reverseBits"},                            // vp8lEntropyEnc
	{pkg: "internal/lossless", fn: "storeFullHuffmanCode"},                   // vp8lEntropyEnc
	{pkg: "internal/lossless", fn: "storeFullHuffmanCodeScratch"},            // vp8lEntropyEnc
	{pkg: "internal/lossless", fn: "storeSimpleHuffmanCode"},                 // vp8lEntropyEnc
	// internal/lossless/encode_predictor.go
	{pkg: "internal/lossless", fn: "ApplyPaletteTransform"},    // lTransformFwd
	{pkg: "internal/lossless", fn: "ColorIndexBuild"},          // lTransformFwd
	{pkg: "internal/lossless", fn: "ColorSpaceTransform"},      // partition, lTransformFwd
	{pkg: "internal/lossless", fn: "ResidualImage"},            // partition, lTransformFwd
	{pkg: "internal/lossless", fn: "SubtractGreen"},            // lTransformFwd
	{pkg: "internal/lossless", fn: "applyColorTransformPixel"}, // lTransformFwd
	{pkg: "internal/lossless", fn: "applyColorTransformTile"},  // lTransformFwd
	{pkg: "internal/lossless", fn: "avg2"},                     // lTransformFwd
	{pkg: "internal/lossless", fn: "clampAddSubFull"},          // lTransformFwd
	{pkg: "internal/lossless", fn: "clampAddSubHalf"},          // lTransformFwd
	{pkg: "internal/lossless", fn: "clampByte"},                // lTransformFwd
	{pkg: "internal/lossless", fn: "copyImageWithPrediction"},  // lTransformFwd
	{pkg: "internal/lossless", fn: "encColorTransformDelta"},   // lTransformFwd
	{pkg: "internal/lossless", fn: "findBestMultiplier"},       // partition
	{pkg: "internal/lossless", fn: "findBestMultipliers"},      // partition
	{pkg: "internal/lossless", fn: "multiplierCost"},           // partition
	{pkg: "internal/lossless", fn: "packMultipliers"},          // lTransformFwd
	{pkg: "internal/lossless", fn: "predictPixel"},             // lTransformFwd
	{pkg: "internal/lossless", fn: "selectPred"},               // lTransformFwd
	{pkg: "internal/lossless", fn: "subPixels"},                // lTransformFwd
	// internal/lossless/hashchain.go
	{pkg: "internal/lossless", fn: "DistanceToPlaneCode"},             // lTransformFwd
	{pkg: "internal/lossless", recv: "HashChain", fn: "Fill"},         // partition
	{pkg: "internal/lossless", recv: "HashChain", fn: "fillParallel"}, // partition
	{pkg: "internal/lossless", recv: "HashChain", fn: "fillSerial"},   // partition
	// internal/lossless/huffman.go
	{pkg: "internal/lossless", fn: "BuildHuffmanTable"},        // vp8lEntropyDec
	{pkg: "internal/lossless", fn: "BuildHuffmanTableScratch"}, // vp8lEntropyDec
	{pkg: "internal/lossless", fn: "ReadSymbol"},               // vp8lFastPaths, vp8lEntropyDec
	{pkg: "internal/lossless", fn: "buildHuffmanTableSize"},    // vp8lEntropyDec
	{pkg: "internal/lossless", fn: "getNextKey"},               // vp8lEntropyDec
	{pkg: "internal/lossless", fn: "nextTableBitSize"},         // vp8lEntropyDec
	{pkg: "internal/lossless", fn: "replicateValue"},           // vp8lEntropyDec
	// added after seeded round 4
	{pkg: "internal/lossless", fn: "CalculateBestCacheSize"},            // extra_C11
	{pkg: "internal/lossless", fn: "GetHistoImageSymbols"},              // vp8lEntropyEnc, partition
	{pkg: "internal/lossless", fn: "GetWindowSizeForHashChain"},         // partition
	{pkg: "internal/lossless", fn: "NewHashChain"},                      // extra_C11
	{pkg: "internal/lossless", fn: "NewHistogram"},                      // extra_C11
	{pkg: "internal/lossless", fn: "ReuseColorCache"},                   // extra_C11
	{pkg: "internal/lossless", fn: "allocateHistoSetReuse"},             // extra_C11
	{pkg: "internal/lossless", fn: "fillMatchRange"},                    // partition
	{pkg: "internal/lossless", fn: "histogramBuild"},                    // vp8lEntropyEnc, extra_C11
	{pkg: "internal/lossless", fn: "histogramCombineEntropyBin"},        // vp8lEntropyEnc, partition
	{pkg: "internal/lossless", fn: "histogramCombineGreedy"},            // vp8lEntropyEnc, partition
	{pkg: "internal/lossless", fn: "histogramCombineStochastic"},        // vp8lEntropyEnc, partition
	{pkg: "internal/lossless", fn: "newCostManager"},                    // extra_C11
	{pkg: "internal/lossless", fn: "paletteCodeBits"},                   // extra_C11
	{pkg: "internal/lossless", fn: "removeUnusedHistograms"},            // vp8lEntropyEnc, partition
	{pkg: "internal/lossless", fn: "traceBackwards"},                    // extra_C11
	{pkg: "internal/lossless", recv: "BackwardRefs", fn: "Add"},         // extra_C11
	{pkg: "internal/lossless", recv: "BackwardRefs", fn: "Reset"},       // extra_C11
	{pkg: "internal/lossless", recv: "ColorCache", fn: "Reset"},         // extra_C11
	{pkg: "internal/lossless", recv: "HistoSet", fn: "clearAll"},        // extra_C11
	{pkg: "internal/lossless", recv: "Histogram", fn: "Clear"},          // extra_C11
	{pkg: "internal/lossless", recv: "Histogram", fn: "copyFrom"},       // extra_C11
	{pkg: "internal/lossless", recv: "Histogram", fn: "resetStats"},     // extra_C11
	{pkg: "internal/lossless", recv: "HuffmanScratch", fn: "AllocTree"}, // extra_C11
	{pkg: "internal/lossless", recv: "costModelTrace", fn: "build"},     // extra_C11
	// ---- internal/lossy ----
	// internal/lossy/alpha.go
	{pkg: "internal/lossy", fn: "DecodeAlpha"},                // alphaDec, extra_C17
	{pkg: "internal/lossy", fn: "EncodeAlpha"},                // alphaEnc
	{pkg: "internal/lossy", fn: "alphaFilterGradient"},        // alphaEnc
	{pkg: "internal/lossy", fn: "alphaFilterHorizontal"},      // alphaEnc
	{pkg: "internal/lossy", fn: "alphaFilterVertical"},        // alphaEnc
	{pkg: "internal/lossy", fn: "alphaUnfilterGradient"},      // alphaDec
	{pkg: "internal/lossy", fn: "alphaUnfilterHorizontal"},    // alphaDec
	{pkg: "internal/lossy", fn: "alphaUnfilterHorizontalRow"}, // alphaDec
	{pkg: "internal/lossy", fn: "alphaUnfilterVertical"},      // alphaDec
	{pkg: "internal/lossy", fn: "alphaVP8LStream"},            // alphaEnc
	{pkg: "internal/lossy", fn: "applyFiltersAndEncode"},      // alphaEnc
	{pkg: "internal/lossy", fn: "encodeAlphaInternal"},        // alphaEnc
	{pkg: "internal/lossy", fn: "estimateBestFilter"},         // alphaEnc
	{pkg: "internal/lossy", fn: "getFilterMap"},               // alphaEnc
	{pkg: "internal/lossy", fn: "getNumColors"},               // alphaEnc
	{pkg: "internal/lossy", fn: "quantizeLevels"},             // alphaEnc
	// internal/lossy/decode.go
	{pkg: "internal/lossy", fn: "DecodeFrame"},                         // codecFront, pool, extra_C16, extra_C17
	{pkg: "internal/lossy", recv: "Decoder", fn: "initFrame"},          // codecFront, pool
	{pkg: "internal/lossy", recv: "Decoder", fn: "initScanline"},       // vp8ReconDec
	{pkg: "internal/lossy", recv: "Decoder", fn: "parseFilterHeader"},  // codecFront
	{pkg: "internal/lossy", recv: "Decoder", fn: "parseFrame"},         // vp8ReconDec, extra_C17
	{pkg: "internal/lossy", recv: "Decoder", fn: "parseHeaders"},       // codecFront, vp8ReconDec, extra_C17
	{pkg: "internal/lossy", recv: "Decoder", fn: "parsePartitions"},    // codecFront, extra_C17
	{pkg: "internal/lossy", recv: "Decoder", fn: "parseSegmentHeader"}, // codecFront
	{pkg: "internal/lossy", fn: "ReleaseDecoder"},                      // pool, vp8DecodeGo
	{pkg: "internal/lossy", fn: "acquireDecoder"},                      // codecFront, pool
	// internal/lossy/decode_frame.go
	{pkg: "internal/lossy", recv: "Decoder", fn: "doFilter"},                  // vp8DecodeGo
	{pkg: "internal/lossy", recv: "Decoder", fn: "filterRowAt"},               // vp8DecodeGo
	{pkg: "internal/lossy", recv: "Decoder", fn: "precomputeFilterStrengths"}, // vp8DecodeGo
	{pkg: "internal/lossy", recv: "Decoder", fn: "reconstructRow"},            // vp8ReconDec
	{pkg: "internal/lossy", fn: "abs"},                                        // vp8DecodeGo
	{pkg: "internal/lossy", fn: "checkMode"},                                  // vp8ReconEnc, vp8ReconDec
	{pkg: "internal/lossy", fn: "clamp255"},                                   // vp8DecodeGo
	{pkg: "internal/lossy", fn: "doSimpleFilter2"},                            // vp8DecodeGo
	{pkg: "internal/lossy", fn: "doSimpleFilter4"},                            // vp8DecodeGo
	{pkg: "internal/lossy", fn: "doSimpleFilter6"},                            // vp8DecodeGo
	{pkg: "internal/lossy", fn: "doTransform"},                                // vp8Kernels, vp8ReconDec
	{pkg: "internal/lossy", fn: "doTransformDCBlock"},                         // vp8Kernels, vp8ReconDec
	{pkg: "internal/lossy", fn: "doUVTransform"},                              // vp8Kernels, vp8ReconDec
	{pkg: "internal/lossy", fn: "fillBytes"},                                  // vp8DecodeGo
	{pkg: "internal/lossy", fn: "filterLoop24HAt"},                            // vp8DecodeGo
	{pkg: "internal/lossy", fn: "filterLoop24VAt"},                            // vp8DecodeGo
	{pkg: "internal/lossy", fn: "filterLoop26At"},                             // vp8DecodeGo
	{pkg: "internal/lossy", fn: "filterLoop26HAt"},                            // vp8DecodeGo
	{pkg: "internal/lossy", fn: "filterLoop26VAt"},                            // vp8DecodeGo
	{pkg: "internal/lossy", fn: "hFilter16iAt"},                               // vp8DecodeGo
	{pkg: "internal/lossy", fn: "hFilter8iAt"},                                // vp8DecodeGo
	{pkg: "internal/lossy", fn: "isHEV"},                                      // vp8DecodeGo
	{pkg: "internal/lossy", fn: "needsFilter2At"},                             // vp8DecodeGo
	{pkg: "internal/lossy", fn: "sclip1"},                                     // vp8DecodeGo
	{pkg: "internal/lossy", fn: "sclip2"},                                     // vp8DecodeGo
	{pkg: "internal/lossy", fn: "simpleHFilter16At"},                          // vp8DecodeGo
	{pkg: "internal/lossy", fn: "simpleHFilter16iAt"},                         // vp8DecodeGo
	{pkg: "internal/lossy", fn: "vFilter16iAt"},                               // vp8DecodeGo
	{pkg: "internal/lossy", fn: "vFilter8iAt"},                                // vp8DecodeGo
	// internal/lossy/decode_mb.go
	{pkg: "internal/lossy", recv: "Decoder", fn: "decodeMB"},       // vp8ReconDec, extra_C17
	{pkg: "internal/lossy", recv: "Decoder", fn: "parseResiduals"}, // vp8ReconDec
	{pkg: "internal/lossy", fn: "b2i"},                             // vp8DecodeGo
	{pkg: "internal/lossy", fn: "brLoad"},                          // vp8ReconDec
	{pkg: "internal/lossy", fn: "brSync"},                          // vp8ReconDec
	{pkg: "internal/lossy", fn: "fastBit"},                         // vp8ReconDec
	{pkg: "internal/lossy", fn: "fastSigned"},                      // vp8ReconDec
	{pkg: "internal/lossy", fn: "getCoeffsInline"},                 // vp8ReconDec
	{pkg: "internal/lossy", fn: "nzCodeBits"},                      // vp8Kernels, vp8ReconDec
	// internal/lossy/decode_quant.go
	{pkg: "internal/lossy", fn: "ParseQuant"},         // codecFront, vp8ReconDec
	{pkg: "internal/lossy", fn: "clip"},               // vp8ReconDec
	{pkg: "internal/lossy", fn: "readOptionalSigned"}, // codecFront
	// internal/lossy/decode_tree.go
	{pkg: "internal/lossy", recv: "Decoder", fn: "parseIntraModeRow"}, // vp8ReconDec, extra_C17
	{pkg: "internal/lossy", fn: "parseProba"},                         // codecFront
	// internal/lossy/encode.go
	{pkg: "internal/lossy", fn: "DefaultConfig"},                         // opts
	{pkg: "internal/lossy", fn: "NewEncoder"},                            // opts, pool
	{pkg: "internal/lossy", fn: "NewEncoderFromYUV"},                     // pool
	{pkg: "internal/lossy", fn: "ReleaseEncoder"},                        // pool
	{pkg: "internal/lossy", recv: "VP8Encoder", fn: "EncodeFrame"},       // partition, extra_C20
	{pkg: "internal/lossy", recv: "VP8Encoder", fn: "allocateBuffers"},   // pool
	{pkg: "internal/lossy", recv: "VP8Encoder", fn: "importImage"},       // importPix, partition
	{pkg: "internal/lossy", recv: "VP8Encoder", fn: "importYCbCr"},       // importPix
	{pkg: "internal/lossy", recv: "VP8Encoder", fn: "initEncoderParams"}, // opts
	{pkg: "internal/lossy", recv: "VP8Encoder", fn: "resetForReuse"},     // pool
	{pkg: "internal/lossy", fn: "clampInt"},                              // vp8ReconEnc
	{pkg: "internal/lossy", fn: "getImportUVWorker"},                     // importPix, pool
	{pkg: "internal/lossy", fn: "imageHasAlpha"},                         // importPix
	{pkg: "internal/lossy", fn: "initSegmentQuant"},                      // vp8ReconEnc
	{pkg: "internal/lossy", fn: "setupSegment"},                          // vp8ReconEnc
	// internal/lossy/encode_analysis.go
	{pkg: "internal/lossy", recv: "VP8Encoder", fn: "buildSegmentHeader"}, // vp8ReconEnc
	{pkg: "internal/lossy", recv: "VP8Encoder", fn: "setSegmentParams"},   // vp8ReconEnc
	{pkg: "internal/lossy", recv: "VP8Encoder", fn: "setSegmentProbas"},   // vp8ReconEnc
	{pkg: "internal/lossy", recv: "VP8Encoder", fn: "simplifySegments"},   // vp8ReconEnc
	{pkg: "internal/lossy", fn: "assignSegments"},                         // vp8ReconEnc
	{pkg: "internal/lossy", fn: "computeAlphas"},                          // partition
	{pkg: "internal/lossy", fn: "computeAlphasSerial"},                    // partition
	// internal/lossy/encode_frame.go
	{pkg: "internal/lossy", recv: "VP8Encoder", fn: "encodeFrame"},       // vp8ReconEnc
	{pkg: "internal/lossy", recv: "VP8Encoder", fn: "encodeI4Residuals"}, // vp8ReconEnc
	{pkg: "internal/lossy", recv: "VP8Encoder", fn: "reconstructMB"},     // vp8ReconEnc
	{pkg: "internal/lossy", recv: "VP8Encoder", fn: "recordMBTokens"},    // vp8ReconEnc
	{pkg: "internal/lossy", recv: "VP8Encoder", fn: "refreshProbas"},     // rowPipe
	{pkg: "internal/lossy", recv: "VP8Encoder", fn: "tryI4ModesRD"},      // vp8ReconEnc
	// internal/lossy/encode_iterator.go
	{pkg: "internal/lossy", recv: "MBIterator", fn: "Export"},           // vp8ReconEnc
	{pkg: "internal/lossy", recv: "MBIterator", fn: "FillPredContext"},  // vp8ReconEnc
	{pkg: "internal/lossy", recv: "MBIterator", fn: "Import"},           // vp8ReconEnc
	{pkg: "internal/lossy", recv: "MBIterator", fn: "resetLeftContext"}, // vp8ReconEnc
	{pkg: "internal/lossy", recv: "VP8Encoder", fn: "InitIterator"},     // vp8ReconEnc
	{pkg: "internal/lossy", fn: "importBlock"},                          // vp8ReconEnc
	// internal/lossy/encode_parallel.go
	{pkg: "internal/lossy", recv: "VP8Encoder", fn: "encodeFrameParallel"}, // partition, rowPipe
	{pkg: "internal/lossy", recv: "VP8Encoder", fn: "encodeRow"},           // rowPipe, vp8ReconEnc
	{pkg: "internal/lossy", recv: "VP8Encoder", fn: "recordAllTokens"},     // rowPipe, vp8ReconEnc
	{pkg: "internal/lossy", fn: "encodeI4ResidualsParallel"},               // vp8ReconEnc
	{pkg: "internal/lossy", fn: "exportParallel"},                          // rowPipe, vp8ReconEnc
	{pkg: "internal/lossy", fn: "fillPredContextParallel"},                 // rowPipe, vp8ReconEnc
	{pkg: "internal/lossy", fn: "getParallelState"},                        // pool, rowPipe
	{pkg: "internal/lossy", fn: "importBlockParallel"},                     // rowPipe, vp8ReconEnc
	{pkg: "internal/lossy", fn: "initRowWorker"},                           // rowPipe
	{pkg: "internal/lossy", fn: "newRowSync"},                              // pool, rowPipe
	{pkg: "internal/lossy", fn: "pickBestModeParallel"},                    // rowPipe
	{pkg: "internal/lossy", fn: "putParallelState"},                        // pool, rowPipe
	{pkg: "internal/lossy", fn: "reconstructMBParallel"},                   // vp8ReconEnc
	{pkg: "internal/lossy", recv: "rowSync", fn: "signal"},                 // rowPipe
	{pkg: "internal/lossy", recv: "rowSync", fn: "waitFor"},                // rowPipe
	{pkg: "internal/lossy", fn: "tryI4ModesRDParallel"},                    // vp8ReconEnc
	{pkg: "internal/lossy", fn: "updateNZContextParallel"},                 // rowPipe
	// internal/lossy/encode_proba.go
	{pkg: "internal/lossy", recv: "VP8Encoder", fn: "rerecordAllTokens"}, // vp8ReconEnc
	// internal/lossy/encode_quant.go
	{pkg: "internal/lossy", fn: "dequantCoeffsGo"},  // vp8Kernels, vp8ReconEnc
	{pkg: "internal/lossy", fn: "quantizeCoeffsGo"}, // vp8Kernels
	// internal/lossy/encode_quant_amd64.go, internal/lossy/encode_quant_noasm.go
	{pkg: "internal/lossy", fn: "DequantCoeffs"},  // vp8Kernels, vp8ReconEnc
	{pkg: "internal/lossy", fn: "QuantizeCoeffs"}, // vp8Kernels
	// internal/lossy/encode_syntax.go
	{pkg: "internal/lossy", fn: "AssembleRIFF"},                            // writer
	{pkg: "internal/lossy", recv: "VP8Encoder", fn: "assembleFrame"},       // writer, vp8Syntax
	{pkg: "internal/lossy", recv: "VP8Encoder", fn: "emitFrame"},           // writer, vp8Syntax
	{pkg: "internal/lossy", recv: "VP8Encoder", fn: "emitPartition0"},      // vp8Syntax
	{pkg: "internal/lossy", recv: "VP8Encoder", fn: "emitTokenPartitions"}, // vp8Syntax, extra_C20
	{pkg: "internal/lossy", recv: "VP8Encoder", fn: "writeCoeffProba"},     // vp8Syntax
	{pkg: "internal/lossy", recv: "VP8Encoder", fn: "writeFilterHeader"},   // vp8Syntax
	{pkg: "internal/lossy", recv: "VP8Encoder", fn: "writeMBModes"},        // vp8Syntax
	{pkg: "internal/lossy", recv: "VP8Encoder", fn: "writeQuantParams"},    // vp8Syntax
	{pkg: "internal/lossy", recv: "VP8Encoder", fn: "writeSegmentHeader"},  // vp8Syntax
	{pkg: "internal/lossy", fn: "getBoolWriter"},                           // pool
	{pkg: "internal/lossy", fn: "i4SubtreeContains"},                       // vp8Syntax
	{pkg: "internal/lossy", fn: "putBoolWriter"},                           // pool
	{pkg: "internal/lossy", fn: "writeI16Mode"},                            // vp8Syntax
	{pkg: "internal/lossy", fn: "writeI4ModeBits"},                         // vp8Syntax
	{pkg: "internal/lossy", fn: "writeSegmentID"},                          // vp8Syntax
	{pkg: "internal/lossy", fn: "writeUVMode"},                             // vp8Syntax
	// internal/lossy/encode_token.go
	{pkg: "internal/lossy", recv: "TokenBuffer", fn: "EmitTokens"},            // vp8Syntax
	{pkg: "internal/lossy", recv: "TokenBuffer", fn: "EmitTokensPartitioned"}, // vp8Syntax, extra_C20
	{pkg: "internal/lossy", recv: "TokenBuffer", fn: "Init"},                  // pool
	{pkg: "internal/lossy", recv: "TokenBuffer", fn: "RecordCoeffs"},          // vp8ReconEnc
	{pkg: "internal/lossy", recv: "TokenBuffer", fn: "RecordToken"},           // vp8ReconEnc
	{pkg: "internal/lossy", recv: "TokenBuffer", fn: "Reset"},                 // pool
	{pkg: "internal/lossy", recv: "TokenBuffer", fn: "recordLevelVP8"},        // vp8ReconEnc
	// internal/lossy/proba.go
	{pkg: "internal/lossy", fn: "ResetProba"}, // codecFront
	// added after seeded round 4
	{pkg: "internal/lossy", fn: "PickBestI4Mode"},                            // extra_C11
	{pkg: "internal/lossy", fn: "TrellisQuantizeBlock"},                      // extra_C11
	{pkg: "internal/lossy", fn: "collectHistogramAlphaWith"},                 // partition
	{pkg: "internal/lossy", fn: "computeMBAlphaDCTWith"},                     // partition, extra_C11
	{pkg: "internal/lossy", fn: "computeMBUVAlphaDCTWith"},                   // partition
	{pkg: "internal/lossy", fn: "generateI16Prediction"},                     // extra_C11
	{pkg: "internal/lossy", fn: "isFlat"},                                    // extra_C11
	{pkg: "internal/lossy", fn: "smoothSegmentMap"},                          // extra_C11
	{pkg: "internal/lossy", recv: "MBIterator", fn: "FillPredictionContext"}, // extra_C11
	{pkg: "internal/lossy", recv: "MBIterator", fn: "GetNZContext"},          // extra_C11
	{pkg: "internal/lossy", recv: "MBIterator", fn: "SetNZ"},                 // extra_C11
	{pkg: "internal/lossy", recv: "TokenBuffer", fn: "MarkMBStart"},          // vp8ReconEnc, extra_C10, extra_C11
	{pkg: "internal/lossy", recv: "TokenBuffer", fn: "addPage"},              // extra_C11
	{pkg: "internal/lossy", recv: "VP8Encoder", fn: "analysis"},              // extra_C11
	{pkg: "internal/lossy", recv: "VP8Encoder", fn: "collectAllStats"},       // extra_C06, extra_C11
	// added after seeded round 5 (rate-control loop deciding the final quantizers)
	{pkg: "internal/lossy", fn: "getPSNR"},                                  // vp8ReconEnc
	{pkg: "internal/lossy", fn: "qualityToCompression"},                     // vp8ReconEnc
	{pkg: "internal/lossy", fn: "qualityToQIndex"},                          // vp8ReconEnc
	{pkg: "internal/lossy", recv: "VP8Encoder", fn: "adjustQuantForTarget"}, // vp8ReconEnc, extra_C11
	{pkg: "internal/lossy", recv: "VP8Encoder", fn: "initPassStats"},        // vp8ReconEnc, extra_C11
	{pkg: "internal/lossy", recv: "VP8Encoder", fn: "initSegments"},         // vp8ReconEnc
	{pkg: "internal/lossy", recv: "VP8Encoder", fn: "setupFilterStrength"},  // vp8ReconEnc
	{pkg: "internal/lossy", recv: "VP8Encoder", fn: "statLoop"},             // vp8ReconEnc, extra_C11
	{pkg: "internal/lossy", recv: "passStats", fn: "computeNextQ"},          // vp8ReconEnc, extra_C11
}
