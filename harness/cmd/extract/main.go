// Command extract re-derives facts from the Go sources of deepteams/webp and writes them as
// Lean source under <out>/ (the `Generated` lake library of /verif/lean).  Standard library only
// (go/parser, go/ast, go/token).  A file is rewritten only when its content changes, so an
// unchanged tree reproduces the committed files byte for byte and does not touch mtimes.
//
//	extract -repo /repo -out /verif/lean/Generated
//
// Generators register themselves in `generators` (one Go file per generated Lean file).
package main

import (
	"bytes"
	"flag"
	"fmt"
	"os"
	"path/filepath"
	"sort"
)

// a generator produces the full text of one Lean file
type generator struct {
	file string // file name inside -out, e.g. "Fields.lean"
	run  func(repo string) ([]byte, error)
}

var generators []generator

func main() {
	repo := flag.String("repo", "/repo", "root of the deepteams/webp working tree")
	out := flag.String("out", "", "output directory (…/lean/Generated)")
	only := flag.String("only", "", "run only the generator of this file name (default: all)")
	flag.Parse()
	if *out == "" {
		fmt.Fprintln(os.Stderr, "extract: -out is required")
		os.Exit(2)
	}
	if err := os.MkdirAll(*out, 0o755); err != nil {
		fmt.Fprintln(os.Stderr, "extract:", err)
		os.Exit(2)
	}
	sort.Slice(generators, func(i, j int) bool { return generators[i].file < generators[j].file })
	rc := 0
	for _, g := range generators {
		if *only != "" && *only != g.file {
			continue
		}
		text, err := g.run(*repo)
		if err != nil {
			fmt.Fprintf(os.Stderr, "extract: %s: %v\n", g.file, err)
			rc = 1
			continue
		}
		path := filepath.Join(*out, g.file)
		old, err := os.ReadFile(path)
		if err == nil && bytes.Equal(old, text) {
			fmt.Printf("extract: %s unchanged\n", g.file)
			continue
		}
		tmp := path + ".tmp"
		if err := os.WriteFile(tmp, text, 0o644); err != nil {
			fmt.Fprintln(os.Stderr, "extract:", err)
			rc = 1
			continue
		}
		if err := os.Rename(tmp, path); err != nil {
			fmt.Fprintln(os.Stderr, "extract:", err)
			rc = 1
			continue
		}
		fmt.Printf("extract: %s written (%d bytes)\n", g.file, len(text))
	}
	os.Exit(rc)
}
