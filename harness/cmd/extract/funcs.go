package main

// Funcs.lean: a whitelist of pure integer functions of /repo translated from the Go AST into Lean
// *definitions* (namespace Generated.Funcs).  Theorems in Webp/Props/C??Funcs.lean prove that each
// regenerated definition equals the hand-written model function the property theorems are about,
// so a semantic edit of such a Go function changes the definition and breaks a proof obligation.
//
// The integer encoding is described in /verif/lean/Webp/Go/IntSem.lean and repeated in the header
// of the generated file.  The translator supports a small subset of Go and FAILS LOUDLY (error
// naming the function and the offending node) on anything else; it never emits an approximation.
//
// The whitelist itself is in funcs_list.go.

import (
	"bytes"
	"fmt"
	"go/ast"
	"go/constant"
	"go/parser"
	"go/token"
	"os"
	"path/filepath"
	"sort"
	"strconv"
	"strings"
)

func init() {
	generators = append(generators, generator{file: "Funcs.lean", run: genFuncs})
}

const fxModulePath = "github.com/deepteams/webp"

// ---------------------------------------------------------------------------------------------
// types

type kind int

const (
	tInt     kind = iota // int, int64: Lean Int, no wrap
	tU                   // uintN
	tS                   // intN (N < 64)
	tBool
	tUntyped // untyped integer constant
	tList    // []T, [N]T with T an integer type
	tStruct
	tTuple
	tFunc // local closure
)

type ity struct {
	k      kind
	bits   int
	elem   *ity
	name   string // struct name (Lean structure name)
	fields []field
	parts  []*ity // tuple; closure: parameter types
	ret    *ity   // closure result
	resFn  bool   // closure returns R
}

type field struct {
	name string
	ty   *ity // nil = unsupported field type (skipped)
}

var (
	tyInt     = &ity{k: tInt}
	tyBool    = &ity{k: tBool}
	tyUntyped = &ity{k: tUntyped}
)

func (t *ity) isInt() bool { return t != nil && (t.k == tInt || t.k == tU || t.k == tS || t.k == tUntyped) }
func (t *ity) typed() bool { return t != nil && t.k != tUntyped }

func (t *ity) lean() string {
	switch t.k {
	case tInt, tU, tS, tUntyped:
		return "Int"
	case tBool:
		return "Bool"
	case tList:
		return "List Int"
	case tStruct:
		return t.name
	case tTuple:
		var p []string
		for _, x := range t.parts {
			p = append(p, x.lean())
		}
		return strings.Join(p, " × ")
	}
	return "?"
}

func (t *ity) String() string {
	switch t.k {
	case tInt:
		return "int"
	case tU:
		return fmt.Sprintf("uint%d", t.bits)
	case tS:
		return fmt.Sprintf("int%d", t.bits)
	case tBool:
		return "bool"
	case tUntyped:
		return "untyped"
	case tList:
		return "[]" + t.elem.String()
	case tStruct:
		return t.name
	}
	return "tuple"
}

func sameTy(a, b *ity) bool {
	if a == nil || b == nil {
		return false
	}
	if a.k != b.k || a.bits != b.bits {
		return false
	}
	if a.k == tList {
		return sameTy(a.elem, b.elem)
	}
	if a.k == tStruct {
		return a.name == b.name
	}
	return true
}

// ---------------------------------------------------------------------------------------------
// packages

type constDecl struct {
	expr ast.Expr
	typ  ast.Expr
	iota int
	file string
}

type fxPkg struct {
	dir     string
	consts  map[string]*constDecl
	vars    map[string]*ast.ValueSpec
	funcs   map[string]*ast.FuncDecl // "Recv.name" or "name"
	dup     map[string]bool
	types   map[string]ast.Expr
	imports map[*ast.File]map[string]string // file -> local name -> dir
	fileOf  map[ast.Node]*ast.File
	files   []*ast.File
	names   map[*ast.File]string
}

type translator struct {
	repo   string
	fset   *token.FileSet
	pkgs   map[string]*fxPkg
	done   map[string]*fnOut // key pkg|recv|fn
	order  []*fnOut
	specs  map[string]*fxSpec
	tables map[string]string // lean name -> definition text
	tabOrd []string
	strs   map[string]*ity
	strOrd []string
	busy   map[string]bool
	initTables map[string]*fxSpec // pkg|table -> the whitelisted init function that fills it
}

type fnOut struct {
	written []int  // indices of list parameters the function writes (returned after the Go results)
	goRes   []*ity // the Go results
	spec    *fxSpec
	text    string
	res     bool
	params  []*ity
	result  *ity
	lean    string
	relFile string
}

type tErr struct{ msg string }

type needRes struct{}

func (tr *translator) failf(fn string, n ast.Node, format string, a ...any) {
	pos := ""
	if n != nil {
		p := tr.fset.Position(n.Pos())
		rel, _ := filepath.Rel(tr.repo, p.Filename)
		pos = fmt.Sprintf(" at %s:%d", rel, p.Line)
		format += fmt.Sprintf(" [node %T]", n)
	}
	panic(tErr{fmt.Sprintf("function %s%s: unsupported: %s", fn, pos, fmt.Sprintf(format, a...))})
}

func (tr *translator) load(dir string) *fxPkg {
	if p := tr.pkgs[dir]; p != nil {
		return p
	}
	p := &fxPkg{dir: dir, consts: map[string]*constDecl{}, vars: map[string]*ast.ValueSpec{},
		funcs: map[string]*ast.FuncDecl{}, dup: map[string]bool{}, types: map[string]ast.Expr{},
		imports: map[*ast.File]map[string]string{}, fileOf: map[ast.Node]*ast.File{}, names: map[*ast.File]string{}}
	tr.pkgs[dir] = p
	ents, err := os.ReadDir(filepath.Join(tr.repo, dir))
	if err != nil {
		panic(tErr{err.Error()})
	}
	var names []string
	for _, e := range ents {
		n := e.Name()
		if e.IsDir() || !strings.HasSuffix(n, ".go") || strings.HasSuffix(n, "_test.go") || strings.HasPrefix(n, "verif_") {
			continue
		}
		names = append(names, n)
	}
	sort.Strings(names)
	for _, n := range names {
		f, err := parser.ParseFile(tr.fset, filepath.Join(tr.repo, dir, n), nil, 0)
		if err != nil {
			panic(tErr{err.Error()})
		}
		p.files = append(p.files, f)
		p.names[f] = filepath.Join(dir, n)
		im := map[string]string{}
		for _, is := range f.Imports {
			path, _ := strconv.Unquote(is.Path.Value)
			local := filepath.Base(path)
			if is.Name != nil {
				local = is.Name.Name
			}
			if path == fxModulePath {
				im[local] = "."
			} else if strings.HasPrefix(path, fxModulePath+"/") {
				im[local] = strings.TrimPrefix(path, fxModulePath+"/")
			} else {
				im[local] = "std:" + path
			}
		}
		p.imports[f] = im
		for _, d := range f.Decls {
			switch d := d.(type) {
			case *ast.FuncDecl:
				key := d.Name.Name
				if r := fxRecvName(d); r != "" {
					key = r + "." + key
				}
				if p.funcs[key] != nil {
					p.dup[key] = true // build-tagged variants: ambiguous, refused when whitelisted
				}
				p.funcs[key] = d
				p.fileOf[d] = f
			case *ast.GenDecl:
				switch d.Tok {
				case token.CONST:
					var lastExpr []ast.Expr
					var lastTyp ast.Expr
					for i, s := range d.Specs {
						vs := s.(*ast.ValueSpec)
						if len(vs.Values) > 0 {
							lastExpr, lastTyp = vs.Values, vs.Type
						}
						for j, id := range vs.Names {
							if j < len(lastExpr) {
								p.consts[id.Name] = &constDecl{expr: lastExpr[j], typ: lastTyp, iota: i, file: n}
								p.fileOf[lastExpr[j]] = f
							}
						}
					}
				case token.VAR:
					for _, s := range d.Specs {
						vs := s.(*ast.ValueSpec)
						for _, id := range vs.Names {
							p.vars[id.Name] = vs
						}
						p.fileOf[vs] = f
					}
				case token.TYPE:
					for _, s := range d.Specs {
						ts := s.(*ast.TypeSpec)
						p.types[ts.Name.Name] = ts.Type
						p.fileOf[ts.Type] = f
					}
				}
			}
		}
	}
	return p
}

func fxRecvName(d *ast.FuncDecl) string {
	if d.Recv == nil || len(d.Recv.List) != 1 {
		return ""
	}
	t := d.Recv.List[0].Type
	if st, ok := t.(*ast.StarExpr); ok {
		t = st.X
	}
	if id, ok := t.(*ast.Ident); ok {
		return id.Name
	}
	return ""
}

// ---------------------------------------------------------------------------------------------
// per-function context

type vinfo struct {
	lean string
	ty   *ity
}

type pendBind struct{ name, text string }

type fctx struct {
	tr     *translator
	pk     *fxPkg
	file   *ast.File
	spec   *fxSpec
	name   string
	res    bool
	result *ity
	named  []string
	scopes []map[string]*vinfo
	used   map[string]int
	tmp    int
	pend   []pendBind
	retFn  func(string) string // how a `return e` is rendered (nil = function level)
	loops  []loopCtx
	goRes   []*ity   // Go results of the function being translated
	written []string // Go names of the written list parameters (appended to every return)
	consts map[string]bool     // memo guard for const evaluation
}

func (c *fctx) fail(n ast.Node, format string, a ...any) { c.tr.failf(c.name, n, format, a...) }

func (c *fctx) lookup(name string) *vinfo {
	for i := len(c.scopes) - 1; i >= 0; i-- {
		if v := c.scopes[i][name]; v != nil {
			return v
		}
	}
	return nil
}

func (c *fctx) declare(name string, ty *ity) string {
	if name == "_" {
		c.tmp++
		return fmt.Sprintf("_u%d", c.tmp)
	}
	lean := fxLeanIdent(name)
	if n := c.used[lean]; n > 0 {
		c.used[lean] = n + 1
		lean = fmt.Sprintf("%s_%d", lean, n)
	} else {
		c.used[lean] = 1
	}
	c.scopes[len(c.scopes)-1][name] = &vinfo{lean: lean, ty: ty}
	return lean
}

var leanKeywords = map[string]bool{"at": true, "from": true, "end": true, "open": true, "in": true, "fun": true,
	"have": true, "show": true, "then": true, "else": true, "do": true, "let": true, "if": true, "match": true,
	"with": true, "instance": true, "structure": true, "class": true, "def": true, "theorem": true, "by": true,
	"where": true, "deriving": true, "import": true, "namespace": true, "section": true, "variable": true,
	"universe": true, "prefix": true, "infix": true, "notation": true, "macro": true, "syntax": true, "mutual": true,
	"Type": true, "Prop": true, "Sort": true, "using": true, "calc": true, "local": true, "private": true, "protected": true,
	"step": true, "max": true, "min": true}

func fxLeanIdent(s string) string {
	if leanKeywords[s] {
		return s + "'"
	}
	return s
}

type snapshot struct {
	scopes []map[string]*vinfo
	used   map[string]int
}

func (c *fctx) snap() snapshot {
	s := snapshot{used: map[string]int{}}
	for _, m := range c.scopes {
		n := map[string]*vinfo{}
		for k, v := range m {
			n[k] = v
		}
		s.scopes = append(s.scopes, n)
	}
	for k, v := range c.used {
		s.used[k] = v
	}
	return s
}

func (c *fctx) restore(s snapshot) {
	cp := (&fctx{scopes: s.scopes, used: s.used}).snap() // deep copy: a snapshot can be restored twice
	c.scopes, c.used = cp.scopes, cp.used
}

func (c *fctx) push() { c.scopes = append(c.scopes, map[string]*vinfo{}) }
func (c *fctx) pop()  { c.scopes = c.scopes[:len(c.scopes)-1] }

// ---------------------------------------------------------------------------------------------
// Go type expressions

func (c *fctx) goType(pk *fxPkg, file *ast.File, e ast.Expr) *ity {
	switch t := e.(type) {
	case *ast.Ident:
		switch t.Name {
		case "int", "int64":
			return tyInt
		case "uint", "uint64":
			return &ity{k: tU, bits: 64}
		case "uint8", "byte":
			return &ity{k: tU, bits: 8}
		case "uint16":
			return &ity{k: tU, bits: 16}
		case "uint32":
			return &ity{k: tU, bits: 32}
		case "int8":
			return &ity{k: tS, bits: 8}
		case "int16":
			return &ity{k: tS, bits: 16}
		case "int32", "rune":
			return &ity{k: tS, bits: 32}
		case "bool":
			return tyBool
		}
		if u, ok := pk.types[t.Name]; ok {
			if st, ok := u.(*ast.StructType); ok {
				return c.structType(pk, t.Name, st)
			}
			return c.goType(pk, pk.fileOf[u], u)
		}
	case *ast.StarExpr:
		if r := c.goType(pk, file, t.X); r != nil && r.k == tStruct {
			return r // pointer to a struct that is only read
		}
	case *ast.ArrayType:
		if el := c.goType(pk, file, t.Elt); el != nil && (el.k == tInt || el.k == tU || el.k == tS) {
			return &ity{k: tList, elem: el}
		}
	case *ast.SelectorExpr:
		if x, ok := t.X.(*ast.Ident); ok && file != nil {
			if dir, ok := pk.imports[file][x.Name]; ok && !strings.HasPrefix(dir, "std:") {
				p2 := c.tr.load(dir)
				if u, ok := p2.types[t.Sel.Name]; ok {
					if st, ok := u.(*ast.StructType); ok {
						return c.structType(p2, t.Sel.Name, st)
					}
					return c.goType(p2, p2.fileOf[u], u)
				}
			} else if ok && dir == "std:image/color" && t.Sel.Name == "NRGBA" {
				// the standard library's `type NRGBA struct{ R, G, B, A uint8 }` (mapped explicitly)
				if s := c.tr.strs["NRGBA"]; s != nil {
					return s
				}
				u8 := &ity{k: tU, bits: 8}
				s := &ity{k: tStruct, name: "NRGBA", fields: []field{{"R", u8}, {"G", u8}, {"B", u8}, {"A", u8}}}
				c.tr.strs["NRGBA"] = s
				c.tr.strOrd = append(c.tr.strOrd, "NRGBA")
				return s
			}
		}
	}
	return nil
}

func (c *fctx) structType(pk *fxPkg, name string, st *ast.StructType) *ity {
	if s := c.tr.strs[name]; s != nil {
		return s
	}
	s := &ity{k: tStruct, name: name}
	c.tr.strs[name] = s // before the fields: recursive types stop here
	for _, f := range st.Fields.List {
		ft := c.goType(pk, pk.fileOf[st], f.Type)
		if ft != nil && !(ft.isInt() || ft.k == tBool || ft.k == tList) {
			ft = nil
		}
		for _, id := range f.Names {
			s.fields = append(s.fields, field{name: id.Name, ty: ft})
		}
	}
	c.tr.strOrd = append(c.tr.strOrd, name)
	return s
}

// ---------------------------------------------------------------------------------------------
// constants

// constVal evaluates e when it is an integer constant expression (package constants, iota, literals).
func (c *fctx) constVal(pk *fxPkg, file *ast.File, e ast.Expr, iota int, depth int) (constant.Value, *ity, bool) {
	if depth > 50 {
		return nil, nil, false
	}
	switch t := e.(type) {
	case *ast.BasicLit:
		if t.Kind == token.INT || t.Kind == token.CHAR {
			v := constant.MakeFromLiteral(t.Value, t.Kind, 0)
			return constant.ToInt(v), tyUntyped, v.Kind() != constant.Unknown
		}
	case *ast.ParenExpr:
		return c.constVal(pk, file, t.X, iota, depth+1)
	case *ast.Ident:
		if pk == c.pk && c.lookup(t.Name) != nil {
			return nil, nil, false
		}
		if t.Name == "iota" && iota >= 0 {
			return constant.MakeInt64(int64(iota)), tyUntyped, true
		}
		if d := pk.consts[t.Name]; d != nil {
			v, ty, ok := c.constVal(pk, pk.fileOf[d.expr], d.expr, d.iota, depth+1)
			if !ok {
				return nil, nil, false
			}
			if d.typ != nil {
				dt := c.goType(pk, pk.fileOf[d.expr], d.typ)
				if dt == nil || !dt.isInt() {
					return nil, nil, false
				}
				ty = dt
			}
			return v, ty, true
		}
	case *ast.SelectorExpr:
		if x, ok := t.X.(*ast.Ident); ok && file != nil && (pk != c.pk || c.lookup(x.Name) == nil) {
			if dir, ok := pk.imports[file][x.Name]; ok && !strings.HasPrefix(dir, "std:") {
				p2 := c.tr.load(dir)
				return c.constVal(p2, nil, &ast.Ident{Name: t.Sel.Name}, -1, depth+1)
			}
		}
	case *ast.UnaryExpr:
		v, ty, ok := c.constVal(pk, file, t.X, iota, depth+1)
		if !ok {
			return nil, nil, false
		}
		switch t.Op {
		case token.SUB, token.ADD:
			return constant.UnaryOp(t.Op, v, 0), ty, true
		case token.XOR:
			if ty.k == tUntyped || ty.k == tInt || ty.k == tS {
				return constant.UnaryOp(t.Op, v, 0), ty, true
			}
			return constant.UnaryOp(t.Op, v, uint(ty.bits)), ty, true
		}
	case *ast.BinaryExpr:
		a, ta, ok1 := c.constVal(pk, file, t.X, iota, depth+1)
		if !ok1 {
			return nil, nil, false
		}
		b, tb, ok2 := c.constVal(pk, file, t.Y, iota, depth+1)
		if !ok2 {
			return nil, nil, false
		}
		ty := ta
		switch t.Op {
		case token.SHL, token.SHR:
			s, ok := constant.Uint64Val(b)
			if !ok || s > 4096 {
				return nil, nil, false
			}
			return c.constWrap(constant.Shift(a, t.Op, uint(s)), ty)
		case token.ADD, token.SUB, token.MUL, token.AND, token.OR, token.XOR, token.AND_NOT, token.QUO, token.REM:
			if !ta.typed() {
				ty = tb
			}
			op := t.Op
			if op == token.QUO {
				if constant.Sign(b) == 0 {
					return nil, nil, false
				}
				op = token.QUO_ASSIGN // integer division
			}
			if op == token.REM && constant.Sign(b) == 0 {
				return nil, nil, false
			}
			return c.constWrap(constant.BinaryOp(a, op, b), ty)
		}
	case *ast.CallExpr:
		if len(t.Args) == 1 {
			if ty := c.goType(pk, file, t.Fun); ty != nil && ty.isInt() {
				if id, ok := t.Fun.(*ast.Ident); ok && pk == c.pk && c.lookup(id.Name) != nil {
					return nil, nil, false
				}
				v, _, ok := c.constVal(pk, file, t.Args[0], iota, depth+1)
				if !ok {
					return nil, nil, false
				}
				return c.constWrap(v, ty)
			}
		}
	}
	return nil, nil, false
}

// a typed constant must fit its type (the Go compiler rejects the program otherwise)
func (c *fctx) constWrap(v constant.Value, ty *ity) (constant.Value, *ity, bool) {
	if v.Kind() != constant.Int {
		return nil, nil, false
	}
	lo, hi := constant.MakeInt64(0), constant.MakeInt64(0)
	one := constant.MakeInt64(1)
	switch ty.k {
	case tUntyped:
		return v, ty, true
	case tInt:
		hi = constant.Shift(one, token.SHL, 63)
		lo = constant.UnaryOp(token.SUB, hi, 0)
	case tU:
		hi = constant.Shift(one, token.SHL, uint(ty.bits))
	case tS:
		hi = constant.Shift(one, token.SHL, uint(ty.bits-1))
		lo = constant.UnaryOp(token.SUB, hi, 0)
	}
	if constant.Compare(v, token.LSS, lo) || constant.Compare(v, token.GEQ, hi) {
		return nil, nil, false
	}
	return v, ty, true
}

func litText(v constant.Value) string {
	s := v.ExactString()
	if strings.HasPrefix(s, "-") {
		return "(" + s + ")"
	}
	return s
}

// ---------------------------------------------------------------------------------------------
// expressions

func wrapText(t *ity, s string) string {
	switch t.k {
	case tU:
		return fmt.Sprintf("(wrapU %d %s)", t.bits, s)
	case tS:
		return fmt.Sprintf("(wrapS %d %s)", t.bits, s)
	}
	return s
}

// conversion T(x): wraps that cannot change an in-range value are omitted
func convText(from, to *ity, s string) string {
	switch to.k {
	case tInt:
		if from.k == tU && from.bits == 64 {
			return fmt.Sprintf("(wrapS 64 %s)", s)
		}
		return s
	case tU:
		if from.k == tU && from.bits <= to.bits {
			return s
		}
		return wrapText(to, s)
	case tS:
		if (from.k == tS && from.bits <= to.bits) || (from.k == tU && from.bits < to.bits) {
			return s
		}
		return wrapText(to, s)
	}
	return s
}

func (c *fctx) partial(n ast.Node, text string) string {
	if !c.res {
		panic(needRes{})
	}
	c.tmp++
	name := fmt.Sprintf("t%d", c.tmp)
	c.pend = append(c.pend, pendBind{name, text})
	return name
}

func (c *fctx) flush(ind string) string {
	var b strings.Builder
	for _, p := range c.pend {
		fmt.Fprintf(&b, "%s(%s).bind fun %s =>\n", ind, p.text, p.name)
	}
	c.pend = nil
	return b.String()
}

func (c *fctx) expr(e ast.Expr, want *ity) (string, *ity) {
	if v, ty, ok := c.constVal(c.pk, c.file, e, -1, 0); ok {
		return litText(v), ty
	}
	switch t := e.(type) {
	case *ast.ParenExpr:
		return c.expr(t.X, want)
	case *ast.Ident:
		if v := c.lookup(t.Name); v != nil {
			return v.lean, v.ty
		}
		switch t.Name {
		case "true":
			return "true", tyBool
		case "false":
			return "false", tyBool
		}
		if vs := c.pk.vars[t.Name]; vs != nil {
			return c.tr.table(c, c.pk, t.Name, vs, e)
		}
		c.fail(e, "identifier %q is neither a local variable, a constant nor a constant table", t.Name)
	case *ast.SelectorExpr:
		if x, ok := t.X.(*ast.Ident); ok && c.lookup(x.Name) == nil {
			if dir, ok := c.pk.imports[c.file][x.Name]; ok && !strings.HasPrefix(dir, "std:") {
				p2 := c.tr.load(dir)
				if vs := p2.vars[t.Sel.Name]; vs != nil {
					return c.tr.table(c, p2, t.Sel.Name, vs, e)
				}
			}
			c.fail(e, "selector %s.%s", x.Name, t.Sel.Name)
		}
		s, ty := c.expr(t.X, nil)
		if ty.k != tStruct {
			c.fail(e, "field access on %s", ty)
		}
		for _, f := range ty.fields {
			if f.name == t.Sel.Name {
				if f.ty == nil {
					c.fail(e, "field %s.%s has an unsupported type", ty.name, f.name)
				}
				return fmt.Sprintf("%s.%s", s, fxLeanIdent(f.name)), f.ty
			}
		}
		c.fail(e, "no field %s in %s", t.Sel.Name, ty.name)
	case *ast.UnaryExpr:
		s, ty := c.expr(t.X, want)
		switch t.Op {
		case token.ADD:
			return s, ty
		case token.SUB:
			if ty.isInt() {
				return wrapText(ty, fmt.Sprintf("(-%s)", s)), ty
			}
		case token.XOR:
			if ty.isInt() {
				return wrapText(ty, fmt.Sprintf("(bnot %s)", s)), ty
			}
		case token.NOT:
			if ty.k == tBool {
				return fmt.Sprintf("(!%s)", s), ty
			}
		}
		c.fail(e, "unary %s on %s", t.Op, ty)
	case *ast.BinaryExpr:
		return c.binary(t, want)
	case *ast.IndexExpr:
		xs, tx := c.expr(t.X, nil)
		if tx.k != tList {
			c.fail(e, "index into %s", tx)
		}
		is, ti := c.expr(t.Index, nil)
		if !ti.isInt() {
			c.fail(e, "index of type %s", ti)
		}
		return c.partial(e, fmt.Sprintf("idxI %s %s", xs, is)), tx.elem
	case *ast.CompositeLit:
		st := c.goType(c.pk, c.file, t.Type)
		if st == nil || st.k != tStruct {
			c.fail(e, "composite literal")
		}
		vals := map[string]string{}
		for _, el := range t.Elts {
			kv, ok := el.(*ast.KeyValueExpr)
			if !ok {
				c.fail(e, "positional composite literal")
			}
			key, _ := kv.Key.(*ast.Ident)
			var ft *ity
			for _, f := range st.fields {
				if key != nil && f.name == key.Name {
					ft = f.ty
				}
			}
			if ft == nil || !(ft.isInt() || ft.k == tBool) {
				c.fail(el, "field of the composite literal")
			}
			v, tv := c.expr(kv.Value, ft)
			if tv.typed() && !sameTy(tv, ft) {
				c.fail(el, "field value of type %s for %s", tv, ft)
			}
			vals[key.Name] = v
		}
		var parts []string
		for _, f := range st.fields {
			if f.ty == nil {
				continue
			}
			v, ok := vals[f.name]
			if !ok {
				switch {
				case f.ty.k == tBool:
					v = "false"
				case f.ty.k == tList:
					v = "[]"
				default:
					v = "0"
				}
			}
			parts = append(parts, fmt.Sprintf("%s := %s", fxLeanIdent(f.name), v))
		}
		return fmt.Sprintf("({ %s } : %s)", strings.Join(parts, ", "), st.name), st
	case *ast.SliceExpr:
		xs, tx := c.expr(t.X, nil)
		if tx.k != tList || t.Slice3 {
			c.fail(e, "slice expression on %s", tx)
		}
		lo, hi := "0", fmt.Sprintf("(lenI %s)", xs)
		if t.Low != nil {
			var tl *ity
			if lo, tl = c.expr(t.Low, tyInt); !tl.isInt() {
				c.fail(e, "slice bound")
			}
		}
		if t.High != nil {
			var th *ity
			if hi, th = c.expr(t.High, tyInt); !th.isInt() {
				c.fail(e, "slice bound")
			}
		}
		return c.partial(e, fmt.Sprintf("sliceI %s %s %s", xs, lo, hi)), tx
	case *ast.CallExpr:
		if m := c.leCall(t); m != "" {
			fn := leGet[m]
			if fn == "" || len(t.Args) != 1 {
				c.fail(e, "binary.LittleEndian.%s inside an expression", m)
			}
			xs, tx := c.expr(t.Args[0], nil)
			if tx.k != tList || tx.elem.k != tU || tx.elem.bits != 8 {
				c.fail(e, "binary.LittleEndian.%s of %s", m, tx)
			}
			bits := 16
			if m == "Uint32" {
				bits = 32
			}
			return c.partial(e, fn+" "+xs), &ity{k: tU, bits: bits}
		}
		return c.call(t, want)
	}
	c.fail(e, "expression")
	return "", nil
}

func (c *fctx) binary(t *ast.BinaryExpr, want *ity) (string, *ity) {
	switch t.Op {
	case token.LAND, token.LOR:
		a, ta := c.expr(t.X, nil)
		n := len(c.pend)
		b, tb := c.expr(t.Y, nil)
		if ta.k != tBool || tb.k != tBool {
			c.fail(t, "%s on non-bool", t.Op)
		}
		if len(c.pend) != n {
			// short-circuit: the partial operations of the right operand run only when it is evaluated
			inner := ""
			for _, p := range c.pend[n:] {
				inner += fmt.Sprintf("(%s).bind fun %s => ", p.text, p.name)
			}
			c.pend = c.pend[:n]
			inner += ".ok " + b
			if t.Op == token.LAND {
				return c.partial(t, fmt.Sprintf("if %s then %s else .ok false", a, inner)), tyBool
			}
			return c.partial(t, fmt.Sprintf("if %s then .ok true else %s", a, inner)), tyBool
		}
		op := "&&"
		if t.Op == token.LOR {
			op = "||"
		}
		return fmt.Sprintf("(%s %s %s)", a, op, b), tyBool
	case token.SHL, token.SHR:
		a, ta := c.expr(t.X, want)
		if !ta.typed() { // untyped constant shifted by a non-constant count: type from the context
			ta = want
			if ta == nil || !ta.isInt() || !ta.typed() {
				ta = tyInt
			}
		}
		if !ta.isInt() {
			c.fail(t, "shift of %s", ta)
		}
		s, ts := c.expr(t.Y, nil)
		if !ts.isInt() {
			c.fail(t, "shift count of type %s", ts)
		}
		if ts.k == tInt || ts.k == tS {
			s = c.partial(t, "chkShift "+s) // Go panics on a negative shift count
		}
		if t.Op == token.SHL {
			return wrapText(ta, fmt.Sprintf("(shl %s %s)", a, s)), ta
		}
		return fmt.Sprintf("(shr %s %s)", a, s), ta
	}
	// operands of equal type; an untyped (constant) side takes the type of the other
	a, ta := c.expr(t.X, want)
	hint := want
	if ta.typed() {
		hint = ta
	}
	isCmp := t.Op == token.EQL || t.Op == token.NEQ || t.Op == token.LSS || t.Op == token.LEQ || t.Op == token.GTR || t.Op == token.GEQ
	if isCmp && !ta.typed() {
		hint = nil
	}
	b, tb := c.expr(t.Y, hint)
	ty := ta
	if !ty.typed() {
		ty = tb
	}
	if ta.typed() && tb.typed() && !sameTy(ta, tb) {
		c.fail(t, "mismatched operand types %s and %s", ta, tb)
	}
	if isCmp {
		if ty.k == tBool {
			if t.Op == token.EQL {
				return fmt.Sprintf("(%s == %s)", a, b), tyBool
			}
			if t.Op == token.NEQ {
				return fmt.Sprintf("(%s != %s)", a, b), tyBool
			}
		}
		if !ty.isInt() {
			c.fail(t, "comparison of %s", ty)
		}
		op := map[token.Token]string{token.EQL: "=", token.NEQ: "≠", token.LSS: "<", token.LEQ: "≤", token.GTR: ">", token.GEQ: "≥"}[t.Op]
		return fmt.Sprintf("(decide (%s %s %s))", a, op, b), tyBool
	}
	if !ty.isInt() {
		c.fail(t, "operator %s on %s", t.Op, ty)
	}
	switch t.Op {
	case token.ADD, token.SUB, token.MUL:
		return wrapText(ty, fmt.Sprintf("(%s %s %s)", a, t.Op, b)), ty
	case token.AND:
		return fmt.Sprintf("(band %s %s)", a, b), ty
	case token.OR:
		return fmt.Sprintf("(bor %s %s)", a, b), ty
	case token.XOR:
		return fmt.Sprintf("(bxor %s %s)", a, b), ty
	case token.AND_NOT:
		return fmt.Sprintf("(bandNot %s %s)", a, b), ty
	case token.QUO, token.REM:
		if v, _, ok := c.constVal(c.pk, c.file, t.Y, -1, 0); !ok || constant.Sign(v) == 0 {
			b = c.partial(t, "chkDiv "+b) // Go panics on division by zero
		}
		if t.Op == token.REM {
			return fmt.Sprintf("(Int.tmod %s %s)", a, b), ty
		}
		s := fmt.Sprintf("(Int.tdiv %s %s)", a, b)
		if ty.k == tS {
			s = wrapText(ty, s) // minInt / -1
		}
		return s, ty
	}
	c.fail(t, "operator %s", t.Op)
	return "", nil
}

var stdBuiltins = map[string]string{
	"bits.Len32": "bitsLen", "bits.Len64": "bitsLen", "bits.Len": "bitsLen", "bits.Len8": "bitsLen", "bits.Len16": "bitsLen",
	"bits.LeadingZeros32": "leadingZeros32",
}

func (c *fctx) call(t *ast.CallExpr, want *ity) (string, *ity) {
	if t.Ellipsis.IsValid() {
		c.fail(t, "variadic call")
	}
	// conversion
	if len(t.Args) == 1 {
		shadow := false
		if id, ok := t.Fun.(*ast.Ident); ok && c.lookup(id.Name) != nil {
			shadow = true
		}
		if to := c.goType(c.pk, c.file, t.Fun); to != nil && !shadow {
			if !to.isInt() {
				c.fail(t, "conversion to %s", to)
			}
			s, from := c.expr(t.Args[0], to)
			if !from.isInt() {
				c.fail(t, "conversion from %s", from)
			}
			if !from.typed() {
				return s, to
			}
			return convText(from, to, s), to
		}
	}
	switch f := t.Fun.(type) {
	case *ast.Ident:
		if v := c.lookup(f.Name); v != nil {
			if v.ty.k != tFunc || len(t.Args) != len(v.ty.parts) {
				c.fail(t, "call of a local value that is not a translated closure")
			}
			var args []string
			for i, a := range t.Args {
				sa, ta := c.expr(a, v.ty.parts[i])
				if ta.typed() && !sameTy(ta, v.ty.parts[i]) {
					c.fail(a, "argument of type %s for parameter of type %s", ta, v.ty.parts[i])
				}
				args = append(args, sa)
			}
			text := v.lean + " " + strings.Join(args, " ")
			if v.ty.resFn {
				return c.partial(t, text), v.ty.ret
			}
			return "(" + text + ")", v.ty.ret
		}
		switch f.Name {
		case "len":
			if len(t.Args) == 1 {
				s, ty := c.expr(t.Args[0], nil)
				if ty.k == tList {
					return fmt.Sprintf("(lenI %s)", s), tyInt
				}
			}
			c.fail(t, "len of a non-slice")
		case "min", "max":
			if c.pk.funcs[f.Name] == nil && len(t.Args) == 2 {
				a, ta := c.expr(t.Args[0], want)
				b, tb := c.expr(t.Args[1], want)
				ty := ta
				if !ty.typed() {
					ty = tb
				}
				if !ty.isInt() || (ta.typed() && tb.typed() && !sameTy(ta, tb)) {
					c.fail(t, "%s of %s and %s", f.Name, ta, tb)
				}
				if !ty.typed() {
					ty = tyInt
				}
				return fmt.Sprintf("(%sI %s %s)", f.Name, a, b), ty
			}
		}
		return c.userCall(t, c.pk, "", f.Name, nil)
	case *ast.SelectorExpr:
		if x, ok := f.X.(*ast.Ident); ok && c.lookup(x.Name) == nil {
			dir, ok := c.pk.imports[c.file][x.Name]
			if !ok {
				c.fail(t, "call through unknown package %s", x.Name)
			}
			if strings.HasPrefix(dir, "std:") {
				if b := stdBuiltins[x.Name+"."+f.Sel.Name]; b != "" && len(t.Args) == 1 {
					s, ty := c.expr(t.Args[0], nil)
					if ty.k != tU {
						c.fail(t, "%s of %s", f.Sel.Name, ty)
					}
					return fmt.Sprintf("(%s %s)", b, s), tyInt
				}
				c.fail(t, "call of %s.%s is not in the builtin list", x.Name, f.Sel.Name)
			}
			return c.userCall(t, c.tr.load(dir), "", f.Sel.Name, nil)
		}
		// method call on a struct value
		rs, rt := c.expr(f.X, nil)
		if rt.k != tStruct {
			c.fail(t, "method call on %s", rt)
		}
		return c.userCall(t, c.pk, rt.name, f.Sel.Name, &rs)
	}
	c.fail(t, "call")
	return "", nil
}

func (c *fctx) userCall(t *ast.CallExpr, pk *fxPkg, recv, name string, recvText *string) (string, *ity) {
	key := specKey(pk.dir, recv, name)
	sp := c.tr.specs[key]
	if sp == nil {
		c.fail(t, "call of %s, which is not whitelisted", strings.TrimPrefix(key, "|"))
	}
	out := c.tr.translate(sp)
	if out.params == nil && out.result == nil {
		c.fail(t, "call of %s, which could not be translated", name)
	}
	if len(out.written) != 0 {
		c.fail(t, "call of %s, which writes a slice argument, inside an expression", name)
	}
	var args []string
	if recvText != nil {
		args = append(args, *recvText)
	}
	np := len(out.params)
	if recvText != nil {
		np--
	}
	if len(t.Args) != np {
		c.fail(t, "argument count")
	}
	for i, a := range t.Args {
		pt := out.params[i+len(out.params)-np]
		s, ty := c.expr(a, pt)
		if ty.typed() && !sameTy(ty, pt) {
			c.fail(a, "argument of type %s for parameter of type %s", ty, pt)
		}
		args = append(args, s)
	}
	text := out.lean + " " + strings.Join(args, " ")
	if out.res {
		return c.partial(t, text), out.result
	}
	return "(" + text + ")", out.result
}

// table renders a package-level `var T = [N]intType{consts…}` as a Lean list (once)
func (tr *translator) table(c *fctx, pk *fxPkg, name string, vs *ast.ValueSpec, at ast.Node) (string, *ity) {
	lean := name
	if pk != c.pk {
		lean = filepath.Base(pk.dir) + "_" + name
	}
	if isp := tr.initTables[pk.dir+"|"+name]; isp != nil {
		out := tr.translate(isp)
		if out.params == nil && out.result == nil {
			c.fail(at, "table %s: its init function could not be translated", name)
		}
		lt := c.goType(pk, pk.fileOf[vs], vs.Type)
		if lt == nil || lt.k != tList {
			c.fail(at, "table %s: type", name)
		}
		return tableLean(c, pk, name), lt
	}
	idx := -1
	for i, id := range vs.Names {
		if id.Name == name {
			idx = i
		}
	}
	if idx < 0 || idx >= len(vs.Values) {
		c.fail(at, "package variable %s has no initialiser (a table filled at run time is not translated)", name)
	}
	cl, ok := vs.Values[idx].(*ast.CompositeLit)
	if !ok {
		c.fail(at, "package variable %s is not a composite literal", name)
	}
	at2, ok := cl.Type.(*ast.ArrayType)
	if !ok {
		c.fail(at, "package variable %s is not an array", name)
	}
	el := c.goType(pk, pk.fileOf[vs], at2.Elt)
	if el == nil || !(el.k == tInt || el.k == tU || el.k == tS) {
		c.fail(at, "package variable %s: element type", name)
	}
	ty := &ity{k: tList, elem: el}
	if _, done := tr.tables[lean]; done {
		return lean, ty
	}
	// the table must never be assigned anywhere in its package
	for _, f := range pk.files {
		ast.Inspect(f, func(n ast.Node) bool {
			check := func(l ast.Expr) {
				for {
					switch x := l.(type) {
					case *ast.IndexExpr:
						l = x.X
						continue
					case *ast.ParenExpr:
						l = x.X
						continue
					}
					break
				}
				if id, ok := l.(*ast.Ident); ok && id.Name == name && id.Obj == nil {
					c.fail(n, "package table %s is assigned", name)
				}
			}
			switch s := n.(type) {
			case *ast.AssignStmt:
				if s.Tok != token.DEFINE {
					for _, l := range s.Lhs {
						check(l)
					}
				}
			case *ast.IncDecStmt:
				check(s.X)
			case *ast.UnaryExpr:
				if s.Op == token.AND {
					check(s.X)
				}
			}
			return true
		})
	}
	var vals []string
	for _, e := range cl.Elts {
		if _, ok := e.(*ast.KeyValueExpr); ok {
			c.fail(e, "keyed element in table %s", name)
		}
		v, _, ok := c.constVal(pk, pk.fileOf[vs], e, -1, 0)
		if !ok {
			c.fail(e, "non-constant element in table %s", name)
		}
		if _, _, ok := c.constWrap(v, el); !ok {
			c.fail(e, "element of table %s does not fit %s", name, el)
		}
		vals = append(vals, v.ExactString())
	}
	if at2.Len != nil {
		if n, _, ok := c.constVal(pk, pk.fileOf[vs], at2.Len, -1, 0); ok {
			if k, _ := constant.Int64Val(n); int(k) > len(vals) {
				for len(vals) < int(k) {
					vals = append(vals, "0")
				}
			}
		} else if _, ok := at2.Len.(*ast.Ellipsis); !ok {
			c.fail(at, "length of table %s", name)
		}
	}
	var b strings.Builder
	fmt.Fprintf(&b, "/-- %s: `var %s` (%d entries of %s; never assigned in the package) -/\ndef %s : List Int := [", pk.dir, name, len(vals), el, lean)
	for i, v := range vals {
		if i%16 == 0 {
			b.WriteString("\n  ")
		}
		b.WriteString(v)
		if i != len(vals)-1 {
			b.WriteString(",")
			if i%16 != 15 {
				b.WriteString(" ")
			}
		}
	}
	b.WriteString("]\n")
	tr.tables[lean] = b.String()
	tr.tabOrd = append(tr.tabOrd, lean)
	return lean, ty
}

// ---------------------------------------------------------------------------------------------
// statements (continuation passing: k renders what follows when control falls through)

type kont func(ind string) string

func hasReturn(n ast.Node) bool {
	found := false
	ast.Inspect(n, func(x ast.Node) bool {
		if _, ok := x.(*ast.ReturnStmt); ok {
			found = true
		}
		if _, ok := x.(*ast.FuncLit); ok {
			return false
		}
		return !found
	})
	return found
}

// assigned lists, in order of first occurrence, the variables visible at the statement that are
// assigned inside it
func (c *fctx) assigned(nodes ...ast.Node) []string {
	var out []string
	seen := map[string]bool{}
	add := func(e ast.Expr, at ast.Node) {
		id := baseIdent(e)
		if id == nil {
			c.fail(at, "assignment to something that is not a variable or an element of a slice variable")
		}
		if id.Name == "_" {
			return
		}
		if c.lookup(id.Name) != nil && !seen[id.Name] {
			seen[id.Name] = true
			out = append(out, id.Name)
		}
	}
	for _, n := range nodes {
		if n == nil {
			continue
		}
		ast.Inspect(n, func(x ast.Node) bool {
			switch s := x.(type) {
			case *ast.AssignStmt:
				if s.Tok == token.DEFINE {
					for _, l := range s.Lhs {
						if id, ok := l.(*ast.Ident); ok && id.Name != "_" && c.lookup(id.Name) != nil {
							c.fail(s, "`:=` shadows the visible variable %s inside a branch or loop", id.Name)
						}
					}
				} else {
					for _, l := range s.Lhs {
						add(l, s)
					}
				}
			case *ast.IncDecStmt:
				add(s.X, s)
			case *ast.CallExpr:
				for _, i := range c.callWrites(s) {
					add(s.Args[i], s)
				}
			case *ast.DeclStmt:
				if gd, ok := s.Decl.(*ast.GenDecl); ok {
					for _, sp := range gd.Specs {
						if vs, ok := sp.(*ast.ValueSpec); ok {
							for _, id := range vs.Names {
								if c.lookup(id.Name) != nil {
									c.fail(s, "`var` shadows the visible variable %s inside a branch or loop", id.Name)
								}
							}
						}
					}
				}
			}
			return true
		})
	}
	return out
}

func (c *fctx) tupleOf(names []string) (string, string) {
	if len(names) == 0 {
		return "()", "_"
	}
	var l []string
	for _, n := range names {
		l = append(l, c.lookup(n).lean)
	}
	if len(l) == 1 {
		return l[0], l[0]
	}
	s := "(" + strings.Join(l, ", ") + ")"
	return s, s
}

func (c *fctx) ret(s string) string {
	if c.retFn != nil {
		return c.retFn(s)
	}
	if c.res {
		return ".ok " + s
	}
	return s
}

func (c *fctx) stmts(list []ast.Stmt, ind string, k kont) string {
	if len(list) == 0 {
		return k(ind)
	}
	s, rest := list[0], list[1:]
	next := func(ind string) string { return c.stmts(rest, ind, k) }
	switch t := s.(type) {
	case *ast.EmptyStmt:
		return next(ind)
	case *ast.BlockStmt:
		c.push()
		sn := c.snap()
		return c.stmts(t.List, ind, func(ind string) string {
			// leaving the block: names declared inside disappear, assignments to outer ones persist
			// (they were rendered as shadowing lets of the same Lean name)
			c.scopes = c.scopes[:len(sn.scopes)-1]
			return next(ind)
		})
	case *ast.ReturnStmt:
		return c.retStmt(t, ind)
	case *ast.ExprStmt:
		if call, ok := t.X.(*ast.CallExpr); ok {
			return c.callStmt(call, nil, false, ind) + next(ind)
		}
		c.fail(s, "expression statement")
	case *ast.DeclStmt:
		gd, ok := t.Decl.(*ast.GenDecl)
		if !ok || gd.Tok != token.VAR {
			c.fail(s, "declaration")
		}
		var b strings.Builder
		for _, sp := range gd.Specs {
			vs := sp.(*ast.ValueSpec)
			var vt *ity
			if at, ok := vs.Type.(*ast.ArrayType); ok && at.Len != nil && len(vs.Values) == 0 {
				n, _, okc := c.constVal(c.pk, c.file, at.Len, -1, 0)
				lt := c.goType(c.pk, c.file, vs.Type)
				if !okc || lt == nil || lt.k != tList {
					c.fail(s, "array variable")
				}
				for _, id := range vs.Names {
					fmt.Fprintf(&b, "%slet %s : List Int := zerosI %s\n", ind, c.declare(id.Name, lt), n.ExactString())
				}
				continue
			}
			if vs.Type != nil {
				vt = c.goType(c.pk, c.file, vs.Type)
				if vt == nil || !(vt.isInt() || vt.k == tBool) {
					c.fail(s, "variable type")
				}
			}
			if len(vs.Values) != 0 && len(vs.Values) != len(vs.Names) {
				c.fail(s, "var with a multi-value initialiser")
			}
			for i, id := range vs.Names {
				val, ty := "0", vt
				if len(vs.Values) > 0 {
					val, ty = c.expr(vs.Values[i], vt)
					if vt != nil {
						if ty.typed() && !sameTy(ty, vt) {
							c.fail(s, "initialiser of type %s for %s", ty, vt)
						}
						ty = vt
					}
				} else if vt.k == tBool {
					val = "false"
				}
				if !ty.typed() {
					ty = tyInt
				}
				b.WriteString(c.flush(ind))
				fmt.Fprintf(&b, "%slet %s : %s := %s\n", ind, c.declare(id.Name, ty), ty.lean(), val)
			}
		}
		return b.String() + next(ind)
	case *ast.IncDecStmt:
		op := token.ADD_ASSIGN
		if t.Tok == token.DEC {
			op = token.SUB_ASSIGN
		}
		return c.stmts(append([]ast.Stmt{&ast.AssignStmt{Lhs: []ast.Expr{t.X}, TokPos: t.TokPos, Tok: op,
			Rhs: []ast.Expr{&ast.BasicLit{ValuePos: t.TokPos, Kind: token.INT, Value: "1"}}}}, rest...), ind, k)
	case *ast.AssignStmt:
		if fl, ok := t.Rhs[0].(*ast.FuncLit); ok && len(t.Lhs) == 1 && len(t.Rhs) == 1 && t.Tok == token.DEFINE {
			return c.closure(t.Lhs[0], fl, ind) + next(ind)
		}
		return c.assign(t, ind) + next(ind)
	case *ast.IfStmt:
		return c.ifStmt(t, ind, next)
	case *ast.SwitchStmt:
		return c.stmts(append(c.switchToIf(t), rest...), ind, k)
	case *ast.ForStmt:
		return c.forStmt(t, ind, next)
	case *ast.RangeStmt:
		return c.forStmt(c.rangeToFor(t), ind, next)
	case *ast.BranchStmt:
		if len(c.loops) == 0 || t.Label != nil {
			c.fail(s, "%s outside a loop", t.Tok)
		}
		if t.Tok == token.CONTINUE {
			return c.loops[len(c.loops)-1].cont(ind)
		}
		if t.Tok == token.BREAK {
			return c.loops[len(c.loops)-1].brk(ind)
		}
	}
	c.fail(s, "statement")
	return ""
}

func (c *fctx) retStmt(t *ast.ReturnStmt, ind string) string {
	var parts []string
	ws := c.goRes
	if len(t.Results) == 0 {
		if len(ws) != 0 && len(c.named) == 0 {
			c.fail(t, "bare return in a function without named results")
		}
		for _, n := range c.named {
			parts = append(parts, c.lookup(n).lean)
		}
	} else if len(ws) > 1 && len(t.Results) == 1 {
		if len(c.written) != 0 {
			c.fail(t, "return f(x) with a multi-value f in a function that writes a slice")
		}
		s, ty := c.expr(t.Results[0], nil) // return f(x) with a multi-value f
		if ty.k != tTuple || len(ty.parts) != len(ws) {
			c.fail(t, "return value count")
		}
		parts = []string{s}
	} else {
		if len(ws) != len(t.Results) {
			c.fail(t, "return value count")
		}
		for i, r := range t.Results {
			s, ty := c.expr(r, ws[i])
			if ty.typed() && !sameTy(ty, ws[i]) {
				c.fail(r, "returned %s for result type %s", ty, ws[i])
			}
			parts = append(parts, s)
		}
	}
	pre := c.flush(ind)
	return pre + ind + c.ret(c.withWritten(parts)) + "\n"
}

// withWritten appends the current values of the written list parameters to the Go results
func (c *fctx) withWritten(parts []string) string {
	for _, w := range c.written {
		parts = append(parts, c.lookup(w).lean)
	}
	if len(parts) == 1 {
		return parts[0]
	}
	return "(" + strings.Join(parts, ", ") + ")"
}

// closure: `f := func(params) T { body }` that only reads the variables it captures becomes a
// local Lean function
func (c *fctx) closure(lhs ast.Expr, fl *ast.FuncLit, ind string) string {
	id, ok := lhs.(*ast.Ident)
	if !ok || fl.Type.Results == nil || len(fl.Type.Results.List) != 1 || len(fl.Type.Results.List[0].Names) > 1 {
		c.fail(fl, "closure shape (one unnamed result expected)")
	}
	rt := c.goType(c.pk, c.file, fl.Type.Results.List[0].Type)
	if rt == nil || !(rt.isInt() || rt.k == tBool) {
		c.fail(fl, "closure result type")
	}
	if w := c.assigned(fl.Body); len(w) != 0 {
		c.fail(fl, "closure assigns the captured variable %s", w[0])
	}
	render := func(res bool) (text string, okRender bool) {
		sn, tmp := c.snap(), c.tmp
		save := *c
		defer func() {
			scopes, used, tmp2 := c.scopes, c.used, c.tmp
			*c = save
			c.scopes, c.used, c.tmp = scopes, used, tmp2
			c.restore(sn)
			if r := recover(); r != nil {
				if _, isNeed := r.(needRes); isNeed && !res {
					c.tmp = tmp
					text, okRender = "", false
					return
				}
				panic(r)
			}
		}()
		c.res, c.result, c.goRes, c.named, c.written, c.retFn, c.loops, c.pend = res, rt, []*ity{rt}, nil, nil, nil, nil, nil
		c.push()
		var ps []string
		for _, p := range fl.Type.Params.List {
			pt := c.goType(c.pk, c.file, p.Type)
			if pt == nil || !(pt.isInt() || pt.k == tBool) || len(p.Names) == 0 {
				c.fail(fl, "closure parameter")
			}
			for _, n := range p.Names {
				ps = append(ps, fmt.Sprintf("(%s : %s)", c.declare(n.Name, pt), pt.lean()))
			}
		}
		body := c.stmts(fl.Body.List, ind+"    ", func(string) string {
			c.fail(fl, "control can reach the end of the closure body")
			return ""
		})
		return "fun " + strings.Join(ps, " ") + " =>\n" + body, true
	}
	if len(c.pend) != 0 {
		c.fail(fl, "closure after pending partial operations")
	}
	text, okR := render(false)
	resFn := false
	if !okR {
		if !c.res {
			panic(needRes{})
		}
		text, _ = render(true)
		resFn = true
	}
	var pts []*ity
	for _, p := range fl.Type.Params.List {
		pt := c.goType(c.pk, c.file, p.Type)
		for range p.Names {
			pts = append(pts, pt)
		}
	}
	name := c.declare(id.Name, &ity{k: tFunc, parts: pts, ret: rt, resFn: resFn})
	return fmt.Sprintf("%slet %s := %s", ind, name, text)
}

func baseIdent(e ast.Expr) *ast.Ident {
	for {
		switch x := e.(type) {
		case *ast.Ident:
			return x
		case *ast.IndexExpr:
			e = x.X
		case *ast.SliceExpr:
			e = x.X
		case *ast.ParenExpr:
			e = x.X
		default:
			return nil
		}
	}
}

var lePut = map[string]string{"PutUint16": "lePutU16", "PutUint32": "lePutU32"}
var leGet = map[string]string{"Uint16": "leU16", "Uint32": "leU32"}

// leCall recognises binary.LittleEndian.<M>(…) (encoding/binary), a mapped builtin
func (c *fctx) leCall(t *ast.CallExpr) string {
	f, ok := t.Fun.(*ast.SelectorExpr)
	if !ok {
		return ""
	}
	le, ok := f.X.(*ast.SelectorExpr)
	if !ok || le.Sel.Name != "LittleEndian" {
		return ""
	}
	x, ok := le.X.(*ast.Ident)
	if !ok || c.lookup(x.Name) != nil || c.pk.imports[c.file][x.Name] != "std:encoding/binary" {
		return ""
	}
	return f.Sel.Name
}

// calleeOut resolves a call of a whitelisted function (nil when it is something else)
func (c *fctx) calleeOut(t *ast.CallExpr) (out *fnOut, recv ast.Expr) {
	var sp *fxSpec
	switch f := t.Fun.(type) {
	case *ast.Ident:
		if c.lookup(f.Name) == nil {
			sp = c.tr.specs[specKey(c.pk.dir, "", f.Name)]
		}
	case *ast.SelectorExpr:
		if x, ok := f.X.(*ast.Ident); ok && c.lookup(x.Name) == nil {
			if dir, ok := c.pk.imports[c.file][x.Name]; ok && !strings.HasPrefix(dir, "std:") {
				sp = c.tr.specs[specKey(dir, "", f.Sel.Name)]
			}
		} else if ok {
			if v := c.lookup(x.Name); v != nil && v.ty.k == tStruct {
				sp = c.tr.specs[specKey(c.pk.dir, v.ty.name, f.Sel.Name)]
				recv = f.X
			}
		}
	}
	if sp == nil {
		return nil, nil
	}
	return c.tr.translate(sp), recv
}

// callWrites: indices of the arguments (slice variables) that the call writes
func (c *fctx) callWrites(t *ast.CallExpr) []int {
	if m := c.leCall(t); lePut[m] != "" {
		return []int{0}
	}
	out, recv := c.calleeOut(t)
	if out == nil || len(out.written) == 0 {
		return nil
	}
	var idx []int
	for _, w := range out.written {
		if recv != nil {
			w--
		}
		idx = append(idx, w)
	}
	return idx
}

// callStmt renders a call used as a statement or as the single right-hand side of an assignment,
// when the callee writes slice arguments: the updated slices come back after the Go results
func (c *fctx) callStmt(t *ast.CallExpr, lhs []ast.Expr, define bool, ind string) string {
	if !c.res {
		panic(needRes{})
	}
	writes := c.callWrites(t)
	isW := map[int]bool{}
	for _, w := range writes {
		isW[w] = true
	}
	var fn string
	var ptys, rtys []*ity
	var args []string
	if m := c.leCall(t); m != "" {
		fn = lePut[m]
		if fn == "" || len(t.Args) != 2 {
			c.fail(t, "binary.LittleEndian.%s as a statement", m)
		}
		bits := 16
		if m == "PutUint32" {
			bits = 32
		}
		ptys = []*ity{{k: tList, elem: &ity{k: tU, bits: 8}}, {k: tU, bits: bits}}
	} else {
		out, recv := c.calleeOut(t)
		if out == nil {
			c.fail(t, "call statement of a function that is not whitelisted")
		}
		if out.params == nil {
			c.fail(t, "call of a function that could not be translated")
		}
		if len(out.written) == 0 {
			c.fail(t, "call statement of a function without slice side effects")
		}
		fn, ptys, rtys = out.lean, out.params, out.goRes
		if recv != nil {
			s, _ := c.expr(recv, nil)
			args = append(args, s)
			ptys = ptys[1:]
		}
	}
	if len(t.Args) != len(ptys) {
		c.fail(t, "argument count")
	}
	if len(lhs) != 0 && len(lhs) != len(rtys) {
		c.fail(t, "assignment arity")
	}
	type back struct {
		v       *vinfo
		off, tm string
	}
	var backs []back
	var pats []string
	for i, a := range t.Args {
		if !isW[i] {
			s, ty := c.expr(a, ptys[i])
			if ty.typed() && !sameTy(ty, ptys[i]) {
				c.fail(a, "argument of type %s for parameter of type %s", ty, ptys[i])
			}
			args = append(args, s)
			continue
		}
		id := baseIdent(a)
		var v *vinfo
		if id != nil {
			v = c.lookup(id.Name)
		}
		if v == nil || v.ty.k != tList || !sameTy(v.ty, ptys[i]) {
			c.fail(a, "written slice argument must be a slice variable (or x[a:], x[a:b]) of the parameter type")
		}
		switch x := a.(type) {
		case *ast.Ident:
			args = append(args, v.lean)
			backs = append(backs, back{v: v})
		case *ast.SliceExpr:
			if _, ok := x.X.(*ast.Ident); !ok || x.Slice3 {
				c.fail(a, "written slice argument")
			}
			off := "0"
			if x.Low != nil {
				off, _ = c.expr(x.Low, tyInt)
			}
			sub, _ := c.expr(a, nil)
			args = append(args, sub)
			c.tmp++
			backs = append(backs, back{v: v, off: off, tm: fmt.Sprintf("w%d", c.tmp)})
		default:
			c.fail(a, "written slice argument")
		}
	}
	var b strings.Builder
	b.WriteString(c.flush(ind))
	for i := range rtys {
		if len(lhs) == 0 {
			pats = append(pats, c.declare("_", rtys[i]))
			continue
		}
		id, ok := lhs[i].(*ast.Ident)
		if !ok {
			c.fail(t, "assignment target")
		}
		if id.Name == "_" {
			pats = append(pats, c.declare("_", rtys[i]))
		} else if define {
			pats = append(pats, c.declare(id.Name, rtys[i]))
		} else {
			v := c.lookup(id.Name)
			if v == nil || !sameTy(v.ty, rtys[i]) {
				c.fail(t, "assignment target %s", id.Name)
			}
			pats = append(pats, v.lean)
		}
	}
	for _, bk := range backs {
		if bk.tm != "" {
			pats = append(pats, bk.tm)
		} else {
			pats = append(pats, bk.v.lean)
		}
	}
	pat := pats[0]
	if len(pats) > 1 {
		pat = "(" + strings.Join(pats, ", ") + ")"
	}
	fmt.Fprintf(&b, "%s(%s %s).bind fun %s =>\n", ind, fn, strings.Join(args, " "), pat)
	for _, bk := range backs {
		if bk.tm != "" {
			fmt.Fprintf(&b, "%slet %s : List Int := spliceI %s %s %s\n", ind, bk.v.lean, bk.v.lean, bk.off, bk.tm)
		}
	}
	return b.String()
}

func (c *fctx) assign(t *ast.AssignStmt, ind string) string {
	var b strings.Builder
	if len(t.Rhs) == 1 && (t.Tok == token.DEFINE || t.Tok == token.ASSIGN) {
		if call, ok := t.Rhs[0].(*ast.CallExpr); ok && len(c.callWrites(call)) != 0 {
			return c.callStmt(call, t.Lhs, t.Tok == token.DEFINE, ind)
		}
	}
	if ix, ok := t.Lhs[0].(*ast.IndexExpr); ok && len(t.Lhs) == 1 && len(t.Rhs) == 1 && t.Tok == token.ASSIGN {
		// xs[i] = v : functional update of the slice variable
		id, ok := ix.X.(*ast.Ident)
		var v *vinfo
		if ok {
			v = c.lookup(id.Name)
		}
		if v == nil || v.ty.k != tList {
			c.fail(t, "element assignment to something that is not a local slice/array variable or parameter")
		}
		if !c.res {
			panic(needRes{})
		}
		is, ti := c.expr(ix.Index, nil)
		if !ti.isInt() {
			c.fail(t, "index of type %s", ti)
		}
		val, tv := c.expr(t.Rhs[0], v.ty.elem)
		if tv.typed() && !sameTy(tv, v.ty.elem) {
			c.fail(t, "assignment of %s to an element of type %s", tv, v.ty.elem)
		}
		return c.flush(ind) + fmt.Sprintf("%s(setI %s %s %s).bind fun %s =>\n", ind, v.lean, is, val, v.lean)
	}
	switch t.Tok {
	case token.DEFINE, token.ASSIGN:
		if len(t.Lhs) != len(t.Rhs) {
			if len(t.Rhs) != 1 {
				c.fail(t, "assignment arity")
			}
			s, ty := c.expr(t.Rhs[0], nil)
			if ty.k != tTuple || len(ty.parts) != len(t.Lhs) {
				c.fail(t, "assignment arity")
			}
			var names []string
			for i, l := range t.Lhs {
				names = append(names, c.lhsName(t, l, ty.parts[i]))
			}
			b.WriteString(c.flush(ind))
			fmt.Fprintf(&b, "%slet (%s) := %s\n", ind, strings.Join(names, ", "), s)
			return b.String()
		}
		var vals []string
		var tys []*ity
		for i, r := range t.Rhs {
			var want *ity
			if id, ok := t.Lhs[i].(*ast.Ident); ok && t.Tok == token.ASSIGN {
				if v := c.lookup(id.Name); v != nil {
					want = v.ty
				}
			}
			s, ty := c.expr(r, want)
			if want != nil {
				if ty.typed() && !sameTy(ty, want) {
					c.fail(t, "assignment of %s to a variable of type %s", ty, want)
				}
				ty = want
			}
			if !ty.typed() {
				ty = tyInt
			}
			vals = append(vals, s)
			tys = append(tys, ty)
		}
		b.WriteString(c.flush(ind))
		var names []string
		for i, l := range t.Lhs {
			names = append(names, c.lhsName(t, l, tys[i]))
		}
		if len(names) == 1 {
			fmt.Fprintf(&b, "%slet %s : %s := %s\n", ind, names[0], tys[0].lean(), vals[0])
		} else {
			fmt.Fprintf(&b, "%slet (%s) := (%s)\n", ind, strings.Join(names, ", "), strings.Join(vals, ", "))
		}
		return b.String()
	}
	ops := map[token.Token]token.Token{token.ADD_ASSIGN: token.ADD, token.SUB_ASSIGN: token.SUB, token.MUL_ASSIGN: token.MUL,
		token.QUO_ASSIGN: token.QUO, token.REM_ASSIGN: token.REM, token.AND_ASSIGN: token.AND, token.OR_ASSIGN: token.OR,
		token.XOR_ASSIGN: token.XOR, token.SHL_ASSIGN: token.SHL, token.SHR_ASSIGN: token.SHR, token.AND_NOT_ASSIGN: token.AND_NOT}
	op, ok := ops[t.Tok]
	if !ok || len(t.Lhs) != 1 || len(t.Rhs) != 1 {
		c.fail(t, "assignment operator %s", t.Tok)
	}
	return c.assign(&ast.AssignStmt{Lhs: t.Lhs, TokPos: t.TokPos, Tok: token.ASSIGN,
		Rhs: []ast.Expr{&ast.BinaryExpr{X: t.Lhs[0], OpPos: t.TokPos, Op: op, Y: &ast.ParenExpr{Lparen: t.TokPos, X: t.Rhs[0]}}}}, ind)
}

func (c *fctx) lhsName(t *ast.AssignStmt, l ast.Expr, ty *ity) string {
	id, ok := l.(*ast.Ident)
	if !ok {
		c.fail(t, "assignment to a non-variable (slices and arrays are read-only in the subset)")
	}
	if id.Name == "_" {
		return c.declare("_", ty)
	}
	if t.Tok == token.DEFINE {
		if c.scopes[len(c.scopes)-1][id.Name] != nil {
			c.fail(t, "`:=` re-declares %s in the same scope", id.Name)
		}
		return c.declare(id.Name, ty)
	}
	v := c.lookup(id.Name)
	if v == nil {
		c.fail(t, "assignment to %s, which is not a local variable", id.Name)
	}
	if !sameTy(v.ty, ty) {
		c.fail(t, "assignment of %s to %s of type %s", ty, id.Name, v.ty)
	}
	return v.lean
}

func (c *fctx) ifStmt(t *ast.IfStmt, ind string, next kont) string {
	if t.Init != nil {
		c.push()
		n := len(c.scopes)
		cp := *t
		cp.Init = nil
		return c.stmts([]ast.Stmt{t.Init, &cp}, ind, func(ind string) string {
			c.scopes = c.scopes[:n-1]
			return next(ind)
		})
	}
	cond, ty := c.expr(t.Cond, nil)
	if ty.k != tBool {
		c.fail(t, "condition of type %s", ty)
	}
	pre := c.flush(ind)
	var elseList []ast.Stmt
	switch e := t.Else.(type) {
	case nil:
	case *ast.BlockStmt:
		elseList = e.List
	case *ast.IfStmt:
		elseList = []ast.Stmt{e}
	default:
		c.fail(t, "else")
	}
	branch := func(list []ast.Stmt, ind string, k kont) string {
		sn := c.snap()
		c.push()
		n := len(c.scopes)
		out := c.stmts(list, ind, func(ind string) string {
			c.scopes = c.scopes[:n-1]
			return k(ind)
		})
		c.restore(sn)
		return out
	}
	if hasJump(t.Body) || (t.Else != nil && hasJump(t.Else)) {
		// a branch that returns: the continuation is rendered inside each branch that can fall through
		a := branch(t.Body.List, ind+"  ", next)
		b := branch(elseList, ind+"  ", next)
		return fmt.Sprintf("%s%sif %s then\n%s%selse\n%s", pre, ind, cond, a, ind, b)
	}
	// no return inside: join the assigned variables
	vars := c.assigned(t.Body, t.Else)
	tup, pat := c.tupleOf(vars)
	partialInside := false
	body := func(list []ast.Stmt) string {
		return branch(list, ind+"  ", func(ind string) string {
			t2, _ := c.tupleOf(vars)
			if partialInside {
				return ind + ".ok " + t2 + "\n"
			}
			return ind + t2 + "\n"
		})
	}
	render := func() (string, string) { return body(t.Body.List), body(elseList) }
	a, b := c.tryPure(render)
	if a == "" && b == "" {
		partialInside = true
		a, b = render()
	}
	_ = tup
	if partialInside {
		return fmt.Sprintf("%s%s(if %s then\n%s%selse\n%s%s).bind fun %s =>\n", pre, ind, cond, a, ind, b, ind, pat) + next(ind)
	}
	return fmt.Sprintf("%s%slet %s := if %s then\n%s%selse\n%s", pre, ind, pat, cond, indent(a, "  "), ind+"  ", indent(b, "  ")) + next(ind)
}

func indent(s, by string) string {
	lines := strings.Split(strings.TrimRight(s, "\n"), "\n")
	for i := range lines {
		lines[i] = by + lines[i]
	}
	return strings.Join(lines, "\n") + "\n"
}

// tryPure renders with partial operations forbidden; ("", "") when one was met
func (c *fctx) tryPure(render func() (string, string)) (a, b string) {
	sn, tmp, res, pend := c.snap(), c.tmp, c.res, c.pend
	defer func() {
		if r := recover(); r != nil {
			if _, ok := r.(needRes); !ok || !res {
				panic(r)
			}
			c.restore(sn)
			c.tmp, c.res, c.pend = tmp, res, pend
			a, b = "", ""
		}
	}()
	c.res = false
	a, b = render()
	c.res = res
	return a, b
}

func (c *fctx) switchToIf(t *ast.SwitchStmt) []ast.Stmt {
	var out []ast.Stmt
	if t.Init != nil {
		c.fail(t, "switch with an init statement")
	}
	tag := t.Tag
	if tag != nil {
		if _, ok := tag.(*ast.Ident); !ok {
			c.tmp++
			id := &ast.Ident{NamePos: t.Pos(), Name: fmt.Sprintf("sw%d", c.tmp)}
			out = append(out, &ast.AssignStmt{Lhs: []ast.Expr{id}, TokPos: t.Pos(), Tok: token.DEFINE, Rhs: []ast.Expr{tag}})
			tag = id
		}
	}
	var def *ast.CaseClause
	var clauses []*ast.CaseClause
	for _, s := range t.Body.List {
		cc := s.(*ast.CaseClause)
		for _, b := range cc.Body {
			ast.Inspect(b, func(n ast.Node) bool {
				if br, ok := n.(*ast.BranchStmt); ok {
					c.fail(br, "%s inside switch", br.Tok)
				}
				return true
			})
		}
		if cc.List == nil {
			def = cc
		} else {
			clauses = append(clauses, cc)
		}
	}
	var tail ast.Stmt
	if def != nil {
		tail = &ast.BlockStmt{Lbrace: def.Pos(), List: def.Body}
	}
	for i := len(clauses) - 1; i >= 0; i-- {
		cc := clauses[i]
		var cond ast.Expr
		for _, e := range cc.List {
			var one ast.Expr = e
			if tag != nil {
				one = &ast.BinaryExpr{X: tag, OpPos: e.Pos(), Op: token.EQL, Y: e}
			}
			if cond == nil {
				cond = one
			} else {
				cond = &ast.BinaryExpr{X: cond, OpPos: e.Pos(), Op: token.LOR, Y: one}
			}
		}
		tail = &ast.IfStmt{If: cc.Pos(), Cond: cond, Body: &ast.BlockStmt{Lbrace: cc.Pos(), List: cc.Body}, Else: tail}
	}
	if tail != nil {
		if bs, ok := tail.(*ast.BlockStmt); ok {
			out = append(out, bs.List...) // only a default clause
		} else {
			out = append(out, tail)
		}
	}
	return out
}

// hasJump: the node contains a `return`, or a `break`/`continue` that belongs to an enclosing loop
func hasJump(n ast.Node) bool {
	if n == nil {
		return false
	}
	found := false
	var walk func(n ast.Node, inLoop bool)
	walk = func(n ast.Node, inLoop bool) {
		ast.Inspect(n, func(x ast.Node) bool {
			if found || x == nil {
				return false
			}
			switch t := x.(type) {
			case *ast.ReturnStmt:
				found = true
			case *ast.BranchStmt:
				if !inLoop {
					found = true
				}
			case *ast.FuncLit:
				return false
			case *ast.ForStmt:
				if x != n {
					walk(t.Body, true)
					return false
				}
			case *ast.RangeStmt:
				if x != n {
					walk(t.Body, true)
					return false
				}
			}
			return true
		})
	}
	walk(n, false)
	return found
}

// ownBreak: the loop body contains a `break` of this loop
func ownBreak(body *ast.BlockStmt) bool {
	found := false
	var walk func(n ast.Node)
	walk = func(n ast.Node) {
		ast.Inspect(n, func(x ast.Node) bool {
			switch t := x.(type) {
			case *ast.BranchStmt:
				if t.Tok == token.BREAK {
					found = true
				}
			case *ast.ForStmt, *ast.RangeStmt, *ast.FuncLit, *ast.SwitchStmt:
				if x != n {
					return false
				}
			}
			return !found
		})
	}
	walk(body)
	return found
}

func checkLoopBody(c *fctx, body *ast.BlockStmt) {
	ast.Inspect(body, func(n ast.Node) bool {
		switch x := n.(type) {
		case *ast.BranchStmt:
			if x.Label != nil || (x.Tok != token.BREAK && x.Tok != token.CONTINUE) {
				c.fail(x, "%s", x.Tok)
			}
		case *ast.FuncLit:
			c.fail(x, "function literal inside a loop")
		}
		return true
	})
}

type loopCtx struct{ cont, brk kont }

// rangeToFor: `for i, v := range xs {…}` over a slice variable is
// `for i := 0; i < len(xs); i++ { v := xs[i]; … }` (Go evaluates `xs` once; its length cannot change
// in the subset, and element writes are visible to later iterations in both forms)
func (c *fctx) rangeToFor(t *ast.RangeStmt) *ast.ForStmt {
	id, ok := t.X.(*ast.Ident)
	if !ok || t.Tok != token.DEFINE {
		c.fail(t, "range over something that is not a slice variable, or without `:=`")
	}
	if v := c.lookup(id.Name); v == nil || v.ty.k != tList {
		c.fail(t, "range over %s, which is not a slice variable", id.Name)
	}
	var iv *ast.Ident
	if k, ok := t.Key.(*ast.Ident); ok && k.Name != "_" {
		iv = k
	} else {
		c.tmp++
		iv = &ast.Ident{NamePos: t.Pos(), Name: fmt.Sprintf("ri%d", c.tmp)}
	}
	body := &ast.BlockStmt{Lbrace: t.Body.Lbrace, Rbrace: t.Body.Rbrace}
	if v, ok := t.Value.(*ast.Ident); ok && v.Name != "_" {
		body.List = append(body.List, &ast.AssignStmt{Lhs: []ast.Expr{v}, TokPos: t.Pos(), Tok: token.DEFINE,
			Rhs: []ast.Expr{&ast.IndexExpr{X: id, Lbrack: t.Pos(), Index: iv}}})
	} else if t.Value != nil {
		if _, ok := t.Value.(*ast.Ident); !ok {
			c.fail(t, "range value")
		}
	}
	body.List = append(body.List, t.Body.List...)
	return &ast.ForStmt{For: t.For,
		Init: &ast.AssignStmt{Lhs: []ast.Expr{iv}, TokPos: t.Pos(), Tok: token.DEFINE, Rhs: []ast.Expr{&ast.BasicLit{ValuePos: t.Pos(), Kind: token.INT, Value: "0"}}},
		Cond: &ast.BinaryExpr{X: iv, OpPos: t.Pos(), Op: token.LSS, Y: &ast.CallExpr{Fun: &ast.Ident{NamePos: t.Pos(), Name: "len"}, Lparen: t.Pos(), Args: []ast.Expr{id}}},
		Post: &ast.IncDecStmt{X: iv, TokPos: t.Pos(), Tok: token.INC}, Body: body}
}

// loopBody renders the body of a loop whose state is `vars`.  step mode (the body contains return
// or break): every exit is a `Step`; otherwise the body yields the state tuple.
func (c *fctx) loopBody(t *ast.ForStmt, vars []string, depth int, ind string, stepMode bool) (body string, partialInside bool) {
	render := func() (string, string) {
		sn := c.snap()
		end := func(tag string) kont {
			return func(ind string) string {
				c.restoreDepth(sn, depth)
				t2, _ := c.tupleOf(vars)
				switch {
				case stepMode:
					return ind + ".ok (Step." + tag + " " + t2 + ")\n"
				case partialInside:
					return ind + ".ok " + t2 + "\n"
				}
				return ind + t2 + "\n"
			}
		}
		c.loops = append(c.loops, loopCtx{cont: end("next"), brk: end("brk")})
		saveRet := c.retFn
		if stepMode {
			c.retFn = func(s string) string { return ".ok (Step.ret " + s + ")" }
		}
		defer func() { c.loops = c.loops[:len(c.loops)-1]; c.retFn = saveRet }()
		out := c.stmts(t.Body.List, ind+"    ", end("next"))
		c.restore(sn)
		return out, ""
	}
	if stepMode {
		if !c.res {
			panic(needRes{})
		}
		partialInside = true
		body, _ = render()
		return body, true
	}
	nl := len(c.loops)
	body, _ = c.tryPure(render)
	c.loops = c.loops[:nl]
	if body == "" {
		partialInside = true
		body, _ = render()
	}
	return body, partialInside
}

// exitMatch renders what follows a step-mode loop
func (c *fctx) exitMatch(ind, pat string, next kont) string {
	return fmt.Sprintf("%s  | Exit.ret r => %s\n%s  | Exit.fall %s =>\n", ind, c.ret("r"), ind, pat) + next(ind+"    ")
}

func (c *fctx) forStmt(t *ast.ForStmt, ind string, next kont) string {
	checkLoopBody(c, t.Body)
	if t.Init == nil && t.Post == nil && t.Cond != nil {
		return c.whileStmt(t, ind, next)
	}
	// for i := lo; i < hi; i += step   (step a positive constant; i and the variables of hi not assigned in the body)
	init, ok := t.Init.(*ast.AssignStmt)
	if !ok || init.Tok != token.DEFINE || len(init.Lhs) != 1 || len(init.Rhs) != 1 {
		c.fail(t, "loop init is not `i := lo`")
	}
	iv := init.Lhs[0].(*ast.Ident)
	cond, ok := t.Cond.(*ast.BinaryExpr)
	if !ok || (cond.Op != token.LSS && cond.Op != token.LEQ) {
		c.fail(t, "loop condition is not `i < hi` / `i <= hi`")
	}
	if id, ok := cond.X.(*ast.Ident); !ok || id.Name != iv.Name {
		c.fail(t, "loop condition does not test the loop variable")
	}
	step := ""
	switch p := t.Post.(type) {
	case *ast.IncDecStmt:
		if id, ok := p.X.(*ast.Ident); ok && id.Name == iv.Name && p.Tok == token.INC {
			step = "1"
		}
	case *ast.AssignStmt:
		if id, ok := p.Lhs[0].(*ast.Ident); ok && len(p.Lhs) == 1 && id.Name == iv.Name && p.Tok == token.ADD_ASSIGN {
			if v, _, ok := c.constVal(c.pk, c.file, p.Rhs[0], -1, 0); ok && constant.Sign(v) > 0 {
				step = v.ExactString()
			}
		}
	}
	if step == "" {
		c.fail(t, "loop post statement is not `i++` / `i += positive constant`")
	}
	lo, lt := c.expr(init.Rhs[0], nil)
	if !lt.typed() {
		lt = tyInt
	}
	hi, ht := c.expr(cond.Y, lt)
	if !lt.isInt() || (ht.typed() && !sameTy(ht, lt)) {
		c.fail(t, "loop bounds of type %s and %s", lt, ht)
	}
	if lt.k != tInt {
		if _, _, ok := c.constVal(c.pk, c.file, cond.Y, -1, 0); !ok {
			c.fail(t, "loop variable of sized type %s with a non-constant bound (wrap-around not translated)", lt)
		}
	}
	if cond.Op == token.LEQ {
		hi = fmt.Sprintf("(%s + 1)", hi)
	}
	pre := c.flush(ind)
	// the body must not assign the loop variable or anything the bound mentions
	c.push()
	depth := len(c.scopes)
	ivLean := c.declare(iv.Name, lt)
	vars := c.assigned(t.Body)
	for _, v := range vars {
		if v == iv.Name {
			c.fail(t, "loop variable assigned in the body")
		}
		bad := false
		ast.Inspect(cond.Y, func(n ast.Node) bool {
			if id, ok := n.(*ast.Ident); ok && id.Name == v {
				bad = true
			}
			return true
		})
		if bad {
			c.fail(t, "loop bound mentions %s, which the body assigns", v)
		}
	}
	initTup, pat := c.tupleOf(vars)
	stepMode := hasReturn(t.Body) || ownBreak(t.Body)
	body, partialInside := c.loopBody(t, vars, depth, ind, stepMode)
	c.scopes = c.scopes[:depth-1]
	switch {
	case stepMode:
		return fmt.Sprintf("%s%s(forRangeRet (ρ := %s) %s %s %s %s (fun %s %s =>\n%s%s  )).bind fun\n",
			pre, ind, c.retType(), lo, hi, step, initTup, ivLean, pat, body, ind) + c.exitMatch(ind, pat, next)
	case partialInside:
		return fmt.Sprintf("%s%s(forRangeM %s %s %s %s (fun %s %s =>\n%s%s  )).bind fun %s =>\n", pre, ind, lo, hi, step, initTup, ivLean, pat, body, ind, pat) + next(ind)
	}
	return fmt.Sprintf("%s%slet %s := forRange %s %s %s %s (fun %s %s =>\n%s%s  )\n", pre, ind, pat, lo, hi, step, initTup, ivLean, pat, body, ind) + next(ind)
}

// retType is the type a `return` produces at this point (the function result, or the result of the
// enclosing closure)
func (c *fctx) retType() string { return "(" + c.result.lean() + ")" }

// restoreDepth drops the scopes opened inside a loop body, keeping the body scope itself
func (c *fctx) restoreDepth(sn snapshot, depth int) {
	if len(c.scopes) > depth {
		c.scopes = c.scopes[:depth]
	}
}

func (c *fctx) whileStmt(t *ast.ForStmt, ind string, next kont) string {
	if c.spec.fuel <= 0 {
		c.fail(t, "`for cond {…}` loop without a fuel annotation in the whitelist")
	}
	if !c.res {
		panic(needRes{})
	}
	vars := c.assigned(t.Body)
	initTup, pat := c.tupleOf(vars)
	n := len(c.pend)
	cond, ty := c.expr(t.Cond, nil)
	if ty.k != tBool || len(c.pend) != n {
		c.fail(t, "loop condition (must be a total bool expression)")
	}
	pre := c.flush(ind)
	c.push()
	depth := len(c.scopes)
	stepMode := hasReturn(t.Body) || ownBreak(t.Body)
	var body string
	if stepMode {
		body, _ = c.loopBody(t, vars, depth, ind, true)
	} else {
		sn := c.snap()
		end := func(ind string) string {
			c.restoreDepth(sn, depth)
			t2, _ := c.tupleOf(vars)
			return ind + ".ok " + t2 + "\n"
		}
		c.loops = append(c.loops, loopCtx{cont: end, brk: end})
		body = c.stmts(t.Body.List, ind+"    ", end)
		c.loops = c.loops[:len(c.loops)-1]
		c.restore(sn)
	}
	c.scopes = c.scopes[:depth-1]
	if stepMode {
		return fmt.Sprintf("%s%s(whileFuelRet (ρ := %s) %d (fun %s => %s) (fun %s =>\n%s%s  ) %s).bind fun\n",
			pre, ind, c.retType(), c.spec.fuel, pat, cond, pat, body, ind, initTup) + c.exitMatch(ind, pat, next)
	}
	return fmt.Sprintf("%s%s(whileFuel %d (fun %s => %s) (fun %s =>\n%s%s  ) %s).bind fun %s =>\n",
		pre, ind, c.spec.fuel, pat, cond, pat, body, ind, initTup, pat) + next(ind)
}

// ---------------------------------------------------------------------------------------------
// functions

func specKey(dir, recv, fn string) string { return dir + "|" + recv + "|" + fn }

func (sp *fxSpec) key() string {
	k := specKey(sp.pkg, sp.recv, sp.fn)
	if sp.site != "" {
		k += "#" + sp.site + fmt.Sprint(sp.occ) + sp.lean
	}
	return k
}

func (sp *fxSpec) leanName() string {
	if sp.lean != "" {
		return sp.lean
	}
	n := sp.fn
	if sp.recv != "" {
		n = sp.recv + "_" + sp.fn
	}
	if sp.site != "" {
		n += "_" + strings.NewReplacer(":", "", ".", "_", "~", "_", " ", "", "<", "", ">", "", "=", "").Replace(sp.site)
	}
	return n
}

func (sp *fxSpec) tableNames() []string {
	if sp.tables == "" {
		return nil
	}
	return strings.Split(sp.tables, ",")
}

func (tr *translator) translate(sp *fxSpec) *fnOut {
	key := sp.key()
	if o := tr.done[key]; o != nil {
		return o
	}
	if tr.busy[key] {
		panic(tErr{fmt.Sprintf("function %s: recursion is not supported", sp.fn)})
	}
	tr.busy[key] = true
	defer delete(tr.busy, key)
	pk := tr.load(sp.pkg)
	fkey := sp.fn
	if sp.recv != "" {
		fkey = sp.recv + "." + sp.fn
	}
	fd := pk.funcs[fkey]
	if fd == nil || fd.Body == nil {
		panic(tErr{fmt.Sprintf("function %s not found in %s", fkey, sp.pkg)})
	}
	if pk.dup[fkey] {
		panic(tErr{fmt.Sprintf("function %s is declared more than once in %s (build-tagged variants)", fkey, sp.pkg)})
	}
	if fd.Type.TypeParams != nil {
		tr.failf(sp.fn, fd, "generic function")
	}
	var out *fnOut
	for _, res := range []bool{false, true} {
		out = tr.tryTranslate(sp, pk, fd, res)
		if out != nil {
			break
		}
	}
	tr.done[key] = out
	tr.order = append(tr.order, out)
	return out
}

func (tr *translator) tryTranslate(sp *fxSpec, pk *fxPkg, fd *ast.FuncDecl, res bool) (out *fnOut) {
	defer func() {
		if r := recover(); r != nil {
			if _, ok := r.(needRes); ok && !res {
				out = nil
				return
			}
			panic(r)
		}
	}()
	c := &fctx{tr: tr, pk: pk, file: pk.fileOf[fd], spec: sp, name: sp.fn, res: res,
		scopes: []map[string]*vinfo{{}}, used: map[string]int{}}
	lean := sp.leanName()
	if sp.site != "" {
		c.name = sp.fn + "/" + sp.site
		return c.translateSite(fd, lean)
	}
	var params []string
	var ptys []*ity
	var pnames []string
	addParam := func(name string, te ast.Expr) {
		ty := c.goType(pk, c.file, te)
		if ty == nil || ty.k == tTuple {
			c.fail(te, "parameter type")
		}
		ptys = append(ptys, ty)
		pnames = append(pnames, name)
		params = append(params, fmt.Sprintf("(%s : %s)", c.declare(name, ty), ty.lean()))
	}
	if fd.Recv != nil {
		r := fd.Recv.List[0]
		name := "_"
		if len(r.Names) == 1 {
			name = r.Names[0].Name
		}
		addParam(name, r.Type)
	}
	for _, p := range fd.Type.Params.List {
		if len(p.Names) == 0 {
			addParam("_", p.Type)
		}
		for _, id := range p.Names {
			addParam(id.Name, p.Type)
		}
	}
	// run-time filled package tables (spec.tables): zero arrays threaded through the init function
	var namedInit strings.Builder
	var tabTys []*ity
	for _, tn := range sp.tableNames() {
		vs := pk.vars[tn]
		if vs == nil || vs.Type == nil || len(vs.Values) != 0 {
			c.fail(fd, "table %s is not a package variable `var %s [N]T` without initialiser", tn, tn)
		}
		at, ok := vs.Type.(*ast.ArrayType)
		lt := c.goType(pk, pk.fileOf[vs], vs.Type)
		if !ok || at.Len == nil || lt == nil || lt.k != tList {
			c.fail(fd, "table %s: type", tn)
		}
		n, _, okc := c.constVal(pk, pk.fileOf[vs], at.Len, -1, 0)
		if !okc {
			c.fail(fd, "table %s: length", tn)
		}
		tr.checkTableWrites(c, pk, tn, fd)
		fmt.Fprintf(&namedInit, "  let %s : List Int := zerosI %s\n", c.declare(tn, lt), n.ExactString())
		c.written = append(c.written, tn)
		tabTys = append(tabTys, lt)
	}
	// written list parameters
	var wIdx []int
	for i, n := range pnames {
		if ptys[i].k == tList && n != "_" && c.paramWritten(fd.Body, n) {
			c.written = append(c.written, n)
			wIdx = append(wIdx, i)
		}
	}
	var rtys []*ity
	if fd.Type.Results != nil {
		for _, r := range fd.Type.Results.List {
			ty := c.goType(pk, c.file, r.Type)
			if ty == nil || !(ty.isInt() || ty.k == tBool || ty.k == tStruct) {
				c.fail(r.Type, "result type")
			}
			n := len(r.Names)
			if n == 0 {
				n = 1
			}
			for i := 0; i < n; i++ {
				rtys = append(rtys, ty)
			}
			for _, id := range r.Names {
				c.named = append(c.named, id.Name)
				zero := "0"
				if ty.k == tBool {
					zero = "false"
				}
				fmt.Fprintf(&namedInit, "  let %s : %s := %s\n", c.declare(id.Name, ty), ty.lean(), zero)
			}
		}
	}
	c.goRes = rtys
	all := append([]*ity{}, rtys...)
	all = append(all, tabTys...)
	for _, i := range wIdx {
		all = append(all, ptys[i])
	}
	if len(all) == 0 {
		c.fail(fd, "function without a result and without a written slice parameter")
	}
	c.result = all[0]
	if len(all) > 1 {
		c.result = &ity{k: tTuple, parts: all}
	}
	c.push()
	body := c.stmts(fd.Body.List, "  ", func(ind string) string {
		if len(c.goRes) != 0 {
			c.fail(fd, "control can reach the end of the function body")
		}
		return ind + c.ret(c.withWritten(nil)) + "\n"
	})
	rt := c.result.lean()
	if res {
		rt = "R (" + rt + ")"
	}
	var b strings.Builder
	sig := oneLineSig(tr.fset, fd)
	fmt.Fprintf(&b, "/-- %s: `%s`", pk.names[pk.fileOf[fd]], sig)
	if res {
		b.WriteString(" — can panic")
		if sp.fuel > 0 {
			fmt.Fprintf(&b, " / loop fuel %d", sp.fuel)
		}
	} else {
		b.WriteString(" — total: no index, no division by a non-constant, no signed shift count, no unbounded loop")
	}
	if len(c.written) != 0 {
		fmt.Fprintf(&b, "; returns the updated %s after the Go results", strings.Join(c.written, ", "))
	}
	b.WriteString(" -/\n")
	fmt.Fprintf(&b, "def %s %s : %s :=\n%s%s", lean, strings.Join(params, " "), rt, namedInit.String(), body)
	// each run-time table is the corresponding component of the init function's result
	for k, tn := range sp.tableNames() {
		// a named selector function (not a projection or an inline match): defeq checks then unfold
		// the table constant instead of evaluating the init loops
		var pat []string
		for m := range c.written {
			if m == k {
				pat = append(pat, "t")
			} else {
				pat = append(pat, "_")
			}
		}
		ps := pat[0]
		if len(pat) > 1 {
			ps = "(" + strings.Join(pat, ", ") + ")"
		}
		fmt.Fprintf(&b, "\n/-- component %d of the result of `%s` (`[]` if it panicked) -/\ndef %s_%d (r : %s) : List Int :=\n  match r with\n  | .ok %s => t\n  | _ => []\n",
			k, sp.fn, lean, k, rt, ps)
		fmt.Fprintf(&b, "\n/-- %s: `var %s`, filled at package initialisation by `%s` (its only writer) -/\ndef %s : List Int :=\n  %s_%d %s\n",
			pk.dir, tn, sp.fn, tableLean(c, pk, tn), lean, k, lean)
	}
	return &fnOut{spec: sp, text: b.String(), res: res, params: ptys, result: c.result, lean: lean,
		relFile: pk.names[pk.fileOf[fd]], written: wIdx, goRes: rtys}
}

var assignOps = map[token.Token]token.Token{token.ADD_ASSIGN: token.ADD, token.SUB_ASSIGN: token.SUB, token.MUL_ASSIGN: token.MUL,
	token.QUO_ASSIGN: token.QUO, token.REM_ASSIGN: token.REM, token.AND_ASSIGN: token.AND, token.OR_ASSIGN: token.OR,
	token.XOR_ASSIGN: token.XOR, token.SHL_ASSIGN: token.SHL, token.SHR_ASSIGN: token.SHR, token.AND_NOT_ASSIGN: token.AND_NOT}

// siteName: the name an assignment target is known by (`x`, `a.b.x`, `x[i]` are all `x`)
func siteName(l ast.Expr) string {
	switch x := l.(type) {
	case *ast.Ident:
		return x.Name
	case *ast.SelectorExpr:
		return x.Sel.Name
	case *ast.IndexExpr:
		return siteName(x.X)
	case *ast.ParenExpr:
		return siteName(x.X)
	}
	return ""
}

func tableLean(c *fctx, pk *fxPkg, name string) string {
	return filepath.Base(pk.dir) + "_" + name
}

// paramWritten: the body assigns an element of the list parameter, or passes it to a callee that does
func (c *fctx) paramWritten(body *ast.BlockStmt, name string) bool {
	found := false
	is := func(e ast.Expr) {
		if id := baseIdent(e); id != nil && id.Name == name {
			if _, plain := e.(*ast.Ident); !plain {
				found = true
			}
		}
	}
	ast.Inspect(body, func(n ast.Node) bool {
		switch s := n.(type) {
		case *ast.AssignStmt:
			if s.Tok != token.DEFINE {
				for _, l := range s.Lhs {
					is(l)
				}
			}
		case *ast.IncDecStmt:
			is(s.X)
		case *ast.CallExpr:
			for _, i := range c.callWrites(s) {
				if i < len(s.Args) {
					if id := baseIdent(s.Args[i]); id != nil && id.Name == name {
						found = true
					}
				}
			}
		}
		return !found
	})
	return found
}

// checkTableWrites: a run-time table may only be written inside its init function, and that
// function must be called (without arguments) from `init` or from a function `init` calls
func (tr *translator) checkTableWrites(c *fctx, pk *fxPkg, name string, initFn *ast.FuncDecl) {
	for _, f := range pk.files {
		ast.Inspect(f, func(n ast.Node) bool {
			if n == nil || (n.Pos() >= initFn.Pos() && n.End() <= initFn.End()) {
				return n != nil && !(n.Pos() >= initFn.Pos() && n.End() <= initFn.End())
			}
			check := func(l ast.Expr) {
				if id := baseIdent(l); id != nil && id.Name == name && id.Obj == nil {
					c.fail(n, "package table %s is written outside %s", name, initFn.Name.Name)
				}
			}
			switch s := n.(type) {
			case *ast.AssignStmt:
				if s.Tok != token.DEFINE {
					for _, l := range s.Lhs {
						check(l)
					}
				}
			case *ast.IncDecStmt:
				check(s.X)
			case *ast.UnaryExpr:
				if s.Op == token.AND {
					check(s.X)
				}
			case *ast.SliceExpr:
				check(s.X) // a slice of the table could be written through
			}
			return true
		})
	}
	calls := func(fd *ast.FuncDecl, callee string) bool {
		found := false
		if fd == nil || fd.Body == nil {
			return false
		}
		ast.Inspect(fd.Body, func(n ast.Node) bool {
			if ce, ok := n.(*ast.CallExpr); ok {
				if id, ok := ce.Fun.(*ast.Ident); ok && id.Name == callee && len(ce.Args) == 0 {
					found = true
				}
			}
			return !found
		})
		return found
	}
	ok := false
	for _, f := range pk.files {
		for _, d := range f.Decls {
			fd, isF := d.(*ast.FuncDecl)
			if !isF || fd.Name.Name != "init" || fd.Recv != nil {
				continue
			}
			if calls(fd, initFn.Name.Name) {
				ok = true
			}
			for name2, g := range pk.funcs {
				if calls(fd, name2) && calls(g, initFn.Name.Name) {
					ok = true
				}
			}
		}
	}
	if !ok {
		c.fail(initFn, "%s is not called from init() (directly or through one function)", initFn.Name.Name)
	}
}

// translateSite: an "expression site" — the right-hand side of the occ-th assignment to `site`
// inside the function (or `if:N` / `return:N`: the N-th if condition / returned expression), with
// its free variables as parameters whose Go types are declared in the whitelist (and checked
// against the signature when they are parameters of the enclosing function)
func (c *fctx) translateSite(fd *ast.FuncDecl, lean string) *fnOut {
	sp := c.spec
	var target ast.Expr
	k := 0
	kind, nth := sp.site, sp.occ
	match := ""
	if i := strings.Index(kind, "~"); i >= 0 { // `if~text`: the first if whose condition contains the text
		match, kind = kind[i+1:], kind[:i]
	} else if i := strings.Index(kind, ":"); i >= 0 {
		nth, _ = strconv.Atoi(kind[i+1:])
		kind = kind[:i]
	}
	ast.Inspect(fd.Body, func(n ast.Node) bool {
		if target != nil {
			return false
		}
		hit := func(e ast.Expr) {
			if k == nth {
				target = e
			}
			k++
		}
		switch s := n.(type) {
		case *ast.IfStmt:
			if kind == "if" && (match == "" || strings.Contains(oneLine(c.tr.fset, s.Cond), match)) {
				hit(s.Cond)
			}
		case *ast.ReturnStmt:
			if kind == "return" && len(s.Results) > 0 {
				hit(s.Results[0])
			}
		case *ast.AssignStmt:
			if len(s.Lhs) == len(s.Rhs) {
				for i, l := range s.Lhs {
					if siteName(l) != kind {
						continue
					}
					if op, isOp := assignOps[s.Tok]; isOp {
						// x op= e is the site `x op (e)`
						hit(&ast.BinaryExpr{X: l, OpPos: s.TokPos, Op: op, Y: &ast.ParenExpr{Lparen: s.TokPos, X: s.Rhs[i]}})
					} else {
						hit(s.Rhs[i])
					}
				}
			}
		case *ast.ValueSpec:
			if len(s.Names) == len(s.Values) {
				for i, id := range s.Names {
					if id.Name == kind {
						hit(s.Values[i])
					}
				}
			}
		case *ast.KeyValueExpr:
			if id, ok := s.Key.(*ast.Ident); ok && id.Name == kind {
				hit(s.Value)
			}
		}
		return true
	})
	if target == nil {
		c.fail(fd, "expression site %q (occurrence %d) not found", sp.site, nth)
	}
	// declared free variables
	sigTypes := map[string]ast.Expr{}
	for _, p := range fd.Type.Params.List {
		for _, id := range p.Names {
			sigTypes[id.Name] = p.Type
		}
	}
	var params []string
	var ptys []*ity
	for _, decl := range strings.Split(sp.vars, ",") {
		f := strings.Fields(decl)
		if len(f) != 2 {
			if strings.TrimSpace(decl) == "" {
				continue
			}
			c.fail(fd, "site variable declaration %q", decl)
		}
		te, err := parser.ParseExpr(f[1])
		if err != nil {
			c.fail(fd, "site variable type %q", f[1])
		}
		ty := c.goType(c.pk, c.file, te)
		if ty == nil {
			c.fail(fd, "site variable type %q", f[1])
		}
		if st := sigTypes[f[0]]; st != nil {
			if sty := c.goType(c.pk, c.file, st); sty == nil || !sameTy(sty, ty) {
				c.fail(fd, "site variable %s is declared %s in the whitelist but is a parameter of another type", f[0], f[1])
			}
		}
		ptys = append(ptys, ty)
		params = append(params, fmt.Sprintf("(%s : %s)", c.declare(f[0], ty), ty.lean()))
	}
	text, ty := c.expr(target, nil)
	if !ty.typed() {
		ty = tyInt
	}
	if !(ty.isInt() || ty.k == tBool) {
		c.fail(target, "site expression of type %s", ty)
	}
	c.result = ty
	pre := c.flush("  ")
	rt := ty.lean()
	val := text
	if c.res {
		rt = "R (" + rt + ")"
		val = ".ok " + text
	}
	var b strings.Builder
	src := strings.ReplaceAll(oneLine(c.tr.fset, target), "-/", "- /")
	fmt.Fprintf(&b, "/-- %s: expression site `%s` in `%s` (free variables: %s): `%s` -/\n", c.pk.names[c.file], sp.site, sp.fn, sp.vars, src)
	fmt.Fprintf(&b, "def %s %s : %s :=\n%s  %s\n", lean, strings.Join(params, " "), rt, pre, val)
	return &fnOut{spec: sp, text: b.String(), res: c.res, params: ptys, result: ty, lean: lean, relFile: c.pk.names[c.file], goRes: []*ity{ty}}
}

// softTranslate: by default a function outside the subset aborts the whole generator (non-zero
// exit naming the function and the node).  With EXTRACT_FUNCS_SOFT set, the error is still printed
// on stderr but the function is emitted as a value of the empty-of-meaning type `Untranslatable`
// carrying the message, so that exactly the tie theorems of that function stop type-checking (a
// per-property broken obligation instead of a failed run); nothing approximate is ever emitted.
func (tr *translator) softTranslate(sp *fxSpec, soft bool) (out *fnOut) {
	if !soft {
		return tr.translate(sp)
	}
	defer func() {
		if r := recover(); r != nil {
			e, ok := r.(tErr)
			if !ok {
				panic(r)
			}
			fmt.Fprintf(os.Stderr, "extract: Funcs.lean: %s (emitted as Untranslatable)\n", e.msg)
			lean := sp.leanName()
			out = &fnOut{spec: sp, lean: lean, text: fmt.Sprintf("/-- NOT TRANSLATED: outside the supported subset -/\ndef %s : Untranslatable := ⟨%q⟩\n", lean, e.msg)}
			tr.done[sp.key()] = out
			tr.order = append(tr.order, out)
		}
	}()
	return tr.translate(sp)
}

func oneLineSig(fset *token.FileSet, fd *ast.FuncDecl) string {
	cp := *fd
	cp.Body = nil
	cp.Doc = nil
	s := oneLine(fset, &cp)
	return strings.ReplaceAll(s, "-/", "- /")
}

func genFuncs(repo string) (text []byte, err error) {
	tr := &translator{repo: repo, fset: token.NewFileSet(), pkgs: map[string]*fxPkg{}, done: map[string]*fnOut{},
		specs: map[string]*fxSpec{}, initTables: map[string]*fxSpec{}, tables: map[string]string{}, strs: map[string]*ity{}, busy: map[string]bool{}}
	defer func() {
		if r := recover(); r != nil {
			if e, ok := r.(tErr); ok {
				text, err = nil, fmt.Errorf("%s", e.msg)
				return
			}
			panic(r)
		}
	}()
	leanNames := map[string]string{}
	for i := range funcWhitelist {
		sp := &funcWhitelist[i]
		if sp.site == "" {
			tr.specs[specKey(sp.pkg, sp.recv, sp.fn)] = sp
		}
		for _, tn := range sp.tableNames() {
			tr.initTables[sp.pkg+"|"+tn] = sp
		}
	}
	soft := os.Getenv("EXTRACT_FUNCS_SOFT") != "" // see softTranslate
	for i := range funcWhitelist {
		out := tr.softTranslate(&funcWhitelist[i], soft)
		if prev, dup := leanNames[out.lean]; dup && prev != out.spec.key() {
			return nil, fmt.Errorf("function %s: Lean name %s used twice (set `lean:` in the whitelist)", out.spec.fn, out.lean)
		}
		leanNames[out.lean] = out.spec.key()
	}
	var b bytes.Buffer
	b.WriteString(funcsHeader)
	b.WriteString("\n  Whitelist (Go function — Lean definition — input range on which no `int` intermediate leaves [-2^63, 2^63)):\n")
	for _, o := range tr.order {
		note := o.spec.note
		if note == "" {
			note = "all inputs"
		}
		name := o.spec.fn
		if o.spec.recv != "" {
			name = "(" + o.spec.recv + ")." + name
		}
		fmt.Fprintf(&b, "    %s %s — %s — %s\n", o.spec.pkg, name, o.lean, note)
	}
	b.WriteString("-/\nimport Webp.Go.IntSem\nset_option linter.unusedVariables false\nnamespace Generated.Funcs\nopen Webp.Go Webp.Go.IntSem\n\n")
	b.WriteString("/-- placeholder type of a whitelisted function that left the supported subset (EXTRACT_FUNCS_SOFT) -/\nstructure Untranslatable where\n  why : String\n\n")
	for _, n := range tr.strOrd {
		s := tr.strs[n]
		fmt.Fprintf(&b, "/-- the integer fields of Go `struct %s` (other fields are not translated) -/\nstructure %s where\n", n, n)
		k := 0
		for _, f := range s.fields {
			if f.ty != nil {
				fmt.Fprintf(&b, "  %s : %s\n", fxLeanIdent(f.name), f.ty.lean())
				k++
			}
		}
		if k == 0 {
			b.WriteString("  mk ::\n")
		}
		b.WriteString("\n")
	}
	for _, n := range tr.tabOrd {
		b.WriteString(tr.tables[n])
		b.WriteString("\n")
	}
	for _, o := range tr.order {
		b.WriteString(o.text)
		b.WriteString("\n")
	}
	b.WriteString("end Generated.Funcs\n")
	return b.Bytes(), nil
}

const funcsHeader = `/- GENERATED by /verif/harness/cmd/extract (funcs.go) from the Go sources — do not edit.

  Pure integer functions of /repo translated statement by statement from the Go AST.
  Integer encoding (Webp/Go/IntSem.lean): every Go integer is a Lean Int.
    int, int64            no wrap — 64-bit overflow of int is NOT modelled (ranges below)
    uint8/16/32/64, uint  wrapU n after + - * << unary- unary^ and conversions
    int8/16/32            wrapS n after + - * << / unary- unary^ and conversions
    & | ^ &^              band bor bxor bandNot (two's complement on Int, results stay in range)
    >>                    shr (arithmetic; count >= width gives 0 / sign fill)
    <<                    shl (x * 2^s) then the wrap of the type
    / %                   Int.tdiv / Int.tmod (truncation toward zero); chkDiv panics on 0
    xs[i]                 idxI xs i : panic unless 0 <= i < len xs
    signed shift count    chkShift : panic when negative
    conversions T(x)      the wrap of T; omitted when the source range is inside T
  A definition of type R α (= Res Unit α) can return .panic (Go run-time panic) or .hang
  (fuel of a ` + "`for cond {}`" + ` loop exhausted); a definition of plain type is total.
  Parameters of sized types are assumed to be in the range of their type.
  Slices and arrays are List Int.  A function that assigns elements of a slice parameter returns
  the updated list after its Go results (setI: panic when out of range); such parameters are
  assumed not to alias another parameter.  x[a:b] is sliceI (strict: b <= len), a written
  sub-slice argument is spliced back (spliceI).  Loops with return/break yield Step/Exit values
  (forRangeRet, whileFuelRet).  A package table filled by an init function is the corresponding
  component of that function's translated result.  An "expression site" is one expression of a
  larger function with its free variables as parameters (types declared in the whitelist).
  binary.LittleEndian.Uint16/Uint32/PutUint16/PutUint32 and color.NRGBA are mapped explicitly.
`
