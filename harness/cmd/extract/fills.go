package main

// Fills.lean: the REFILL DISCIPLINE of the VP8L pixel loop.  For the body of the pixel loop of
// (*Decoder).decodeImageData (internal/lossless/decode_image.go) this generator enumerates the
// paths that differ in their bit-reader calls and prints, per path, the ordered sequence of
//
//	br.FillBitWindow()  br.PrefetchBits()  br.SetBitPos(..)  br.ReadBits(..)  br.IsEndOfStream()
//	ReadSymbol(htreeGroup.HTrees[int(HuffX)], ..)            -> "ReadSymbol(HuffX)"
//
// in evaluation order (arguments before the call; br.BitPos() is a pure getter and not listed).
// Calls of functions of the same file that are handed `br` (readPackedSymbols) are inlined.
//
// Path enumeration (purely syntactic):
//   - an `if` FORKS the path iff one of its branches contains a reader call, or its body ends in
//     `continue` (the successful early exits of the loop body); the decision is recorded as
//     "<cond>=T" / "<cond>=F" in the path name;
//   - every other `if` (error exits `if bits < 0 { return ErrBitstream }`, `if br.IsEndOfStream()
//     { break }`, bookkeeping) is passed as "not taken": only the calls of its condition count;
//   - loops, switches, selects, go/defer statements and function literals that contain reader
//     calls are refused (the generator fails), so a refill moved into one cannot go unnoticed;
//   - combinations of decisions listed in fillInfeasible (results of the inlined callee that
//     contradict each other) are dropped; the list is printed into the generated file.
//
// Theorem Webp.Props.C03Window.fills_match compares the result with the call sequences the Lean
// model of the loop body (Webp/Impl/VP8LWindow.lean, the object of the window-budget theorems)
// produces on a recording reader, so that moving, removing or adding a refill breaks an obligation.

import (
	"bytes"
	"fmt"
	"go/ast"
	"go/parser"
	"go/token"
	"path/filepath"
	"strings"
)

func init() {
	generators = append(generators, generator{file: "Fills.lean", run: genFills})
}

const fillsFile = "internal/lossless/decode_image.go"

var fillReaderMethods = map[string]bool{
	"FillBitWindow": true, "PrefetchBits": true, "SetBitPos": true, "ReadBits": true, "IsEndOfStream": true,
}

// decisions that cannot occur together (both are results of one inlined readPackedSymbols call)
var fillInfeasible = [][2]string{
	{"code.Bits < bitsSpecialMarker=T", "isLit=F"},
	{"code.Bits < bitsSpecialMarker=F", "isLit=T"},
}

type fillPath struct {
	conds []string
	calls []string
	done  bool // ended by continue / break / return
}

type fillCtx struct {
	fset    *token.FileSet
	funcs   map[string]*ast.FuncDecl
	methods map[string]*ast.FuncDecl // methods of *Decoder in the same file
	memo    map[string]bool
	depth   int
	err     error
	// code-reading regions: a loop with reader calls is one marker "<loop" (its body is a region
	// of its own, collected in loops), a call of a Decoder method that makes reader calls is one
	// marker "<name"
	allowLoops bool
	loops      []*ast.ForStmt
}

func (c *fillCtx) fail(format string, a ...any) {
	if c.err == nil {
		c.err = fmt.Errorf(format, a...)
	}
}

func isBr(c *fillCtx, e ast.Expr) bool {
	s := oneLine(c.fset, e)
	return s == "br" || s == "dec.br"
}

// readerCall classifies a call expression: (label, kind) with kind 0 = not a reader call,
// 1 = reader method / ReadSymbol, 2 = local function handed the reader (to be inlined)
func (c *fillCtx) readerCall(call *ast.CallExpr) (string, int) {
	switch f := call.Fun.(type) {
	case *ast.SelectorExpr:
		if fillReaderMethods[f.Sel.Name] && isBr(c, f.X) {
			return f.Sel.Name, 1
		}
		if id, ok := f.X.(*ast.Ident); ok && id.Name == "dec" && c.methods != nil {
			if md, ok := c.methods[f.Sel.Name]; ok && md.Body != nil && c.hasReader(md.Body, "m:"+f.Sel.Name) {
				return "<" + f.Sel.Name, 3
			}
		}
	case *ast.Ident:
		if f.Name == "ReadSymbol" && len(call.Args) >= 1 {
			label := oneLine(c.fset, call.Args[0])
			ast.Inspect(call.Args[0], func(n ast.Node) bool {
				if id, ok := n.(*ast.Ident); ok && strings.HasPrefix(id.Name, "Huff") {
					label = id.Name
					return false
				}
				return true
			})
			return "ReadSymbol(" + label + ")", 1
		}
		if fd, ok := c.funcs[f.Name]; ok && fd.Body != nil {
			for _, a := range call.Args {
				if isBr(c, a) && c.hasReader(fd.Body, f.Name) {
					return f.Name, 2
				}
			}
		}
	}
	return "", 0
}

func (c *fillCtx) hasReader(n ast.Node, memoKey string) bool {
	if n == nil {
		return false
	}
	if memoKey != "" {
		if v, ok := c.memo[memoKey]; ok {
			return v
		}
		c.memo[memoKey] = false // recursion guard
	}
	found := false
	ast.Inspect(n, func(x ast.Node) bool {
		if found {
			return false
		}
		if call, ok := x.(*ast.CallExpr); ok {
			if _, k := c.readerCall(call); k != 0 {
				found = true
			}
		}
		return !found
	})
	if memoKey != "" {
		c.memo[memoKey] = found
	}
	return found
}

func fillSeq(a, b []fillPath) []fillPath {
	var out []fillPath
	for _, pa := range a {
		if pa.done {
			out = append(out, pa)
			continue
		}
		for _, pb := range b {
			out = append(out, fillPath{
				conds: append(append([]string(nil), pa.conds...), pb.conds...),
				calls: append(append([]string(nil), pa.calls...), pb.calls...),
				done:  pb.done,
			})
		}
	}
	return out
}

var fillUnit = []fillPath{{}}

// exprPaths: the reader calls of evaluating e, in evaluation order
func (c *fillCtx) exprPaths(e ast.Node) []fillPath {
	if e == nil || !c.hasReader(e, "") {
		return fillUnit
	}
	switch t := e.(type) {
	case *ast.CallExpr:
		acc := fillUnit
		if sel, ok := t.Fun.(*ast.SelectorExpr); ok {
			acc = fillSeq(acc, c.exprPaths(sel.X))
		} else if _, ok := t.Fun.(*ast.Ident); !ok {
			acc = fillSeq(acc, c.exprPaths(t.Fun))
		}
		for _, a := range t.Args {
			acc = fillSeq(acc, c.exprPaths(a))
		}
		label, kind := c.readerCall(t)
		switch kind {
		case 1, 3:
			acc = fillSeq(acc, []fillPath{{calls: []string{label}}})
		case 2:
			if c.depth > 4 {
				c.fail("inlining too deep at %s", label)
				return acc
			}
			c.depth++
			inner := c.blockPaths(c.funcs[label].Body.List)
			c.depth--
			for i := range inner {
				inner[i].done = false // a return ends the callee only
			}
			acc = fillSeq(acc, inner)
		}
		return acc
	case *ast.BinaryExpr:
		if t.Op == token.LAND || t.Op == token.LOR {
			if c.hasReader(t.Y, "") {
				c.fail("reader call under short-circuit operator: %s", oneLine(c.fset, t))
			}
		}
		return fillSeq(c.exprPaths(t.X), c.exprPaths(t.Y))
	case *ast.UnaryExpr:
		return c.exprPaths(t.X)
	case *ast.ParenExpr:
		return c.exprPaths(t.X)
	case *ast.StarExpr:
		return c.exprPaths(t.X)
	case *ast.SelectorExpr:
		return c.exprPaths(t.X)
	case *ast.IndexExpr:
		return fillSeq(c.exprPaths(t.X), c.exprPaths(t.Index))
	case *ast.SliceExpr:
		acc := c.exprPaths(t.X)
		for _, x := range []ast.Expr{t.Low, t.High, t.Max} {
			if x != nil {
				acc = fillSeq(acc, c.exprPaths(x))
			}
		}
		return acc
	case *ast.TypeAssertExpr:
		return c.exprPaths(t.X)
	case *ast.KeyValueExpr:
		return fillSeq(c.exprPaths(t.Key), c.exprPaths(t.Value))
	case *ast.CompositeLit:
		acc := fillUnit
		for _, x := range t.Elts {
			acc = fillSeq(acc, c.exprPaths(x))
		}
		return acc
	default:
		c.fail("reader call inside unsupported expression %T: %s", e, oneLine(c.fset, e))
		return fillUnit
	}
}

func endsInContinue(b *ast.BlockStmt) bool {
	if b == nil || len(b.List) == 0 {
		return false
	}
	br, ok := b.List[len(b.List)-1].(*ast.BranchStmt)
	return ok && br.Tok == token.CONTINUE
}

func withCond(ps []fillPath, cond string) []fillPath {
	out := make([]fillPath, len(ps))
	for i, p := range ps {
		out[i] = fillPath{conds: append([]string{cond}, p.conds...), calls: p.calls, done: p.done}
	}
	return out
}

func (c *fillCtx) stmtPaths(s ast.Stmt) []fillPath {
	switch t := s.(type) {
	case *ast.BlockStmt:
		return c.blockPaths(t.List)
	case *ast.IfStmt:
		acc := fillUnit
		if t.Init != nil {
			acc = fillSeq(acc, c.stmtPaths(t.Init))
		}
		acc = fillSeq(acc, c.exprPaths(t.Cond))
		forks := c.hasReader(t.Body, "") || (t.Else != nil && c.hasReader(t.Else, "")) || endsInContinue(t.Body)
		if !forks {
			return acc
		}
		cond := oneLine(c.fset, t.Cond)
		branches := withCond(c.blockPaths(t.Body.List), cond+"=T")
		if t.Else != nil {
			branches = append(branches, withCond(c.stmtPaths(t.Else), cond+"=F")...)
		} else {
			branches = append(branches, fillPath{conds: []string{cond + "=F"}})
		}
		return fillSeq(acc, branches)
	case *ast.BranchStmt:
		if t.Tok == token.GOTO || t.Tok == token.FALLTHROUGH || t.Label != nil {
			c.fail("unsupported branch statement: %s", oneLine(c.fset, t))
		}
		return []fillPath{{done: true}}
	case *ast.ReturnStmt:
		acc := fillUnit
		for _, r := range t.Results {
			acc = fillSeq(acc, c.exprPaths(r))
		}
		return fillSeq(acc, []fillPath{{done: true}})
	case *ast.AssignStmt:
		acc := fillUnit
		for _, r := range t.Rhs {
			acc = fillSeq(acc, c.exprPaths(r))
		}
		for _, l := range t.Lhs {
			acc = fillSeq(acc, c.exprPaths(l))
		}
		return acc
	case *ast.ExprStmt:
		return c.exprPaths(t.X)
	case *ast.IncDecStmt:
		return c.exprPaths(t.X)
	case *ast.DeclStmt:
		if c.hasReader(t, "") {
			c.fail("reader call inside a declaration: %s", oneLine(c.fset, t))
		}
		return fillUnit
	case *ast.EmptyStmt:
		return fillUnit
	case *ast.SwitchStmt:
		if !c.hasReader(t, "") {
			return fillUnit
		}
		if t.Init != nil || t.Tag == nil || c.hasReader(t.Tag, "") {
			c.fail("reader call inside unsupported switch: %s", oneLine(c.fset, s))
			return fillUnit
		}
		tag := oneLine(c.fset, t.Tag)
		var branches []fillPath
		for _, cl := range t.Body.List {
			cc := cl.(*ast.CaseClause)
			var names []string
			for _, e := range cc.List {
				if c.hasReader(e, "") {
					c.fail("reader call inside a case expression: %s", oneLine(c.fset, e))
				}
				names = append(names, oneLine(c.fset, e))
			}
			name := "default"
			if len(names) > 0 {
				name = strings.Join(names, ",")
			}
			branches = append(branches, withCond(c.blockPaths(cc.Body), tag+"="+name)...)
		}
		return branches
	case *ast.ForStmt:
		if !c.hasReader(t, "") {
			return fillUnit
		}
		if !c.allowLoops || t.Init != nil && c.hasReader(t.Init, "") || t.Post != nil && c.hasReader(t.Post, "") {
			c.fail("reader call inside unsupported loop: %s", oneLine(c.fset, s))
			return fillUnit
		}
		c.loops = append(c.loops, t)
		return []fillPath{{calls: []string{"<loop"}}}
	default:
		// range / switch / select / go / defer / labeled ...
		if c.hasReader(s, "") {
			c.fail("reader call inside unsupported statement %T: %s", s, oneLine(c.fset, s))
		}
		return fillUnit
	}
}

func (c *fillCtx) blockPaths(stmts []ast.Stmt) []fillPath {
	acc := fillUnit
	for _, s := range stmts {
		acc = fillSeq(acc, c.stmtPaths(s))
	}
	return acc
}

func fillFeasible(p fillPath) bool {
	has := func(s string) bool {
		for _, c := range p.conds {
			if c == s {
				return true
			}
		}
		return false
	}
	for _, pair := range fillInfeasible {
		if has(pair[0]) && has(pair[1]) {
			return false
		}
	}
	return true
}

func leanStrList(xs []string) string {
	q := make([]string, len(xs))
	for i, x := range xs {
		q[i] = fmt.Sprintf("%q", x)
	}
	return "[" + strings.Join(q, ", ") + "]"
}

func genFills(repo string) ([]byte, error) {
	fset := token.NewFileSet()
	f, err := parser.ParseFile(fset, filepath.Join(repo, fillsFile), nil, 0)
	if err != nil {
		return nil, err
	}
	c := &fillCtx{fset: fset, funcs: map[string]*ast.FuncDecl{}, methods: map[string]*ast.FuncDecl{}, memo: map[string]bool{}}
	var target *ast.FuncDecl
	for _, d := range f.Decls {
		fd, ok := d.(*ast.FuncDecl)
		if !ok {
			continue
		}
		if fd.Recv == nil {
			c.funcs[fd.Name.Name] = fd
		} else {
			c.methods[fd.Name.Name] = fd
			if fd.Name.Name == "decodeImageData" {
				target = fd
			}
		}
	}
	var b bytes.Buffer
	b.WriteString("/- GENERATED by /verif/harness/cmd/extract (fills.go) from the Go sources — do not edit. -/\nnamespace Generated.Fills\n\n")
	if target == nil || target.Body == nil {
		return nil, fmt.Errorf("decodeImageData not found in %s", fillsFile)
	}
	// the pixel loop: the only top-level `for` of the function that makes reader calls
	var loop *ast.ForStmt
	for _, s := range target.Body.List {
		if fs, ok := s.(*ast.ForStmt); ok && c.hasReader(fs.Body, "") {
			if loop != nil {
				return nil, fmt.Errorf("decodeImageData: more than one loop with reader calls")
			}
			loop = fs
		} else if !ok && c.hasReader(s, "") {
			// `if br.IsEndOfStream() && pos < srcEnd` after the loop is the only one expected
			if is, ok := s.(*ast.IfStmt); !ok || c.hasReader(is.Body, "") {
				return nil, fmt.Errorf("decodeImageData: reader call outside the pixel loop: %s", oneLine(fset, s))
			}
		}
	}
	if loop == nil {
		return nil, fmt.Errorf("decodeImageData: pixel loop not found")
	}
	if loop.Init != nil || loop.Post != nil || c.hasReader(loop.Cond, "") {
		return nil, fmt.Errorf("decodeImageData: unexpected loop header %s", condStr(fset, loop))
	}
	paths := c.blockPaths(loop.Body.List)
	if c.err != nil {
		return nil, c.err
	}
	fills := 0
	ast.Inspect(target.Body, func(n ast.Node) bool {
		if call, ok := n.(*ast.CallExpr); ok {
			if l, k := c.readerCall(call); k == 1 && l == "FillBitWindow" {
				fills++
			}
		}
		return true
	})
	fmt.Fprintf(&b, "/-- decodeImageData (%s), body of `for %s`: per path the ordered bit-reader calls.\n", fillsFile, condStr(fset, loop))
	b.WriteString("    Dropped as infeasible:")
	for _, p := range fillInfeasible {
		fmt.Fprintf(&b, " {%s, %s}", p[0], p[1])
	}
	b.WriteString(" -/\ndef decodeImageData : List (String × List String) := [\n")
	var lines []string
	for _, p := range paths {
		if !fillFeasible(p) {
			continue
		}
		lines = append(lines, fmt.Sprintf("  (%q,\n    %s)", strings.Join(p.conds, " "), leanStrList(p.calls)))
	}
	b.WriteString(strings.Join(lines, ",\n"))
	b.WriteString("\n]\n\n")
	fmt.Fprintf(&b, "/-- number of `br.FillBitWindow()` call sites in decodeImageData -/\ndef fillCalls : Nat := %d\n\n", fills)
	// ---- prefix-code reading: readHuffmanCode, readHuffmanCodeLengths (and the bodies of their loops)
	writeShape := func(name, doc string, paths []fillPath) {
		fmt.Fprintf(&b, "/-- %s -/\ndef %s : List (String × List String) := [\n", doc, name)
		var ls []string
		for _, p := range paths {
			ls = append(ls, fmt.Sprintf("  (%q,\n    %s)", strings.Join(p.conds, " "), leanStrList(p.calls)))
		}
		b.WriteString(strings.Join(ls, ",\n"))
		b.WriteString("\n]\n\n")
	}
	for _, fn := range []string{"readHuffmanCode", "readHuffmanCodeLengths"} {
		md := c.methods[fn]
		if md == nil || md.Body == nil {
			return nil, fmt.Errorf("%s not found in %s", fn, fillsFile)
		}
		c.allowLoops, c.loops = true, nil
		paths := c.blockPaths(md.Body.List)
		loops := c.loops
		c.allowLoops = false
		if c.err != nil {
			return nil, c.err
		}
		if len(loops) != 1 {
			return nil, fmt.Errorf("%s: expected exactly one loop with reader calls, found %d", fn, len(loops))
		}
		writeShape(fn, fmt.Sprintf("%s (%s): per path the ordered bit-reader calls; `<loop` = the loop `for %s` (its body: %sLoop), `<m` = a call of the Decoder method m",
			fn, fillsFile, condStr(fset, loops[0]), fn), paths)
		c.loops = nil
		body := c.blockPaths(loops[0].Body.List) // nested loops with reader calls are refused (allowLoops is off)
		if c.err != nil {
			return nil, c.err
		}
		writeShape(fn+"Loop", fmt.Sprintf("%s: the body of `for %s`", fn, condStr(fset, loops[0])), body)
	}
	// ---- the level-0 sequence: decodeHeader, decodeImageStream (+ its transform loop), readTransform
	for _, extra := range []string{"internal/lossless/decode.go", "internal/lossless/decode_transform.go"} {
		ef, err := parser.ParseFile(fset, filepath.Join(repo, extra), nil, 0)
		if err != nil {
			return nil, err
		}
		for _, d := range ef.Decls {
			if fd, ok := d.(*ast.FuncDecl); ok && fd.Recv != nil {
				c.methods[fd.Name.Name] = fd
			}
		}
	}
	c.memo = map[string]bool{}
	for _, fn := range []string{"decodeHeader", "decodeImageStream", "readTransform"} {
		md := c.methods[fn]
		if md == nil || md.Body == nil {
			return nil, fmt.Errorf("%s not found", fn)
		}
		c.allowLoops, c.loops = true, nil
		paths := c.blockPaths(md.Body.List)
		loops := c.loops
		c.allowLoops = false
		if c.err != nil {
			return nil, c.err
		}
		writeShape(fn, fmt.Sprintf("%s: per path the ordered bit-reader calls; `<loop` = a loop with reader calls (its condition and body: %sLoop), `<m` = a call of the Decoder method m", fn, fn), paths)
		if len(loops) > 1 {
			return nil, fmt.Errorf("%s: more than one loop with reader calls", fn)
		}
		if len(loops) == 1 {
			c.loops = nil
			cond := fillUnit
			if loops[0].Cond != nil {
				cond = c.exprPaths(loops[0].Cond)
			}
			body := fillSeq(cond, c.blockPaths(loops[0].Body.List))
			if c.err != nil {
				return nil, c.err
			}
			writeShape(fn+"Loop", fmt.Sprintf("%s: condition and body of `for %s`", fn, condStr(fset, loops[0])), body)
		}
	}
	b.WriteString("end Generated.Fills\n")
	return b.Bytes(), nil
}
