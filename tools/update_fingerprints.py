#!/usr/bin/env python3
"""Rewrite the recorded fingerprints in lean/Webp/Impl/Transcribed.lean from the CURRENT
lean/Generated/Fingerprints.lean, and print which entries changed.

This is a MAINTENANCE tool.  ./check never runs it.  Run it deliberately, after an intended change of
a transcribed Go function and AFTER the model has been re-validated against the new source text
(read the diff, adapt the model, run the property's suites): it makes the theorems
`model_current_Cxx` hold again by declaring "the models are current for the text that is in /repo
now".  Running it blindly defeats the guard.

    tools/update_fingerprints.py                 rewrite all stale entries (regenerates the table first)
    tools/update_fingerprints.py -n              dry run: only print what would change
    tools/update_fingerprints.py --only REGEX    restrict to keys matching REGEX (re.search)
    tools/update_fingerprints.py --no-extract    use Generated/Fingerprints.lean as it is on disk
    tools/update_fingerprints.py --repo DIR --lean DIR --harness DIR   other locations

An entry of Transcribed.lean has the form   fp! "pkg.Recv.Name" 0x<16 hex digits>   (0 = missing).

Closure.  The extractor also fingerprints every same-package function a listed function reaches
through the static call graph and every package-level constant / variable used on the way
(`Generated.Fingerprints.deps` holds the direct edges).  For every hand-written list
`def X_roots : List Entry` the tool owns the block

    -- BEGIN deps X ...
    def X_deps : List Entry := [ dep.«key», ... ]
    -- END deps X

and rewrites it to "everything the entries of X_roots reach, minus X_roots itself".  The recorded hash
of a closure member lives once, in the tool-owned block `-- BEGIN closure entries` (namespace `dep`:
`def «key» : Entry := fp! "key" 0x…`): entries that were already there keep their recorded hash
(and are updated like any other entry when stale), new members get the current hash (printed as
`added`), members no longer reached by any list are dropped (printed as `removed`).  The call graph
can only change when the text of a listed or reached function changes, i.e. when some entry is stale,
so between two runs of this tool the blocks are complete.
A function that no longer exists has the current fingerprint "missing"; the tool does not record
that unless --allow-missing is given: delete the entry (and its line in
harness/cmd/extract/fingerprints_list.go) by hand after removing it from the model.
Exit status: 0 nothing stale (or everything updated), 1 dry run found stale entries, 2 error.
"""
import argparse
import os
import re
import subprocess
import sys

ROOT = os.path.dirname(os.path.dirname(os.path.abspath(__file__)))

ENTRY = re.compile(r'(fp!\s+")([^"]+)("\s+)(0x[0-9a-fA-F]+|0)\b')
TABLE = re.compile(r'^\s*\("([^"]+)",\s*"([^"]*)"\),?\s*$', re.M)
ROOTS = re.compile(r'^def (\w+)_roots : List Entry := \[(.*?)\]$', re.S | re.M)
BLOCK = '-- BEGIN deps %s'


def current_table(gen_path):
    text = open(gen_path, encoding="utf-8").read()
    m = re.search(r"def table : List \(String × String\) := \[(.*?)\n\]", text, re.S)
    if not m:
        sys.exit("update_fingerprints: cannot find `def table` in %s" % gen_path)
    table = dict(TABLE.findall(m.group(1)))
    edges = {}
    m = re.search(r"def deps : List \(String × String\) := \[(.*?)\n\]", text, re.S)
    if m:
        edges = {k: v.split() for k, v in TABLE.findall(m.group(1))}
    return table, edges


def reach(roots, edges):
    """keys reachable from `roots` through `edges`, without the roots themselves"""
    seen, todo = set(roots), list(roots)
    while todo:
        for r in edges.get(todo.pop(), ()):
            if r not in seen:
                seen.add(r)
                todo.append(r)
    return sorted(seen - set(roots))


def lit(h):
    return "0" if h == "missing" else "0x" + h


def main():
    ap = argparse.ArgumentParser(description=__doc__, formatter_class=argparse.RawDescriptionHelpFormatter)
    ap.add_argument("-n", "--dry-run", action="store_true")
    ap.add_argument("--only", default=None, help="regular expression on the key")
    ap.add_argument("--no-extract", action="store_true", help="do not re-run the extractor first")
    ap.add_argument("--allow-missing", action="store_true", help="also record 'missing' (0) for vanished functions")
    ap.add_argument("--repo", default=os.environ.get("VERIF_REPO", "/repo"))
    ap.add_argument("--lean", default=os.path.join(ROOT, "lean"))
    ap.add_argument("--harness", default=os.path.join(ROOT, "harness"))
    a = ap.parse_args()

    gen = os.path.join(a.lean, "Generated", "Fingerprints.lean")
    tr = os.path.join(a.lean, "Webp", "Impl", "Transcribed.lean")

    if not a.no_extract:
        env = dict(os.environ, GOFLAGS="-mod=mod", GOPROXY="off")
        ex = os.path.join(a.harness, "bin", "extract")
        r = subprocess.run(["go", "build", "-o", ex, "./cmd/extract"], cwd=a.harness, env=env,
                           stdout=subprocess.PIPE, stderr=subprocess.STDOUT, text=True)
        if r.returncode != 0:
            sys.stderr.write(r.stdout)
            sys.exit(2)
        r = subprocess.run([ex, "-repo", a.repo, "-out", os.path.join(a.lean, "Generated"), "-only", "Fingerprints.lean"],
                           stdout=subprocess.PIPE, stderr=subprocess.STDOUT, text=True)
        sys.stdout.write(r.stdout)
        if r.returncode != 0:
            sys.exit(2)

    cur, edges = current_table(gen)
    src = open(tr, encoding="utf-8").read()
    only = re.compile(a.only) if a.only else None

    changed, unknown, missing, used = [], [], [], set()
    blk_b, blk_e = src.find("-- BEGIN closure entries"), src.find("-- END closure entries\n")

    def repl(m):
        key, old = m.group(2), m.group(4).lower()
        used.add(key)
        if only and not only.search(key):
            return m.group(0)
        if key not in cur:
            # inside the tool-owned closure block a vanished key is simply dropped further down
            if not (blk_b <= m.start() < blk_e) and key not in unknown:
                unknown.append(key)
            return m.group(0)
        new = lit(cur[key])
        if int(new, 16) == int(old, 16):
            return m.group(0)
        if cur[key] == "missing" and not a.allow_missing:
            if key not in missing:
                missing.append(key)
            return m.group(0)
        if (key, old, new) not in changed:
            changed.append((key, old, new))
        return m.group(1) + key + m.group(3) + new

    out = ENTRY.sub(repl, src)

    # tool-owned parts: the `dep` namespace (one recorded entry per closure member) and the
    # `X_deps` lists (membership = closure of X_roots, as references into `dep`)
    added, removed, relisted = [], [], 0
    gb = out.find("-- BEGIN closure entries")
    ge = out.find("-- END closure entries\n")
    if gb < 0 or ge < 0:
        sys.exit("update_fingerprints: Transcribed.lean has no `-- BEGIN closure entries` / `-- END closure entries` block")
    ghead_end = out.index("\n", gb) + 1
    old = {x[1]: x[3] for x in ENTRY.findall(out[ghead_end:ge])}
    lists, union = [], set()
    for m in ROOTS.finditer(out):
        roots = [e[1] for e in ENTRY.findall(m.group(2))]
        want = [k for k in reach(roots, edges) if k in cur]
        lists.append((m.group(1), want))
        union.update(want)
    lines = []
    for k in sorted(union):
        if k in old:
            lines.append('def «%s» : Entry := fp! "%s" %s' % (k, k, old[k]))
        else:
            lines.append('def «%s» : Entry := fp! "%s" %s' % (k, k, lit(cur[k])))
            added.append(k)
        used.add(k)
    removed = sorted(k for k in old if k not in union)
    out = out[:ghead_end] + "namespace dep\n" + "\n".join(lines) + ("\n" if lines else "") + "end dep\n" + out[ge:]
    for name, want in lists:
        b = out.find(BLOCK % name + " ")
        e = out.find("-- END deps %s\n" % name)
        if b < 0 or e < 0:
            print("warning: list %s_roots has no `-- BEGIN deps %s` / `-- END deps %s` block" % (name, name, name))
            continue
        head_end = out.index("\n", b) + 1
        body = "def %s_deps : List Entry := [%s]\n" % (
            name, ("\n" + ",\n".join("  dep.«%s»" % k for k in want) + "\n") if want else "")
        if out[head_end:e] != body:
            relisted += 1
        out = out[:head_end] + body + out[e:]

    for key, old, new in changed:
        print("%s %-60s %s -> %s" % ("would update" if a.dry_run else "updated", key, old, new))
    verb = "would add" if a.dry_run else "added"
    for key in added:
        print("%s     %-60s (closure member, recorded as %s)" % (verb, key, lit(cur[key])))
    verb = "would remove" if a.dry_run else "removed"
    for key in removed:
        print("%s   %-60s (no longer reached from any list)" % (verb, key))
    if relisted:
        print("%d `_deps` list(s) %s" % (relisted, "would be rewritten" if a.dry_run else "rewritten"))
    for key in missing:
        print("MISSING      %-60s no longer exists in %s: remove it from the model, from Transcribed.lean and from "
              "harness/cmd/extract/fingerprints_list.go (or pass --allow-missing)" % (key, a.repo))
    for key in unknown:
        print("UNKNOWN      %-60s not in Generated/Fingerprints.lean: add it to harness/cmd/extract/fingerprints_list.go" % key)
    unused = sorted(k for k in cur if k not in used and not k.startswith(("asm:", "asmfiles:")))
    for key in unused:
        print("note: %s is fingerprinted but no list of Transcribed.lean uses it" % key)
    print("%d entr%s %s, %d closure member(s) added, %d removed, %d missing, %d unknown "
          "(%d distinct keys in Transcribed.lean, %d fingerprinted)" % (
              len(changed), "y" if len(changed) == 1 else "ies", "stale" if a.dry_run else "updated",
              len(added), len(removed), len(missing), len(unknown), len(used), len(cur)))

    if unknown:
        return 2
    if a.dry_run:
        return 1 if (changed or missing or added or removed or relisted) else 0
    if out != src:
        tmp = tr + ".tmp"
        with open(tmp, "w", encoding="utf-8") as f:
            f.write(out)
        os.replace(tmp, tr)
    return 2 if missing else 0


if __name__ == "__main__":
    sys.exit(main())
