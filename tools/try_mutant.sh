#!/bin/bash
# usage: tools/try_mutant.sh <patch.diff> <Cxx> [<Cyy> ...]
# Runs the quick checks of the given properties against a scratch worktree of /repo with the patch
# applied, using a scratch copy of /verif (so that /repo itself and concurrent builds are untouched).
set -u
PATCH=$(readlink -f "$1"); shift
ID=$$
R=/tmp/mv_repo_$ID; V=/tmp/mv_verif_$ID
git -C /repo worktree add --detach $R HEAD >/dev/null 2>&1 || { echo "worktree failed"; exit 2; }
( cd $R && git apply "$PATCH" ) || { echo "patch does not apply"; git -C /repo worktree remove --force $R; exit 2; }
# uncommitted verif hook files of /repo's working tree (other workers' in-progress `//go:build verif` files):
# without them a suite that already calls the hook does not build against the scratch worktree
( cd /repo && { git ls-files --others --exclude-standard -z; git ls-files -m -z; } | while IFS= read -r -d '' f; do
    # untracked hook files are added; MODIFIED tracked hook files (a worker extending a hook) replace the HEAD version
    case "$f" in *.go) [ -f "$f" ] && head -5 "$f" | grep -q '^//go:build verif' && { mkdir -p "$R/$(dirname "$f")"; cp "$f" "$R/$f"; } ;; esac
  done )
rsync -a --exclude .git --exclude replays --exclude work /verif/ $V/
sed -i "s|=> /repo|=> $R|" $V/harness/go.mod
rc=0
for P in "$@"; do
  ( cd $V && VERIF_REPO=$R ./check $P quick > $V/out_$P.txt 2>&1; echo $? > $V/rc_$P.txt )
  grep -E "VIOLATION|quick:|thorough:|error" $V/out_$P.txt | cut -c1-300 | sed "s|$V|/verif|g" | tail -40
  r=$(cat $V/rc_$P.txt); [ "$r" = "1" ] && [ $rc -ne 2 ] && rc=1; [ "$r" != "0" ] && [ "$r" != "1" ] && rc=2
done
if [ -n "${KEEP_REPLAYS:-}" ]; then mkdir -p /tmp/mv_replays_$ID && cp -r $V/replays/* /tmp/mv_replays_$ID/ 2>/dev/null; echo "replays: /tmp/mv_replays_$ID"; fi
# KEEP_EVIDENCE=1: keep the scratch copy's evidence/*.json and the full ./check output next to the replays
if [ -n "${KEEP_EVIDENCE:-}" ]; then
  mkdir -p /tmp/mv_replays_$ID/evidence
  for P in "$@"; do cp $V/evidence/$P.json /tmp/mv_replays_$ID/evidence/ 2>/dev/null; sed "s|$V|/verif|g" $V/out_$P.txt > /tmp/mv_replays_$ID/evidence/check_output_$P.txt 2>/dev/null; done
  echo "evidence: /tmp/mv_replays_$ID/evidence"
fi
git -C /repo worktree remove --force $R
rm -rf $V
exit $rc
