#!/usr/bin/env python3
"""Regenerates /verif/MANIFEST.json from registry.json (claims) and properties.jsonl."""
import json, subprocess, os
ROOT = os.path.dirname(os.path.dirname(os.path.abspath(__file__)))
props = [json.loads(l) for l in open(os.path.join(ROOT, "properties.jsonl"))]
reg = json.load(open(os.path.join(ROOT, "registry.json")))
hooks = subprocess.run(["git", "-C", "/repo", "log", "--format=%H", "--grep=^verif hook"], stdout=subprocess.PIPE, text=True).stdout.split()
checks = []
for pid in sorted(reg):
    R = reg[pid]
    if not R.get("claimed", True):
        continue
    checks.append({
        "property_id": pid,
        "quick_cmd": "./check %s quick" % pid,
        "thorough_cmd": "./check %s thorough" % pid,
        "evidence_file": "evidence/%s.json" % pid,
        "replay_cmd_template": "./check %s --replay {path}" % pid,
        "engine": "lean+vcheck",
        "level_claimed": {"category": R.get("level", "proof"), "text": R["claim"], "design_ref": "DESIGN.md §" + R.get("design_ref", "4")},
        "level_note": "Trusted: Lean 4.33 kernel (axioms propext, Classical.choice, Quot.sound; bv_decide certificates only where listed in the evidence), the hand-written models' faithfulness as far as the correspondence suites exercise it, the Lean compiler for the driver. " + "; ".join(R.get("assumptions", [])),
        "technique": R.get("technique", "Lean 4 theorems over a model + model/implementation correspondence"),
    })
claimed = {c["property_id"] for c in checks}
na = []
for p in props:
    if p["id"] in claimed:
        continue
    why = reg.get(p["id"], {}).get("not_claimed_reason", "machinery for this property is not built yet in this round; not claimed until its theorems, tie and search exist")
    na.append({"property_id": p["id"], "reason": why})
m = {
    "version": 1,
    "setup_cmd": "./check --setup",
    "hooks": {
        "guard": "verif",
        "enable": "go build -tags verif (harness module: replace github.com/deepteams/webp => /repo)",
        "baseline_off_cmd": "cd /repo && go test -mod=mod -json -vet=off -count=1 -timeout 25m ./...",
        "source_commits": hooks,
        "add_only": True,
    },
    "engines": [{"name": "lean+vcheck", "path": "/verif/check", "serves_properties": sorted(claimed),
                 "kind_free_text": "Lean 4 theorems over hand-written models (lake build + #print axioms audit + leanchecker in thorough) tied to /repo by a Go harness (-tags verif) that drives the compiled Lean model through a line protocol and diffs canonical outputs; go/ast extractor regenerates Generated/*.lean"}],
    "checks": checks,
    "not_applicable": na,
    "notes": "See DESIGN.md. Every check rebuilds the harness from /repo's working tree with -tags verif; known_findings.json lists fixed/known defects.",
}
json.dump(m, open(os.path.join(ROOT, "MANIFEST.json"), "w"), indent=1)
print("claimed:", sorted(claimed))
